(* GenNames.v — the NAME STRUCTURE of the functions the library generates (C15).

   A statement/expression skeleton that keeps exactly what scoping needs: which
   identifiers are loaded, which are bound (assignment, walrus, for, except-as,
   augmented assignment), which strings are spliced as literals (`EStr`, always
   through repr — see GenPyLit) and which attribute names occur (`EAttr`; user
   field names occur as `o.<field>` / `self.<field>`).  All other syntax (calls,
   subscripts, operators, displays) is the neutral node `EApp`.

   Generators, transcribed from the pinned sources as functions of the class SHAPE:
     v0_load_fn   loaders.py:load_func_for_dataclass      -> cls_fromdict
     v0_dump_fn   dumpers.py / environ/dumpers.py         -> cls_asdict
     env_init_fn, env_dict_fn   environ/wizard.py         -> __init__, dict
     v1_load_fn   v1/loaders.py:load_func_for_dataclass   -> __dataclass_wizard_from_dict_<cls>__
   each with its closure parameter list (the keyword arguments of `__create_<name>_fn__`) and the
   globals dict it is exec'ed in.  No proofs in this file. *)
From DW Require Export PyStr GenPyLit.

(* ---- decimal rendering of an index ({i} in an f-string) -------------------- *)
(* little-endian increment on decimal digit characters *)
Fixpoint dec_incr (l : pstr) : pstr :=
  match l with
  | [] => [ch 49]
  | c :: r => if (code c =? 57)%N then ch 48 :: dec_incr r else ch (code c + 1) :: r
  end.
Fixpoint dec_le (n : nat) : pstr :=
  match n with O => [ch 48] | Datatypes.S k => dec_incr (dec_le k) end.
Definition show_nat (n : nat) : pstr := rev (dec_le n).
Definition idx_name (prefix : pstr) (i : nat) : pstr := prefix ++ show_nat i.

(* ---- skeleton --------------------------------------------------------------- *)
Inductive expr :=
| ENil                                       (* constant / keyword / nothing *)
| EName (n : pstr)                           (* identifier, load context *)
| EStr (s : pstr)                            (* string literal (repr splice) *)
| EAttr (e : expr) (a : pstr)                (* e.a *)
| EApp (a b : expr)                          (* any compound node *)
| EWalrus (n : pstr) (e : expr)              (* (n := e) *)
| EComp (vs : list pstr) (it elt : expr).    (* comprehension: vs local to elt *)

Fixpoint eapps (l : list expr) : expr :=
  match l with [] => ENil | e :: r => EApp e (eapps r) end.

Inductive stmt :=
| SSkip
| SSeq (a b : stmt)
| SExpr (e : expr)
| SAssign (binds : list pstr) (target_loads : expr) (e : expr)
| SAug (n : pstr) (e : expr)
| SIf (c : expr) (th el : stmt)
| SFor (vs : list pstr) (it : expr) (body : stmt)
| STry (body handlers orelse : stmt)
| SHandler (exc : expr) (name : option pstr) (body : stmt)
| SReturn (e : expr)
| SRaise (e : expr).

Fixpoint sseq (l : list stmt) : stmt :=
  match l with [] => SSkip | s :: r => SSeq s (sseq r) end.

Definition not_in (l : list pstr) (n : pstr) : bool := negb (mem_str n l).

Fixpoint e_loads (e : expr) : list pstr :=
  match e with
  | ENil | EStr _ => []
  | EName n => [n]
  | EAttr e _ => e_loads e
  | EApp a b => e_loads a ++ e_loads b
  | EWalrus _ e => e_loads e
  | EComp vs it elt => e_loads it ++ filter (not_in vs) (e_loads elt)
  end.

(* names bound in the ENCLOSING FUNCTION by an expression: walrus targets
   (also from inside comprehensions, PEP 572) *)
Fixpoint e_binds (e : expr) : list pstr :=
  match e with
  | ENil | EStr _ | EName _ => []
  | EAttr e _ => e_binds e
  | EApp a b => e_binds a ++ e_binds b
  | EWalrus n e => n :: e_binds e
  | EComp _ it elt => e_binds it ++ e_binds elt
  end.

Fixpoint e_strs (e : expr) : list pstr :=
  match e with
  | ENil | EName _ => []
  | EStr s => [s]
  | EAttr e _ => e_strs e
  | EApp a b => e_strs a ++ e_strs b
  | EWalrus _ e => e_strs e
  | EComp _ it elt => e_strs it ++ e_strs elt
  end.

Fixpoint e_attrs (e : expr) : list pstr :=
  match e with
  | ENil | EName _ | EStr _ => []
  | EAttr e a => a :: e_attrs e
  | EApp a b => e_attrs a ++ e_attrs b
  | EWalrus _ e => e_attrs e
  | EComp _ it elt => e_attrs it ++ e_attrs elt
  end.

Definition opt_list (o : option pstr) : list pstr := match o with Some n => [n] | None => [] end.

Fixpoint s_loads (s : stmt) : list pstr :=
  match s with
  | SSkip => []
  | SSeq a b => s_loads a ++ s_loads b
  | SExpr e | SReturn e | SRaise e => e_loads e
  | SAssign _ t e => e_loads t ++ e_loads e
  | SAug n e => n :: e_loads e
  | SIf c th el => e_loads c ++ s_loads th ++ s_loads el
  | SFor _ it b => e_loads it ++ s_loads b
  | STry b h o => s_loads b ++ s_loads h ++ s_loads o
  | SHandler x _ b => e_loads x ++ s_loads b
  end.

Fixpoint s_binds (s : stmt) : list pstr :=
  match s with
  | SSkip => []
  | SSeq a b => s_binds a ++ s_binds b
  | SExpr e | SReturn e | SRaise e => e_binds e
  | SAssign bs t e => bs ++ e_binds t ++ e_binds e
  | SAug n e => n :: e_binds e
  | SIf c th el => e_binds c ++ s_binds th ++ s_binds el
  | SFor vs it b => vs ++ e_binds it ++ s_binds b
  | STry b h o => s_binds b ++ s_binds h ++ s_binds o
  | SHandler x n b => opt_list n ++ e_binds x ++ s_binds b
  end.

Fixpoint s_strs (s : stmt) : list pstr :=
  match s with
  | SSkip => []
  | SSeq a b => s_strs a ++ s_strs b
  | SExpr e | SReturn e | SRaise e => e_strs e
  | SAssign _ t e => e_strs t ++ e_strs e
  | SAug _ e => e_strs e
  | SIf c th el => e_strs c ++ s_strs th ++ s_strs el
  | SFor _ it b => e_strs it ++ s_strs b
  | STry b h o => s_strs b ++ s_strs h ++ s_strs o
  | SHandler x _ b => e_strs x ++ s_strs b
  end.

Fixpoint s_attrs (s : stmt) : list pstr :=
  match s with
  | SSkip => []
  | SSeq a b => s_attrs a ++ s_attrs b
  | SExpr e | SReturn e | SRaise e => e_attrs e
  | SAssign _ t e => e_attrs t ++ e_attrs e
  | SAug _ e => e_attrs e
  | SIf c th el => e_attrs c ++ s_attrs th ++ s_attrs el
  | SFor _ it b => e_attrs it ++ s_attrs b
  | STry b h o => s_attrs b ++ s_attrs h ++ s_attrs o
  | SHandler x _ b => e_attrs x ++ s_attrs b
  end.

(* A generated function.  `fn_header`: default values and annotations of the
   `def` line, evaluated in the scope of the `__create_..._fn__` wrapper. *)
Record fn := {
  fn_name : pstr;
  fn_params : list pstr;
  fn_header : expr;
  fn_body : stmt;
  fn_closure : list pstr;        (* parameters of __create_<name>_fn__ *)
  fn_globals : list pstr;        (* keys of the dict the text is exec'ed in *)
}.

Definition fn_locals (f : fn) : list pstr := fn_params f ++ s_binds (fn_body f).

(* Python's rule: a name bound anywhere in the function is local everywhere in it;
   every other loaded name is free (closure cell, global or builtin). *)
Definition free_names (f : fn) : list pstr :=
  filter (not_in (fn_locals f)) (s_loads (fn_body f)).

(* builtins the generators rely on (the harness checks each is in dir(builtins)) *)
Definition py_builtins : list pstr :=
  map S ["dict"; "isinstance"; "TypeError"; "KeyError"; "Exception"; "UnboundLocalError";
         "len"; "set"; "locals"; "int"; "float"; "str"; "bool"; "list"; "type"]%string.

(* `batch`: names of the functions created by the same create_functions call (they
   are inserted into the globals dict right after exec). *)
Definition allowed (batch : list pstr) (f : fn) : list pstr :=
  fn_closure f ++ fn_globals f ++ batch ++ py_builtins.

Definition closedb (batch : list pstr) (f : fn) : bool :=
  forallb (fun n => mem_str n (allowed batch f)) (free_names f)
  && forallb (fun n => mem_str n (allowed batch f)) (e_loads (fn_header f)).

Definition N_ (s : string) : expr := EName (S s).
Definition call (f : expr) (args : list expr) : expr := EApp f (eapps args).
Definition strs (l : list pstr) : expr := eapps (map EStr l).
Definition when {A} (b : bool) (l : list A) : list A := if b then l else [].
Definition is_some {A} (o : option A) : bool := match o with Some _ => true | None => false end.

(* ======================================================================== *)
(* default engine, load: cls_fromdict(o)                                      *)
(* ======================================================================== *)
Record v0l_field := {          (* one entry of dataclass_field_to_json_path *)
  lf_name : pstr;
  lf_path : list pstr;
  lf_has_default : bool;
}.
Record v0l_shape := {
  l_paths : list v0l_field;            (* fields declared with a key path *)
  l_loop : bool;                       (* some init field has no path *)
  l_pre : bool;                        (* class defines _pre_from_dict *)
  l_catch_all : option (pstr * bool);  (* catch-all field, has a default *)
  l_tag_key : option pstr;             (* meta.tag assigned: the tag key *)
  l_raise_unknown : bool;              (* raise_on_unknown_json_key *)
}.

Definition v0l_default_name (f : v0l_field) : pstr := S "_default_" ++ lf_name f.

Definition v0l_path_stmt (f : v0l_field) : stmt :=
  SSeq (SAssign [S "field"] ENil (EStr (lf_name f)))
       (SAssign [] (eapps [N_ "init_kwargs"; N_ "field"])
                (eapps ([N_ "field_to_parser"; N_ "field"; N_ "safe_get"; N_ "o"; strs (lf_path f)]
                        ++ when (lf_has_default f) [EName (v0l_default_name f)]))).

Definition msg_unknown_v0 : pstr :=
  S "JSON field %r missing from dataclass schema, class=%r, parsed field=%r".

Definition v0l_parse_handler (with_fields : bool) : stmt :=
  SHandler (N_ "ParseError") (Some (S "e"))
    (SSeq (SAssign []
             (eapps ([EAttr (N_ "e") (S "class_name"); EAttr (N_ "e") (S "field_name");
                      EAttr (N_ "e") (S "json_object")]
                     ++ when with_fields [EAttr (N_ "e") (S "fields")]))
             (eapps ([N_ "cls"; N_ "field"; N_ "o"] ++ when with_fields [N_ "cls_fields"])))
          (SRaise ENil)).

Definition v0l_loop (sh : v0l_shape) : stmt :=
  let catch_line := SAssign [] (eapps [N_ "catch_all"; N_ "json_key"]) (eapps [N_ "o"; N_ "json_key"]) in
  let unknown :=
    sseq ([ if l_raise_unknown sh
            then SAssign [S "field"] ENil (N_ "ExplicitNull")
            else SAssign [S "field"] (eapps [N_ "json_to_field"; N_ "json_key"]) (N_ "ExplicitNull");
            SExpr (call (EAttr (N_ "LOG") (S "warning"))
                        [EStr msg_unknown_v0; N_ "json_key"; N_ "cls"; N_ "py_field"]) ]
          ++ when (l_raise_unknown sh)
               [SRaise (call (N_ "UnknownKeysError") [N_ "json_key"; N_ "o"; N_ "cls"; N_ "cls_fields"])]) in
  let lookup :=
    STry (SAssign [S "field"] ENil (eapps [N_ "json_to_field"; N_ "json_key"]))
         (SHandler (N_ "KeyError") None
            (SIf (eapps [N_ "json_key"; N_ "field_to_parser"])
                 (SAssign [S "field"] (eapps [N_ "json_to_field"; N_ "json_key"]) (N_ "json_key"))
                 (SSeq (SAssign [S "py_field"] ENil (call (N_ "py_case") [N_ "json_key"]))
                       (STry (SAssign [S "field"] (eapps [N_ "json_to_field"; N_ "json_key"])
                                      (call (EAttr (N_ "field_to_parser") (S "get_key")) [N_ "py_field"]))
                             (SHandler (N_ "KeyError") None unknown)
                             SSkip))))
         SSkip in
  let store :=
    SIf (eapps [N_ "field"; N_ "ExplicitNull"])
        (STry (SAssign [] (eapps [N_ "init_kwargs"; N_ "field"])
                       (eapps [N_ "field_to_parser"; N_ "field"; N_ "o"; N_ "json_key"]))
              (v0l_parse_handler false) SSkip)
        (match l_catch_all sh with
         | None => SSkip
         | Some _ => match l_tag_key sh with
                     | Some k => SIf (eapps [N_ "json_key"; EStr k]) catch_line SSkip
                     | None => catch_line
                     end
         end) in
  STry (SFor [S "json_key"] (N_ "o") (SSeq lookup store))
       (SHandler (N_ "TypeError") None
          (sseq [ SIf (N_ "o") (SRaise (call (N_ "MissingData") [N_ "cls"])) SSkip;
                  SIf (call (N_ "isinstance") [N_ "o"; N_ "dict"])
                      (SSeq (SAssign [S "e"] ENil (call (N_ "TypeError") [EStr (S "Incorrect type for field")]))
                            (SRaise (call (N_ "ParseError") [N_ "e"; N_ "o"; N_ "dict"; N_ "cls"; N_ "dict"])))
                      SSkip;
                  SRaise ENil ]))
       SSkip.

Definition v0l_body (sh : v0l_shape) : stmt :=
  let has_paths := negb (match l_paths sh with [] => true | _ => false end) in
  sseq (when (l_pre sh) [SAssign [S "o"] ENil (call (N_ "__pre_from_dict__") [N_ "o"])]
        ++ [SAssign [S "init_kwargs"] ENil ENil]
        ++ when (is_some (l_catch_all sh)) [SAssign [S "catch_all"] ENil ENil]
        ++ when has_paths [STry (sseq (map v0l_path_stmt (l_paths sh))) (v0l_parse_handler true) SSkip]
        ++ when (l_loop sh) [v0l_loop sh]
        ++ match l_catch_all sh with
           | None => []
           | Some (n, true) => [SIf (N_ "catch_all") (SAssign [] (eapps [N_ "init_kwargs"; EStr n]) (N_ "catch_all")) SSkip]
           | Some (n, false) => [SAssign [] (eapps [N_ "init_kwargs"; EStr n]) (N_ "catch_all")]
           end
        ++ [STry (SReturn (call (N_ "cls") [N_ "init_kwargs"]))
                 (SHandler (N_ "TypeError") (Some (S "e"))
                    (SRaise (call (N_ "MissingFields") [N_ "e"; N_ "o"; N_ "cls"; N_ "cls_fields"; N_ "init_kwargs"])))
                 SSkip]).

Definition v0l_defaults (sh : v0l_shape) : list pstr :=
  map v0l_default_name (filter lf_has_default (l_paths sh)).

Definition v0l_closure (sh : v0l_shape) : list pstr :=
  let has_paths := negb (match l_paths sh with [] => true | _ => false end) in
  map S ["cls"; "py_case"; "field_to_parser"; "json_to_field"; "ExplicitNull"]%string
  ++ when has_paths [S "safe_get"]
  ++ when (l_pre sh) [S "__pre_from_dict__"]
  ++ v0l_defaults sh.

Definition v0l_globals (sh : v0l_shape) : list pstr :=
  let has_paths := negb (match l_paths sh with [] => true | _ => false end) in
  map S ["cls_fields"; "LOG"; "MissingData"; "MissingFields"]%string
  ++ when (l_loop sh && l_raise_unknown sh) [S "UnknownKeysError"]
  ++ when (has_paths || l_loop sh) [S "ParseError"].

Definition v0_load_fn (sh : v0l_shape) : fn :=
  {| fn_name := S "cls_fromdict"; fn_params := [S "o"]; fn_header := ENil;
     fn_body := v0l_body sh; fn_closure := v0l_closure sh; fn_globals := v0l_globals sh |}.

(* ======================================================================== *)
(* default engine / EnvWizard, dump: cls_asdict(o, dict_factory, exclude, skip_defaults) *)
(* ======================================================================== *)
Inductive dkey :=
| DKey (k : pstr)              (* result.append((<k!r>, ...)) *)
| DPath (comps : list pstr)    (* paths[<c1!r>][<c2!r>] = ... *)
| DExcluded                    (* dump=False *)
| DCatchAll.                   (* the catch-all field *)

Inductive dskip :=
| SkNone
| SkTruthy                     (* IS_TRUTHY / IS_FALSY: `o.f` / `not o.f` *)
| SkInline                     (* builtin value inlined through repr: `o.f == 3` *)
| SkClosure.                   (* value passed through a closure variable *)

Record v0d_field := {
  df_name : pstr;
  df_has_default : bool;
  df_key : dkey;
  df_skip : dskip;             (* field-level SkipIf *)
}.
Record v0d_shape := {
  d_fields : list v0d_field;
  d_env : bool;                      (* environ/dumpers.py variant *)
  d_pre : bool;                      (* _pre_dict / __pre_as_dict__ *)
  d_meta_skip : dskip;               (* Meta.skip_if *)
  d_skip_defaults_if : dskip;        (* Meta.skip_defaults_if *)
  d_tag : option (pstr * pstr);      (* (tag_key, tag); never in the env variant *)
}.

Definition skip_name (i : nat) := idx_name (S "_skip_") i.
Definition skip_if_name (i : nat) := idx_name (S "_skip_if_") i.
Definition dflt_name (i : nat) := idx_name (S "_default_") i.

Definition is_path (k : dkey) : bool := match k with DPath _ => true | _ => false end.
Definition is_catch (k : dkey) : bool := match k with DCatchAll => true | _ => false end.
Definition dskip_on (s : dskip) : bool := match s with SkNone => false | _ => true end.
Definition dskip_closure (s : dskip) : bool := match s with SkClosure => true | _ => false end.

Definition obj_attr (f : pstr) : expr := EAttr (N_ "o") f.

(* finalize_skip_if(cond, 'o.<f>', ...) with the closure operand `op` *)
Definition skip_expr (s : dskip) (f : pstr) (op : pstr) : expr :=
  match s with
  | SkClosure => eapps [obj_attr f; EName op]
  | _ => obj_attr f
  end.

Definition asdict_call (env : bool) (v : expr) : expr :=
  call (N_ "asdict") ([v; N_ "dict_factory"; N_ "hooks"; N_ "config"; N_ "cls_to_asdict"]
                      ++ when env [N_ "cls_dump_fn"]).

Definition v0d_skip_default_stmt (sh : v0d_shape) (i : nat) (f : v0d_field) : list stmt :=
  when (df_has_default f)
    [ if dskip_on (d_skip_defaults_if sh)
      then SAssign [skip_name i] ENil
             (eapps [EName (skip_name i); skip_expr (d_skip_defaults_if sh) (df_name f) (S "_skip_defaults_value")])
      else SAssign [skip_name i] ENil
             (eapps [EName (skip_name i); obj_attr (df_name f); EName (dflt_name i)]) ].

Definition v0d_field_stmt (sh : v0d_shape) (i : nat) (f : v0d_field) : list stmt :=
  let guard :=
    if dskip_on (df_skip f) then eapps [EName (skip_name i); skip_expr (df_skip f) (df_name f) (skip_if_name i)]
    else if dskip_on (d_meta_skip sh) then eapps [EName (skip_name i); skip_expr (d_meta_skip sh) (df_name f) (S "_skip_value")]
    else EName (skip_name i) in
  match df_key f with
  | DKey k =>
      [SIf guard (SExpr (call (EAttr (N_ "result") (S "append"))
                              [EStr k; asdict_call (d_env sh) (obj_attr (df_name f))])) SSkip]
  | DPath comps =>
      [SIf guard (SAssign [] (EApp (N_ "paths") (strs comps)) (asdict_call (d_env sh) (obj_attr (df_name f)))) SSkip]
  | DExcluded => []
  | DCatchAll =>
      [SIf (if df_has_default f
            then eapps [obj_attr (df_name f); EName (dflt_name i); EName (skip_name i)]
            else EName (skip_name i))
           (SFor [S "k"; S "v"] (call (EAttr (obj_attr (df_name f)) (S "items")) [])
                 (SExpr (call (EAttr (N_ "result") (S "append")) [N_ "k"; asdict_call (d_env sh) (N_ "v")])))
           SSkip]
  end.

(* map with the running field index *)
Fixpoint mapi_from {A B} (g : nat -> A -> B) (i : nat) (l : list A) : list B :=
  match l with [] => [] | x :: r => g i x :: mapi_from g (Datatypes.S i) r end.
Definition mapi {A B} (g : nat -> A -> B) (l : list A) : list B := mapi_from g 0 l.

Definition v0d_has_paths (sh : v0d_shape) : bool := existsb (fun f => is_path (df_key f)) (d_fields sh).

Definition v0d_body (sh : v0d_shape) : stmt :=
  let fs := d_fields sh in
  let skip_defaults := List.concat (mapi (v0d_skip_default_stmt sh) fs) in
  sseq (when (d_pre sh) [SExpr (call (N_ "__pre_dict__") [N_ "o"])]
        ++ [SAssign [S "result"] ENil ENil]
        ++ when (v0d_has_paths sh) [SAssign [S "paths"] ENil (call (N_ "NestedDict") [])]
        ++ match fs with
           | [] => []
           | _ =>
             [SIf (N_ "exclude")
                  (SAssign (mapi (fun i _ => skip_name i) fs) ENil ENil)
                  (sseq (mapi (fun i f => SAssign [skip_name i] ENil (eapps [EStr (df_name f); N_ "exclude"])) fs))]
             ++ match skip_defaults with
                | [] => []
                | _ => [SIf (N_ "skip_defaults") (sseq skip_defaults) SSkip]
                end
             ++ List.concat (mapi (v0d_field_stmt sh) fs)
           end
        ++ when (v0d_has_paths sh)
             [SExpr (eapps [N_ "result"; call (EAttr (N_ "paths") (S "update")) [N_ "result"]]);
              SAssign [S "result"] ENil (N_ "paths")]
        ++ match d_tag sh with
           | Some (k, t) =>
               [SAssign [S "result"] ENil (call (N_ "dict_factory") [N_ "result"]);
                SAssign [] (eapps [N_ "result"; EStr k]) (EStr t);
                SReturn (N_ "result")]
           | None => [SReturn (call (N_ "dict_factory") [N_ "result"])]
           end).

Definition v0d_field_closure (sh : v0d_shape) (i : nat) (f : v0d_field) : list pstr :=
  when (df_has_default f && (negb (dskip_on (d_skip_defaults_if sh)) || is_catch (df_key f))) [dflt_name i]
  ++ when (match df_key f with DKey _ | DPath _ => dskip_closure (df_skip f) | _ => false end) [skip_if_name i].

Definition ret_type_name (fname : pstr) : pstr := S "__dataclass_" ++ fname ++ S "_return_type__".

Definition v0d_closure (sh : v0d_shape) : list pstr :=
  map S ["config"; "asdict"; "hooks"; "cls_to_asdict"]%string
  ++ when (d_env sh) [S "cls_dump_fn"]
  ++ when (dskip_closure (d_meta_skip sh)) [S "_skip_value"]
  ++ when (dskip_closure (d_skip_defaults_if sh)) [S "_skip_defaults_value"]
  ++ when (d_pre sh) [S "__pre_dict__"]
  ++ when (v0d_has_paths sh) [S "NestedDict"]
  ++ List.concat (mapi (v0d_field_closure sh) (d_fields sh))
  ++ [ret_type_name (S "cls_asdict")].

Definition v0d_header (sh : v0d_shape) : expr :=
  eapps (when (d_env sh) [N_ "T"]
         ++ [N_ "dict"; EStr (S "list[str]|None"); N_ "bool"; EName (ret_type_name (S "cls_asdict"))]).

Definition v0_dump_fn (sh : v0d_shape) : fn :=
  {| fn_name := S "cls_asdict";
     fn_params := map S ["o"; "dict_factory"; "exclude"; "skip_defaults"]%string;
     fn_header := v0d_header sh;
     fn_body := v0d_body sh;
     fn_closure := v0d_closure sh;
     fn_globals := when (d_env sh) [S "T"] |}.

(* ======================================================================== *)
(* EnvWizard: __init__(self, _env_file, _reload, _env_prefix, _secrets_dir, <fields>) and dict(self) *)
(* ======================================================================== *)
Inductive edefault := EdNone | EdValue | EdFactory.
Record env_field := {
  ef_name : pstr;
  ef_var : option pstr;        (* explicit environment variable name *)
  ef_default : edefault;
}.
Record env_shape := {
  e_fields : list env_field;
  e_env_file : bool;           (* Meta.env_file set *)
  e_secrets_dir : bool;        (* Meta.secrets_dir set *)
  e_prefix : option pstr;      (* Meta.env_prefix *)
}.

Definition tp_name (n : pstr) := S "_tp_" ++ n.
Definition parser_name (n : pstr) := S "_parser_" ++ n.
Definition edflt_name (n : pstr) := S "_dflt_" ++ n.

(* the variable name is spliced with repr, into  "%s%s" % (_env_prefix, <name!r>)  and <name!r> *)
Definition env_var_text (f : env_field) : pstr :=
  match ef_var f with Some v => v | None => ef_name f end.

Definition env_field_stmt (f : env_field) : stmt :=
  let n := ef_name f in
  let vt := env_var_text f in
  let lookup := match ef_var f with Some _ => N_ "lookup_exact" | None => N_ "get_env" end in
  sseq [ SAssign [S "_name"] ENil (EStr n);
         SAssign [S "_env_var"] ENil (match ef_var f with Some v => EStr v | None => ENil end);
         SAssign [S "_var_name"] ENil (eapps [EStr (S "%s%s"); N_ "_env_prefix"; EStr vt; N_ "_env_prefix"; EStr vt]);
         SIf (eapps [EName n; N_ "MISSING"; EWalrus n (call lookup [N_ "_var_name"]); N_ "MISSING"])
             (SAssign [] (EAttr (N_ "self") n) (call (EName (parser_name n)) [EName n]))
             (match ef_default f with
              | EdValue => SAssign [] (EAttr (N_ "self") n) (EName (edflt_name n))
              | EdFactory => SAssign [] (EAttr (N_ "self") n) (call (EName (edflt_name n)) [])
              | EdNone => SExpr (call (N_ "add") [N_ "_vars"; N_ "_name"; N_ "_env_prefix"; N_ "_env_var"; EName (tp_name n)])
              end) ].

Definition env_init_body (sh : env_shape) : stmt :=
  sseq ([ SIf (N_ "_reload") (SExpr (call (EAttr (N_ "Env") (S "reload")) []))
                             (SExpr (call (EAttr (N_ "Env") (S "load_environ")) []));
          SIf (N_ "_secrets_dir") (SExpr (call (EAttr (N_ "Env") (S "update_with_secret_values")) [N_ "_secrets_dir"])) SSkip;
          (if e_env_file sh
           then SIf (N_ "_env_file")
                    (SExpr (call (EAttr (N_ "Env") (S "update_with_dotenv")) [N_ "_dotenv_values"]))
                    (SIf (N_ "_env_file") (SExpr (call (EAttr (N_ "Env") (S "update_with_dotenv")) [N_ "_env_file"])) SSkip)
           else SIf (N_ "_env_file") (SExpr (call (EAttr (N_ "Env") (S "update_with_dotenv")) [N_ "_env_file"])) SSkip);
          SAssign [S "_vars"] ENil ENil ]
        ++ match e_fields sh with
           | [] => []
           | fs => [STry (sseq (map env_field_stmt fs))
                         (SHandler (N_ "ParseError") (Some (S "e"))
                            (SExpr (call (N_ "handle_err") [N_ "e"; N_ "cls"; N_ "_name"; N_ "_env_prefix"; N_ "_env_var"])))
                         SSkip]
           end
        ++ [SIf (N_ "_vars") (SRaise (call (N_ "MissingVars") [N_ "cls"; N_ "_vars"])) SSkip]).

Definition env_fixed_params : list pstr :=
  map S ["self"; "_env_file"; "_reload"; "_env_prefix"; "_secrets_dir"]%string.

Definition env_closure (sh : env_shape) : list pstr :=
  map S ["Env"; "ParseError"; "field_names"; "get_env"; "lookup_exact"]%string
  ++ when (e_secrets_dir sh) [S "_secrets_dir_value"]
  ++ [ret_type_name (S "__init__"); ret_type_name (S "dict")].

Definition env_field_globals (f : env_field) : list pstr :=
  [tp_name (ef_name f); parser_name (ef_name f)]
  ++ match ef_default f with EdNone => [] | _ => [edflt_name (ef_name f)] end.

Definition env_globals (sh : env_shape) : list pstr :=
  map S ["MissingVars"; "add"; "cls"; "fields_ordered"; "handle_err"; "MISSING"]%string
  ++ when (e_env_file sh) [S "_dotenv_values"]
  ++ flat_map env_field_globals (e_fields sh)
  ++ match e_fields sh with [] => [] | _ => [S "ParseError"] end.

Definition env_init_header (sh : env_shape) : expr :=
  eapps ([match e_prefix sh with Some p => EStr p | None => ENil end]
         ++ when (e_secrets_dir sh) [N_ "_secrets_dir_value"]
         ++ flat_map (fun f => [EName (tp_name (ef_name f)); N_ "MISSING"]) (e_fields sh)
         ++ [EName (ret_type_name (S "__init__"))]).

Definition env_init_fn (sh : env_shape) : fn :=
  {| fn_name := S "__init__";
     fn_params := env_fixed_params ++ map ef_name (e_fields sh);
     fn_header := env_init_header sh;
     fn_body := env_init_body sh;
     fn_closure := env_closure sh;
     fn_globals := env_globals sh |}.

Definition env_dict_fn (sh : env_shape) : fn :=
  {| fn_name := S "dict"; fn_params := [S "self"];
     fn_header := EName (ret_type_name (S "dict"));
     fn_body := SReturn (eapps (flat_map (fun f => [EStr (ef_name f); EAttr (N_ "self") (ef_name f)]) (e_fields sh)));
     fn_closure := env_closure sh; fn_globals := env_globals sh |}.

(* names of the generated __init__ a field name must not take (it becomes a
   PARAMETER of __init__ and shadows them) *)
Definition env_reserved (sh : env_shape) : list pstr :=
  env_fixed_params
  ++ map S ["Env"; "ParseError"; "get_env"; "lookup_exact"; "MissingVars"; "add"; "cls"; "handle_err";
            "MISSING"; "_vars"; "_name"; "_env_var"; "_var_name"; "e"; "_dotenv_values";
            "field_names"; "fields_ordered"; "_secrets_dir_value"]%string
  ++ [ret_type_name (S "__init__"); ret_type_name (S "dict")].
Definition env_reserved_prefixes : list pstr := map S ["_tp_"; "_parser_"; "_dflt_"]%string.
Definition env_name_ok (sh : env_shape) (n : pstr) : bool :=
  negb (mem_str n (env_reserved sh)) && forallb (fun p => negb (starts_with p n)) env_reserved_prefixes.
Definition env_names_ok (sh : env_shape) : bool := forallb (fun f => env_name_ok sh (ef_name f)) (e_fields sh).

(* the generator's own identifiers in __init__ (everything except the field parameters) *)
Definition env_own (sh : env_shape) : list pstr :=
  env_fixed_params ++ map S ["_vars"; "_name"; "_env_var"; "_var_name"; "e"]%string
  ++ env_closure sh ++ env_globals sh.

(* ======================================================================== *)
(* v1 engine, load: __dataclass_wizard_from_dict_<cls>__(o)                    *)
(* ======================================================================== *)
Inductive vty :=
| VInt | VStr | VFloat | VBool
| VEnum (name : pstr)
| VData (name : pstr)
| VList (t : vty).

Inductive vkey :=
| KField                       (* o.get(field, MISSING) *)
| KAlias1 (a : pstr)
| KAliasN (a : pstr) (l : list pstr)     (* two or more aliases *)
| KPath1 (p : list pstr).

Record v1_field := {
  vf_name : pstr;
  vf_ty : vty;
  vf_has_default : bool;
  vf_key : vkey;
}.
Inductive unknown_action := UkNone | UkRaise | UkWarn.
Record v1_shape := {
  v_cls : pstr;                        (* cls.__name__ *)
  v_fields : list v1_field;            (* init fields, in order *)
  v_pre : bool;
  v_unknown : unknown_action;          (* v1_on_unknown_key *)
  v_tag_key : option pstr;             (* tag assigned and tag key is not a field *)
}.

Definition v1_fn_name (cls_name : pstr) : pstr :=
  S "__dataclass_wizard_from_dict_" ++ cls_name ++ S "__".
Definition v1_type_local (name : pstr) (field_i : nat) : pstr := name ++ S "_" ++ show_nat field_i.
Definition v1_field_local (name : pstr) : pstr := S "__" ++ name.
Definition v_var (k : nat) : pstr := idx_name (S "v") k.

(* the load expression for a type at variable v<k>, field index fi *)
Fixpoint v1_expr (t : vty) (fi k : nat) : expr :=
  let o := EName (v_var k) in
  match t with
  | VInt => eapps [o; EWalrus (S "tp") (EAttr o (S "__class__")); N_ "int"; N_ "int"; N_ "f"; EStr (S "."); o;
                   EAttr (EWalrus (S "f") (call (N_ "float") [o])) (S "is_integer"); o; N_ "tp"; N_ "str";
                   N_ "as_int"; o; N_ "tp"; N_ "int"]
  | VStr => eapps [EStr []; o; N_ "str"; o]
  | VFloat => call (N_ "float") [o]
  | VBool => eapps [EAttr o (S "lower"); N_ "__TRUTHY"; EAttr o (S "__class__"); N_ "str"; o]
  | VEnum n => call (EName (v1_type_local n fi)) [o]
  | VData n => call (EName (v1_fn_name n)) [o]
  | VList t' => EComp [v_var (Datatypes.S k)] o (v1_expr t' fi (Datatypes.S k))
  end.

(* closure variables the type's hook registers in extras['locals'] *)
Fixpoint v1_ty_closure (t : vty) (fi : nat) : list pstr :=
  match t with
  | VInt => [S "as_int"]
  | VBool => [S "__TRUTHY"]
  | VEnum n => [v1_type_local n fi]
  | VList t' => v1_ty_closure t' fi
  | VStr | VFloat | VData _ => []
  end.

(* helper functions (of the same batch) the expression calls *)
Fixpoint v1_ty_calls (t : vty) : list pstr :=
  match t with
  | VData n => [v1_fn_name n]
  | VList t' => v1_ty_calls t'
  | _ => []
  end.

Definition v1_pre_assign (sh : v1_shape) : bool :=
  match v_unknown sh with UkNone => false | _ => true end.

Definition get_missing (key : expr) : expr := call (EAttr (N_ "o") (S "get")) [key; N_ "MISSING"].

Definition v1_field_stmt (sh : v1_shape) (fi : nat) (f : v1_field) : stmt :=
  let found_simple := eapps [N_ "v1"; N_ "MISSING"] in
  let set_field := SAssign [S "field"] ENil (EStr (vf_name f)) in
  let pre := when (v1_pre_assign sh) [SAug (S "i") ENil] in
  let store :=
    if vf_has_default f
    then SAssign [] (eapps [N_ "init_kwargs"; N_ "field"]) (v1_expr (vf_ty f) fi 1)
    else SAssign [v1_field_local (vf_name f)] ENil (v1_expr (vf_ty f) fi 1) in
  let body := sseq (pre ++ [store]) in
  match vf_key f with
  | KField => sseq [set_field; SAssign [S "v1"] ENil (get_missing (N_ "field")); SIf found_simple body SSkip]
  | KAlias1 a => sseq [set_field; SAssign [S "v1"] ENil (get_missing (EStr a)); SIf found_simple body SSkip]
  | KAliasN a l =>
      sseq [set_field;
            SIf (eapps (map (fun a => eapps [EWalrus (S "v1") (get_missing (EStr a)); N_ "MISSING"]) (a :: l))) body SSkip]
  | KPath1 p =>
      sseq [set_field; SAssign [S "v1"] ENil (call (N_ "safe_get") [N_ "o"; strs p]); SIf found_simple body SSkip]
  end.

Definition msg_unknown_v1 : pstr :=
  S "Found %d unknown keys %r not mapped to the dataclass schema." ++ [ch 10]
  ++ S "  Class: %r" ++ [ch 10] ++ S "  Dataclass fields: %r".

Definition v1_has_defaults (sh : v1_shape) : bool := existsb vf_has_default (v_fields sh).
Definition v1_has_paths (sh : v1_shape) : bool :=
  existsb (fun f => match vf_key f with KPath1 _ => true | _ => false end) (v_fields sh).

Definition v1_body (sh : v1_shape) : stmt :=
  let fs := v_fields sh in
  let pre := v1_pre_assign sh in
  sseq (when (v_pre sh) [SAssign [S "o"] ENil (call (N_ "__pre_from_dict__") [N_ "o"])]
        ++ when (v1_has_defaults sh) [SAssign [S "init_kwargs"] ENil ENil]
        ++ when pre [SAssign [S "i"] ENil ENil]
        ++ match fs with
           | [] => when pre [SIf (call (N_ "isinstance") [N_ "o"; N_ "dict"])
                                 (SExpr (call (N_ "re_raise") [N_ "cls"; N_ "o"; N_ "fields"])) SSkip]
           | _ =>
             [STry (sseq (match v_tag_key sh with
                          | Some k => when pre [SIf (eapps [EStr k; N_ "o"]) (SAug (S "i") ENil) SSkip]
                          | None => []
                          end
                          ++ mapi (v1_field_stmt sh) fs))
                   (SHandler (N_ "Exception") (Some (S "e"))
                      (SExpr (call (N_ "re_raise")
                                   [N_ "e"; N_ "cls"; N_ "o"; N_ "fields"; N_ "field";
                                    call (EAttr (call (N_ "locals") []) (S "get")) [EStr (S "v1")]])))
                   SSkip]
           end
        ++ match v_unknown sh with
           | UkNone => []
           | UkRaise =>
               [SIf (eapps [call (N_ "len") [N_ "o"]; N_ "i";
                            EWalrus (S "extra_keys") (eapps [call (N_ "set") [N_ "o"]; N_ "aliases"])])
                    (SRaise (call (N_ "UnknownKeysError") [N_ "extra_keys"; N_ "o"; N_ "cls"; N_ "fields"])) SSkip]
           | UkWarn =>
               [SIf (eapps [call (N_ "len") [N_ "o"]; N_ "i";
                            EWalrus (S "extra_keys") (eapps [call (N_ "set") [N_ "o"]; N_ "aliases"])])
                    (SExpr (call (EAttr (N_ "LOG") (S "warning"))
                                 [EStr msg_unknown_v1; call (N_ "len") [N_ "extra_keys"]; N_ "extra_keys";
                                  EAttr (N_ "cls") (S "__qualname__");
                                  EComp [S "f"] (N_ "fields") (EAttr (N_ "f") (S "name"))])) SSkip]
           end
        ++ [STry (SReturn (call (N_ "cls")
                            (map (fun f => EName (v1_field_local (vf_name f)))
                                 (filter (fun f => negb (vf_has_default f)) fs)
                             ++ when (v1_has_defaults sh) [N_ "init_kwargs"])))
                 (SHandler (N_ "UnboundLocalError") None
                    (SExpr (call (N_ "raise_missing_fields") [call (N_ "locals") []; N_ "o"; N_ "cls"; N_ "fields"])))
                 SSkip]).

Definition v1_closure (sh : v1_shape) : list pstr :=
  map S ["cls"; "fields"]%string
  ++ when (v1_pre_assign sh) [S "aliases"]
  ++ when (v1_has_paths sh) [S "safe_get"]
  ++ when (v_pre sh) [S "__pre_from_dict__"]
  ++ List.concat (mapi (fun fi f => v1_ty_closure (vf_ty f) fi) (v_fields sh))
  ++ match v_unknown sh with UkNone => [] | UkRaise => [S "UnknownKeysError"] | UkWarn => [S "LOG"] end.

Definition v1_globals : list pstr := map S ["MISSING"; "ParseError"; "raise_missing_fields"; "re_raise"]%string.

Definition v1_calls (sh : v1_shape) : list pstr := flat_map (fun f => v1_ty_calls (vf_ty f)) (v_fields sh).

Definition v1_load_fn (sh : v1_shape) : fn :=
  {| fn_name := v1_fn_name (v_cls sh); fn_params := [S "o"]; fn_header := ENil;
     fn_body := v1_body sh; fn_closure := v1_closure sh; fn_globals := v1_globals |}.

(* identifiers derived from user field names in the v1 function *)
Definition v1_field_locals (sh : v1_shape) : list pstr :=
  map (fun f => v1_field_local (vf_name f)) (v_fields sh).

(* the generator's own identifiers in the v1 function: everything but the `__<field>` locals *)
Definition v1_own (batch : list pstr) (sh : v1_shape) : list pstr :=
  map S ["o"; "init_kwargs"; "i"; "e"; "extra_keys"; "field"; "v1"; "tp"; "f"]%string
  ++ v1_globals ++ py_builtins ++ v1_closure sh ++ batch.

(* does y have the form prefix ++ decimal digits ? *)
Fixpoint strip_prefix (p s : pstr) : option pstr :=
  match p, s with
  | [], _ => Some s
  | a :: p', b :: s' => if ascii_eqb a b then strip_prefix p' s' else None
  | _ :: _, [] => None
  end.
Definition is_idx_of (p y : pstr) : bool :=
  match strip_prefix p y with
  | Some (c :: t) => forallb is_digit (c :: t)
  | _ => false
  end.

(* the fixed (name-independent) identifiers of cls_asdict *)
Definition v0d_fixed_names : list pstr :=
  map S ["o"; "dict_factory"; "exclude"; "skip_defaults"; "result"; "paths"; "k"; "v"; "T";
         "config"; "asdict"; "hooks"; "cls_to_asdict"; "cls_dump_fn"; "_skip_value"; "_skip_defaults_value";
         "__pre_dict__"; "NestedDict"]%string
  ++ [ret_type_name (S "cls_asdict")] ++ py_builtins.
Definition v0d_index_prefixes : list pstr := map S ["_skip_"; "_default_"; "_skip_if_"]%string.

(* ---- the helper-function table (name-keyed) vs the recursion guard (type-keyed) ---- *)
(* a registration: the function generated for the type with identity `id`, stored in
   FunctionBuilder.functions under a key derived from the type's __name__ *)
Definition registration := (pstr * N)%type.          (* (__name__, type identity) *)

(* dict semantics of `functions |= other.functions`: the LAST registration of a key wins *)
Fixpoint lookup_last (key : pstr) (regs : list (pstr * N)) : option N :=
  match regs with
  | [] => None
  | (k, id) :: r =>
      match lookup_last key r with
      | Some x => Some x
      | None => if pstr_eqb k key then Some id else None
      end
  end.

Definition fn_table (regs : list registration) : list (pstr * N) :=
  map (fun r => (v1_fn_name (fst r), snd r)) regs.

(* which type's loader a call site written for `r` reaches *)
Definition resolves (regs : list registration) (r : registration) : option N :=
  lookup_last (v1_fn_name (fst r)) (fn_table regs).

(* same for the type locals `<Name>_<field_i>` within one function's closure dict *)
Definition local_table (field_i : nat) (regs : list registration) : list (pstr * N) :=
  map (fun r => (v1_type_local (fst r) field_i, snd r)) regs.

(* ---- output for the correspondence harness -------------------------------- *)
Definition show_list (l : list pstr) : pstr := join (S ",") (map hex l).
Definition show_fn (batch : list pstr) (f : fn) : pstr :=
  join (S "|") [hex (fn_name f); show_list (fn_params f); show_list (fn_closure f); show_list (fn_globals f);
                show_list (s_loads (fn_body f)); show_list (s_binds (fn_body f)); show_list (free_names f);
                show_list (e_loads (fn_header f)); show_list (s_strs (fn_body f) ++ e_strs (fn_header f));
                show_list (s_attrs (fn_body f));
                if closedb batch f then S "closed" else S "OPEN"].
