(* SkipModel.v — model for property C11: which keys `cls_asdict` emits.

   Three layers, all executable, no proofs in this file:

   1. Python values and the comparison semantics conditions need
      (==, !=, <, <=, >, >=, is, is not, truthiness), `Condition.evaluate`
      (models.py `Condition.evaluate`) as `evaluate`.
   2. The condition compiler (models.py `get_skip_if_condition`,
      `finalize_skip_if`, class_helper.py `is_builtin`): what is spliced into the
      generated source, as a small expression AST (`expr`); `repr_expr v` is the
      AST Python's parser builds for the text `repr(v)` (validated against
      `ast.parse(repr(v))` by the harness), `EBad` when that text is not an
      expression.
   3. The generator of `cls_asdict` (dumpers.py `dump_func_for_dataclass`, and the
      copy in environ/dumpers.py): the `_skip_i` bookkeeping as a statement list
      (`gen_prog`) and its interpreter (`exec_top`), plus the declarative
      reference selection `ref_select`.

   Identity: `None`, `True`, `False`, `Ellipsis` and opaque tokens (Enum members,
   instances, classes, builtin functions) have intrinsic identity.  Any other
   top-level object carries an optional object id (`oid`); an object created by
   evaluating a literal inside generated code has no known id (`fresh`), and `is`
   between two non-singletons one of which has no known id is `Unspecified` (the
   language does not define whether a literal denotes a new object).
   Equality of containers is purely structural (`nan` inside a container is not
   equal to itself: CPython's identity shortcut for *shared* element objects is
   outside the model; the harness does not share `nan` objects inside containers). *)
From DW Require Export PyStr.
From Coq Require Import ZArith.

(* ------------------------------------------------------------------ values *)
Inductive pyfloat :=
| FNan
| FInf (neg : bool)
| FNegZero
| FFin (m e : Z).          (* m * 2^e ; FFin 0 _ is +0.0 *)

Inductive tokkind := KEnum | KUser | KBareObj | KType | KBuiltinFn.

Inductive value :=
| VNone
| VEllipsis
| VBool (b : bool)
| VInt (z : Z)
| VFloat (f : pyfloat)
| VStr (s : pstr)
| VTuple (l : list value)
| VList (l : list value)
| VDict (l : list (value * value))
| VTok (k : tokkind) (id : Z).

Record lval := LV { oid : option Z; val : value }.
Definition fresh (v : value) : lval := LV None v.

Inductive perr := TypeError | NameError | SyntaxError | AttributeError | Unspecified.
Inductive res (A : Type) := Ok (a : A) | Err (e : perr).
Arguments Ok {A} a.
Arguments Err {A} e.

Definition tokkind_eqb (a b : tokkind) : bool :=
  match a, b with
  | KEnum, KEnum | KUser, KUser | KBareObj, KBareObj | KType, KType | KBuiltinFn, KBuiltinFn => true
  | _, _ => false
  end.

(* ------------------------------------------------------- numeric comparison *)
Inductive num := NumNan | NumInf (neg : bool) | NumFin (m e : Z).
Inductive cmp3 := CLt | CEq | CGt | CUn.

Definition num_of (v : value) : option num :=
  match v with
  | VBool b => Some (NumFin (if b then 1 else 0) 0)
  | VInt z => Some (NumFin z 0)
  | VFloat FNan => Some NumNan
  | VFloat (FInf n) => Some (NumInf n)
  | VFloat FNegZero => Some (NumFin 0 0)
  | VFloat (FFin m e) => Some (NumFin m e)
  | _ => None
  end.

Definition of_comparison (c : comparison) : cmp3 :=
  match c with Lt => CLt | Eq => CEq | Gt => CGt end.

Definition fin_cmp (m1 e1 m2 e2 : Z) : comparison :=
  let e := Z.min e1 e2 in
  Z.compare (m1 * 2 ^ (e1 - e))%Z (m2 * 2 ^ (e2 - e))%Z.

Definition num_cmp (a b : num) : cmp3 :=
  match a, b with
  | NumNan, _ | _, NumNan => CUn
  | NumInf false, NumInf false => CEq
  | NumInf true, NumInf true => CEq
  | NumInf false, _ => CGt
  | NumInf true, _ => CLt
  | _, NumInf false => CLt
  | _, NumInf true => CGt
  | NumFin m1 e1, NumFin m2 e2 => of_comparison (fin_cmp m1 e1 m2 e2)
  end.

Fixpoint str_cmp (a b : pstr) : comparison :=
  match a, b with
  | [], [] => Eq
  | [], _ :: _ => Lt
  | _ :: _, [] => Gt
  | x :: a', y :: b' =>
      match N.compare (code x) (code y) with
      | Eq => str_cmp a' b'
      | c => c
      end
  end.

(* ---------------------------------------------------------------- operators *)
(* The ten operator keys of Condition.evaluate. *)
Inductive cop := OpEq | OpNe | OpLt | OpLe | OpGt | OpGe | OpIs | OpIsNot | OpTruthy | OpFalsy.

Definition all_cops : list cop :=
  [OpEq; OpNe; OpLt; OpLe; OpGt; OpGe; OpIs; OpIsNot; OpTruthy; OpFalsy].

Definition cop_text (op : cop) : pstr :=
  match op with
  | OpEq => S "==" | OpNe => S "!=" | OpLt => S "<" | OpLe => S "<=" | OpGt => S ">" | OpGe => S ">="
  | OpIs => S "is" | OpIsNot => S "is not" | OpTruthy => S "+" | OpFalsy => S "!"
  end.

(* Condition.__init__: self.t_or_f = operator in {'+', '!'} *)
Definition t_or_f (op : cop) : bool :=
  match op with OpTruthy | OpFalsy => true | _ => false end.

Definition is_identity_op (op : cop) : bool :=
  match op with OpIs | OpIsNot => true | _ => false end.

Inductive ordop := OLt | OLe | OGt | OGe.

Definition ord_holds (op : ordop) (c : cmp3) : bool :=
  match op, c with
  | OLt, CLt => true
  | OLe, CLt | OLe, CEq => true
  | OGt, CGt => true
  | OGe, CGt | OGe, CEq => true
  | _, _ => false
  end.

(* a == b.  Total on the modelled values (never raises). *)
Fixpoint py_eq (a b : value) {struct a} : bool :=
  match a with
  | VNone => match b with VNone => true | _ => false end
  | VEllipsis => match b with VEllipsis => true | _ => false end
  | VBool _ | VInt _ | VFloat _ =>
      match num_of a, num_of b with
      | Some x, Some y => match num_cmp x y with CEq => true | _ => false end
      | _, _ => false
      end
  | VStr s => match b with VStr t => pstr_eqb s t | _ => false end
  | VTuple l =>
      match b with
      | VTuple l' =>
          (fix go (l l' : list value) : bool :=
             match l, l' with
             | [], [] => true
             | x :: r, y :: r' => py_eq x y && go r r'
             | _, _ => false
             end) l l'
      | _ => false
      end
  | VList l =>
      match b with
      | VList l' =>
          (fix go (l l' : list value) : bool :=
             match l, l' with
             | [], [] => true
             | x :: r, y :: r' => py_eq x y && go r r'
             | _, _ => false
             end) l l'
      | _ => false
      end
  | VDict l =>
      match b with
      | VDict l' =>
          Nat.eqb (List.length l) (List.length l') &&
          (fix go (l : list (value * value)) : bool :=
             match l with
             | [] => true
             | (k, v) :: r =>
                 (fix find (m : list (value * value)) : bool :=
                    match m with
                    | [] => false
                    | (k', v') :: r' => if py_eq k k' then py_eq v v' else find r'
                    end) l' && go r
             end) l
      | _ => false
      end
  | VTok k i => match b with VTok k' i' => tokkind_eqb k k' && (i =? i')%Z | _ => false end
  end.

(* a <op> b for the ordering operators; None = TypeError ('<' not supported between ...). *)
Fixpoint py_ord (op : ordop) (a b : value) {struct a} : option bool :=
  match a with
  | VBool _ | VInt _ | VFloat _ =>
      match num_of a, num_of b with
      | Some x, Some y => Some (ord_holds op (num_cmp x y))
      | _, _ => None
      end
  | VStr s => match b with VStr t => Some (ord_holds op (of_comparison (str_cmp s t))) | _ => None end
  | VTuple l =>
      match b with
      | VTuple l' =>
          (fix go (l l' : list value) : option bool :=
             match l, l' with
             | [], [] => Some (ord_holds op CEq)
             | [], _ :: _ => Some (ord_holds op CLt)
             | _ :: _, [] => Some (ord_holds op CGt)
             | x :: r, y :: r' => if py_eq x y then go r r' else py_ord op x y
             end) l l'
      | _ => None
      end
  | VList l =>
      match b with
      | VList l' =>
          (fix go (l l' : list value) : option bool :=
             match l, l' with
             | [], [] => Some (ord_holds op CEq)
             | [], _ :: _ => Some (ord_holds op CLt)
             | _ :: _, [] => Some (ord_holds op CGt)
             | x :: r, y :: r' => if py_eq x y then go r r' else py_ord op x y
             end) l l'
      | _ => None
      end
  | _ => None
  end.

Definition truthy (v : value) : bool :=
  match v with
  | VNone => false
  | VEllipsis => true
  | VBool b => b
  | VInt z => negb (z =? 0)%Z
  | VFloat FNegZero => false
  | VFloat (FFin m _) => negb (m =? 0)%Z
  | VFloat _ => true
  | VStr s => match s with [] => false | _ => true end
  | VTuple l | VList l => match l with [] => false | _ => true end
  | VDict l => match l with [] => false | _ => true end
  | VTok _ _ => true
  end.

(* Objects with intrinsic identity. *)
Definition is_singleton (v : value) : bool :=
  match v with VNone | VEllipsis | VBool _ | VTok _ _ => true | _ => false end.

Definition same_singleton (a b : value) : bool :=
  match a, b with
  | VNone, VNone | VEllipsis, VEllipsis => true
  | VBool x, VBool y => Bool.eqb x y
  | VTok k i, VTok k' i' => tokkind_eqb k k' && (i =? i')%Z
  | _, _ => false
  end.

(* a is b *)
Definition py_is (a b : lval) : res bool :=
  if is_singleton (val a) || is_singleton (val b) then Ok (same_singleton (val a) (val b))
  else match oid a, oid b with
       | Some i, Some j => Ok (i =? j)%Z
       | _, _ => Err Unspecified
       end.

Definition of_opt (o : option bool) : res bool :=
  match o with Some b => Ok b | None => Err TypeError end.

Definition neg_res (r : res bool) : res bool :=
  match r with Ok b => Ok (negb b) | Err e => Err e end.

(* operators[op](a, b) of Condition.evaluate *)
Definition apply_cop (op : cop) (a b : lval) : res bool :=
  match op with
  | OpEq => Ok (py_eq (val a) (val b))
  | OpNe => Ok (negb (py_eq (val a) (val b)))
  | OpLt => of_opt (py_ord OLt (val a) (val b))
  | OpLe => of_opt (py_ord OLe (val a) (val b))
  | OpGt => of_opt (py_ord OGt (val a) (val b))
  | OpGe => of_opt (py_ord OGe (val a) (val b))
  | OpIs => py_is a b
  | OpIsNot => neg_res (py_is a b)
  | OpTruthy => Ok (truthy (val a))
  | OpFalsy => Ok (negb (truthy (val a)))
  end.

Record cond := Cond { c_op : cop; c_val : lval }.

(* Condition.evaluate(other) = operators[self.op](other, self.val) *)
Definition evaluate (c : cond) (other : lval) : res bool := apply_cop (c_op c) other (c_val c).

(* ------------------------------------------------------------- is_builtin *)
Fixpoint hashable (v : value) : bool :=
  match v with
  | VTuple l => (fix go (l : list value) : bool := match l with [] => true | x :: r => hashable x && go r end) l
  | VList _ | VDict _ => false
  | _ => true
  end.

Definition nonfinite (v : value) : bool :=
  match v with VFloat FNan | VFloat (FInf _) => true | _ => false end.

(* type(o).__module__ == 'builtins' *)
Definition builtin_class (v : value) : bool :=
  match v with
  | VTok KEnum _ | VTok KUser _ => false
  | _ => true
  end.

(* class_helper.is_builtin (after the F6 repair) *)
Definition is_builtin (v : value) : bool :=
  match v with
  | VNone | VEllipsis | VBool _ => true
  | _ => if negb (hashable v) then false
         else if nonfinite v then false
         else builtin_class v
  end.

(* get_skip_if_condition (after the F20 repair): the value is inlined (via its repr)
   only if it passes is_builtin AND is a builtin singleton or -- for an operator other
   than `is` / `is not` -- of exact type int, str or float:
     is_builtin(val) and (val is None or val is True or val is False or val is ...
                          or (op not in ('is', 'is not') and type(val) in (int, str, float))) *)
Definition builtin_singleton (v : value) : bool :=
  match v with VNone | VEllipsis | VBool _ => true | _ => false end.

Definition plain_scalar (v : value) : bool :=
  match v with VInt _ | VStr _ | VFloat _ => true | _ => false end.

Definition inlined (op : cop) (v : value) : bool :=
  is_builtin v && (builtin_singleton v || (negb (is_identity_op op) && plain_scalar v)).

(* ------------------------------------------------------- generated expressions *)
Inductive name :=
| NSkip (i : nat)              (* _skip_{i} *)
| NSkipIf (i : nat)            (* _skip_if_{i} *)
| NDefault (i : nat)           (* _default_{i} *)
| NSkipValue                   (* _skip_value *)
| NSkipDefaultsValue           (* _skip_defaults_value *)
| NExclude                     (* exclude *)
| NSkipDefaultsArg.            (* skip_defaults *)

Definition name_eqb (a b : name) : bool :=
  match a, b with
  | NSkip i, NSkip j | NSkipIf i, NSkipIf j | NDefault i, NDefault j => Nat.eqb i j
  | NSkipValue, NSkipValue | NSkipDefaultsValue, NSkipDefaultsValue
  | NExclude, NExclude | NSkipDefaultsArg, NSkipDefaultsArg => true
  | _, _ => false
  end.

Inductive expr :=
| EConst (v : value)           (* keyword constant, number literal or string literal *)
| EBuiltin (s : pstr)          (* a free name the generator does not bind: nan, inf, Ellipsis *)
| ELocal (n : name)            (* parameter / assigned local of cls_asdict *)
| EFree (n : name)             (* closure variable placed in `_locals` *)
| EField (f : pstr)            (* o.f *)
| ENeg (e : expr)              (* -e *)
| ETupleD (es : list expr)
| EListD (es : list expr)
| EDictD (kvs : list (expr * expr))
| EBad                         (* text that is not an expression, e.g. <object object at 0x..> *)
| ECmp (op : cop) (a b : expr) (* a <op> b, op one of the eight binary operators *)
| EIn (a b : expr)             (* a in b *)
| EOr (a b : expr)
| ENot (a : expr).

(* The AST of the text repr(v). *)
Fixpoint repr_expr (v : value) : expr :=
  match v with
  | VNone | VBool _ => EConst v
  | VEllipsis => EBuiltin (S "Ellipsis")
  | VInt z => if (z <? 0)%Z then ENeg (EConst (VInt (- z))) else EConst v
  | VFloat FNan => EBuiltin (S "nan")
  | VFloat (FInf false) => EBuiltin (S "inf")
  | VFloat (FInf true) => ENeg (EBuiltin (S "inf"))
  | VFloat FNegZero => ENeg (EConst (VFloat (FFin 0 0)))
  | VFloat (FFin m e) => if (m <? 0)%Z then ENeg (EConst (VFloat (FFin (- m) e))) else EConst v
  | VStr _ => EConst v
  | VTuple l => ETupleD ((fix go (l : list value) : list expr :=
                            match l with [] => [] | x :: r => repr_expr x :: go r end) l)
  | VList l => EListD ((fix go (l : list value) : list expr :=
                          match l with [] => [] | x :: r => repr_expr x :: go r end) l)
  | VDict l => EDictD ((fix go (l : list (value * value)) : list (expr * expr) :=
                          match l with [] => [] | (k, x) :: r => (repr_expr k, repr_expr x) :: go r end) l)
  | VTok _ _ => EBad
  end.

Fixpoint lookup_name (l : list (name * lval)) (n : name) : option lval :=
  match l with
  | [] => None
  | (m, v) :: r => if name_eqb m n then Some v else lookup_name r n
  end.

Fixpoint lookup_str {A : Type} (l : list (pstr * A)) (s : pstr) : option A :=
  match l with
  | [] => None
  | (t, v) :: r => if pstr_eqb t s then Some v else lookup_str r s
  end.

(* builtins visible to generated code, as far as repr texts mention them *)
Definition builtins_tbl : list (pstr * value) := [(S "Ellipsis", VEllipsis)].

Record env := Env {
  e_obj : list (pstr * lval);       (* attributes of `o` *)
  e_clo : list (name * lval);       (* `_locals` *)
  e_frame : list (name * lval)      (* parameters and assigned locals *)
}.

Definition fneg (f : pyfloat) : pyfloat :=
  match f with
  | FNan => FNan
  | FInf n => FInf (negb n)
  | FNegZero => FFin 0 0
  | FFin m e => if (m =? 0)%Z then FNegZero else FFin (- m) e
  end.

Definition py_neg (v : value) : res value :=
  match v with
  | VBool b => Ok (VInt (if b then -1 else 0))
  | VInt z => Ok (VInt (- z))
  | VFloat f => Ok (VFloat (fneg f))
  | _ => Err TypeError
  end.

(* a in b for list / tuple containers (identity-or-equality per element; the
   left operand here is always a fresh string literal) *)
Definition py_in (a b : value) : res bool :=
  match b with
  | VList l | VTuple l => Ok (existsb (fun x => py_eq x a) l)
  | _ => Err TypeError
  end.

Fixpoint eval (en : env) (e : expr) {struct e} : res lval :=
  match e with
  | EConst v => Ok (fresh v)
  | EBuiltin s => match lookup_str builtins_tbl s with Some v => Ok (fresh v) | None => Err NameError end
  | ELocal n => match lookup_name (e_frame en) n with Some v => Ok v | None => Err NameError end
  | EFree n => match lookup_name (e_clo en) n with Some v => Ok v | None => Err NameError end
  | EField f => match lookup_str (e_obj en) f with Some v => Ok v | None => Err AttributeError end
  | ENeg a =>
      match eval en a with
      | Ok x => match py_neg (val x) with Ok v => Ok (fresh v) | Err er => Err er end
      | Err er => Err er
      end
  | ETupleD es =>
      match (fix go (es : list expr) : res (list value) :=
               match es with
               | [] => Ok []
               | a :: r => match eval en a with
                           | Ok x => match go r with Ok xs => Ok (val x :: xs) | Err er => Err er end
                           | Err er => Err er
                           end
               end) es with
      | Ok xs => Ok (fresh (VTuple xs))
      | Err er => Err er
      end
  | EListD es =>
      match (fix go (es : list expr) : res (list value) :=
               match es with
               | [] => Ok []
               | a :: r => match eval en a with
                           | Ok x => match go r with Ok xs => Ok (val x :: xs) | Err er => Err er end
                           | Err er => Err er
                           end
               end) es with
      | Ok xs => Ok (fresh (VList xs))
      | Err er => Err er
      end
  | EDictD kvs =>
      match (fix go (kvs : list (expr * expr)) : res (list (value * value)) :=
               match kvs with
               | [] => Ok []
               | (k, a) :: r =>
                   match eval en k with
                   | Ok kx => match eval en a with
                              | Ok x => match go r with Ok xs => Ok ((val kx, val x) :: xs) | Err er => Err er end
                              | Err er => Err er
                              end
                   | Err er => Err er
                   end
               end) kvs with
      | Ok xs => Ok (fresh (VDict xs))
      | Err er => Err er
      end
  | EBad => Err SyntaxError
  | ECmp op a b =>
      match eval en a with
      | Ok x => match eval en b with
                | Ok y => match apply_cop op x y with Ok r => Ok (fresh (VBool r)) | Err er => Err er end
                | Err er => Err er
                end
      | Err er => Err er
      end
  | EIn a b =>
      match eval en a with
      | Ok x => match eval en b with
                | Ok y => match py_in (val x) (val y) with Ok r => Ok (fresh (VBool r)) | Err er => Err er end
                | Err er => Err er
                end
      | Err er => Err er
      end
  | EOr a b =>
      match eval en a with
      | Ok x => if truthy (val x) then Ok x else eval en b
      | Err er => Err er
      end
  | ENot a =>
      match eval en a with
      | Ok x => Ok (fresh (VBool (negb (truthy (val x)))))
      | Err er => Err er
      end
  end.

(* Does the text contain something that is not an expression?  (compile-time SyntaxError) *)
Fixpoint expr_bad (e : expr) : bool :=
  match e with
  | EBad => true
  | ENeg a | ENot a => expr_bad a
  | ETupleD es | EListD es =>
      (fix go (es : list expr) : bool := match es with [] => false | a :: r => expr_bad a || go r end) es
  | EDictD kvs =>
      (fix go (kvs : list (expr * expr)) : bool :=
         match kvs with [] => false | (k, a) :: r => expr_bad k || expr_bad a || go r end) kvs
  | ECmp _ a b | EIn a b | EOr a b => expr_bad a || expr_bad b
  | _ => false
  end.

(* ------------------------------------------------------- condition compiler *)
(* Result of get_skip_if_condition: False | True | the text "<op> <operand 2>". *)
Inductive gsc := GNone | GTruthy | GCmp (op : cop) (rhs : expr).

(* get_skip_if_condition(skip_if, _locals, operand_2): the text, and the entry
   added to `_locals` (when the value is not inlined). *)
Definition get_skip_if_condition (c : option cond) (var : name) : gsc * list (name * lval) :=
  match c with
  | None => (GNone, [])
  | Some c =>
      if t_or_f (c_op c) then (GTruthy, [])
      else if inlined (c_op c) (val (c_val c)) then (GCmp (c_op c) (repr_expr (val (c_val c))), [])
      else (GCmp (c_op c) (EFree var), [(var, c_val c)])
  end.

(* truthiness of what get_skip_if_condition returned (`if skip_if_condition:`) *)
Definition gsc_true (g : gsc) : bool := match g with GNone => false | _ => true end.

(* finalize_skip_if(skip_if, operand_1, conditional) *)
Definition finalize_skip_if (c : cond) (operand : expr) (g : gsc) : expr :=
  if t_or_f (c_op c) then
    match c_op c with OpTruthy => operand | _ => ENot operand end
  else match g with
       | GCmp op rhs => ECmp op operand rhs
       | _ => EBad
       end.

(* The compiled test of condition c on attribute f, with its closure entries. *)
Definition compile_cond (c : cond) (var : name) (f : pstr) : expr * list (name * lval) :=
  let g := get_skip_if_condition (Some c) var in
  (finalize_skip_if c (EField f) (fst g), snd g).

(* truthiness of the compiled test *)
Definition eval_test (en : env) (e : expr) : res bool :=
  match eval en e with Ok x => Ok (truthy (val x)) | Err er => Err er end.

(* ------------------------------------------------------------ the generator *)
Record fdesc := FD {
  f_name : pstr;
  f_key : option pstr;          (* None: dump=False / skip=True (ExplicitNull) *)
  f_default : option lval;      (* entry of dataclass_field_to_default *)
  f_cond : option cond;         (* entry of dataclass_field_to_skip_if *)
  f_value : lval                (* o.<f_name> of the instance being dumped *)
}.

Record cmeta := CM {
  m_skip_defaults : bool;
  m_skip_if : option cond;
  m_skip_defaults_if : option cond
}.

Inductive stmt :=
| SAssign (n : name) (e : expr)
| SIf (c : expr) (th el : list stmt)
| SAppend (key : pstr) (f : pstr).     (* result.append((key, asdict(o.f, ...))) *)

Definition meta_skip_gsc (m : cmeta) := get_skip_if_condition (m_skip_if m) NSkipValue.
Definition meta_sdi_gsc (m : cmeta) := get_skip_if_condition (m_skip_defaults_if m) NSkipDefaultsValue.

(* exclude_assignments:  _skip_i = 'f' in exclude *)
Fixpoint gen_excl (i : nat) (fs : list fdesc) : list stmt :=
  match fs with
  | [] => []
  | f :: r => SAssign (NSkip i) (EIn (EConst (VStr (f_name f))) (ELocal NExclude)) :: gen_excl (i + 1) r
  end.

(* _skip_0=_skip_1=...=False *)
Fixpoint gen_false (i : nat) (fs : list fdesc) : list stmt :=
  match fs with
  | [] => []
  | f :: r => SAssign (NSkip i) (EConst (VBool false)) :: gen_false (i + 1) r
  end.

(* skip_default_assignments *)
Fixpoint gen_dflt (m : cmeta) (i : nat) (fs : list fdesc) : list stmt :=
  match fs with
  | [] => []
  | f :: r =>
      match f_default f with
      | None => gen_dflt m (i + 1) r
      | Some _ =>
          let test :=
            if gsc_true (fst (meta_sdi_gsc m)) then
              match m_skip_defaults_if m with
              | Some c => finalize_skip_if c (EField (f_name f)) (fst (meta_sdi_gsc m))
              | None => EBad
              end
            else ECmp OpEq (EField (f_name f)) (EFree (NDefault i)) in
          SAssign (NSkip i) (EOr (ELocal (NSkip i)) test) :: gen_dflt m (i + 1) r
      end
  end.

(* field_assignments *)
Fixpoint gen_body (m : cmeta) (i : nat) (fs : list fdesc) : list stmt :=
  match fs with
  | [] => []
  | f :: r =>
      match f_key f with
      | None => gen_body m (i + 1) r
      | Some key =>
          let guard :=
            match f_cond f with
            | Some c => ENot (EOr (ELocal (NSkip i)) (fst (compile_cond c (NSkipIf i) (f_name f))))
            | None =>
                if gsc_true (fst (meta_skip_gsc m)) then
                  match m_skip_if m with
                  | Some c => ENot (EOr (ELocal (NSkip i)) (finalize_skip_if c (EField (f_name f)) (fst (meta_skip_gsc m))))
                  | None => EBad
                  end
                else ENot (ELocal (NSkip i))
            end in
          SIf guard [SAppend key (f_name f)] [] :: gen_body m (i + 1) r
      end
  end.

(* entries the field loop adds to `_locals` *)
Fixpoint gen_clo (m : cmeta) (i : nat) (fs : list fdesc) : list (name * lval) :=
  match fs with
  | [] => []
  | f :: r =>
      (match f_default f with
       | Some d => if gsc_true (fst (meta_sdi_gsc m)) then [] else [(NDefault i, d)]
       | None => []
       end) ++
      (match f_key f, f_cond f with
       | Some _, Some c => snd (compile_cond c (NSkipIf i) (f_name f))
       | _, _ => []
       end) ++ gen_clo m (i + 1) r
  end.

Definition gen_prog (m : cmeta) (fs : list fdesc) : list stmt :=
  match fs with
  | [] => []
  | _ =>
      SIf (ECmp OpIs (ELocal NExclude) (EConst VNone)) (gen_false 0 fs) (gen_excl 0 fs) ::
      (match gen_dflt m 0 fs with
       | [] => []
       | d => [SIf (ELocal NSkipDefaultsArg) d []]
       end) ++ gen_body m 0 fs
  end.

Definition gen_closure (m : cmeta) (fs : list fdesc) : list (name * lval) :=
  snd (meta_skip_gsc m) ++ snd (meta_sdi_gsc m) ++ gen_clo m 0 fs.

(* ---------------------------------------------------------- the interpreter *)
Record state := St { s_frame : list (name * lval); s_out : list (pstr * pstr) }.

Fixpoint exec_stmt (obj : list (pstr * lval)) (clo : list (name * lval)) (s : stmt) (st : state)
  {struct s} : res state :=
  match s with
  | SAssign n e =>
      match eval (Env obj clo (s_frame st)) e with
      | Ok x => Ok (St ((n, x) :: s_frame st) (s_out st))
      | Err er => Err er
      end
  | SAppend key f => Ok (St (s_frame st) (s_out st ++ [(key, f)]))
  | SIf c th el =>
      match eval (Env obj clo (s_frame st)) c with
      | Ok x =>
          (fix blk (l : list stmt) (st : state) : res state :=
             match l with
             | [] => Ok st
             | s' :: r => match exec_stmt obj clo s' st with Ok st' => blk r st' | Err er => Err er end
             end) (if truthy (val x) then th else el) st
      | Err er => Err er
      end
  end.

Fixpoint exec_block (obj : list (pstr * lval)) (clo : list (name * lval)) (l : list stmt) (st : state)
  : res state :=
  match l with
  | [] => Ok st
  | s :: r => match exec_stmt obj clo s st with Ok st' => exec_block obj clo r st' | Err er => Err er end
  end.

Fixpoint stmt_bad (s : stmt) : bool :=
  match s with
  | SAssign _ e => expr_bad e
  | SAppend _ _ => false
  | SIf c th el =>
      expr_bad c ||
      (fix go (l : list stmt) : bool := match l with [] => false | s' :: r => stmt_bad s' || go r end) th ||
      (fix go (l : list stmt) : bool := match l with [] => false | s' :: r => stmt_bad s' || go r end) el
  end.

Definition prog_bad (l : list stmt) : bool := existsb stmt_bad l.

(* The `skip_defaults` argument of to_dict / asdict. *)
Inductive sarg := SUnset | STrue | SFalse.

(* default of the generated parameter: True if meta.skip_defaults or meta.skip_defaults_if else False *)
Definition eff_skip_defaults (m : cmeta) (s : sarg) : bool :=
  match s with
  | SUnset => m_skip_defaults m || (match m_skip_defaults_if m with Some _ => true | None => false end)
  | STrue => true
  | SFalse => false
  end.

Definition exclude_val (E : option (list pstr)) : lval :=
  match E with
  | None => LV None VNone
  | Some l => LV None (VList (map VStr l))
  end.

Definition obj_of (fs : list fdesc) : list (pstr * lval) := map (fun f => (f_name f, f_value f)) fs.

(* cls_asdict(o, dict, exclude=E, skip_defaults=s): the (key, field) pairs in emission order.
   The function is compiled when first needed: a part that is not an expression
   makes that compilation fail with SyntaxError, whatever E and s are. *)
Definition cls_asdict (m : cmeta) (fs : list fdesc) (E : option (list pstr)) (s : sarg)
  : res (list (pstr * pstr)) :=
  let prog := gen_prog m fs in
  if prog_bad prog then Err SyntaxError
  else
    let frame0 := [(NExclude, exclude_val E); (NSkipDefaultsArg, LV None (VBool (eff_skip_defaults m s)))] in
    match exec_block (obj_of fs) (gen_closure m fs) prog (St frame0 []) with
    | Ok st => Ok (s_out st)
    | Err er => Err er
    end.

(* ------------------------------------------------- declarative reference *)
Section Reference.
  (* meaning of a condition on a value *)
  Variable csem : cond -> lval -> res bool.

  Definition excluded (E : option (list pstr)) (f : fdesc) : bool :=
    match E with None => false | Some l => mem_str (f_name f) l end.

  (* omitted because of skip_defaults / skip_defaults_if (only defaulted fields) *)
  Definition omit_default (m : cmeta) (se : bool) (f : fdesc) : res bool :=
    if se then
      match f_default f with
      | None => Ok false
      | Some d =>
          match m_skip_defaults_if m with
          | Some c => csem c (f_value f)
          | None => Ok (py_eq (val (f_value f)) (val d))
          end
      end
    else Ok false.

  (* the field's own condition, else Meta.skip_if *)
  Definition field_cond (m : cmeta) (f : fdesc) : option cond :=
    match f_cond f with Some c => Some c | None => m_skip_if m end.

  Definition omit_cond (m : cmeta) (f : fdesc) : res bool :=
    match field_cond m f with
    | None => Ok false
    | Some c => csem c (f_value f)
    end.

  (* pass 1: exclude, then defaults — nothing is evaluated for an excluded field *)
  Fixpoint ref_pass1 (m : cmeta) (E : option (list pstr)) (se : bool) (fs : list fdesc) : res (list bool) :=
    match fs with
    | [] => Ok []
    | f :: r =>
        match (if excluded E f then Ok true else omit_default m se f) with
        | Ok b => match ref_pass1 m E se r with Ok bs => Ok (b :: bs) | Err er => Err er end
        | Err er => Err er
        end
    end.

  (* pass 2: fields still present and dumpable are tested against their condition *)
  Fixpoint ref_pass2 (m : cmeta) (fs : list fdesc) (bs : list bool) : res (list (pstr * pstr)) :=
    match fs, bs with
    | f :: r, b :: bs' =>
        match f_key f with
        | None => ref_pass2 m r bs'
        | Some key =>
            match (if b then Ok true else omit_cond m f) with
            | Ok o => match ref_pass2 m r bs' with
                      | Ok ks => Ok (if o then ks else (key, f_name f) :: ks)
                      | Err er => Err er
                      end
            | Err er => Err er
            end
        end
    | _, _ => Ok []
    end.

  Definition ref_select (m : cmeta) (fs : list fdesc) (E : option (list pstr)) (s : sarg)
    : res (list (pstr * pstr)) :=
    match ref_pass1 m E (eff_skip_defaults m s) fs with
    | Ok bs => ref_pass2 m fs bs
    | Err er => Err er
    end.
End Reference.

(* Meaning of the generated text of condition c on value v: compile it for an
   attribute `f` and the closure variable `_skip_value`, evaluate it in the environment
   holding exactly what the generator provides.  (Lemma compile_cond_text_sem: the
   meaning is the same for every attribute name, variable name, frame and closure.) *)
Definition text_sem (c : cond) (v : lval) : res bool :=
  let ce := compile_cond c NSkipValue (S "f") in
  eval_test (Env [(S "f", v)] (snd ce) []) (fst ce).

(* Condition semantics of the generated code, including the compilation step. *)
Definition compiled_sem (c : cond) (v : lval) : res bool :=
  if expr_bad (fst (compile_cond c NSkipValue (S "f"))) then Err SyntaxError
  else text_sem c v.

(* ------------------------------------------------------------ safe region *)
(* repr(v) is an expression denoting a value equal to v *)
Fixpoint repr_ok (v : value) : bool :=
  match v with
  | VNone | VEllipsis | VBool _ | VInt _ | VStr _ => true
  | VFloat f => match f with FNan | FInf _ => false | _ => true end
  | VTuple l => (fix go (l : list value) : bool := match l with [] => true | x :: r => repr_ok x && go r end) l
  | _ => false
  end.

(* Sufficient condition under which the compiled condition provably agrees with
   Condition.evaluate: truthy/falsy tests; values bound through a closure variable (not
   `inlined`); inlined values whose repr denotes them, except `is`/`is not` against an
   inlined non-singleton (the literal is another object).  Since the F20 repair EVERY
   condition satisfies it (lemma cond_safe_all); before, the complement was the finding. *)
Definition cond_safe (c : cond) : bool :=
  t_or_f (c_op c) ||
  negb (inlined (c_op c) (val (c_val c))) ||
  (repr_ok (val (c_val c)) && (negb (is_identity_op (c_op c)) || is_singleton (val (c_val c)))).

Definition ocond_safe (c : option cond) : bool :=
  match c with Some c => cond_safe c | None => true end.

Definition cls_safe (m : cmeta) (fs : list fdesc) : bool :=
  ocond_safe (m_skip_if m) && ocond_safe (m_skip_defaults_if m) &&
  forallb (fun f => ocond_safe (f_cond f)) fs.

(* ---------------------------------------------------------------- encoders *)
Fixpoint show_pos (p : positive) : pstr :=
  match p with
  | xH => S "1"
  | xO q => show_pos q ++ S "0"
  | xI q => show_pos q ++ S "1"
  end.

Definition show_Z (z : Z) : pstr :=
  match z with
  | Z0 => S "0"
  | Zpos p => show_pos p
  | Zneg p => S "-" ++ show_pos p
  end.

Definition show_err (e : perr) : pstr :=
  match e with
  | TypeError => S "TypeError" | NameError => S "NameError" | SyntaxError => S "SyntaxError"
  | AttributeError => S "AttributeError" | Unspecified => S "Unspecified"
  end.

Definition show_rbool (r : res bool) : pstr :=
  match r with Ok true => S "T" | Ok false => S "F" | Err e => S "E:" ++ show_err e end.

Definition show_keys (r : res (list (pstr * pstr))) : pstr :=
  match r with
  | Ok ks => S "K:" ++ join (S ",") (map (fun kf => hex (fst kf) ++ S "=" ++ hex (snd kf)) ks)
  | Err e => S "E:" ++ show_err e
  end.

Definition show_float (f : pyfloat) : pstr :=
  match f with
  | FNan => S "nan"
  | FInf false => S "inf"
  | FInf true => S "-inf"
  | FNegZero => S "-0"
  | FFin m e => show_Z m ++ S "p" ++ show_Z e
  end.

Fixpoint show_expr (e : expr) : pstr :=
  match e with
  | EConst VNone => S "None"
  | EConst (VBool true) => S "True"
  | EConst (VBool false) => S "False"
  | EConst (VInt z) => S "i" ++ show_Z z
  | EConst (VFloat f) => S "f" ++ show_float f
  | EConst (VStr s) => S "s" ++ hex s
  | EConst _ => S "?"
  | EBuiltin s => S "name:" ++ s
  | ELocal (NSkip i) | EFree (NSkip i) => S "name:_skip_" ++ show_Z (Z.of_nat i)
  | ELocal (NSkipIf i) | EFree (NSkipIf i) => S "name:_skip_if_" ++ show_Z (Z.of_nat i)
  | ELocal (NDefault i) | EFree (NDefault i) => S "name:_default_" ++ show_Z (Z.of_nat i)
  | ELocal NSkipValue | EFree NSkipValue => S "name:_skip_value"
  | ELocal NSkipDefaultsValue | EFree NSkipDefaultsValue => S "name:_skip_defaults_value"
  | ELocal NExclude | EFree NExclude => S "name:exclude"
  | ELocal NSkipDefaultsArg | EFree NSkipDefaultsArg => S "name:skip_defaults"
  | EField f => S "o." ++ f
  | ENeg a => S "neg(" ++ show_expr a ++ S ")"
  | ETupleD es => S "tuple(" ++ (fix go (es : list expr) : pstr :=
                                   match es with [] => [] | a :: r => show_expr a ++ S ";" ++ go r end) es ++ S ")"
  | EListD es => S "list(" ++ (fix go (es : list expr) : pstr :=
                                 match es with [] => [] | a :: r => show_expr a ++ S ";" ++ go r end) es ++ S ")"
  | EDictD kvs => S "dict(" ++ (fix go (kvs : list (expr * expr)) : pstr :=
                                  match kvs with [] => [] | (k, a) :: r => show_expr k ++ S ":" ++ show_expr a ++ S ";" ++ go r end) kvs ++ S ")"
  | EBad => S "BAD"
  | ECmp op a b => S "cmp(" ++ cop_text op ++ S ";" ++ show_expr a ++ S ";" ++ show_expr b ++ S ")"
  | EIn a b => S "in(" ++ show_expr a ++ S ";" ++ show_expr b ++ S ")"
  | EOr a b => S "or(" ++ show_expr a ++ S ";" ++ show_expr b ++ S ")"
  | ENot a => S "not(" ++ show_expr a ++ S ")"
  end.

Fixpoint show_stmt (s : stmt) : pstr :=
  match s with
  | SAssign n e => S "set(" ++ show_expr (ELocal n) ++ S ";" ++ show_expr e ++ S ")"
  | SAppend key f => S "append(" ++ hex key ++ S ";" ++ f ++ S ")"
  | SIf c th el =>
      S "if(" ++ show_expr c ++ S ";" ++
      (fix go (l : list stmt) : pstr := match l with [] => [] | s' :: r => show_stmt s' ++ go r end) th ++ S ";" ++
      (fix go (l : list stmt) : pstr := match l with [] => [] | s' :: r => show_stmt s' ++ go r end) el ++ S ")"
  end.

Definition show_prog (l : list stmt) : pstr := flat_map show_stmt l.
