(* ObjPath.v — model of dataclass_wizard/utils/object_path.py:split_object_path,
   a character-by-character tokenizer with nine state variables, transcribed
   branch for branch (same order of tests).  `int(s)` / `float(s)` are builtins:
   a token the tokenizer marks "possible number" is returned as `TNum s` and is
   interpreted by `interp` through oracle functions (Section variables in the
   proofs; the harness applies Python's own int()/float() to the token).
   The truthy / falsy spellings come from the regenerated table T_ObjPath.
   No proofs in this file. *)
From DW Require Export PyStr.
From DW Require Import T_ObjPath.

Inductive tok :=
| TStr (s : pstr)        (* appended as a str *)
| TNum (s : pstr)        (* try int(s), then float(s), else the str itself *)
| TBool (b : bool).

Record st := {
  res : list tok;
  cur : pstr;                    (* s *)
  start_new : bool;
  in_literal : bool;
  parsed_lit : bool;             (* parsed_string_literal *)
  in_braces : bool;
  esc : bool;                    (* escape_next_quote *)
  quote : option ascii;          (* quote_char *)
  poss_num : bool                (* possible_number *)
}.

Definition init : st :=
  {| res := []; cur := []; start_new := true; in_literal := false; parsed_lit := false;
     in_braces := false; esc := false; quote := None; poss_num := false |}.

Definition c_lbr : ascii := "["%char.
Definition c_rbr : ascii := "]"%char.
Definition c_bsl : ascii := ch 92.
Definition c_dq  : ascii := ch 34.
Definition c_sq  : ascii := "'"%char.
Definition c_plus : ascii := "+"%char.

Definition is_start_sep (c : ascii) : bool := mem_str [c] path_start_sep.

(* the token a non-empty pending string becomes; also returns the flags as the code resets them *)
Definition classify (s : pstr) (pn pl : bool) : tok :=
  if pn then TNum s
  else if pl then TStr s
  else if mem_str s path_truthy then TBool true
  else if mem_str s path_falsy then TBool false
  else TStr s.

Definition quote_is (q : option ascii) (c : ascii) : bool :=
  match q with Some x => ascii_eqb x c | None => false end.

Definition snoc (s : pstr) (c : ascii) : pstr := s ++ [c].

Definition step (t : st) (c : ascii) : st :=
  if is_start_sep c then
    if in_literal t then
      {| res := res t; cur := snoc (cur t) c; start_new := start_new t; in_literal := in_literal t;
         parsed_lit := parsed_lit t; in_braces := in_braces t; esc := esc t; quote := quote t;
         poss_num := poss_num t |}
    else if ascii_eqb c c_dot && in_braces t then
      (* a period within braces is captured; `continue` *)
      {| res := res t; cur := snoc (cur t) c; start_new := start_new t; in_literal := in_literal t;
         parsed_lit := parsed_lit t; in_braces := in_braces t; esc := esc t; quote := quote t;
         poss_num := poss_num t |}
    else
      let br := negb (ascii_eqb c c_dot) in          (* '.' -> False, '[' -> True *)
      match cur t with
      | [] =>
          {| res := res t; cur := []; start_new := true; in_literal := in_literal t;
             parsed_lit := parsed_lit t; in_braces := br; esc := esc t; quote := quote t;
             poss_num := poss_num t |}
      | _ =>
          {| res := res t ++ [classify (cur t) (poss_num t) (parsed_lit t)];
             cur := []; start_new := true; in_literal := in_literal t;
             (* possible_number is reset when set; parsed_string_literal only when reached *)
             parsed_lit := if poss_num t then parsed_lit t else false;
             in_braces := br; esc := esc t; quote := quote t;
             poss_num := false |}
      end
  else if ascii_eqb c c_bsl && in_literal t then
    {| res := res t; cur := cur t; start_new := start_new t; in_literal := in_literal t;
       parsed_lit := parsed_lit t; in_braces := in_braces t; esc := true; quote := quote t;
       poss_num := poss_num t |}
  else if esc t then
    {| res := res t;
       cur := if quote_is (quote t) c then snoc (cur t) c else snoc (snoc (cur t) c_bsl) c;
       start_new := start_new t; in_literal := in_literal t;
       parsed_lit := parsed_lit t; in_braces := in_braces t; esc := false; quote := quote t;
       poss_num := poss_num t |}
  else if quote_is (quote t) c then
    {| res := res t; cur := cur t; start_new := start_new t; in_literal := false;
       parsed_lit := true; in_braces := in_braces t; esc := esc t; quote := None;
       poss_num := poss_num t |}
  else if (ascii_eqb c c_dq || ascii_eqb c c_sq) && start_new t then
    {| res := res t; cur := cur t; start_new := false; in_literal := true;
       parsed_lit := parsed_lit t; in_braces := in_braces t; esc := esc t; quote := Some c;
       poss_num := poss_num t |}
  else if (ascii_eqb c c_plus || ascii_eqb c c_dash || is_digit c) && start_new t then
    {| res := res t; cur := snoc (cur t) c; start_new := false; in_literal := in_literal t;
       parsed_lit := parsed_lit t; in_braces := in_braces t; esc := esc t; quote := quote t;
       poss_num := true |}
  else if start_new t then
    {| res := res t; cur := snoc (cur t) c; start_new := false; in_literal := in_literal t;
       parsed_lit := parsed_lit t; in_braces := in_braces t; esc := esc t; quote := quote t;
       poss_num := poss_num t |}
  else if ascii_eqb c c_rbr then
    if in_literal t then
      {| res := res t; cur := snoc (cur t) c; start_new := start_new t; in_literal := in_literal t;
         parsed_lit := parsed_lit t; in_braces := in_braces t; esc := esc t; quote := quote t;
         poss_num := poss_num t |}
    else
      {| res := res t; cur := cur t; start_new := start_new t; in_literal := in_literal t;
         parsed_lit := parsed_lit t; in_braces := false; esc := esc t; quote := quote t;
         poss_num := poss_num t |}
  else
    {| res := res t; cur := snoc (cur t) c; start_new := start_new t; in_literal := in_literal t;
       parsed_lit := parsed_lit t; in_braces := in_braces t; esc := esc t; quote := quote t;
       poss_num := poss_num t |}.

Definition finish (t : st) : list tok :=
  match cur t with
  | [] => res t
  | _ => res t ++ [classify (cur t) (poss_num t) (parsed_lit t)]
  end.

Definition split_object_path (s : pstr) : list tok := finish (fold_left step s init).

(* ---- interpretation of tokens and a renderer ----------------------------- *)
Inductive comp := CStr (s : pstr) | CInt (n : Z) | CFloat (f : pstr) | CBool (b : bool).

(* safe_get: follow a path through nested assoc-list dicts / lists is modelled
   in the load/dump models; here only the denotation of a path string. *)
