(* PropWiz.v — executable model of dataclass_wizard/property_wizard.py (C16).

   A class body is a list of statements (annotated field with optional value,
   plain assignment, property definition); executing it gives the class
   namespace and __annotations__ with Python's shadowing (a name bound twice
   keeps its first position and its last value; the annotation survives).
   `property_wizard` is the loop of property_wizard.py:36-59 with its two
   passes `_process_public_property` / `_process_underscored_property`;
   `dfa` is `_default_from_annotation` (lines 200-299) over a small type
   language; `dataclass_fields` / `construct` are the part of `dataclasses`
   the property relies on (class attribute = default; a missing argument
   passes the class attribute, i.e. the property object, to the setter);
   `wrapped_value` is `_wrapper` (lines 302-332).
   Object identity of default_factory products is an allocation counter.
   No inheritance (the class has no bases).  No proofs in this file. *)
From DW Require Export PyStr.

(* ---- values ------------------------------------------------------------ *)
(* concrete classes the annotations mention; CNoZero = a class whose no-arg
   call raises TypeError (datetime, Any, abstract collections) *)
Inductive conc := CInt | CStr | CFloat | CBool | CBytes | CTuple | CFrozenset
                | CList | CDict | CSet | CNoZero
                | COrdDict | CDefDict | CCounter | CMyList    (* subclasses of dict / list: OrderedDict,
                                                                 defaultdict, Counter, a user list subclass *)
                | CMySet                                      (* a user subclass of set *)
                | CUserObj                                    (* a user class with a no-argument constructor that is
                                                                 not a collection: its "zero value" is ONE instance,
                                                                 made when the class using it is created *)
                | CDeque.                                     (* collections.deque: mutable, but not a list/dict/set:
                                                                 one shared instance as well *)

Inductive factory :=
| FacConc (c : conc)        (* default_factory=list / str / ... *)
| FacUser (tag : N).        (* default_factory=lambda: [tag] *)

Inductive value :=
| VNone
| VInt (z : Z)
| VStr (s : pstr)
| VBool (b : bool)
| VZero (c : conc)                 (* 0.0, b'', (), frozenset() *)
| VNew (f : factory) (id : N)      (* a mutable object with identity *)
| VPropObj.                        (* a `property` instance *)

Definition is_prop (v : value) : bool := match v with VPropObj => true | _ => false end.

Definition has_zero (c : conc) : bool := match c with CNoZero => false | _ => true end.
Definition mutable (c : conc) : bool :=
  match c with CList | CDict | CSet | COrdDict | CDefDict | CCounter | CMyList | CMySet => true | _ => false end.

Definition zero (c : conc) : value :=
  match c with
  | CInt => VInt 0 | CStr => VStr [] | CBool => VBool false
  | _ => VZero c
  end.

(* dataclasses.Field, as far as property_wizard looks at it *)
Record fdef := { fd_default : option value; fd_factory : option factory }.
Definition fd_empty : fdef := {| fd_default := None; fd_factory := None |}.
Definition fd_def (v : value) : fdef := {| fd_default := Some v; fd_factory := None |}.
Definition fd_fac (f : factory) : fdef := {| fd_default := None; fd_factory := Some f |}.
Definition fd_has (fd : fdef) : bool :=
  match fd_default fd, fd_factory fd with None, None => false | _, _ => true end.

(* ---- annotations --------------------------------------------------------- *)
Inductive gorigin := GConc (c : conc) | GAbstract | GClassVar.
Inductive extra := EField (fd : fdef) | EOther.

Inductive ty :=
| TConc (c : conc)                      (* int, str, list, datetime ... *)
| TNoneType                             (* None / NoneType *)
| TUnion (args : list ty)               (* Union[...] / Optional[...] / A | B *)
| TLiteral (vs : list value)
| TGen (o : gorigin) (inst : bool)      (* List[int], dict[str,int], Sequence[int], ClassVar[int];
                                           inst: the alias itself can be called (list[int]() works,
                                           typing.List[int]() raises TypeError) *)
| TAnnot (inner : ty) (extras : list extra)
| TRef (target : option ty).            (* string / ForwardRef; None = unresolvable *)

Definition is_nonetype (t : ty) : bool := match t with TNoneType => true | _ => false end.
Definition is_classvar (t : ty) : bool := match t with TGen GClassVar _ => true | _ => false end.

(* calling the annotation object with no arguments: Some c = an instance of c
   (its zero value), None = TypeError *)
Fixpoint call_ty (t : ty) : option conc :=
  match t with
  | TConc c => if has_zero c then Some c else None
  | TGen (GConc c) true => if has_zero c then Some c else None
  | TAnnot inner _ => call_ty inner
  | _ => None
  end.

(* _default_from_type *)
Definition from_type (t : ty) : fdef :=
  match call_ty t with
  | None => fd_empty
  | Some c => if mutable c then fd_fac (FacConc c) else fd_def (zero c)
  end.

(* _default_from_typing_args: None (the Python value) or the first argument *)
Definition typing_args_default (args : list ty) : option ty :=
  if existsb is_nonetype args then None else hd_error args.

Fixpoint first_field (es : list extra) : option fdef :=
  match es with
  | [] => None
  | EField fd :: _ => Some fd
  | EOther :: r => first_field r
  end.

(* _default_from_annotation (with _default_from_generic_type inlined) *)
Fixpoint dfa (t : ty) : fdef :=
  match t with
  | TRef None => fd_empty
  | TRef (Some t') => dfa t'
  | TAnnot inner es =>
      match first_field es with
      | Some fd => if fd_has fd then fd else dfa inner
      | None => dfa inner
      end
  | TLiteral vs => fd_def (match vs with v :: _ => v | [] => VNone end)
  | TUnion args =>
      match typing_args_default args with
      | Some a => from_type a
      | None => fd_empty
      end
  | TGen o _ => from_type (TGen o true)      (* _default_from_type(origin) *)
  | TConc _ => from_type t
  | TNoneType => fd_empty
  end.

(* _process_field *)
Definition process_field (fd : fdef) (t : option ty) : fdef * bool :=
  if fd_has fd then (fd, true)
  else (match t with Some t => dfa t | None => fd_empty end, false).

(* ---- ordered dictionaries --------------------------------------------------- *)
Definition dict (A : Type) := list (pstr * A).

Fixpoint dget {A} (k : pstr) (d : dict A) : option A :=
  match d with
  | [] => None
  | (k', v) :: r => if pstr_eqb k k' then Some v else dget k r
  end.

Fixpoint dset {A} (k : pstr) (v : A) (d : dict A) : dict A :=
  match d with
  | [] => [(k, v)]
  | (k', v') :: r => if pstr_eqb k k' then (k', v) :: r else (k', v') :: dset k v r
  end.

Definition ddel {A} (k : pstr) (d : dict A) : dict A :=
  filter (fun e => negb (pstr_eqb k (fst e))) d.

Definition dmem {A} (k : pstr) (d : dict A) : bool :=
  match dget k d with Some _ => true | None => false end.

(* ---- class bodies --------------------------------------------------------------- *)
Inductive rhs := RVal (v : value) | RField (fd : fdef).

Inductive stmt :=
| SAnn (n : pstr) (t : ty) (r : option rhs)     (* n: T  /  n: T = rhs *)
| SAssign (n : pstr) (r : rhs)                   (* n = rhs *)
| SPropDef (n : pstr) (settable : bool).            (* @property def n [+ @n.setter def n] *)

(* class attribute values *)
Inductive cval :=
| CVal (v : value)
| CFieldObj (fd : fdef)
| CProp (settable : bool) (wrapped : option fdef).   (* Some fval: setter replaced by _wrapper(fset, fval) *)

Definition cval_of_rhs (r : rhs) : cval :=
  match r with RVal v => CVal v | RField fd => CFieldObj fd end.

Record cls := { anns : dict ty; attrs : dict cval }.

Definition exec_stmt (c : cls) (s : stmt) : cls :=
  match s with
  | SAnn n t None => {| anns := dset n t (anns c); attrs := attrs c |}
  | SAnn n t (Some r) => {| anns := dset n t (anns c); attrs := dset n (cval_of_rhs r) (attrs c) |}
  | SAssign n r => {| anns := anns c; attrs := dset n (cval_of_rhs r) (attrs c) |}
  | SPropDef n s => {| anns := anns c; attrs := dset n (CProp s None) (attrs c) |}
  end.

Definition exec_body (b : list stmt) : cls :=
  fold_left exec_stmt b {| anns := []; attrs := [] |}.

(* ---- property_wizard ------------------------------------------------------------- *)
Definition us : pstr := [c_us].
Definition under_of (public : pstr) : pstr := c_us :: public.

Fixpoint lstrip_us (s : pstr) : pstr :=
  match s with
  | c :: r => if ascii_eqb c c_us then lstrip_us r else s
  | [] => []
  end.

Definition starts_us (s : pstr) : bool :=
  match s with c :: _ => ascii_eqb c c_us | [] => false end.

(* state of the loop: current class attributes + annotation_repls *)
Record pwst := { cur : dict cval; repls : dict pstr }.

(* the default a non-Field class attribute contributes *)
Definition attr_value (c : cval) : value :=
  match c with CVal v => v | _ => VPropObj end.

Definition process_public (an : dict ty) (st : pwst) (public : pstr) : pwst :=
  let under := under_of public in
  if negb (dmem public an) && negb (dmem under an) then st
  else
    let '(fval, is_set, cur1, repls1) :=
      if dmem under an then
        let repls1 := dset under public (repls st) in
        match dget under (cur st) with
        | None => (match dget under an with Some t => dfa t | None => fd_empty end, false, cur st, repls1)
        | Some (CFieldObj fd) =>
            let '(fv, s) := process_field fd (dget under an) in (fv, s, ddel under (cur st), repls1)
        | Some c => (fd_def (attr_value c), true, ddel under (cur st), repls1)
        end
      else (fd_empty, false, cur st, repls st) in
    let fval2 :=
      if dmem public an && negb is_set
      then (match dget public an with Some t => dfa t | None => fd_empty end)
      else fval in
    {| cur := dset public (CProp true (Some fval2)) cur1; repls := repls1 |}.

Definition process_underscored (an : dict ty) (st : pwst) (under : pstr) : pwst :=
  let public := lstrip_us under in
  if negb (dmem public an) && negb (dmem under an) then st
  else
    let '(fval1, repls1) :=
      if dmem under an
      then (match dget under an with Some t => dfa t | None => fd_empty end, dset under public (repls st))
      else (fd_empty, repls st) in
    let fval2 :=
      if dmem public an then
        let f0 := match dget public an with Some t => dfa t | None => fd_empty end in
        match dget public (cur st) with
        | None => f0
        | Some (CFieldObj fd) => fst (process_field fd (dget public an))
        | Some c => fd_def (attr_value c)       (* fval = dataclass_field(default=v) *)
        end
      else fval1 in
    {| cur := ddel under (dset public (CProp true (Some fval2)) (cur st)); repls := repls1 |}.

Definition pw_step (an : dict ty) (st : pwst) (item : pstr * cval) : pwst :=
  match item with
  | (f, CProp true _) =>
      if starts_us f then process_underscored an st f else process_public an st f
  | _ => st
  end.

(* {annotation_repls.get(f, f): ftype for f, ftype in annotations.items()} *)
Definition rename_anns (rp : dict pstr) (an : dict ty) : dict ty :=
  fold_left (fun acc e => dset (match dget (fst e) rp with Some g => g | None => fst e end) (snd e) acc) an [].

Definition property_wizard (c : cls) : cls :=
  let st := fold_left (pw_step (anns c)) (attrs c) {| cur := attrs c; repls := [] |} in
  {| anns := match repls st with [] => anns c | _ => rename_anns (repls st) (anns c) end;
     attrs := cur st |}.

(* ---- dataclasses ---------------------------------------------------------------- *)
Inductive fdefault :=
| DReq                               (* no default: required parameter *)
| DVal (v : value)
| DFac (f : factory)
| DPropObj.                          (* the class attribute is a property object *)

Inductive cerr :=
| EFieldNoAnnotation (n : pstr)      (* TypeError: 'n' is a field but has no type annotation *)
| ENonDefaultAfterDefault (n : pstr) (* TypeError: non-default argument follows default argument *)
| EMissingArg (n : pstr)             (* TypeError: missing required argument *)
| EUnexpectedArg (n : pstr)          (* TypeError: unexpected keyword argument *)
| EReadOnly (n : pstr).              (* AttributeError: property has no setter *)

Inductive result (A : Type) := Ok (a : A) | Err (e : cerr).
Arguments Ok {A} a.
Arguments Err {A} e.

Definition field_default (at_ : dict cval) (n : pstr) : fdefault :=
  match dget n at_ with
  | None => DReq
  | Some (CVal v) => DVal v
  | Some (CFieldObj fd) =>
      match fd_default fd, fd_factory fd with
      | Some v, _ => DVal v
      | None, Some f => DFac f
      | None, None => DReq
      end
  | Some (CProp _ _) => DPropObj
  end.

Definition has_dflt (d : fdefault) : bool := match d with DReq => false | _ => true end.

Fixpoint stray_field (an : dict ty) (at_ : dict cval) : option pstr :=
  match at_ with
  | [] => None
  | (n, CFieldObj _) :: r => if dmem n an then stray_field an r else Some n
  | _ :: r => stray_field an r
  end.

Fixpoint order_error (seen_default : bool) (fs : list (pstr * fdefault)) : option pstr :=
  match fs with
  | [] => None
  | (n, d) :: r =>
      if has_dflt d then order_error true r
      else if seen_default then Some n else order_error false r
  end.

(* the __init__ parameters, in order *)
Definition dataclass_fields (c : cls) : result (list (pstr * fdefault)) :=
  match stray_field (anns c) (attrs c) with
  | Some n => Err (EFieldNoAnnotation n)
  | None =>
      let fs := map (fun e => (fst e, field_default (attrs c) (fst e)))
                    (filter (fun e => negb (is_classvar (snd e))) (anns c)) in
      match order_error false fs with
      | Some n => Err (ENonDefaultAfterDefault n)
      | None => Ok fs
      end
  end.

(* ---- instances -------------------------------------------------------------------- *)
Definition call_factory (f : factory) (next : N) : value * N :=
  match f with
  | FacConc c => if mutable c then (VNew f next, (next + 1)%N) else (zero c, next)
  | FacUser _ => (VNew f next, (next + 1)%N)
  end.

(* _wrapper: new_fset(self, value) *)
Definition wrapped_value (w : option fdef) (v : value) (next : N) : value * N :=
  match w with
  | None => (v, next)
  | Some fd =>
      if is_prop v then
        match fd_factory fd with
        | Some f => call_factory f next
        | None => (match fd_default fd with Some d => d | None => VNone end, next)
        end
      else (v, next)
  end.

Record run := { log : list (pstr * value); inst : dict value; nxt : N }.

(* setattr(instance, n, v) for a class with attributes at_; the instrumented
   setter of the property bound at `n` logs (n, value) and stores it in _n *)
Definition set_attr (at_ : dict cval) (r : run) (n : pstr) (v : value) : result run :=
  match dget n at_ with
  | Some (CProp true w) =>
      let '(v', nx) := wrapped_value w v (nxt r) in
      Ok {| log := log r ++ [(n, v')]; inst := dset (under_of n) v' (inst r); nxt := nx |}
  | Some (CProp false _) => Err (EReadOnly n)
  | _ => Ok {| log := log r; inst := dset n v (inst r); nxt := nxt r |}
  end.

(* getattr(instance, n): a property bound at n returns self._n (the instrumented
   getter); otherwise instance dictionary, then class attribute (dataclasses has
   replaced a Field object by its default, or removed it) *)
Definition plain_get (at_ : dict cval) (i : dict value) (n : pstr) : option value :=
  match dget n i with
  | Some v => Some v
  | None =>
      match dget n at_ with
      | Some (CVal v) => Some v
      | Some (CFieldObj fd) => fd_default fd
      | _ => None
      end
  end.
Definition get_attr (at_ : dict cval) (i : dict value) (n : pstr) : option value :=
  match dget n at_ with
  | Some (CProp _ _) => plain_get at_ i (under_of n)
  | _ => plain_get at_ i n
  end.

Fixpoint init_fields (at_ : dict cval) (fs : list (pstr * fdefault)) (args : dict value) (r : run)
  : result run :=
  match fs with
  | [] => Ok r
  | (n, d) :: rest =>
      let step (v : value) (r' : run) :=
        match set_attr at_ r' n v with
        | Ok r'' => init_fields at_ rest args r''
        | Err e => Err e
        end in
      match dget n args with
      | Some v => step v r
      | None =>
          match d with
          | DReq => Err (EMissingArg n)
          | DVal v => step v r
          | DFac f => let '(v, nx) := call_factory f (nxt r) in
                      step v {| log := log r; inst := inst r; nxt := nx |}
          | DPropObj => step VPropObj r
          end
      end
  end.

Fixpoint unexpected (fs : list (pstr * fdefault)) (args : dict value) : option pstr :=
  match args with
  | [] => None
  | (n, _) :: r => if dmem n fs then unexpected fs r else Some n
  end.

(* calling the class with keyword arguments args; allocation counter next *)
Definition construct (c : cls) (args : dict value) (next : N) : result run :=
  match dataclass_fields c with
  | Err e => Err e
  | Ok fs =>
      match unexpected fs args with
      | Some n => Err (EUnexpectedArg n)
      | None => init_fields (attrs c) fs args {| log := []; inst := []; nxt := next |}
      end
  end.

(* the class as Python sees it after `@dataclass class K(metaclass=property_wizard)` *)
Definition make_class (b : list stmt) : cls := property_wizard (exec_body b).

(* ---- declarations (the documented styles) ------------------------------------------ *)
Inductive style :=
| PubUnder      (* public property x, field _x *)
| PubPub        (* public property x, field x (same name: only the annotation survives) *)
| UnderPub      (* property _x, field x *)
| UnderUnder.   (* property _x, field _x (same name) *)

Inductive decl :=
| DProp (st : style) (x : pstr) (t : ty) (r : option rhs)   (* a field property with public name x *)
| DPlain (x : pstr) (t : ty) (r : option rhs)               (* an ordinary dataclass field *)
| DReadOnly (x : pstr)                                      (* read-only property, no field *)
| DOrdinary (x : pstr).                                     (* settable property, no field *)

Definition decl_name (d : decl) : pstr :=
  match d with DProp _ x _ _ => x | DPlain x _ _ => x | DReadOnly x => x | DOrdinary x => x end.

Definition field_stmts (d : decl) : list stmt :=
  match d with
  | DProp PubUnder x t r | DProp UnderUnder x t r => [SAnn (under_of x) t r]
  | DProp PubPub x t r | DProp UnderPub x t r => [SAnn x t r]
  | DPlain x t r => [SAnn x t r]
  | _ => []
  end.

Definition prop_stmts (d : decl) : list stmt :=
  match d with
  | DProp PubUnder x _ _ | DProp PubPub x _ _ => [SPropDef x true]
  | DProp UnderPub x _ _ | DProp UnderUnder x _ _ => [SPropDef (under_of x) true]
  | DPlain _ _ _ => []
  | DReadOnly x => [SPropDef x false]
  | DOrdinary x => [SPropDef x true]
  end.

(* two layouts: each field directly followed by its property / all fields first *)
Definition body_blocks (ds : list decl) : list stmt :=
  flat_map (fun d => field_stmts d ++ prop_stmts d) ds.
Definition body_fields_first (ds : list decl) : list stmt :=
  flat_map field_stmts ds ++ flat_map prop_stmts ds.
