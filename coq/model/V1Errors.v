(* V1Errors.v — error values of the v1 engine (C14).
   errors.py:55-146: class_name / field_name / json_object setters keep their
   first non-None value (ParseError family); MissingFields / UnknownKeysError
   set class_name at construction and have NO field_name / json_object property
   (a later assignment is a plain attribute: last writer wins).
   v1/loaders.py:1340-1372: re_raise.
   No proofs in this file. *)
From DW Require Import PyStr V1Base.
From Coq Require Import List Bool.
Import ListNotations.

(* the class_name getter: `self._class_name or self._default_class_name` *)
Definition class_name (e : liberr) : option pstr :=
  match e_cls e with Some c => Some c | None => e_dflt e end.

Definition parse_family (e : liberr) : bool :=
  match e_kind e with KParse | KMissingData => true | _ => false end.

(* JSONWizardError.class_name setter (errors.py:59-66): once only *)
Definition set_class (e : liberr) (c : pstr) : liberr :=
  match e_cls e with
  | Some _ => e
  | None => {| e_kind := e_kind e; e_cls := Some c; e_dflt := e_dflt e; e_fld := e_fld e;
               e_obj := e_obj e; e_json := e_json e; e_names := e_names e |}
  end.

(* ParseError.field_name setter (errors.py:131-134): once only; other classes: plain attribute *)
Definition set_field (e : liberr) (f : pstr) : liberr :=
  if parse_family e && (match e_fld e with Some _ => true | None => false end) then e
  else {| e_kind := e_kind e; e_cls := e_cls e; e_dflt := e_dflt e; e_fld := Some f;
          e_obj := e_obj e; e_json := e_json e; e_names := e_names e |}.

(* ParseError.json_object setter (errors.py:140-143) *)
Definition set_json (e : liberr) (o : pv) : liberr :=
  if parse_family e && (match e_json e with Some _ => true | None => false end) then e
  else {| e_kind := e_kind e; e_cls := e_cls e; e_dflt := e_dflt e; e_fld := e_fld e;
          e_obj := e_obj e; e_json := Some o; e_names := e_names e |}.

(* constructors *)
Definition mk_parse (obj : pv) : liberr :=
  {| e_kind := KParse; e_cls := None; e_dflt := None; e_fld := None;
     e_obj := obj; e_json := None; e_names := [] |}.
Definition mk_parse_dflt (obj : pv) (cls : pstr) : liberr :=
  {| e_kind := KParse; e_cls := None; e_dflt := Some cls; e_fld := None;
     e_obj := obj; e_json := None; e_names := [] |}.
Definition mk_missing_data : liberr :=
  {| e_kind := KMissingData; e_cls := None; e_dflt := None; e_fld := None;
     e_obj := VNone; e_json := None; e_names := [] |}.
Definition mk_missing_fields (cls : pstr) (obj : pv) (names : list pstr) : liberr :=
  {| e_kind := KMissingFields; e_cls := Some cls; e_dflt := None; e_fld := None;
     e_obj := obj; e_json := None; e_names := names |}.

Definition is_library (x : exn) : bool := match x with XLib _ => true | _ => false end.
(* the two markers of the MODEL (budget / oracle table), not Python exceptions *)
Definition is_marker (x : exn) : bool := match x with XFuel | XOracle => true | _ => false end.

(* re_raise(e, cls, o, fields, field, value)  — v1/loaders.py:1340-1372 *)
Definition re_raise (e : exn) (cls : pstr) (o : pv) (field : pstr) (value : pv) : exn :=
  if is_marker e then e
  else if is_none o then XLib mk_missing_data
  else
    let le :=
      if negb (is_dict o) then mk_parse_dflt o cls
      else match e with
           | XLib l => l
           | _ => mk_parse value
           end in
    XLib (set_json (set_field (set_class le cls) field) o).
