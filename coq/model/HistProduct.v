(* HistProduct.v — the two state machines of C06 side by side: StateModel.v (module-level tables of the default
   engine, Meta, inheritance, nesting) and HistValueModel.v (typed values, both engines' generated loaders, shared
   annotation objects, value-level memo).  A history interleaves operations of both (the typed machine with the library's
   policy shared_pat = false).  No proofs. *)
From DW Require Import PyStr StrConv StateModel HistMemo HistValueModel.
From Coq Require Import List.
Import ListNotations.

Definition pop := (op + hop)%type.
Definition pout := (outcome + hout)%type.
Definition lefts (h : list pop) : list op := flat_map (fun o => match o with inl a => [a] | inr _ => [] end) h.
Definition rights (h : list pop) : list hop := flat_map (fun o => match o with inl _ => [] | inr b => [b] end) h.
Definition p_is_def (o : pop) : bool := match o with inl a => is_def a | inr b => h_is_def b end.
Definition pdefs_all (h : list pop) : list pop := filter p_is_def h.

Section Product.
  Variable conv0 : bool -> pstr -> xv -> cres.
  Variable dumpv : bool -> xv -> cres.
  Variable iso : dkind -> pstr -> option xv.
  Variable fromts : dkind -> pstr -> cres.
  Variable strp : nat -> dkind -> pstr -> option xv.
  Variable mk : dkind * xv -> dkind * xv -> bool.

  Definition pstep (s : sigma * hstate) (o : pop) : (sigma * hstate) * pout :=
    match o with
    | inl a => let r := step (fst s) a in ((fst r, snd s), inl (snd r))
    | inr b => let r := hstep false conv0 dumpv iso fromts strp mk (snd s) b in ((fst s, fst r), inr (snd r))
    end.
  Definition prun (s : sigma * hstate) (h : list pop) : sigma * hstate := fold_left (fun s o => fst (pstep s o)) h s.
End Product.
