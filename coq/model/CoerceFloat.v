(* CoerceFloat.v — the numeric fragment of the standard library that the coercions of
   dataclass_wizard lean on, as concrete total functions (no oracle): results / error classes,
   binary64 floats as exact dyadics m * 2^e, round() / is_integer() / int(float),
   float(str) for ASCII strings (surrounding C whitespace, sign, underscores between digits,
   decimal point, exponent, inf / infinity / nan) and float(int), both with the CORRECT
   ROUNDING of IEEE-754 binary64 (round to nearest, ties to even, gradual underflow, overflow),
   so that the loss of precision of a detour through float is a fact of the model
   (float('9007199254740993') = 9007199254740992.0), not something hidden in an oracle table.
   No proofs in this file.

   Not modelled: -0.0 (identified with 0.0), non-ASCII digits and spaces. *)
From DW Require Import PyStr.

(* ---- results ------------------------------------------------------------ *)
Inductive err := EType | EValue | EOverflow | EOther | EMissing.
Inductive res (A : Type) := Ok (a : A) | Err (e : err).
Arguments Ok {A} a.
Arguments Err {A} e.

Definition bind {A B} (r : res A) (f : A -> res B) : res B :=
  match r with Ok a => f a | Err e => Err e end.
Definition rmap {A B} (f : A -> B) (r : res A) : res B :=
  match r with Ok a => Ok (f a) | Err e => Err e end.

(* ---- floats: exact dyadics m * 2^e ------------------------------------ *)
Inductive fl := FDy (m e : Z) | FInf (neg : bool) | FNan.

Fixpoint strip2 (p : positive) : positive * Z :=
  match p with
  | xO q => let (r, k) := strip2 q in (r, (k + 1)%Z)
  | _ => (p, 0%Z)
  end.

(* canonical form: odd mantissa, or 0 * 2^0 *)
Definition fl_norm (f : fl) : fl :=
  match f with
  | FDy Z0 _ => FDy 0 0
  | FDy (Zpos p) e => let (r, k) := strip2 p in FDy (Zpos r) (e + k)
  | FDy (Zneg p) e => let (r, k) := strip2 p in FDy (Zneg r) (e + k)
  | _ => f
  end.

Definition fl_eqb (a b : fl) : bool :=
  match fl_norm a, fl_norm b with
  | FDy m e, FDy m' e' => Z.eqb m m' && Z.eqb e e'
  | FInf x, FInf y => Bool.eqb x y
  | FNan, FNan => true
  | _, _ => false
  end.

(* float.is_integer() *)
Definition fl_is_integer (f : fl) : bool :=
  match f with
  | FDy m e => if (0 <=? e)%Z then true else Z.eqb (m mod 2 ^ (- e)) 0
  | _ => false
  end.

(* int(f) for a float: truncation towards zero *)
Definition fl_trunc (f : fl) : res Z :=
  match f with
  | FDy m e => if (0 <=? e)%Z then Ok (m * 2 ^ e)%Z else Ok (Z.quot m (2 ^ (- e)))
  | FInf _ => Err EOverflow
  | FNan => Err EValue
  end.

(* round(f): nearest integer, ties to even *)
Definition fl_round (f : fl) : res Z :=
  match f with
  | FDy m e =>
      if (0 <=? e)%Z then Ok (m * 2 ^ e)%Z
      else
        let d := (2 ^ (- e))%Z in
        let q := (m / d)%Z in
        let r := (m mod d)%Z in
        if (2 * r <? d)%Z then Ok q
        else if (d <? 2 * r)%Z then Ok (q + 1)%Z
        else if Z.even q then Ok q else Ok (q + 1)%Z
  | FInf _ => Err EOverflow
  | FNan => Err EValue
  end.

(* f == z for a float and an int *)
Definition fl_eq_Z (f : fl) (z : Z) : bool :=
  match f with
  | FDy m e => if (0 <=? e)%Z then Z.eqb (m * 2 ^ e) z else Z.eqb m (z * 2 ^ (- e))
  | _ => false
  end.

(* ---- binary64: the nearest double of a positive fraction num / den ---------- *)
(* num / den on the grid of multiples of 2^e, as a fraction a / b *)
Definition b64_scaled (num den e : Z) : Z * Z :=
  if (0 <=? e)%Z then (num, den * 2 ^ e)%Z else (num * 2 ^ (- e), den)%Z.

(* the exponent of the binary64 grid around num / den: the e with
   2^52 <= num / den / 2^e < 2^53, but never below the subnormal exponent -1074 *)
Definition b64_exp (num den : Z) : Z :=
  let e0 := (Z.log2 num - Z.log2 den - 53)%Z in
  let (a, b) := b64_scaled num den e0 in
  let e1 := if (2 ^ 53 <=? a / b)%Z then (e0 + 1)%Z else e0 in
  Z.max e1 (-1074).

(* nearest integer to a / b (b > 0), ties to the even one *)
Definition half_even (a b : Z) : Z :=
  let q := (a / b)%Z in
  let r := (a mod b)%Z in
  if (2 * r <? b)%Z then q
  else if (b <? 2 * r)%Z then (q + 1)%Z
  else if Z.even q then q else (q + 1)%Z.

(* (m, e): the double m * 2^e nearest to num / den (0 < num, 0 < den), ties to even;
   None when the rounded value is 2^1024 or more (overflow) *)
Definition b64_round_pos (num den : Z) : option (Z * Z) :=
  let e := b64_exp num den in
  let (a, b) := b64_scaled num den e in
  let m := half_even a b in
  if (0 <=? e)%Z && (2 ^ 1024 <=? m * 2 ^ e)%Z then None else Some (m, e).

(* float(z) for an int: OverflowError "int too large to convert to float" *)
Definition fl_of_Z (z : Z) : res fl :=
  match z with
  | Z0 => Ok (FDy 0 0)
  | Zpos p => match b64_round_pos (Zpos p) 1 with Some (m, e) => Ok (FDy m e) | None => Err EOverflow end
  | Zneg p => match b64_round_pos (Zpos p) 1 with Some (m, e) => Ok (FDy (- m) e) | None => Err EOverflow end
  end.

(* ---- whitespace ------------------------------------------------------------- *)
(* str.strip(): str.isspace() on ASCII *)
Definition is_ws (c : ascii) : bool :=
  let n := code c in ((9 <=? n)%N && (n <=? 13)%N) || ((28 <=? n)%N && (n <=? 32)%N).

Fixpoint lstrip (s : pstr) : pstr :=
  match s with
  | c :: r => if is_ws c then lstrip r else s
  | [] => []
  end.
Definition rstrip (s : pstr) : pstr := rev (lstrip (rev s)).
Definition strip (s : pstr) : pstr := rstrip (lstrip s).

(* int(str) / float(str) skip C isspace() only: \t \n \v \f \r and the blank *)
Definition is_cws (c : ascii) : bool :=
  let n := code c in ((9 <=? n)%N && (n <=? 13)%N) || (n =? 32)%N.

Fixpoint clstrip (s : pstr) : pstr :=
  match s with
  | c :: r => if is_cws c then clstrip r else s
  | [] => []
  end.
Definition cstrip (s : pstr) : pstr := rev (clstrip (rev (clstrip s))).

(* ---- float(str) -------------------------------------------------------------- *)
(* underscores: only between two digits; they are removed before the number is read *)
Fixpoint drop_us (prev_digit : bool) (s : pstr) : option pstr :=
  match s with
  | [] => Some []
  | c :: r =>
      if ascii_eqb c c_us then
        if prev_digit && match r with d :: _ => is_digit d | [] => false end
        then drop_us false r else None
      else option_map (cons c) (drop_us (is_digit c) r)
  end.

Fixpoint span_digits (s : pstr) : pstr * pstr :=
  match s with
  | c :: r => if is_digit c then let (a, b) := span_digits r in (c :: a, b) else ([], s)
  | [] => ([], [])
  end.

(* value of a string of decimal digits *)
Definition dec_chars (s : pstr) : Z :=
  fold_left (fun acc c => (10 * acc + Z.of_N (code c - 48))%Z) s 0%Z.

(* (negative?, rest) *)
Definition take_sign (s : pstr) : bool * pstr :=
  match s with
  | c :: r => if ascii_eqb c c_dash then (true, r)
              else if ascii_eqb c "+"%char then (false, r) else (false, s)
  | [] => (false, [])
  end.

(* [eE][+-]digits up to the end of the string; absent = 0; None = malformed *)
Definition parse_exp (s : pstr) : option Z :=
  match s with
  | [] => Some 0%Z
  | c :: r =>
      if ascii_eqb c "e"%char || ascii_eqb c "E"%char then
        let (neg, r') := take_sign r in
        let (ds, rest) := span_digits r' in
        match ds, rest with
        | _ :: _, [] => Some (if neg then (- dec_chars ds)%Z else dec_chars ds)
        | _, _ => None
        end
      else None
  end.

(* digits [. [digits]] | . digits, then the exponent:
   Some (mantissa, power of ten, number of mantissa digits) *)
Definition parse_decimal (s : pstr) : option (Z * Z * Z) :=
  let (ip, r1) := span_digits s in
  let (fp, r2) := match r1 with
                  | c :: r => if ascii_eqb c c_dot then span_digits r else ([], r1)
                  | [] => ([], [])
                  end in
  match ip ++ fp with
  | [] => None
  | ds =>
      match parse_exp r2 with
      | Some ex => Some (dec_chars ds, (ex - Z.of_nat (List.length fp))%Z, Z.of_nat (List.length ds))
      | None => None
      end
  end.

(* the double nearest to mant * 10^ex (mant has at most nd decimal digits).  The two early
   exits only keep 10^|ex| computable: beyond them the value is above 10^400 (overflow:
   inf) or below 10^-400 (underflow: 0), far outside the binary64 range *)
Definition dec_to_fl (neg : bool) (mant ex nd : Z) : fl :=
  if (mant =? 0)%Z then FDy 0 0
  else if (400 <? ex)%Z then FInf neg
  else if (ex + nd <? -400)%Z then FDy 0 0
  else
    let (num, den) := if (0 <=? ex)%Z then ((mant * 10 ^ ex)%Z, 1%Z) else (mant, (10 ^ (- ex))%Z) in
    match b64_round_pos num den with
    | Some (m, e) => FDy (if neg then (- m)%Z else m) e
    | None => FInf neg
    end.

(* float(s) *)
Definition py_float_of_str (s : pstr) : res fl :=
  match drop_us false (cstrip s) with
  | None => Err EValue
  | Some t =>
      let (neg, body) := take_sign t in
      let w := lower body in
      if pstr_eqb w (S "inf") || pstr_eqb w (S "infinity") then Ok (FInf neg)
      else if pstr_eqb w (S "nan") then Ok FNan
      else match parse_decimal body with
           | Some (mant, ex, nd) => Ok (dec_to_fl neg mant ex nd)
           | None => Err EValue
           end
  end.
