(* CoreValues.v — universal Python value type `pv` for the default-engine core
   (properties C03 dump encoding, C05 load conformance, C01 round trip).

   Values whose behaviour is decided by stdlib code the library merely CALLS
   (uuid, decimal, pathlib, datetime, base64, float) are *tokens*: they carry
   the oracle answers the harness pre-computes with the real functions
   (isoformat(), hex, str(), timestamp, b64encode) — the library-own logic
   (dispatch, container recursion, the Z rewrite, key handling) is modelled.

   Mutable containers carry a provenance flag `old`: true = the object is part
   of the caller's input, false = built by the library (C03 freshness).
   No proofs in this file. *)
From DW Require Export PyStr.
From Coq Require Import ZArith.

Inductive skind := SList | STuple | SSet | SFrozenSet | SDeque.
Inductive dkind := DDict | DDefault | DOrdered.
Inductive tkind := KUUID | KDecimal | KPath | KDate | KDateTime | KTime | KTimedelta.
Inductive emix := EPlain | EIntMix | EStrMix.

(* tk_str : str(o)        (UUID: dashed form; Decimal/Path/timedelta: str(); date/datetime/time: isoformat())
   tk_aux : UUID: o.hex ; otherwise unused (empty)
   tk_num : date: date_to_timestamp(o); datetime: round(o.timestamp());
            timedelta: total microseconds (sign decides the F3 region); otherwise 0 *)
Record tok := mkTok { tk_kind : tkind; tk_str : pstr; tk_aux : pstr; tk_num : Z }.

Record einfo := mkE { e_id : N; e_name : pstr; e_mix : emix }.
(* f_alias = Some a : json_field(a, all=True) / json_key_to_field {'__all__': True, a: field} *)
Record finfo := mkF { f_name : pstr; f_alias : option pstr }.
Record cinfo := mkC { c_id : N; c_name : pstr; c_fields : list finfo; c_tag : option pstr }.
Record ninfo := mkN { n_id : N; n_name : pstr; n_fields : list pstr }.

Inductive pv :=
| VNone
| VBool (b : bool)
| VInt (z : Z)
| VFloat (h : pstr)                               (* float.hex() / 'nan' / 'inf' / '-inf' *)
| VStr (s : pstr)
| VBytes (mut : bool) (raw : pstr) (b64 : pstr)   (* bytes / bytearray; b64 = b64encode(o).decode() *)
| VSeq (k : skind) (old : bool) (xs : list pv)
| VDict (k : dkind) (old : bool) (kvs : list (pv * pv))
| VEnum (e : einfo) (member : pstr) (value : pv)
| VTok (t : tok)
| VNT (n : ninfo) (xs : list pv)                  (* typing.NamedTuple instance *)
| VInst (c : cinfo) (xs : list pv).               (* dataclass instance, values in field order *)

(* ---- outcomes ---------------------------------------------------------- *)
Inductive err :=
| ERaise (kind : pstr)     (* the implementation raises (exception class bucket) *)
| EOracleMiss (fn : pstr)  (* harness bug: oracle table lacks an answer; never a pass *)
| EUnmodelled (what : pstr). (* input outside the modelled fragment *)

Inductive res (A : Type) := Ok (a : A) | Err (e : err).
Arguments Ok {A} a.
Arguments Err {A} e.

Definition bind {A B} (r : res A) (f : A -> res B) : res B :=
  match r with Ok a => f a | Err e => Err e end.
Definition rmap {A B} (f : A -> B) (r : res A) : res B :=
  match r with Ok a => Ok (f a) | Err e => Err e end.

Fixpoint seqR {A} (l : list (res A)) : res (list A) :=
  match l with
  | [] => Ok []
  | r :: rest =>
      match r with
      | Err e => Err e
      | Ok a => match seqR rest with Ok l' => Ok (a :: l') | Err e => Err e end
      end
  end.

(* ---- decidable equalities ---------------------------------------------- *)
Definition skind_eqb (a b : skind) : bool :=
  match a, b with
  | SList, SList | STuple, STuple | SSet, SSet | SFrozenSet, SFrozenSet | SDeque, SDeque => true
  | _, _ => false
  end.
Definition dkind_eqb (a b : dkind) : bool :=
  match a, b with DDict, DDict | DDefault, DDefault | DOrdered, DOrdered => true | _, _ => false end.
Definition tkind_eqb (a b : tkind) : bool :=
  match a, b with
  | KUUID, KUUID | KDecimal, KDecimal | KPath, KPath | KDate, KDate | KDateTime, KDateTime
  | KTime, KTime | KTimedelta, KTimedelta => true
  | _, _ => false
  end.
Definition tok_eqb (a b : tok) : bool :=
  tkind_eqb (tk_kind a) (tk_kind b) && pstr_eqb (tk_str a) (tk_str b) &&
  pstr_eqb (tk_aux a) (tk_aux b) && Z.eqb (tk_num a) (tk_num b).

Fixpoint pv_eqb (a b : pv) {struct a} : bool :=
  match a, b with
  | VNone, VNone => true
  | VBool x, VBool y => Bool.eqb x y
  | VInt x, VInt y => Z.eqb x y
  | VFloat x, VFloat y => pstr_eqb x y
  | VStr x, VStr y => pstr_eqb x y
  | VBytes m r _, VBytes m' r' _ => Bool.eqb m m' && pstr_eqb r r'
  | VSeq k _ xs, VSeq k' _ ys =>
      skind_eqb k k' &&
      (fix go (xs ys : list pv) : bool :=
         match xs, ys with
         | [], [] => true
         | x :: xs', y :: ys' => pv_eqb x y && go xs' ys'
         | _, _ => false
         end) xs ys
  | VDict k _ xs, VDict k' _ ys =>
      dkind_eqb k k' &&
      (fix go (xs ys : list (pv * pv)) : bool :=
         match xs, ys with
         | [], [] => true
         | (k1, v1) :: xs', (k2, v2) :: ys' => pv_eqb k1 k2 && pv_eqb v1 v2 && go xs' ys'
         | _, _ => false
         end) xs ys
  | VEnum e m _, VEnum e' m' _ => N.eqb (e_id e) (e_id e') && pstr_eqb m m'
  | VTok t, VTok t' => tok_eqb t t'
  | VNT n xs, VNT n' ys =>
      N.eqb (n_id n) (n_id n') &&
      (fix go (xs ys : list pv) : bool :=
         match xs, ys with
         | [], [] => true
         | x :: xs', y :: ys' => pv_eqb x y && go xs' ys'
         | _, _ => false
         end) xs ys
  | VInst c xs, VInst c' ys =>
      N.eqb (c_id c) (c_id c') &&
      (fix go (xs ys : list pv) : bool :=
         match xs, ys with
         | [], [] => true
         | x :: xs', y :: ys' => pv_eqb x y && go xs' ys'
         | _, _ => false
         end) xs ys
  | _, _ => false
  end.

(* membership / duplicate removal with the model's own equality test:
   set(...) and dict(...) keep the first occurrence's position. *)
Definition pv_mem (x : pv) (l : list pv) : bool := existsb (pv_eqb x) l.

Fixpoint dedupe_from (seen : list pv) (l : list pv) : list pv :=
  match l with
  | [] => []
  | x :: r => if pv_mem x seen then dedupe_from seen r else x :: dedupe_from (x :: seen) r
  end.
Definition dedupe (l : list pv) : list pv := dedupe_from [] l.

Fixpoint nodup_from (seen : list pv) (l : list pv) : bool :=
  match l with
  | [] => true
  | x :: r => negb (pv_mem x seen) && nodup_from (x :: seen) r
  end.
Definition nodupb (l : list pv) : bool := nodup_from [] l.

(* dict(pairs): a later pair with an equal key replaces the value in place. *)
Fixpoint dict_set (k v : pv) (d : list (pv * pv)) : list (pv * pv) :=
  match d with
  | [] => [(k, v)]
  | (k', v') :: r => if pv_eqb k k' then (k', v) :: r else (k', v') :: dict_set k v r
  end.
Definition dict_of_pairs (l : list (pv * pv)) : list (pv * pv) :=
  fold_left (fun d kv => dict_set (fst kv) (snd kv) d) l [].

Fixpoint dict_get (k : pv) (d : list (pv * pv)) : option pv :=
  match d with
  | [] => None
  | (k', v) :: r => if pv_eqb k k' then Some v else dict_get k r
  end.

(* ---- shape predicates used by the property statements ------------------- *)
Definition is_scalar (v : pv) : bool :=
  match v with VNone | VBool _ | VInt _ | VFloat _ | VStr _ => true | _ => false end.

(* no container of the value belongs to the caller's input *)
Fixpoint all_new (v : pv) : bool :=
  match v with
  | VSeq _ old xs => negb old && forallb all_new xs
  | VDict _ old kvs => negb old && forallb (fun kv => all_new (fst kv) && all_new (snd kv)) kvs
  | VEnum _ _ x => all_new x
  | VNT _ xs => forallb all_new xs
  | VInst _ xs => forallb all_new xs
  | VBytes m _ _ => true
  | _ => true
  end.

(* accepted by json.dumps without `default=`: scalars, list/tuple (incl. namedtuple),
   dict with str/int/float/bool/None keys; an Enum member with an int/str mixin is an
   int/str for the encoder. *)
Definition json_key_ok (v : pv) : bool :=
  match v with
  | VNone | VBool _ | VInt _ | VFloat _ | VStr _ => true
  | VEnum e _ x => match e_mix e with EPlain => false | _ => is_scalar x end
  | _ => false
  end.

Fixpoint json_safe (v : pv) : bool :=
  match v with
  | VNone | VBool _ | VInt _ | VFloat _ | VStr _ => true
  | VSeq k _ xs => match k with SList | STuple => forallb json_safe xs | _ => false end
  | VNT _ xs => forallb json_safe xs
  | VDict _ _ kvs => forallb (fun kv => json_key_ok (fst kv) && json_safe (snd kv)) kvs
  | VEnum e _ x => match e_mix e with EPlain => false | _ => is_scalar x end
  | _ => false
  end.

(* what `==` and the json encoder see: an int/str-mixin Enum member is its value *)
Fixpoint demix (v : pv) : pv :=
  match v with
  | VEnum e m x => match e_mix e with EPlain => VEnum e m x | _ => x end
  | VSeq k o xs => VSeq k o (map demix xs)
  | VDict k o kvs => VDict k o (map (fun kv => (demix (fst kv), demix (snd kv))) kvs)
  | VNT n xs => VNT n (map demix xs)
  | VInst c xs => VInst c (map demix xs)
  | _ => v
  end.

(* ---- canonical text for the correspondence harness ---------------------- *)
Fixpoint dec_digits (fuel : nat) (n : N) (acc : pstr) : pstr :=
  match fuel with
  | O => acc
  | Datatypes.S f =>
      if (n <? 10)%N then ch (48 + n) :: acc
      else dec_digits f (n / 10)%N (ch (48 + n mod 10) :: acc)
  end.
Definition dec_N (n : N) : pstr := dec_digits (Datatypes.S (N.size_nat n)) n [].
Definition dec_Z (z : Z) : pstr :=
  match z with
  | Z0 => S "0"
  | Zpos p => dec_N (Npos p)
  | Zneg p => "-"%char :: dec_N (Npos p)
  end.

Definition skind_ch (k : skind) : pstr :=
  match k with SList => S "l" | STuple => S "t" | SSet => S "s" | SFrozenSet => S "f" | SDeque => S "q" end.
Definition dkind_ch (k : dkind) : pstr :=
  match k with DDict => S "d" | DDefault => S "e" | DOrdered => S "o" end.
Definition tkind_ch (k : tkind) : pstr :=
  match k with KUUID => S "u" | KDecimal => S "c" | KPath => S "p" | KDate => S "a"
             | KDateTime => S "m" | KTime => S "i" | KTimedelta => S "r" end.
Definition old_ch (b : bool) : pstr := if b then S "O" else S "N".

Fixpoint show_pv (v : pv) : pstr :=
  match v with
  | VNone => S "N"
  | VBool true => S "T"
  | VBool false => S "F"
  | VInt z => S "I" ++ dec_Z z ++ S ";"
  | VFloat h => S "D" ++ hex h ++ S ";"
  | VStr s => S "S" ++ hex s ++ S ";"
  | VBytes m raw _ => S "B" ++ (if m then S "1" else S "0") ++ hex raw ++ S ";"
  | VSeq k o xs => S "[" ++ skind_ch k ++ old_ch o ++ flat_map show_pv xs ++ S "]"
  | VDict k o kvs => S "{" ++ dkind_ch k ++ old_ch o ++
                     flat_map (fun kv => show_pv (fst kv) ++ show_pv (snd kv)) kvs ++ S "}"
  | VEnum e m _ => S "E" ++ dec_N (e_id e) ++ S ":" ++ hex m ++ S ";"
  | VTok t => S "K" ++ tkind_ch (tk_kind t) ++ hex (tk_str t) ++ S ";"
  | VNT n xs => S "<" ++ dec_N (n_id n) ++ S ":" ++ flat_map show_pv xs ++ S ">"
  | VInst c xs => S "(" ++ dec_N (c_id c) ++ S ":" ++ flat_map show_pv xs ++ S ")"
  end.

Definition show_err (e : err) : pstr :=
  match e with
  | ERaise k => S "!R:" ++ k
  | EOracleMiss f => S "!M:" ++ f
  | EUnmodelled w => S "!U:" ++ w
  end.
Definition show_res (r : res pv) : pstr :=
  match r with Ok v => show_pv v | Err e => show_err e end.
