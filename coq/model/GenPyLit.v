(* GenPyLit.v — Python string literals as the code generators use them (C15).

   `py_repr`  models `repr(str)` on byte strings: choice of the quote character,
   the escapes for backslash, both quotes, tab, newline, CR, and \xNN for the other control characters and DEL;
   bytes >= 128 are kept (they stand for the UTF-8 bytes of printable non-ASCII
   characters, which `repr` keeps verbatim; non-printable non-ASCII characters are
   outside the model and excluded by the correspondence harness).

   `lex_literal` models how Python's tokenizer + string-literal decoder read a
   single-/double-quoted literal at the start of a text: result `LOk value rest`,
   `LMalformed` (Python raises SyntaxError/ValueError) or `LUnsupported` (legal or
   illegal Python the model does not cover: prefixes, triple quotes, octal, \N \u \U
   escapes, backslash-CR).  `parse_literal` is `ast.literal_eval` on such a literal.

   `bare_dq` is a bare double-quote splice (what environ/wizard.py did before the F21
   repair): the theorems about it show why every splice has to go through repr.
   No proofs in this file. *)
From DW Require Export PyStr.

Definition c_sq : ascii := ch 39.
Definition c_dq : ascii := ch 34.
Definition c_bs : ascii := ch 92.

Definition has_char (c : ascii) (s : pstr) : bool := existsb (ascii_eqb c) s.

(* repr uses double quotes only when the string has a single quote and no double quote *)
Definition repr_quote (s : pstr) : ascii :=
  if has_char c_sq s && negb (has_char c_dq s) then c_dq else c_sq.

Definition repr_char (q c : ascii) : pstr :=
  let n := code c in
  if ascii_eqb c q || ascii_eqb c c_bs then [c_bs; c]
  else if (n =? 9)%N then [c_bs; "t"%char]
  else if (n =? 10)%N then [c_bs; "n"%char]
  else if (n =? 13)%N then [c_bs; "r"%char]
  else if (n <? 32)%N || (n =? 127)%N then c_bs :: "x"%char :: hex_of_ascii c
  else [c].

Definition repr_body (q : ascii) (s : pstr) : pstr := flat_map (repr_char q) s.

Definition py_repr (s : pstr) : pstr :=
  let q := repr_quote s in q :: repr_body q s ++ [q].

(* ---- reading a literal ---------------------------------------------------- *)
Inductive litres :=
| LOk (value rest : pstr)
| LMalformed
| LUnsupported.

Definition hex_val (c : ascii) : option N :=
  let n := code c in
  if is_digit c then Some (n - 48)%N
  else if (97 <=? n)%N && (n <=? 102)%N then Some (n - 87)%N
  else if (65 <=? n)%N && (n <=? 70)%N then Some (n - 55)%N
  else None.

Definition lcons (c : pstr) (r : litres) : litres :=
  match r with LOk v rest => LOk (c ++ v) rest | x => x end.

Definition is_octal (c : ascii) : bool := (48 <=? code c)%N && (code c <=? 55)%N.

(* what a one-character escape stands for; None = not a simple escape *)
Definition simple_escape (e : ascii) : option pstr :=
  let n := code e in
  if (n =? 92)%N then Some [c_bs]
  else if (n =? 39)%N then Some [c_sq]
  else if (n =? 34)%N then Some [c_dq]
  else if (n =? 110)%N then Some [ch 10]
  else if (n =? 114)%N then Some [ch 13]
  else if (n =? 116)%N then Some [ch 9]
  else if (n =? 97)%N then Some [ch 7]
  else if (n =? 98)%N then Some [ch 8]
  else if (n =? 102)%N then Some [ch 12]
  else if (n =? 118)%N then Some [ch 11]
  else if (n =? 10)%N then Some []               (* backslash-newline: continuation *)
  else None.

(* body of a literal opened with quote q *)
Fixpoint lex_body (q : ascii) (s : pstr) : litres :=
  match s with
  | [] => LMalformed                                   (* unterminated *)
  | c :: r =>
      if ascii_eqb c q then LOk [] r
      else if ascii_eqb c c_bs then
        match r with
        | [] => LMalformed
        | e :: r' =>
            match simple_escape e with
            | Some v => lcons v (lex_body q r')
            | None =>
                if ascii_eqb e "x"%char then
                  match r' with
                  | h1 :: h2 :: r'' =>
                      match hex_val h1, hex_val h2 with
                      | Some a, Some b =>
                          if (16 * a + b <? 128)%N then lcons [ch (16 * a + b)] (lex_body q r'')
                          else LUnsupported           (* a code point >= 128 is not one byte *)
                      | _, _ => LMalformed
                      end
                  | _ => LMalformed
                  end
                else if is_octal e || ascii_eqb e "N"%char || ascii_eqb e "u"%char
                        || ascii_eqb e "U"%char || (code e =? 13)%N || (code e =? 0)%N
                then LUnsupported
                else lcons [c_bs; e] (lex_body q r')    (* unknown escape: both kept *)
            end
        end
      else if (code c =? 10)%N || (code c =? 13)%N || (code c =? 0)%N then LMalformed
      else lcons [c] (lex_body q r)
  end.

Definition is_quote (c : ascii) : bool := ascii_eqb c c_sq || ascii_eqb c c_dq.

Definition lex_literal (s : pstr) : litres :=
  match s with
  | [] => LMalformed
  | q :: r =>
      if is_quote q then
        match r with
        | a :: b :: _ => if ascii_eqb a q && ascii_eqb b q then LUnsupported   (* triple quote *)
                         else lex_body q r
        | _ => lex_body q r
        end
      else LUnsupported                                  (* prefix, whitespace, not a string *)
  end.

Definition parse_literal (s : pstr) : option pstr :=
  match lex_literal s with
  | LOk v [] => Some v
  | _ => None
  end.

(* `rest` does not continue the literal (adjacent literal / triple quote) *)
Definition no_quote_head (rest : pstr) : bool :=
  match rest with [] => true | c :: _ => negb (is_quote c) end.

(* ---- a bare-quote splice (former F21 / F5) ------------------------------- *)
Definition bare_dq (s : pstr) : pstr := c_dq :: s ++ [c_dq].

(* characters that a bare double-quote splice inside an f-string transports unchanged *)
Definition bare_safe_char (c : ascii) : bool :=
  let n := code c in
  negb ((n =? 34) || (n =? 92) || (n =? 10) || (n =? 13) || (n =? 0)
        || (n =? 123) || (n =? 125))%N.
Definition bare_safe (s : pstr) : bool := forallb bare_safe_char s.

(* no raw line break / NUL: a spliced literal never breaks the line structure *)
Definition line_safe_char (c : ascii) : bool :=
  negb ((code c =? 10) || (code c =? 13) || (code c =? 0))%N.

(* ---- output for the correspondence harness -------------------------------- *)
Definition show_lit (s : pstr) : pstr :=
  match lex_literal s with
  | LOk v [] => "O"%char :: hex v
  | LOk _ _ => [ "T"%char ]
  | LMalformed => [ "M"%char ]
  | LUnsupported => [ "U"%char ]
  end.
