(* MetaMerge.v — executable model of the Meta merge and cascade (property C12).

   Sources modelled:
     bases.py        ABCOrAndMeta.__or__ / __and__, fields_to_merge, __special_attrs__
     bases_meta.py   BaseJSONWizardMeta.bind_to (the settings that act through the
                     per-class loader / dumper: key transforms, marshal_date_time_as)
     loaders.py      load_func_for_dataclass: `config = meta if meta.recursive and meta is
                     not AbstractMeta`; nested: `meta = meta | config; meta.bind_to(cls, is_default=False)`
     dumpers.py      dump_func_for_dataclass / _asdict_inner: same rule, config travels unchanged
     v1/loaders.py   load_func_for_dataclass: `config = meta if meta.recursive else AbstractMeta`,
                     nested: `if config is not AbstractMeta: meta = meta | config`
     parsers.py      every parser passes `extras` (hence extras['config']) unchanged to its
                     element parsers; UnionParser reads auto_assign_tags from extras['config']

   A Meta class is modelled by the settings of its own __dict__ (association list);
   `getattr` = own entry, else the AbstractMeta default (table regenerated from the
   source: T_MetaFields).  No proofs in this file. *)
From DW Require Import PyStr T_MetaFields.

(* ---- setting values ------------------------------------------------------ *)
Inductive sval :=
| VNone
| VBool (b : bool)
| VStr (s : pstr)
| VEnum (s : pstr)      (* an Enum member, "Class.NAME" *)
| VTok (n : N).         (* any other object (Condition, dict, ...), identified by a token *)

Definition sval_eqb (a b : sval) : bool :=
  match a, b with
  | VNone, VNone => true
  | VBool x, VBool y => Bool.eqb x y
  | VStr x, VStr y => pstr_eqb x y
  | VEnum x, VEnum y => pstr_eqb x y
  | VTok x, VTok y => (x =? y)%N
  | _, _ => false
  end.

(* Python truthiness of a setting value *)
Definition truthy (v : sval) : bool :=
  match v with
  | VNone => false
  | VBool b => b
  | VStr s => match s with [] => false | _ => true end
  | VEnum _ => true
  | VTok _ => true
  end.

Definition is_none (v : sval) : bool := match v with VNone => true | _ => false end.

(* ---- a Meta class: the settings present in its own __dict__ -------------- *)
Definition meta := list (pstr * sval).

Fixpoint own (k : pstr) (m : meta) : option sval :=
  match m with
  | [] => None
  | (k', v) :: r => if pstr_eqb k k' then Some v else own k r
  end.

Definition decode_default (kind payload : pstr) : sval :=
  if pstr_eqb kind (S "none") then VNone
  else if pstr_eqb kind (S "bool") then VBool (pstr_eqb payload (S "True"))
  else if pstr_eqb kind (S "str") then VStr payload
  else VEnum payload.

(* AbstractMeta.__dict__ restricted to the settings (every setting has a default there) *)
Definition abstract_dict : meta :=
  map (fun e => match e with (k, kind, p) => (k, decode_default kind p) end) meta_defaults.

Definition is_special (k : pstr) : bool := mem_str k meta_special_attrs.
Definition is_setting (k : pstr) : bool := mem_str k meta_all_fields.
(* AbstractMeta.fields_to_merge = all_fields - __special_attrs__ *)
Definition fields_to_merge : list pstr := filter (fun k => negb (is_special k)) meta_all_fields.
Definition is_mergeable (k : pstr) : bool := mem_str k fields_to_merge.

Definition pick (k : pstr) (o : option sval) : meta :=
  match o with Some v => [(k, v)] | None => [] end.

Definition first_some (a b : option sval) : option sval :=
  match a with Some v => Some v | None => b end.

(* __or__, `else` branch (src is a concrete Meta): base_dict of the new class *)
Definition meta_or (src other : meta) : meta :=
  flat_map (fun k => pick k (first_some (own k src) (own k other))) fields_to_merge
  ++ flat_map (fun k => pick k (own k src)) meta_special_attrs.

(* __or__, first branch (src is AbstractMeta): mergeable settings of `other`; the special
   attributes are looked up in src_dict, which is still AbstractMeta.__dict__ *)
Definition meta_or_abstract (other : meta) : meta :=
  flat_map (fun k => pick k (own k other)) fields_to_merge
  ++ flat_map (fun k => pick k (own k abstract_dict)) meta_special_attrs.

(* the Meta registered for a dataclass: None = AbstractMeta (get_meta default) *)
Definition cmeta := option meta.

Definition cls_or (src : cmeta) (other : meta) : meta :=
  match src with
  | Some s => meta_or s other
  | None => meta_or_abstract other
  end.

(* __and__: in-place overlay of every setting present in other's __dict__ (special ones included) *)
Definition meta_and (cls other : meta) : meta :=
  flat_map (fun k => pick k (own k other)) meta_all_fields ++ cls.

(* getattr(meta, k) for a setting k *)
Definition get (k : pstr) (m : meta) : option sval := first_some (own k m) (own k abstract_dict).

Definition cown (k : pstr) (c : cmeta) : option sval :=
  match c with Some m => own k m | None => None end.
Definition cget (k : pstr) (c : cmeta) : option sval :=
  match c with Some m => get k m | None => own k abstract_dict end.

Definition otruthy (o : option sval) : bool := match o with Some v => truthy v | None => false end.

Definition k_recursive := S "recursive".
Definition k_tag := S "tag".
Definition k_tag_key := S "tag_key".
Definition k_auto := S "auto_assign_tags".
Definition k_ktl := S "key_transform_with_load".
Definition k_ktd := S "key_transform_with_dump".
Definition k_v1kc := S "v1_key_case".
Definition k_marshal := S "marshal_date_time_as".
Definition k_skip_defaults := S "skip_defaults".
Definition k_skip_if := S "skip_if".
Definition k_skip_defaults_if := S "skip_defaults_if".
Definition k_raise := S "raise_on_unknown_json_key".
Definition k_v1unk := S "v1_on_unknown_key".

(* ---- which config cascades from the root --------------------------------- *)
Inductive engine := LoadV0 | DumpV0 | LoadV1.

(* loaders.py / dumpers.py: `if meta.recursive and meta is not AbstractMeta: config = meta` (else None) *)
Definition root_config_v0 (root : cmeta) : cmeta :=
  match root with
  | Some m => if otruthy (get k_recursive m) then Some m else None
  | None => None
  end.

(* v1: `config = meta if meta.recursive else AbstractMeta`; nested classes test
   `config is not AbstractMeta`; AbstractMeta is represented by None *)
Definition root_config_v1 (root : cmeta) : cmeta :=
  if otruthy (cget k_recursive root) then root else None.

Definition root_config (e : engine) (root : cmeta) : cmeta :=
  match e with LoadV1 => root_config_v1 root | _ => root_config_v0 root end.

(* the meta a nested class's function is generated under:
   `elif config: meta = meta | config; meta.bind_to(cls, is_default=False)` *)
Definition bound_meta (config own_ : cmeta) : cmeta :=
  match config with
  | Some c => Some (cls_or own_ c)
  | None => own_
  end.

(* ---- the specification: effective(m_nested, m_root) ---------------------- *)
Definition cascades (root : cmeta) : bool :=
  match root with Some r => otruthy (get k_recursive r) | None => false end.

Definition effective (own_ root : cmeta) : cmeta :=
  match root with
  | Some r => if otruthy (get k_recursive r) then Some (cls_or own_ r) else own_
  | None => own_
  end.

(* ---- nesting shapes: how config travels ---------------------------------- *)
(* Types (load side: parser construction) and object graphs (dump side: _asdict_inner
   walks the value) have the same shape grammar. *)
Inductive ty :=
| TScalar (name : pstr)
| TOpt (t : ty)
| TList (t : ty)
| TDict (t : ty)                  (* dict value *)
| TTuple (ts : list ty)
| TUnion (ts : list ty)
| TData (name : pstr) (own_ : cmeta) (fields : list ty).

Record node := { n_name : pstr; n_own : cmeta; n_meta : cmeta }.

(* every container parser / dump hook hands `extras` / `meta` (= config) unchanged to its
   elements; a dataclass node binds `own | config` and hands `config` (not the merge) on *)
Fixpoint nodes (config : cmeta) (t : ty) : list node :=
  match t with
  | TScalar _ => []
  | TOpt t' => nodes config t'
  | TList t' => nodes config t'
  | TDict t' => nodes config t'
  | TTuple ts => flat_map (nodes config) ts
  | TUnion ts => flat_map (nodes config) ts
  | TData name o fields =>
      {| n_name := name; n_own := o; n_meta := bound_meta config o |} :: flat_map (nodes config) fields
  end.

(* nested classes reached from a root class with Meta `root` and field types `fields` *)
Definition nested_nodes (e : engine) (root : cmeta) (fields : list ty) : list node :=
  flat_map (nodes (root_config e root)) fields.

(* "t' occurs in t": reached through any number of Optional / list / dict value / tuple /
   Union / dataclass-field steps *)
Inductive reaches : ty -> ty -> Prop :=
| R_here t : reaches t t
| R_opt t t' : reaches t t' -> reaches (TOpt t) t'
| R_list t t' : reaches t t' -> reaches (TList t) t'
| R_dict t t' : reaches t t' -> reaches (TDict t) t'
| R_tuple ts t t' : In t ts -> reaches t t' -> reaches (TTuple ts) t'
| R_union ts t t' : In t ts -> reaches t t' -> reaches (TUnion ts) t'
| R_field name o fs t t' : In t fs -> reaches t t' -> reaches (TData name o fs) t'.

(* ---- what the settings do: bind_to and the generated functions ----------- *)
(* per-class loader / dumper state written by bind_to *)
Record binding := {
  ld_case : option sval;      (* cls_loader.transform_json_field; None = the loader's default *)
  dp_case : option sval;      (* cls_dumper.transform_dataclass_field; None = default (camelCase) *)
  dt_timestamp : bool         (* timestamp dump hooks registered for datetime/date *)
}.

Definition default_binding : binding := {| ld_case := None; dp_case := None; dt_timestamp := false |}.

Definition is_timestamp (v : sval) : bool :=
  sval_eqb v (VStr (S "TIMESTAMP")) || sval_eqb v (VEnum (S "DateTimeTo.TIMESTAMP")).

Definition set_if_not_none (o : option sval) (cur : option sval) : option sval :=
  match o with
  | Some v => if is_none v then cur else Some v
  | None => cur
  end.

(* bases_meta.py bind_to, restricted to the settings that act through the loader/dumper *)
Definition bind_to (m : meta) (b : binding) : binding :=
  {| dt_timestamp := match get k_marshal m with
                     | Some v => if is_none v then dt_timestamp b else (is_timestamp v || dt_timestamp b)
                     | None => dt_timestamp b
                     end;
     ld_case := set_if_not_none (get k_v1kc m) (set_if_not_none (get k_ktl m) (ld_case b));
     dp_case := set_if_not_none (get k_ktd m) (dp_case b) |}.

(* the class's own Meta was bound when the class was defined (fresh interpreter) *)
Definition own_binding (o : cmeta) : binding :=
  match o with Some m => bind_to m default_binding | None => default_binding end.

Definition or_tag (o : option sval) : sval :=
  match o with
  | Some v => if truthy v then v else VStr const_tag
  | None => VStr const_tag
  end.

(* observable behaviour of the function generated for a class *)
Record behaviour := {
  b_ld_case : option sval;
  b_dp_case : option sval;
  b_dt_timestamp : bool;
  b_skip_defaults : bool;            (* `True if meta.skip_defaults or meta.skip_defaults_if else False` *)
  b_skip_if : option sval;
  b_skip_defaults_if : option sval;
  b_raise_unknown : bool;
  b_v1_unknown : option sval;
  b_tag : option sval;               (* emitted on dump iff truthy; whitelisted on load iff not None *)
  b_tag_key : sval;                  (* `meta.tag_key or TAG` *)
  b_keymap : option sval;            (* json_key_to_field (special: the class's own) *)
  b_v1alias : option sval            (* v1_field_to_alias (special: the class's own) *)
}.

Definition behaviour_of (m : cmeta) (b : binding) : behaviour :=
  {| b_ld_case := ld_case b;
     b_dp_case := dp_case b;
     b_dt_timestamp := dt_timestamp b;
     b_skip_defaults := otruthy (cget k_skip_defaults m) || negb (match cget k_skip_defaults_if m with Some v => is_none v | None => true end);
     b_skip_if := cget k_skip_if m;
     b_skip_defaults_if := cget k_skip_defaults_if m;
     b_raise_unknown := otruthy (cget k_raise m);
     b_v1_unknown := cget k_v1unk m;
     b_tag := cget k_tag m;
     b_tag_key := or_tag (cget k_tag_key m);
     b_keymap := cget (S "json_key_to_field") m;
     b_v1alias := cget (S "v1_field_to_alias") m |}.

(* implementation: nested class with own Meta `o`, reached with `config` *)
Definition impl_behaviour (config o : cmeta) : behaviour :=
  let m := bound_meta config o in
  let b := match config, m with
           | Some _, Some mm => bind_to mm (own_binding o)     (* meta.bind_to(cls, is_default=False) *)
           | _, _ => own_binding o
           end in
  behaviour_of m b.

(* specification: a stand-alone class whose Meta is e *)
Definition spec_behaviour (e : cmeta) : behaviour := behaviour_of e (own_binding e).

(* auto_assign_tags for a Union field of the class: UnionParser.__post_init__ /
   load_to_union read `config.auto_assign_tags` (False when there is no config) *)
Definition impl_union_auto (config : cmeta) : bool :=
  match config with Some c => otruthy (get k_auto c) | None => false end.
Definition spec_union_auto (e : cmeta) : bool := otruthy (cget k_auto e).

(* dump side, class reachable BY VALUE only (root field annotated `list` / `Any` / `Dict[str, Any]`): the root's
   own auto-tag step does not reach it; its Union parser is built by the class's own dump-function generation,
   `if meta.auto_assign_tags:` on the MERGED Meta — and that parser again reads config.auto_assign_tags *)
Definition impl_union_auto_byvalue (config o : cmeta) : bool :=
  impl_union_auto config && otruthy (cget k_auto (bound_meta config o)).

(* region of finding F22: the class sets auto_assign_tags itself and the value differs from
   the one the cascading root config provides *)
Definition in_region_auto (config o : cmeta) : bool :=
  match cown k_auto o with
  | Some v => negb (Bool.eqb (truthy v) (impl_union_auto config))
  | None => false
  end.

(* ---- earlier uses of the class in the same interpreter ----------------------
   The tables a generated function is built from are global and keyed by class: the per-class
   loader / dumper attributes and dump hooks written by bind_to (bases_meta.py), the dump-key
   table filled by the first dump function generated for the class (dumpers.py: `json_field =
   dataclass_to_json_field[field]` / `... = cls_dumper.transform_dataclass_field(field)`), the
   default engine's `json_to_field[meta.tag_key] = ExplicitNull` (loaders.py), v1's alias table
   (`field_to_aliases[name] = (alias,)` when the key case renames the field, v1/loaders.py).
   Everything else is read from the merged Meta when a function is generated (once per root). *)
Inductive ukind := UDump | ULoad.

(* u_root: None = the class is used on its own (it is the main class);
           Some r = reached under a root whose Meta is r (Some None: a root without Meta) *)
Record use := { u_kind : ukind; u_root : option cmeta }.

Record gstate := {
  g_bind : binding;
  g_dump_keys : option (option sval);   (* transform the dump-key table was filled under *)
  g_whitelist : list sval;              (* default engine: tag keys stored as ExplicitNull *)
  g_v1_alias : option sval              (* v1: key case whose alias went into the alias table *)
}.

Definition g0 (o : cmeta) : gstate :=
  {| g_bind := own_binding o; g_dump_keys := None; g_whitelist := []; g_v1_alias := None |}.

Definition config_of_use (u : use) : cmeta :=
  match u_root u with None => None | Some r => root_config_v0 r end.

(* does the key case spell a multi-word field name differently from the name itself? *)
Definition renames (o : option sval) : bool :=
  match o with
  | Some v => negb (is_none v) && negb (sval_eqb v (VStr (S "SNAKE")))
  | None => false
  end.

Definition not_none (o : option sval) : bool := match o with Some v => negb (is_none v) | None => false end.

Definition step (o : cmeta) (g : gstate) (u : use) : gstate :=
  let config := config_of_use u in
  let m := bound_meta config o in
  let b := match config, m with
           | Some _, Some mm => bind_to mm (g_bind g)
           | _, _ => g_bind g
           end in
  let v1 := otruthy (cget (S "v1") m) in
  {| g_bind := b;
     g_dump_keys := match u_kind u, g_dump_keys g with
                    | UDump, None => Some (dp_case b)
                    | _, k => k
                    end;
     g_whitelist := match u_kind u with
                    | ULoad => if negb v1 && not_none (cget k_tag m)
                               then or_tag (cget k_tag_key m) :: g_whitelist g else g_whitelist g
                    | UDump => g_whitelist g
                    end;
     g_v1_alias := match u_kind u, g_v1_alias g with
                   | ULoad, None => if v1 && negb (not_none (cget (S "v1_field_to_alias") o)) && renames (ld_case b)
                                    then ld_case b else None
                   | _, a => a
                   end |}.

Definition run_uses (o : cmeta) (h : list use) : gstate := fold_left (step o) h (g0 o).

(* behaviour of the function generated for the observation `u` after the earlier uses `h` *)
Definition hist_behaviour (o : cmeta) (h : list use) (u : use) : behaviour :=
  let g := step o (run_uses o h) u in
  let b := g_bind g in
  behaviour_of (bound_meta (config_of_use u) o)
    {| ld_case := ld_case b;
       dp_case := match g_dump_keys g with Some k => k | None => dp_case b end;
       dt_timestamp := dt_timestamp b |}.

Definition hist_whitelist (o : cmeta) (h : list use) (u : use) : list sval := g_whitelist (step o (run_uses o h) u).
Definition hist_v1_alias (o : cmeta) (h : list use) (u : use) : option sval := g_v1_alias (step o (run_uses o h) u).

(* the components that are read from the merged Meta only *)
Definition stable_part (b : behaviour) :=
  (b_skip_defaults b, b_skip_if b, b_skip_defaults_if b, b_raise_unknown b, b_v1_unknown b, b_tag b, b_tag_key b,
   b_keymap b, b_v1alias b).

(* ---- encoders for the correspondence harness ------------------------------ *)
Definition show_sval (v : sval) : pstr :=
  match v with
  | VNone => S "None"
  | VBool true => S "True"
  | VBool false => S "False"
  | VStr s => S "s:" ++ s
  | VEnum s => S "e:" ++ s
  | VTok n => S "t:" ++ [ch (48 + n)]
  end.
Definition show_o (o : option sval) : pstr := match o with Some v => show_sval v | None => S "-" end.
Definition show_b (b : bool) : pstr := if b then S "1" else S "0".

Definition show_behaviour (b : behaviour) (auto : bool) : pstr :=
  join (S "|") [show_o (b_ld_case b); show_o (b_dp_case b); show_b (b_dt_timestamp b); show_b (b_skip_defaults b);
                show_o (b_skip_if b); show_o (b_skip_defaults_if b); show_b (b_raise_unknown b); show_o (b_v1_unknown b);
                show_o (b_tag b); show_sval (b_tag_key b); show_o (b_keymap b); show_o (b_v1alias b); show_b auto].

(* the behaviour of the innermost class N of a shape, as the implementation computes it *)
Definition show_impl (e : engine) (root o : cmeta) : pstr :=
  show_behaviour (impl_behaviour (root_config e root) o) (impl_union_auto (root_config e root)).
Definition show_spec (root o : cmeta) : pstr :=
  show_behaviour (spec_behaviour (effective o root)) (spec_union_auto (effective o root)).

Definition show_hist (by_value : bool) (o : cmeta) (h : list use) (u : use) : pstr :=
  show_behaviour (hist_behaviour o h u)
    (if by_value then impl_union_auto_byvalue (config_of_use u) o else impl_union_auto (config_of_use u))
  ++ S "|" ++ join (S ",") (map show_sval (hist_whitelist o h u))
  ++ S "|" ++ show_o (hist_v1_alias o h u).

Definition show_nodes (l : list node) : pstr :=
  join (S ";") (map (fun n => n_name n ++ S "=" ++ show_behaviour (behaviour_of (n_meta n) default_binding) false) l).
