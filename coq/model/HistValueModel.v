(* HistValueModel.v — second state machine of property C06 (composable with StateModel.v).

   What it describes (and StateModel.v does not):
     (a) VALUE-LEVEL conversions on values that carry their EXACT Python type (bool / int / float /
         Decimal / Fraction / str / datetime / date / time / timedelta), Python's `==`-and-hash key
         equivalence `py_eq` on them (1 == 1.0 == True == Decimal(1); equal aware datetimes of
         different zones), and a value-level memo table consulted with a key equality `mk` that is a
         parameter of the machine (the library has no such memo: `mk_none`; seeded change C06-9
         installs one keyed by Python `==`: `mk_py`);
     (b) the per-class GENERATED LOADER of both engines as a state component: the default engine's
         key cache JSON_FIELD_TO_DATACLASS_FIELD (pre-filled with aliases, filled by loads), the v1
         engine's baked key-resolution order per field (explicit aliases / no key case / AUTO =
         field name then possible_json_keys / a fixed key case), generated at first use;
     (c) ANNOTATION OBJECTS shared between classes: a `Pattern(...)` object used as
         `Annotated[date|datetime|time, P]` at several positions; its mutable attribute `cls` is
         re-targeted by every parser set up with it (parsers.py PatternedDTParser.__post_init__)
         and read again when a ParseError is built (PatternedDTParser.__call__).  Since fix commit 38c6a1a every
         parser works on its OWN copy of the pattern (finding F73 repaired): the machine parameter `shared_pat`
         is false for the library; `shared_pat = true` is the pre-fix variant, in which the error names the type
         of the position set up LAST.
   Operations: define a class / load a document (ordered key -> typed value pairs, several spellings
   of one field allowed) / dump an instance.  Leaf conversions that are not spelled out here and the
   stdlib parsers are Section variables.  No proofs in this file. *)
From DW Require Import PyStr StrConv StateModel HistMemo.
From Coq Require Import List ZArith Bool.
Import ListNotations.
Local Open Scope Z_scope.

(* ---------------------------------------------------------------- values with their exact type *)
Inductive xty := XNone | XBool | XInt | XFloat | XDecimal | XFraction | XStr | XDatetime | XDate | XTime | XDelta | XOther.
Definition xty_code (t : xty) : N :=
  match t with XNone => 0 | XBool => 1 | XInt => 2 | XFloat => 3 | XDecimal => 4 | XFraction => 5 | XStr => 6
             | XDatetime => 7 | XDate => 8 | XTime => 9 | XDelta => 10 | XOther => 11 end%N.
Definition xty_eqb (a b : xty) : bool := N.eqb (xty_code a) (xty_code b).

(* what Python's == and hash look at *)
Inductive eqk :=
| QNone
| QNum (n : Z) (d : positive)                    (* the number n/d, whatever its type *)
| QStr (s : pstr)
| QMoment (k : xty) (aware : bool) (inst : Z)    (* aware: instant on the UTC line; naive: the wall-clock fields *)
| QDelta (us : Z)
| QId (s : pstr).

Definition py_eqk (a b : eqk) : bool :=
  match a, b with
  | QNone, QNone => true
  | QNum n d, QNum n' d' => (n * Zpos d' =? n' * Zpos d)
  | QStr s, QStr s' => pstr_eqb s s'
  | QMoment k a i, QMoment k' a' i' => xty_eqb k k' && Bool.eqb a a' && (i =? i')
  | QDelta u, QDelta u' => (u =? u')
  | QId s, QId s' => pstr_eqb s s'
  | _, _ => false
  end.
Definition eqk_same (a b : eqk) : bool :=
  match a, b with
  | QNone, QNone => true
  | QNum n d, QNum n' d' => (n =? n') && Pos.eqb d d'
  | QStr s, QStr s' => pstr_eqb s s'
  | QMoment k a i, QMoment k' a' i' => xty_eqb k k' && Bool.eqb a a' && (i =? i')
  | QDelta u, QDelta u' => (u =? u')
  | QId s, QId s' => pstr_eqb s s'
  | _, _ => false
  end.

(* a Python value: exact type, ==-class, canonical text (type letter + payload; finest: Decimal('1') / Decimal('1.0'),
   0.0 / -0.0, equal instants of different zones have different texts) *)
Record xv := { x_ty : xty; x_eq : eqk; x_txt : pstr }.
Definition py_eq (a b : xv) : bool := py_eqk (x_eq a) (x_eq b).               (* dict-key equivalence: == and equal hash *)
Definition xv_same (a b : xv) : bool := xty_eqb (x_ty a) (x_ty b) && eqk_same (x_eq a) (x_eq b) && pstr_eqb (x_txt a) (x_txt b).

(* ---------------------------------------------------------------- conversions *)
Inductive cerr := CEParse (ty : pstr) | CERaw (name : pstr).     (* ParseError naming a type / another exception class, raised as is *)
Inductive cres := COk (v : xv) | CErr (e : cerr).
Inductive dkind := KDt | KDate | KTime.
Definition kind_ty (k : dkind) : xty := match k with KDt => XDatetime | KDate => XDate | KTime => XTime end.
Definition kind_name (k : dkind) : pstr := match k with KDt => S "datetime" | KDate => S "date" | KTime => S "time" end.
Definition dkind_eqb (a b : dkind) : bool :=
  match a, b with KDt, KDt | KDate, KDate | KTime, KTime => true | _, _ => false end.

(* outcome of type_conv.as_datetime / as_date / as_time before `raise_` is looked at *)
Inductive amres := AmOk (v : xv) | AmRaise (name : pstr) | AmBadStr | AmBadType.
Definition am_cacheable (r : amres) : bool := match r with AmOk _ => true | _ => false end.

Inductive xfty :=
| FLeaf (t : pstr)                       (* int, float, bool, str, Decimal, timedelta, Any: conversion by the oracle *)
| FMoment (k : dkind)                    (* datetime / date / time *)
| FPat (obj fmt : nat) (k : dkind).      (* Annotated[k, P_obj], P_obj = Pattern(fmt): obj names the OBJECT *)
Definition leaf_name (t : xfty) : pstr :=
  match t with
  | FLeaf n => n
  | FMoment k => kind_name k
  | FPat _ fmt k => S "pat" ++ dec (Z.of_nat fmt) ++ S ":" ++ kind_name k
  end.

Record xfield := { xf_name : pstr; xf_ty : xfty; xf_default : option xv; xf_aliases : list pstr }.
Inductive kcase := KCNone | KCAuto | KCTr (t : tr).                 (* v1_key_case *)
Record xcdef := { xc_id : nat; xc_v1 : bool; xc_ltr : option tr;    (* key_transform_with_load (default engine) *)
                  xc_case : kcase; xc_raise : bool;                 (* raise_on_unknown_json_key / v1_on_unknown_key='RAISE' *)
                  xc_fields : list xfield }.
Definition xc_names (d : xcdef) : list pstr := map xf_name (xc_fields d).

Fixpoint find_field (fs : list xfield) (n : pstr) : option xfield :=
  match fs with [] => None | f :: r => if pstr_eqb n (xf_name f) then Some f else find_field r n end.

(* ---------------------------------------------------------------- what the generated functions of a class hold *)
Definition ktable := @mtable pstr kpure.
(* default engine: JSON_FIELD_TO_DATACLASS_FIELD[cls] before the first load: the alias entries, later fields overwrite *)
Definition init_keys (d : xcdef) : ktable :=
  rev (flat_map (fun f => map (fun a => (a, RField (xf_name f))) (xf_aliases f)) (xc_fields d)).
(* the function that table memoises *)
Definition resolve_x (d : xcdef) (k : pstr) : kpure :=
  match mlookup pstr_eqb (init_keys d) k with
  | Some r => r
  | None => resolve_pure (xc_names d) (xc_ltr d) k
  end.
(* unknown keys are not cached under raise_on_unknown_json_key (F1 repaired); an IndexError is never cached *)
Definition key_cacheable (d : xcdef) (r : kpure) : bool :=
  match r with RField _ => true | RUnknown => negb (xc_raise d) | RIndex => false end.

(* v1: the keys the generated loader tries for a field, in order (v1/loaders.py load_func_for_dataclass) *)
Definition chain_of (d : xcdef) (f : xfield) : option (list pstr) :=
  match xf_aliases f with
  | _ :: _ => Some (xf_aliases f)
  | [] =>
      match xc_case d with
      | KCNone => Some [xf_name f]
      | KCAuto => match possible_json_keys (xf_name f) with Some ks => Some (xf_name f :: ks) | None => None end
      | KCTr t => match apply_tr t (xf_name f) with Some k => Some [k] | None => None end
      end
  end.
Fixpoint chains_of (d : xcdef) (fs : list xfield) : option (list (xfield * list pstr)) :=
  match fs with
  | [] => Some []
  | f :: r => match chain_of d f, chains_of d r with
              | Some c, Some cs => Some ((f, c) :: cs)
              | _, _ => None
              end
  end.

Record lgen := { lg_keys : ktable; lg_chain : list (xfield * list pstr) }.
(* dump function: field -> key *)
Definition dkey_of (d : xcdef) (f : xfield) : option pstr :=
  (* the dump side is the default dumper for both kinds of class here (LoadMeta(v1=True) configures loading only):
     camelCase; json_field(keys, all=True) dumps under its first key; a v1 Alias(load=..) is load-only *)
  if xc_v1 d then to_camel (xf_name f)
  else match xf_aliases f with a :: _ => Some a | [] => to_camel (xf_name f) end.
Fixpoint dkeys_of (d : xcdef) (fs : list xfield) : option (list (pstr * pstr)) :=
  match fs with
  | [] => Some []
  | f :: r => match dkey_of d f, dkeys_of d r with
              | Some k, Some ks => Some ((xf_name f, k) :: ks)
              | _, _ => None
              end
  end.
Record gstate := { g_load : option lgen; g_dump : option (list (pstr * pstr)) }.
Definition hg0 : gstate := {| g_load := None; g_dump := None |}.

(* ---------------------------------------------------------------- state *)
Definition vtable := @mtable (dkind * xv) amres.
Record hstate := { h_defs : list xcdef;               (* class statements executed so far *)
                   h_gen : list (nat * gstate);       (* CLASS_TO_LOAD_FUNC / CLASS_TO_DUMP_FUNC and what they close over *)
                   h_ann : list (nat * dkind);        (* Pattern object -> its attribute `cls` *)
                   h_memo : vtable }.                 (* value-level memo *)
Definition hinit : hstate := {| h_defs := []; h_gen := []; h_ann := []; h_memo := [] |}.

Fixpoint find_def (ds : list xcdef) (c : nat) : option xcdef :=
  match ds with [] => None | d :: r => if Nat.eqb c (xc_id d) then Some d else find_def r c end.
Definition gen_of (s : hstate) (c : nat) : gstate := match assoc_n c (h_gen s) with Some g => g | None => hg0 end.
Fixpoint set_n {A} (k : nat) (v : A) (l : list (nat * A)) : list (nat * A) :=
  match l with [] => [(k, v)] | (k', v') :: r => if Nat.eqb k k' then (k, v) :: r else (k', v') :: set_n k v r end.

(* ---------------------------------------------------------------- operations and outcomes *)
Inductive hop :=
| HDefine (d : xcdef)
| HLoad (c : nat) (doc : list (pstr * xv))
| HDump (c : nat) (inst : list (pstr * xv)).
Definition h_is_def (o : hop) : bool := match o with HDefine _ => true | _ => false end.

Inductive herr :=
| HEUndef                                         (* class not defined (outside the grammar) *)
| HEParse (c : nat) (f : pstr) (ty : pstr)        (* ParseError(class, field) naming type ty *)
| HERaw (name : pstr)                             (* any other exception, by class name *)
| HEMissing (c : nat) (fs : list pstr)            (* MissingFields *)
| HEUnknown (c : nat) (k : option pstr)           (* UnknownKeysError: the key (default engine) / a set (v1) *)
| HEIndex                                         (* IndexError of a key transform *)
| HEModel.                                        (* model-internal, unreachable *)
Inductive hout := HDone | HVal (c : nat) (fs : list (pstr * xv)) | HJson (kv : list (pstr * xv)) | HErr (e : herr).

Definition lift_err (c : nat) (f : pstr) (e : cerr) : herr :=
  match e with CEParse ty => HEParse c f ty | CERaw n => HERaw n end.
(* the same outcome with the type a ParseError names left out *)
Definition erase_ty (o : hout) : hout :=
  match o with HErr (HEParse c f _) => HErr (HEParse c f []) | _ => o end.

Fixpoint first_present (ks : list pstr) (doc : list (pstr * xv)) : option xv :=
  match ks with
  | [] => None
  | k :: r => match assoc_s k doc with Some v => Some v | None => first_present r doc end
  end.

Section Machine.
  (* false: every default-engine pattern parser has its own copy of the Pattern object (the library, since 38c6a1a);
     true: the pre-fix variant - parsers re-target the shared object and read it again when they report an error *)
  Variable shared_pat : bool.
  (* leaf conversions not spelled out (v1 flag, type name, value): every v1 conversion; default engine int/float/bool/str/... *)
  Variable conv0 : bool -> pstr -> xv -> cres.
  (* value dumped for a field value (v1 flag, value): the dump hook selected by the exact type *)
  Variable dumpv : bool -> xv -> cres.
  (* stdlib: base_type.fromisoformat on the text of a str (after the library's 'Z' replacement) *)
  Variable iso : dkind -> pstr -> option xv.
  (* stdlib: base_type.fromtimestamp(number[, tz=utc]) by the text of the number; may raise *)
  Variable fromts : dkind -> pstr -> cres.
  (* stdlib: datetime.strptime(text, fmt) projected to the kind (.date() / .time()) *)
  Variable strp : nat -> dkind -> pstr -> option xv.
  (* key equality of the value-level memo table *)
  Variable mk : dkind * xv -> dkind * xv -> bool.

  (* type_conv.as_datetime / as_date / as_time: dispatch on the EXACT type of the value *)
  Definition am (kv : dkind * xv) : amres :=
    let k := fst kv in let v := snd kv in
    match x_ty v with
    | XStr => match iso k (x_txt v) with Some r => AmOk r | None => AmBadStr end
    | XInt | XFloat =>
        match k with
        | KTime => AmBadType
        | _ => match fromts k (x_txt v) with
               | COk r => AmOk r
               | CErr (CERaw n) => AmRaise n
               | CErr (CEParse n) => AmRaise n
               end
        end
    | t => if xty_eqb t (kind_ty k) then AmOk v else AmBadType
    end.

  (* default engine: conversion of one field value.  `an obj k` = name of the type a ParseError of the position (obj, k) reports *)
  Definition d_conv (an : nat -> dkind -> pstr) (mt : vtable) (f : xfield) (v : xv) : vtable * cres :=
    match xf_ty f with
    | FLeaf t => (mt, conv0 false t v)
    | FMoment k =>
        let r := mcall am mk am_cacheable mt (k, v) in
        (fst r, match snd r with
                | AmOk w => COk w
                | AmRaise n => CErr (CERaw n)
                | AmBadStr => CErr (CERaw (S "ValueError"))
                | AmBadType => CErr (CERaw (S "TypeError"))
                end)
    | FPat obj fmt k =>
        (* generated pattern_to_dt: as_*(.., raise_=False) first, then strptime; a ValueError becomes ParseError(.., P.cls, ..) *)
        let r := mcall am mk am_cacheable mt (k, v) in
        (fst r, match snd r with
                | AmOk w => COk w
                | AmRaise n => CErr (CERaw n)
                | _ => match x_ty v with
                       | XStr => match strp fmt k (x_txt v) with
                                 | Some w => COk w
                                 | None => CErr (CEParse (an obj k))
                                 end
                       | _ => CErr (CERaw (S "TypeError"))
                       end
                end)
    end.

  (* default engine: the generated cls_fromdict loops over the document *)
  Fixpoint d_loop (d : xcdef) (an : nat -> dkind -> pstr) (doc : list (pstr * xv)) (kt : ktable) (mt : vtable)
           (kw : list (pstr * xv)) : ktable * vtable * (herr + list (pstr * xv)) :=
    match doc with
    | [] => (kt, mt, inr kw)
    | (k, v) :: r =>
        let a := mcall (resolve_x d) pstr_eqb (key_cacheable d) kt k in
        match snd a with
        | RIndex => (fst a, mt, inl HEIndex)
        | RUnknown => if xc_raise d then (fst a, mt, inl (HEUnknown (xc_id d) (Some k))) else d_loop d an r (fst a) mt kw
        | RField fname =>
            match find_field (xc_fields d) fname with
            | None => (fst a, mt, inl HEModel)
            | Some f =>
                let cv := d_conv an mt f v in
                match snd cv with
                | CErr e => (fst a, fst cv, inl (lift_err (xc_id d) fname e))
                | COk w => d_loop d an r (fst a) (fst cv) (set_assoc_s fname w kw)
                end
            end
        end
    end.

  (* constructor call: declared order, defaults, MissingFields *)
  Fixpoint build (fs : list xfield) (kw : list (pstr * xv)) : list (pstr * xv) * list pstr :=
    match fs with
    | [] => ([], [])
    | f :: r =>
        let rest := build r kw in
        match assoc_s (xf_name f) kw with
        | Some v => ((xf_name f, v) :: fst rest, snd rest)
        | None => match xf_default f with
                  | Some v => ((xf_name f, v) :: fst rest, snd rest)
                  | None => (fst rest, xf_name f :: snd rest)
                  end
        end
    end.
  Definition construct (d : xcdef) (kw : list (pstr * xv)) : hout :=
    let b := build (xc_fields d) kw in
    match snd b with [] => HVal (xc_id d) (fst b) | ms => HErr (HEMissing (xc_id d) ms) end.

  (* v1: the generated loader looks every field up through its baked key chain *)
  Fixpoint v1_loop (c : nat) (fs : list (xfield * list pstr)) (doc : list (pstr * xv))
    : herr + (list (pstr * xv) * nat) :=
    match fs with
    | [] => inr ([], 0%nat)
    | (f, ks) :: r =>
        match first_present ks doc with
        | Some v =>
            match conv0 true (leaf_name (xf_ty f)) v with
            | CErr e => inl (lift_err c (xf_name f) e)
            | COk w => match v1_loop c r doc with
                       | inl e => inl e
                       | inr (kw, n) => inr ((xf_name f, w) :: kw, Datatypes.S n)
                       end
            end
        | None => v1_loop c r doc
        end
    end.
  Definition v1_load (d : xcdef) (chains : list (xfield * list pstr)) (doc : list (pstr * xv)) : hout :=
    match v1_loop (xc_id d) chains doc with
    | inl e => HErr e
    | inr (kw, n) =>
        let known := flat_map snd chains in
        let extra := filter (fun k => negb (mem_str k known)) (map fst doc) in
        if xc_raise d && negb (Nat.eqb (List.length doc) n) && negb (match extra with [] => true | _ => false end)
        then HErr (HEUnknown (xc_id d) None)
        else construct d kw
    end.

  (* generation of the load function at first use.  Default engine: every Pattern position re-targets its object *)
  Fixpoint retarget (fs : list xfield) (ann : list (nat * dkind)) : list (nat * dkind) :=
    match fs with
    | [] => ann
    | f :: r => match xf_ty f with
                | FPat obj _ k => retarget r (set_n obj k ann)
                | _ => retarget r ann
                end
    end.
  Definition ann_name (ann : list (nat * dkind)) (obj : nat) : pstr :=
    match assoc_n obj ann with Some k => kind_name k | None => S "?" end.

  (* the type a ParseError of position (obj, k) names, given the state of the annotation objects *)
  Definition pat_view (ann : list (nat * dkind)) : nat -> dkind -> pstr :=
    if shared_pat then (fun obj _ => ann_name ann obj) else (fun _ k => kind_name k).
  (* the annotation objects after the load function of d has been generated *)
  Definition gen_ann (d : xcdef) (ann : list (nat * dkind)) : list (nat * dkind) :=
    if shared_pat then (if xc_v1 d then ann else retarget (xc_fields d) ann) else ann.

  Definition gen_load (d : xcdef) : option lgen :=
    if xc_v1 d then match chains_of d (xc_fields d) with
                    | Some cs => Some {| lg_keys := []; lg_chain := cs |}
                    | None => None
                    end
    else Some {| lg_keys := init_keys d; lg_chain := [] |}.

  Definition set_gen (s : hstate) (c : nat) (g : gstate) : hstate :=
    {| h_defs := h_defs s; h_gen := set_n c g (h_gen s); h_ann := h_ann s; h_memo := h_memo s |}.

  Definition do_load (s : hstate) (d : xcdef) (doc : list (pstr * xv)) : hstate * hout :=
    let c := xc_id d in
    let g := gen_of s c in
    (* first use: generate *)
    let gen := match g_load g with
               | Some lg => Some (lg, h_ann s)
               | None => match gen_load d with
                         | Some lg => Some (lg, gen_ann d (h_ann s))
                         | None => None
                         end
               end in
    match gen with
    | None => (s, HErr HEIndex)
    | Some (lg, ann) =>
        if xc_v1 d then
          ({| h_defs := h_defs s; h_gen := set_n c {| g_load := Some lg; g_dump := g_dump g |} (h_gen s);
              h_ann := ann; h_memo := h_memo s |},
           v1_load d (lg_chain lg) doc)
        else
          let r := d_loop d (pat_view ann) doc (lg_keys lg) (h_memo s) [] in
          let kt := fst (fst r) in let mt := snd (fst r) in
          ({| h_defs := h_defs s;
              h_gen := set_n c {| g_load := Some {| lg_keys := kt; lg_chain := lg_chain lg |}; g_dump := g_dump g |} (h_gen s);
              h_ann := ann; h_memo := mt |},
           match snd r with inl e => HErr e | inr kw => construct d kw end)
    end.

  (* dump: the generated function emits its baked keys in field order *)
  Fixpoint dump_fields (v1 : bool) (ks : list (pstr * pstr)) (inst : list (pstr * xv)) : herr + list (pstr * xv) :=
    match ks with
    | [] => inr []
    | (n, k) :: r =>
        match assoc_s n inst with
        | None => inl (HERaw (S "AttributeError"))
        | Some v => match dumpv v1 v with
                    | CErr e => inl (lift_err 0%nat n e)
                    | COk w => match dump_fields v1 r inst with
                               | inl e => inl e
                               | inr kv => inr ((k, w) :: kv)
                               end
                    end
        end
    end.
  Definition do_dump (s : hstate) (d : xcdef) (inst : list (pstr * xv)) : hstate * hout :=
    let c := xc_id d in
    let g := gen_of s c in
    let gen := match g_dump g with Some ks => Some ks | None => dkeys_of d (xc_fields d) end in
    match gen with
    | None => (s, HErr HEIndex)
    | Some ks =>
        (set_gen s c {| g_load := g_load g; g_dump := Some ks |},
         match dump_fields (xc_v1 d) ks inst with inl e => HErr e | inr kv => HJson kv end)
    end.

  Definition hstep (s : hstate) (o : hop) : hstate * hout :=
    match o with
    | HDefine d =>
        match find_def (h_defs s) (xc_id d) with
        | Some _ => (s, HDone)       (* ids name class OBJECTS: a second statement with a known id is the same class *)
        | None => ({| h_defs := d :: h_defs s; h_gen := h_gen s; h_ann := h_ann s; h_memo := h_memo s |}, HDone)
        end
    | HLoad c doc => match find_def (h_defs s) c with None => (s, HErr HEUndef) | Some d => do_load s d doc end
    | HDump c inst => match find_def (h_defs s) c with None => (s, HErr HEUndef) | Some d => do_dump s d inst end
    end.

  Definition hrun (s : hstate) (h : list hop) : hstate := fold_left (fun s o => fst (hstep s o)) h s.
  Fixpoint hrun_out (s : hstate) (h : list hop) : list hout :=
    match h with [] => [] | o :: r => snd (hstep s o) :: hrun_out (fst (hstep s o)) r end.
  (* the definitions of a history: what a pristine interpreter executes before the call *)
  Definition hdefs_all (h : list hop) : list hop := filter h_is_def h.

  (* ---- the cache-free reference: no table is read, Pattern objects name the type of their own position *)
  Definition own_name (d : xcdef) (obj : nat) : pstr :=
    ann_name (retarget (xc_fields d) []) obj.
  Fixpoint d_ref (d : xcdef) (an : nat -> dkind -> pstr) (doc : list (pstr * xv)) (kw : list (pstr * xv)) : herr + list (pstr * xv) :=
    match doc with
    | [] => inr kw
    | (k, v) :: r =>
        match resolve_x d k with
        | RIndex => inl HEIndex
        | RUnknown => if xc_raise d then inl (HEUnknown (xc_id d) (Some k)) else d_ref d an r kw
        | RField fname =>
            match find_field (xc_fields d) fname with
            | None => inl HEModel
            | Some f =>
                match snd (d_conv an [] f v) with        (* the empty table: the conversion itself *)
                | CErr e => inl (lift_err (xc_id d) fname e)
                | COk w => d_ref d an r (set_assoc_s fname w kw)
                end
            end
        end
    end.
  Definition pure_load (d : xcdef) (an : nat -> dkind -> pstr) (doc : list (pstr * xv)) : hout :=
    if xc_v1 d then match chains_of d (xc_fields d) with
                    | Some cs => v1_load d cs doc
                    | None => HErr HEIndex
                    end
    else match d_ref d an doc [] with inl e => HErr e | inr kw => construct d kw end.
  Definition pure_dump (d : xcdef) (inst : list (pstr * xv)) : hout :=
    match dkeys_of d (xc_fields d) with
    | None => HErr HEIndex
    | Some ks => match dump_fields (xc_v1 d) ks inst with inl e => HErr e | inr kv => HJson kv end
    end.
  Definition pure_hop (ds : list xcdef) (o : hop) : hout :=
    match o with
    | HDefine _ => HDone
    | HLoad c doc => match find_def ds c with
                     | None => HErr HEUndef
                     | Some d => pure_load d (if shared_pat then (fun obj _ => own_name d obj) else (fun _ k => kind_name k)) doc
                     end
    | HDump c inst => match find_def ds c with None => HErr HEUndef | Some d => pure_dump d inst end
    end.
End Machine.

(* key equalities of the value-level memo *)
Definition mk_none (a b : dkind * xv) : bool := false.                                                  (* the library: no memo *)
Definition mk_exact (a b : dkind * xv) : bool := dkind_eqb (fst a) (fst b) && xv_same (snd a) (snd b).   (* keyed by (type, value) exactly *)
Definition mk_py (a b : dkind * xv) : bool := dkind_eqb (fst a) (fst b) && py_eq (snd a) (snd b).        (* a Python dict keyed by (value, base_type) *)

(* every Pattern object is used at positions of ONE date/time type throughout the definitions *)
Fixpoint pat_positions (ds : list xcdef) : list (nat * dkind) :=
  match ds with
  | [] => []
  | d :: r => flat_map (fun f => match xf_ty f with FPat obj _ k => [(obj, k)] | _ => [] end) (xc_fields d) ++ pat_positions r
  end.
Definition pat_consistent_l (ps : list (nat * dkind)) : bool :=
  forallb (fun p => forallb (fun q => negb (Nat.eqb (fst p) (fst q)) || dkind_eqb (snd p) (snd q)) ps) ps.
Fixpoint hop_defs (h : list hop) : list xcdef :=
  match h with [] => [] | HDefine d :: r => d :: hop_defs r | _ :: r => hop_defs r end.
Definition pat_consistent (h : list hop) : bool := pat_consistent_l (pat_positions (hop_defs h)).
