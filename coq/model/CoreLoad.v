(* CoreLoad.v — model of dataclass_wizard/loaders.py + parsers.py (default engine):
   the parser chosen per annotation (get_parser_for_annotation) and its __call__:
   scalar coercions (type_conv.as_int/as_bool/as_str, float()), tokens through the
   stdlib oracles, Enum by value, IterableParser, TupleParser (arity window),
   VariadicTupleParser, MappingParser/DefaultDictParser, OptionalParser, UnionParser
   (None passes when None is a member, exact-type membership scan, then tag dispatch), LiteralParser
   (value then type), NamedTupleParser, TypedDictParser (required keys), and the
   generated cls_fromdict (key resolution: alias table, exact name, to_snake_case
   case-insensitive; tag key ignored; unknown keys ignored; defaults; MissingFields).

   Stdlib / third-party functions the library CALLS are the oracle `orc`:
   a Section variable; for execution the harness passes a finite table computed by
   the real functions.  The model checks the *kind* of every oracle answer, so the
   conformance theorem needs no hypothesis about the oracle.
   Inputs outside the modelled fragment give `Err (EUnmodelled _)`, never a value.
   Not modelled: raise_on_unknown_json_key, JSON paths, catch-all, patterned dates,
   recursive classes, auto_assign_tags, the key cache (C10, C08, C17, C06).
   No proofs in this file. *)
From DW Require Export CoreSchema StrConv.
From Coq Require Import ZArith.

Inductive ores := OVal (v : pv) | ORaise | OMiss.

Record lcfg := mkL { l_tag_key : pstr }.

Definition raise {A} (k : string) : res A := Err (ERaise (S k)).
Definition unmodelled {A} (w : string) : res A := Err (EUnmodelled (S w)).

Definition is_ascii (c : ascii) : bool := (code c <? 128)%N.

(* iteration protocol: `for e in o` *)
Definition iter_of (j : pv) : res (list pv) :=
  match j with
  | VSeq _ _ xs => Ok xs
  | VNT _ xs => Ok xs
  | VDict _ _ kvs => Ok (map fst kvs)
  | VStr s => if forallb is_ascii s then Ok (map (fun c => VStr [c]) s) else unmodelled "iteration over a non-ASCII str"
  | VBytes _ _ _ => unmodelled "iteration over bytes"
  | VInst _ _ => raise "TypeError"
  | _ => raise "TypeError"
  end.

(* `not o` *)
Definition falsy (j : pv) : bool :=
  match j with
  | VNone | VBool false | VInt Z0 | VStr [] | VSeq _ _ [] | VDict _ _ [] | VNT _ [] | VBytes _ [] _ => true
  | _ => false
  end.

Definition truthy_values : list pstr := [S "true"; S "t"; S "yes"; S "y"; S "on"; S "1"].

Definition c_period : ascii := "."%char.

(* o.replace('.', '', 1).isdigit() on ASCII *)
Fixpoint drop_first_dot (s : pstr) : pstr :=
  match s with
  | [] => []
  | c :: r => if ascii_eqb c c_period then r else c :: drop_first_dot r
  end.
Definition numeric_text (s : pstr) : bool :=
  match drop_first_dot s with [] => false | d => forallb is_digit d end.

Definition is_unhashable (j : pv) : bool :=
  match j with
  | VSeq SList _ _ | VSeq SSet _ _ | VSeq SDeque _ _ | VDict _ _ _ | VBytes true _ _ | VInst _ _ => true
  | _ => false
  end.

(* hash(o) succeeds: lists, sets, deques, dicts, bytearrays and (eq=True) dataclass instances do not hash,
   tuples / frozensets / namedtuples hash when their elements do *)
Fixpoint hashable (v : pv) : bool :=
  match v with
  | VSeq STuple _ xs | VSeq SFrozenSet _ xs | VNT _ xs => forallb hashable xs
  | VSeq _ _ _ | VDict _ _ _ | VBytes true _ _ | VInst _ _ => false
  | _ => true
  end.

Definition z_text : pstr := S "Z".

Section Load.
Variable orc : pstr -> pv -> ores.
Variable cfg : lcfg.

Definition ocall (fn : string) (a : pv) : res pv :=
  match orc (S fn) a with
  | OVal v => Ok v
  | ORaise => Err (ERaise (S fn))
  | OMiss => Err (EOracleMiss (S fn))
  end.

Definition want_int (r : res pv) : res pv :=
  bind r (fun v => match v with VInt _ => Ok v | _ => Err (EOracleMiss (S "kind:int")) end).
Definition want_float (r : res pv) : res pv :=
  bind r (fun v => match v with VFloat _ => Ok v | _ => Err (EOracleMiss (S "kind:float")) end).
Definition want_str (r : res pv) : res pv :=
  bind r (fun v => match v with VStr _ => Ok v | _ => Err (EOracleMiss (S "kind:str")) end).
Definition want_tok (k : tkind) (r : res pv) : res pv :=
  bind r (fun v => match v with
                   | VTok t => if tkind_eqb (tk_kind t) k then Ok v else Err (EOracleMiss (S "kind:tok"))
                   | _ => Err (EOracleMiss (S "kind:tok"))
                   end).

(* ---- scalar coercions (utils/type_conv.py) -------------------------------- *)
(* as_int(o, int): exact int kept; str: '' -> 0, with '.' -> int(round(float(o))), else int(o);
   float -> int(round(o)); bool -> TypeError; otherwise int(o), and on TypeError/ValueError
   `0` when `not o` *)
Definition load_int (j : pv) : res pv :=
  match j with
  | VInt _ => Ok j
  | VStr [] => Ok (VInt 0)
  | VStr s => if existsb (fun c => ascii_eqb c c_period) s
              then want_int (ocall "int_round_float_str" j)
              else want_int (ocall "int_str" j)
  | VFloat _ => want_int (ocall "int_round_float" j)
  | VBool _ => raise "TypeError"
  | VNone | VSeq _ _ _ | VDict _ _ _ | VNT _ _ => if falsy j then Ok (VInt 0) else raise "TypeError"
  | _ => unmodelled "as_int"
  end.

Definition load_float (j : pv) : res pv :=
  match j with
  | VFloat _ => Ok j
  | VInt _ => want_float (ocall "float_int" j)
  | VBool _ => want_float (ocall "float_int" j)
  | VStr _ => want_float (ocall "float_str" j)
  | VNone | VSeq _ _ _ | VDict _ _ _ | VNT _ _ | VInst _ _ => raise "TypeError"
  | _ => unmodelled "float()"
  end.

(* as_bool: bool kept; str: lower() in TRUTHY_VALUES; otherwise o == 1 *)
Definition load_bool (j : pv) : res pv :=
  match j with
  | VBool _ => Ok j
  | VStr s => if forallb is_ascii s then Ok (VBool (mem_str (lower s) truthy_values))
              else unmodelled "str.lower() on non-ASCII"
  | VInt z => Ok (VBool (Z.eqb z 1))
  | VFloat _ => bind (ocall "float_eq_int" j)      (* VInt z when the float equals the integer z, else VNone *)
                     (fun v => Ok (VBool (match v with VInt z => Z.eqb z 1 | _ => false end)))
  | VNone | VSeq _ _ _ | VDict _ _ _ | VNT _ _ => Ok (VBool false)
  | _ => unmodelled "as_bool"
  end.

(* as_str: None -> '', str kept, otherwise str(o) *)
Definition load_str (j : pv) : res pv :=
  match j with
  | VNone => Ok (VStr [])
  | VStr _ => Ok j
  | _ => want_str (ocall "str" j)
  end.

Definition load_bytes (m : bool) (j : pv) : res pv :=
  match j with
  | VBytes m' raw b64 => if Bool.eqb m m' then Ok (VBytes m raw b64) else raise "ParseError"
  | _ => raise "ParseError"
  end.

Definition str_of (j : pv) : res pv :=
  match j with VStr _ => Ok j | _ => want_str (ocall "str" j) end.

Definition load_tok (k : tkind) (j : pv) : res pv :=
  match k with
  | KUUID => match j with
             | VStr _ => want_tok KUUID (ocall "uuid" j)
             | VTok _ | VBytes _ _ _ | VEnum _ _ _ => unmodelled "UUID()"
             | _ => raise "AttributeError"
             end
  | KDecimal => match j with
                | VStr _ | VInt _ | VFloat _ => bind (str_of j) (fun s => want_tok KDecimal (ocall "decimal" s))
                | VNone | VBool _ | VSeq _ _ _ | VDict _ _ _ | VNT _ _ | VInst _ _ => raise "InvalidOperation"
                | _ => unmodelled "Decimal(str())"
                end
  | KPath => match j with
             | VTok _ | VBytes _ _ _ | VEnum _ _ _ | VInst _ _ | VNT _ _ => unmodelled "Path(str())"
             | _ => bind (str_of j) (fun s => want_tok KPath (ocall "path" s))
             end
  | KDateTime => match j with
                 | VStr s => want_tok KDateTime (ocall "datetime_iso" (VStr (replace_first z_text utc_off s)))
                 | VInt _ | VFloat _ => want_tok KDateTime (ocall "datetime_ts" j)
                 | VTok _ | VBytes _ _ _ | VEnum _ _ _ => unmodelled "as_datetime"
                 | _ => raise "TypeError"
                 end
  | KDate => match j with
             | VStr _ => want_tok KDate (ocall "date_iso" j)
             | VInt _ | VFloat _ => want_tok KDate (ocall "date_ts" j)
             | VTok _ | VBytes _ _ _ | VEnum _ _ _ => unmodelled "as_date"
             | _ => raise "TypeError"
             end
  | KTime => match j with
             | VStr s => want_tok KTime (ocall "time_iso" (VStr (replace_first z_text utc_off s)))
             | VTok _ | VBytes _ _ _ | VEnum _ _ _ => unmodelled "as_time"
             | _ => raise "TypeError"
             end
  | KTimedelta => match j with
                  | VStr s => if forallb is_ascii s then
                                if numeric_text s
                                then bind (want_float (ocall "float_str" j)) (fun f => want_tok KTimedelta (ocall "td_seconds" f))
                                else want_tok KTimedelta (ocall "td_parse" j)
                              else unmodelled "str.isdigit() on non-ASCII"
                  | VInt _ | VFloat _ => want_tok KTimedelta (ocall "td_seconds" j)
                  | VTok _ | VBytes _ _ _ | VEnum _ _ _ => unmodelled "as_timedelta"
                  | _ => raise "TypeError"
                  end
  end.

(* ---- Enum(value) -------------------------------------------------------------- *)
Definition val_eq (m : pv) (j : pv) (jint : option Z) : bool :=
  match m, j with
  | VStr a, VStr b => pstr_eqb a b
  | VInt a, VInt b => Z.eqb a b
  | VInt a, VBool b => Z.eqb a (if b then 1 else 0)
  | VInt a, VFloat _ => match jint with Some z => Z.eqb a z | None => false end
  | _, _ => false
  end.

Definition find_member (ms : list (pstr * pv)) (j : pv) (jint : option Z) : option (pstr * pv) :=
  find (fun mv => val_eq (snd mv) j jint) ms.

Definition load_enum (e : einfo) (ms : list (pstr * pv)) (j : pv) : res pv :=
  match j with
  | VEnum e' m _ =>
      if N.eqb (e_id e') (e_id e) then
        match find (fun mv => pstr_eqb (fst mv) m) ms with
        | Some (m', v') => Ok (VEnum e m' v')
        | None => raise "ValueError"
        end
      else raise "ValueError"
  | VStr _ | VInt _ | VBool _ =>
      match find_member ms j None with
      | Some (m, v) => Ok (VEnum e m v)
      | None => raise "ValueError"
      end
  | VFloat _ =>
      bind (ocall "float_eq_int" j) (fun r =>
        match find_member ms j (match r with VInt z => Some z | _ => None end) with
        | Some (m, v) => Ok (VEnum e m v)
        | None => raise "ValueError"
        end)
  | VNone | VSeq _ _ _ | VDict _ _ _ | VNT _ _ | VInst _ _ => raise "ValueError"
  | _ => unmodelled "Enum()"
  end.

(* ---- LiteralParser: value_to_type = {val: type(val)}; `type(o) is not value_to_type[o]` --- *)
Definition tyname (v : pv) : N :=
  match v with VNone => 0 | VBool _ => 1 | VInt _ => 2 | VStr _ => 3 | VFloat _ => 4 | _ => 5 end%N.

(* dict key equality between Literal members and the input (1 == True) *)
Definition lit_eq (m j : pv) : bool :=
  match m, j with
  | VNone, VNone => true
  | VStr a, VStr b => pstr_eqb a b
  | (VInt _ | VBool _), (VInt _ | VBool _) =>
      Z.eqb (match m with VInt a => a | VBool true => 1 | _ => 0 end)
            (match j with VInt a => a | VBool true => 1 | _ => 0 end)
  | _, _ => false
  end.

(* the dict {val: type(val)}: the key is the FIRST equal member, the stored type the LAST one's *)
Fixpoint lit_last_type (vs : list pv) (j : pv) (acc : option N) : option N :=
  match vs with
  | [] => acc
  | m :: r => lit_last_type r j (if lit_eq m j then Some (tyname m) else acc)
  end.

Definition load_literal (vs : list pv) (j : pv) : res pv :=
  if negb (forallb lit_value_ok vs) then unmodelled "Literal member kinds"
  else if is_unhashable j then raise "TypeError"
  else match j with
       | VNone | VBool _ | VInt _ | VStr _ =>
           match lit_last_type vs j None with
           | None => raise "ParseError"
           | Some n =>
               if N.eqb n (tyname j) then
                 (* same value and same type: j is that member *)
                 if existsb (fun m => lit_eq m j && N.eqb (tyname m) (tyname j)) vs then Ok j else raise "ParseError"
               else raise "ParseError"
           end
       | VFloat _ => raise "ParseError"      (* equal to an int member or not: never of a member's type *)
       | _ => unmodelled "Literal lookup"
       end.

(* ---- helpers for UnionParser ------------------------------------------------------ *)
(* `o in parser` : AbstractParser.__contains__ = `type(o) is base_type`; LiteralParser: value lookup *)
Definition contains (t : ty) (j : pv) : res bool :=
  match t with
  | TBool => Ok (match j with VBool _ => true | _ => false end)
  | TInt => Ok (match j with VInt _ => true | _ => false end)
  | TFloat => Ok (match j with VFloat _ => true | _ => false end)
  | TStr => Ok (match j with VStr _ => true | _ => false end)
  | TBytes m => Ok (match j with VBytes m' _ _ => Bool.eqb m m' | _ => false end)
  | TTok k => Ok (match j with
                  | VTok t' => tkind_eqb (tk_kind t') k && negb (tkind_eqb k KPath)
                  | _ => false end)
  | TEnum e _ => Ok (match j with VEnum e' _ _ => N.eqb (e_id e') (e_id e) | _ => false end)
  | TSeq k _ => Ok (match j with VSeq k' _ _ => skind_eqb k k' | _ => false end)
  | TTuple _ | TVarTuple _ => Ok (match j with VSeq STuple _ _ => true | _ => false end)
  | TDict k _ _ => Ok (match j with VDict k' _ _ => dkind_eqb k k' | _ => false end)
  | TNamedTuple n _ => Ok (match j with VNT n' _ => N.eqb (n_id n') (n_id n) | _ => false end)
  | TTypedDict _ _ _ => Ok false
  | TAny => Ok false
  | TLiteral vs =>
      if is_unhashable j then raise "TypeError"
      else Ok (match lit_last_type vs j None with Some _ => true | None => false end)
  | TNone | TData _ _ => Ok false                (* not in the parser list *)
  | TOptional _ | TUnion _ => unmodelled "nested Optional/Union inside Union"
  end.

Definition is_parser_member (t : ty) : bool :=
  match t with TNone | TData _ _ => false | _ => true end.

Definition tag_of (t : ty) : option pstr :=
  match t with TData c _ => c_tag c | _ => None end.

(* ---- helpers for cls_fromdict ---------------------------------------------------------- *)
Section ApplyNth.
Variables A B : Type.
Variable f : A -> B.
Variable dflt : B.
Fixpoint apply_nth (l : list A) (i : nat) {struct l} : B :=
  match l, i with
  | x :: _, O => f x
  | _ :: r, Datatypes.S i' => apply_nth r i'
  | [], _ => dflt
  end.
End ApplyNth.
Arguments apply_nth {A B} f dflt l i.

Fixpoint set_nth {A} (i : nat) (x : A) (l : list A) : list A :=
  match l, i with
  | _ :: r, O => x :: r
  | y :: r, Datatypes.S i' => y :: set_nth i' x r
  | [], _ => []
  end.

Fixpoint index_of (p : pstr -> bool) (l : list pstr) (i : nat) : option nat :=
  match l with
  | [] => None
  | x :: r => if p x then Some i else index_of p r (Datatypes.S i)
  end.

Fixpoint alias_index (key : pstr) (fs : list finfo) (i : nat) : option nat :=
  match fs with
  | [] => None
  | f :: r => match f_alias f with
              | Some a => if pstr_eqb a key then Some i else alias_index key r (Datatypes.S i)
              | None => alias_index key r (Datatypes.S i)
              end
  end.

Inductive keyres := KField (i : nat) | KIgnore.

(* json_to_field[key] (aliases; tag key -> ExplicitNull), else exact field name, else
   field_to_parser.get_key(to_snake_case(key)) case-insensitively, else ignored *)
Definition resolve (c : cinfo) (key : pstr) : keyres :=
  let names := map f_name (c_fields c) in
  match alias_index key (c_fields c) O with
  | Some i => KField i
  | None =>
      if (match c_tag c with Some _ => pstr_eqb key (l_tag_key cfg) && negb (mem_str key names) | None => false end)
      then KIgnore
      else match resolve_key_v0 names key with
           | Some fname => match index_of (pstr_eqb fname) names O with Some i => KField i | None => KIgnore end
           | None => KIgnore
           end
  end.

(* cls(init_kwargs): provided value, else default, else MissingFields *)
Fixpoint fill (fts : list (ty * option pv)) (slots : list (option pv)) : res (list pv) :=
  match fts, slots with
  | [], _ => Ok []
  | (_, d) :: fts', s :: slots' =>
      match (match s with Some v => Some v | None => d end) with
      | Some v => rmap (cons v) (fill fts' slots')
      | None => raise "MissingFields"
      end
  | _ :: _, [] => unmodelled "slot arity"
  end.

Fixpoint zip_slots (vals : list pv) (n : nat) : list (option pv) :=
  match n with
  | O => []
  | Datatypes.S n' => match vals with v :: r => Some v :: zip_slots r n' | [] => None :: zip_slots [] n' end
  end.

(* ---- list-shaped parts of the parsers, generic in the element loader `ld` ---- *)
Section Parts.
Variable ld : ty -> pv -> res pv.

(* zip(elem_parsers, o) *)
Fixpoint zip_load (ts : list ty) (xs : list pv) {struct ts} : res (list pv) :=
  match ts, xs with
  | t' :: ts', x :: xs' => bind (ld t' x) (fun y => rmap (cons y) (zip_load ts' xs'))
  | _, _ => Ok []
  end.

Fixpoint zip_load_f (fts : list (ty * option pv)) (xs : list pv) {struct fts} : res (list pv) :=
  match fts, xs with
  | ft :: fts', x :: xs' => bind (ld (fst ft) x) (fun y => rmap (cons y) (zip_load_f fts' xs'))
  | _, _ => Ok []
  end.

(* tag_to_parser[tag]: the last class registered under a tag wins *)
Fixpoint tag_scan (j : pv) (tag : pstr) (l : list ty) {struct l} : option (res pv) :=
  match l with
  | [] => None
  | t' :: r =>
      match tag_scan j tag r with
      | Some x => Some x
      | None => match tag_of t' with
                | Some tg => if pstr_eqb tg tag then Some (ld t' j) else None
                | None => None
                end
      end
  end.

Definition tag_dispatch (j : pv) (ts : list ty) : res pv :=
  match j with
  | VDict _ _ kvs =>
      match dict_get (VStr (l_tag_key cfg)) kvs with
      | Some (VStr tag) => match tag_scan j tag ts with Some r => r | None => raise "ParseError" end
      | Some tagv => if is_unhashable tagv then raise "TypeError" else raise "ParseError"
      | None => raise "ParseError"
      end
  | VStr _ | VSeq _ _ _ | VNT _ _ | VBool _ | VInt _ | VFloat _ | VNone => raise "ParseError"
  | _ => unmodelled "o[tag_key]"
  end.

(* for parser in self.parsers: if o in parser: return parser(o) *)
Section UnionScan.
Variable j : pv.
Variable all : list ty.
Fixpoint union_scan (l : list ty) {struct l} : res pv :=
  match l with
  | t' :: r =>
      if is_parser_member t' then
        bind (contains t' j) (fun b => if b then ld t' j else union_scan r)
      else union_scan r
  | [] => tag_dispatch j all
  end.
End UnionScan.

(* NamedTuple from a dict: keyword arguments, every key must name a field *)
Section NtLoop.
Variable names : list pstr.
Variable fts : list (ty * option pv).
Fixpoint nt_loop (kvs : list (pv * pv)) (slots : list (option pv)) {struct kvs} : res (list (option pv)) :=
  match kvs with
  | [] => Ok slots
  | (VStr key, x) :: r =>
      match index_of (pstr_eqb key) names O with
      | Some i =>
          bind (apply_nth (fun ft => ld (fst ft) x) (unmodelled "namedtuple arity") fts i)
               (fun v => nt_loop r (set_nth i (Some v) slots))
      | None => raise "KeyError"
      end
  | _ :: _ => raise "KeyError"
  end.
End NtLoop.

(* TypedDict: required keys must be present, optional keys are taken when present *)
Fixpoint td_req (kvs : list (pv * pv)) (l : list (pstr * ty)) {struct l} : res (list (pv * pv)) :=
  match l with
  | [] => Ok []
  | kt :: r =>
      match dict_get (VStr (fst kt)) kvs with
      | Some x => bind (ld (snd kt) x) (fun v => rmap (cons (VStr (fst kt), v)) (td_req kvs r))
      | None => raise "ParseError"
      end
  end.
Fixpoint td_opt (kvs : list (pv * pv)) (l : list (pstr * ty)) {struct l} : res (list (pv * pv)) :=
  match l with
  | [] => Ok []
  | kt :: r =>
      match dict_get (VStr (fst kt)) kvs with
      | Some x => bind (ld (snd kt) x) (fun v => rmap (cons (VStr (fst kt), v)) (td_opt kvs r))
      | None => td_opt kvs r
      end
  end.

(* cls_fromdict: `for json_key in o` *)
Section DataLoop.
Variable c : cinfo.
Variable fts : list (ty * option pv).
Fixpoint data_loop (kvs : list (pv * pv)) (slots : list (option pv)) {struct kvs} : res (list (option pv)) :=
  match kvs with
  | [] => Ok slots
  | (VStr key, x) :: r =>
      match resolve c key with
      | KField i =>
          bind (apply_nth (fun ft => ld (fst ft) x) (unmodelled "class arity") fts i)
               (fun v => data_loop r (set_nth i (Some v) slots))
      | KIgnore => data_loop r slots
      end
  | _ :: _ => raise "AttributeError"     (* to_snake_case(non-str key) *)
  end.
End DataLoop.
End Parts.

Definition no_slots (fts : list (ty * option pv)) : list (option pv) := map (fun _ => None) fts.

(* `for json_key in o` over a non-dict: a key that resolves makes o[json_key] fail, a non-str
   element makes the key transform fail; otherwise every key is ignored *)
Definition all_ignored (c : cinfo) (xs : list pv) : bool :=
  forallb (fun x => match x with
                    | VStr key => match resolve c key with KIgnore => true | KField _ => false end
                    | _ => false
                    end) xs.

Fixpoint load (t : ty) (j : pv) {struct t} : res pv :=
  match t with
  | TAny | TNone => Ok j
  | TBool => load_bool j
  | TInt => load_int j
  | TFloat => load_float j
  | TStr => load_str j
  | TBytes m => load_bytes m j
  | TTok k => load_tok k j
  | TEnum e ms => load_enum e ms j
  | TSeq k t' =>
      bind (iter_of j) (fun xs =>
      bind (seqR (map (load t') xs)) (fun ys =>
      if is_set_kind k then
        (if forallb hashable ys then Ok (VSeq k false (dedupe ys)) else raise "TypeError")
      else Ok (VSeq k false ys)))
  | TTuple ts =>
      match ts with
      | [] => unmodelled "tuple[()]"
      | _ =>
        bind (iter_of j) (fun xs =>
          let n := List.length xs in
          let req := required_count ts in
          if (Nat.leb req n && Nat.leb n (List.length ts))%bool
          then rmap (VSeq STuple false) (zip_load load ts xs)
          else raise "ParseError")
      end
  | TVarTuple t' =>
      bind (iter_of j) (fun xs => rmap (VSeq STuple false) (seqR (map (load t') xs)))
  | TDict k kt vt =>
      match j with
      | VDict _ _ kvs =>
          bind (seqR (map (fun kv => bind (load kt (fst kv)) (fun k' =>
                                     bind (load vt (snd kv)) (fun v' => Ok (k', v')))) kvs))
               (fun ps => if forallb (fun kv => hashable (fst kv)) ps
                          then Ok (VDict k false (dict_of_pairs ps)) else raise "TypeError")
      | VTok _ | VBytes _ _ _ | VEnum _ _ _ => unmodelled "o.items()"
      | _ => raise "AttributeError"
      end
  | TOptional t' => match j with VNone => Ok VNone | _ => load t' j end
  | TUnion ts =>
      match ts with
      | [a; b] =>
          if is_tnone a || is_tnone b then
            (* `NoneType in base_types and len(base_types) == 2` -> OptionalParser(base_types[0]):
               for Union[None, X] the wrapped parser is the one of NoneType (finding F55) *)
            match j with VNone => Ok VNone | _ => load a j end
          else
            match j with
            | VNone => union_scan load j ts ts
            | _ => union_scan load j ts ts
            end
      | _ =>
        (* `if o is None and NoneType in self.base_type: return o` *)
        match j with
        | VNone => if existsb is_tnone ts then Ok VNone else union_scan load j ts ts
        | _ => union_scan load j ts ts
        end
      end
  | TLiteral vs => load_literal vs j
  | TNamedTuple n fts =>
      match j with
      | VDict _ _ kvs =>
          bind (nt_loop load (n_fields n) fts kvs (no_slots fts))
               (fun slots => rmap (VNT n) (fill fts slots))
      | _ =>
          bind (iter_of j) (fun xs =>
          bind (zip_load_f load fts xs)
               (fun vals => rmap (VNT n) (fill fts (zip_slots vals (List.length fts)))))
      end
  | TTypedDict tid req opt =>
      match j with
      | VDict _ _ kvs =>
          bind (td_req load kvs req) (fun p1 =>
          bind (td_opt load kvs opt) (fun p2 => Ok (VDict DDict false (p1 ++ p2))))
      | _ =>
          match req, opt with
          | [], [] => Ok (VDict DDict false [])
          | [], _ => unmodelled "`key in o` on a non-dict"
          | _, _ => raise "ParseError"
          end
      end
  | TData c fts =>
      match j with
      | VNone => raise "MissingData"
      | VDict _ _ kvs =>
          bind (data_loop load c fts kvs (no_slots fts))
               (fun slots => rmap (VInst c) (fill fts slots))
      | VStr _ | VSeq _ _ _ | VNT _ _ =>
          bind (iter_of j) (fun xs =>
            if all_ignored c xs then rmap (VInst c) (fill fts (no_slots fts)) else raise "ParseError")
      | VBool _ | VInt _ | VFloat _ => raise "ParseError"
      | _ => unmodelled "cls_fromdict input"
      end
  end.

End Load.
Arguments apply_nth {A B} f dflt l i.

(* ---- finite oracle table (execution by the correspondence harness) ----------- *)
Fixpoint tbl_lookup (fn : pstr) (a : pv) (tbl : list ((pstr * pv) * option pv)) : ores :=
  match tbl with
  | [] => OMiss
  | ((f, x), r) :: rest =>
      if pstr_eqb f fn && pv_eqb x a then (match r with Some v => OVal v | None => ORaise end)
      else tbl_lookup fn a rest
  end.
Definition tbl_orc (tbl : list ((pstr * pv) * option pv)) : pstr -> pv -> ores :=
  fun fn a => tbl_lookup fn a tbl.
