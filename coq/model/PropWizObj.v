(* PropWizObj.v — the Python objects and library primitives that the zero-value
   derivation of property_wizard.py (lines 182-302: _process_field,
   _default_from_annotation, _default_from_type, _default_from_generic_type,
   _default_from_typing_args) manipulates, over the annotation grammar `ty` of
   PropWiz.v.  The four functions THEMSELVES are not written here: they are
   translated from the current source text into gen/T_PropWizDefaultsAlg.v
   (harness/tables/PropWizDefaultsAlg.py) in terms of the primitives below, and
   proofs/PropWizDefaults.v proves the result equal to `dfa` of PropWiz.v.

   What IS hand-written here (trusted, validated by the correspondence run on
   every check): what typing_compat.get_args / get_origin / is_generic /
   is_annotated / is_literal / eval_forward_ref_if_needed, a call without
   arguments, isinstance and dataclasses.field answer on each kind of
   annotation object.  Also the SPECIFICATION `implied` of the default an
   annotation implies, transcribed from the property text.  No proofs. *)
From DW Require Export PropWiz.

(* ---- objects ---------------------------------------------------------------- *)
Inductive obj :=
| OT (t : ty)             (* an annotation object: class, alias, str / ForwardRef *)
| OV (v : value)          (* a plain value (a Literal parameter); Python None = OV VNone *)
| OFd (fd : fdef)         (* a dataclasses.Field instance *)
| OI (c : conc)           (* the instance returned by calling class c without arguments *)
| OUnionForm              (* typing.Union *)
| OOrigin (g : gorigin)   (* the un-subscripted origin class of a collection alias *)
| OX.                     (* anything else (Annotated metadata, origin of Literal / Annotated) *)

Definition py_none : obj := OV VNone.

(* a str / ForwardRef evaluated against the module globals, recursively *)
Fixpoint resolve (t : ty) : option ty :=
  match t with
  | TRef None => None
  | TRef (Some t') => resolve t'
  | _ => Some t
  end.

(* typing_compat.eval_forward_ref_if_needed(o, cls); None = NameError *)
Definition eval_forward_ref_if_needed (o : obj) : option obj :=
  match o with
  | OT t => option_map OT (resolve t)
  | _ => Some o
  end.

(* typing_compat.is_generic: isinstance(o, (_GenericAlias, _SpecialForm, GenericAlias, UnionType)) *)
Definition is_generic (o : obj) : bool :=
  match o with
  | OT (TUnion _) | OT (TLiteral _) | OT (TGen _ _) | OT (TAnnot _ _) => true
  | OUnionForm => true
  | _ => false
  end.

Definition extra_obj (e : extra) : obj :=
  match e with EField fd => OFd fd | EOther => OX end.

(* typing.get_args.  The parameters of a collection alias are never looked at by the
   code under study (only its origin is): they are not represented. *)
Definition get_args (o : obj) : list obj :=
  match o with
  | OT (TUnion args) => map OT args
  | OT (TLiteral vs) => map OV vs
  | OT (TAnnot inner es) => OT inner :: map extra_obj es
  | _ => []
  end.

(* typing_compat.get_origin: Union for Union / Optional / A | B, the origin class of an
   alias, the object itself when it has no __origin__ *)
Definition get_origin (o : obj) : obj :=
  match o with
  | OT (TUnion _) => OUnionForm
  | OT (TGen g _) => OOrigin g
  | OT (TLiteral _) | OT (TAnnot _ _) => OX
  | _ => o
  end.

Definition is_annotated (o : obj) : bool := match o with OT (TAnnot _ _) => true | _ => false end.
Definition is_literal (o : obj) : bool := match o with OT (TLiteral _) => true | _ => false end.
Definition is_union_form (o : obj) : bool := match o with OUnionForm => true | _ => false end.

(* o() ; None = TypeError (not callable / cannot be instantiated / missing arguments) *)
Definition call0 (o : obj) : option obj :=
  match o with
  | OT t => option_map OI (call_ty t)
  | OOrigin (GConc c) => if has_zero c then Some (OI c) else None
  | _ => None
  end.

(* isinstance(o, (list, dict, set)) — true for instances of SUBCLASSES as well *)
Definition isinstance_lds (o : obj) : bool := match o with OI c => mutable c | _ => false end.
(* isinstance(o, dataclasses.Field) *)
Definition isinstance_field (o : obj) : bool := match o with OFd _ => true | _ => false end.
(* o == NoneType  (the test `NoneType in args` compares with ==) *)
Definition is_nonetype_obj (o : obj) : bool := match o with OT TNoneType => true | _ => false end.

Definition tuple_nonempty (args : list obj) : bool := match args with [] => false | _ :: _ => true end.
(* args[0] of a tuple known to be non-empty *)
Definition tuple_item0 (args : list obj) : obj := match args with a :: _ => a | [] => py_none end.

(* o.default is not MISSING / o.default_factory is not MISSING *)
Definition fd_default_set (o : obj) : bool :=
  match o with OFd fd => match fd_default fd with Some _ => true | None => false end | _ => false end.
Definition fd_factory_set (o : obj) : bool :=
  match o with OFd fd => match fd_factory fd with Some _ => true | None => false end | _ => false end.
Definition as_field (o : obj) : fdef := match o with OFd fd => fd | _ => fd_empty end.

(* dataclasses.field(default=o): the objects that reach this call are Literal parameters,
   None, and instances made by call0 *)
Definition field_with_default (o : obj) : fdef :=
  match o with
  | OV v => fd_def v
  | OI c => fd_def (zero c)
  | _ => fd_empty
  end.
(* dataclasses.field(default_factory=o): a factory is identified by the class of its product *)
Definition field_with_factory (o : obj) : fdef :=
  match call0 o with Some (OI c) => fd_fac (FacConc c) | _ => fd_empty end.

(* ---- which builtin collection a class derives from ------------------------------------ *)
Inductive cbase := BaseList | BaseDict | BaseSet | BaseOther.
Definition conc_base (c : conc) : cbase :=
  match c with
  | CList | CMyList => BaseList
  | CDict | COrdDict | CDefDict | CCounter => BaseDict
  | CSet | CMySet => BaseSet
  | _ => BaseOther
  end.
Definition is_lds_base (b : cbase) : bool := match b with BaseOther => false | _ => true end.

(* ---- specification: the default an annotation implies (property text) ------------------- *)
(* what reaches the setter when the argument is omitted *)
Inductive routed :=
| RValue (v : value)      (* this value (the same object for every instance) *)
| RFresh (f : factory).   (* a fresh product of f for every instance *)

(* what _wrapper makes of a Field *)
Definition routed_of (fd : fdef) : routed :=
  match fd_factory fd with
  | Some f => RFresh f
  | None => RValue (match fd_default fd with Some v => v | None => VNone end)
  end.

(* the zero value of a class: a fresh product for list / dict / set AND their subclasses,
   the one no-argument instance otherwise, None when there is no no-argument constructor *)
Definition zero_routed (c : conc) : routed :=
  if has_zero c then (if is_lds_base (conc_base c) then RFresh (FacConc c) else RValue (zero c))
  else RValue VNone.

(* a Union member called without arguments *)
Fixpoint member_class (t : ty) : option conc :=
  match t with
  | TConc c => Some c
  | TGen (GConc c) true => Some c          (* list[int](), typing.OrderedDict[str, int]() *)
  | TAnnot inner _ => member_class inner   (* Annotated[T, ...]() calls T *)
  | _ => None                              (* typing.List[int], Literal, ForwardRef, None: not callable *)
  end.
Definition member_routed (t : ty) : routed :=
  match member_class t with Some c => zero_routed c | None => RValue VNone end.

Fixpoint first_field_with_default (es : list extra) : option fdef :=
  match es with
  | [] => None
  | EField fd :: _ => if fd_has fd then Some fd else None    (* only the FIRST Field is looked at *)
  | EOther :: r => first_field_with_default r
  end.

Fixpoint implied (t : ty) : routed :=
  match t with
  | TConc c => zero_routed c
  | TNoneType => RValue VNone
  | TUnion args =>
      if existsb is_nonetype args then RValue VNone
      else match args with a :: _ => member_routed a | [] => RValue VNone end
  | TLiteral vs => RValue (match vs with v :: _ => v | [] => VNone end)
  | TGen (GConc c) _ => zero_routed c
  | TGen _ _ => RValue VNone
  | TAnnot inner es =>
      match first_field_with_default es with
      | Some fd => routed_of fd
      | None => implied inner
      end
  | TRef None => RValue VNone
  | TRef (Some t') => implied t'
  end.

(* annotations that carry no dataclasses.Field (at any nesting reachable by the derivation) *)
Fixpoint no_field_extra (t : ty) : bool :=
  match t with
  | TAnnot inner es => forallb (fun e => match e with EField _ => false | EOther => true end) es && no_field_extra inner
  | TRef (Some t') => no_field_extra t'
  | _ => true
  end.

(* the class whose zero value the annotation implies (None: no zero value / Literal / None) *)
Fixpoint zero_class (t : ty) : option conc :=
  match t with
  | TConc c => if has_zero c then Some c else None
  | TUnion args =>
      if existsb is_nonetype args then None
      else match args with
           | a :: _ => match member_class a with Some c => if has_zero c then Some c else None | None => None end
           | [] => None
           end
  | TGen (GConc c) _ => if has_zero c then Some c else None
  | TAnnot inner _ => zero_class inner
  | TRef (Some t') => zero_class t'
  | _ => None
  end.

(* `dfa` of PropWiz.v as a function on objects: what the recursive calls of the source
   (`_default_from_annotation(cls, {field: T}, field)`) are closed with *)
Definition dfa_obj (o : obj) : fdef := match o with OT t => dfa t | _ => fd_empty end.
Definition lift_obj (f : ty -> fdef) (o : obj) : fdef := match o with OT t => f t | _ => fd_empty end.
