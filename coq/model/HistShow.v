(* HistShow.v — oracle tables and text encoders of the second C06 machine for the correspondence harness
   (harness/props/c06.py builds the tables and parses this syntax; same outcome syntax as harness/impl/c06.py).
   No proofs. *)
From DW Require Import PyStr StrConv StateModel HistMemo HistValueModel.
From Coq Require Import List ZArith Bool.
Import ListNotations.

(* a value the model only prints (result of an oracle) *)
Definition xo (txt : pstr) : xv := {| x_ty := XOther; x_eq := QId txt; x_txt := txt |}.

Definition no_oracle : cres := CErr (CERaw (S "NoOracle")).
Definition bkey (b : bool) : pstr := if b then S "1" else S "0".
(* finite oracle tables, keyed by text *)
Definition conv0_of (t : list (pstr * cres)) (v1 : bool) (ty : pstr) (v : xv) : cres :=
  match assoc_s (bkey v1 ++ S "|" ++ ty ++ S "|" ++ x_txt v) t with Some r => r | None => no_oracle end.
Definition dumpv_of (t : list (pstr * cres)) (v1 : bool) (v : xv) : cres :=
  match assoc_s (bkey v1 ++ S "|" ++ x_txt v) t with Some r => r | None => no_oracle end.
Definition iso_of (t : list (pstr * option xv)) (k : dkind) (s : pstr) : option xv :=
  match assoc_s (kind_name k ++ S "|" ++ s) t with Some r => r | None => None end.
Definition fromts_of (t : list (pstr * cres)) (k : dkind) (s : pstr) : cres :=
  match assoc_s (kind_name k ++ S "|" ++ s) t with Some r => r | None => no_oracle end.
Definition strp_of (t : list (pstr * option xv)) (fmt : nat) (k : dkind) (s : pstr) : option xv :=
  match assoc_s (dec (Z.of_nat fmt) ++ S "|" ++ kind_name k ++ S "|" ++ s) t with Some r => r | None => None end.

Definition decn' (n : nat) : pstr := dec (Z.of_nat n).

Definition show_raw (n : pstr) : pstr :=
  if pstr_eqb n (S "ValueError") then S "eV"
  else if pstr_eqb n (S "IndexError") then S "eX"
  else if pstr_eqb n (S "AttributeError") then S "eA"
  else S "e?" ++ n.

Definition show_herr (e : herr) : pstr :=
  match e with
  | HEUndef => S "e?undef"
  | HEParse c f ty => S "eP" ++ decn' c ++ S ":" ++ hex f ++ S "@" ++ ty
  | HERaw n => show_raw n
  | HEMissing c fs => S "eM" ++ decn' c ++ S ":" ++ join (S "+") (map hex fs)
  | HEUnknown c (Some k) => S "eU" ++ decn' c ++ S ":" ++ hex k
  | HEUnknown c None => S "eU" ++ decn' c ++ S ":?"
  | HEIndex => S "eX"
  | HEModel => S "e!"
  end.

Definition show_hout (o : hout) : pstr :=
  match o with
  | HDone => S "d"
  | HVal c fs => S "vc" ++ decn' c ++ S "(" ++ join (S ",") (map (fun p => hex (fst p) ++ S "=" ++ x_txt (snd p)) fs) ++ S ")"
  | HJson kv => S "jD{" ++ join (S ",") (map (fun p => hex (fst p) ++ S ":" ++ x_txt (snd p)) kv) ++ S "}"
  | HErr e => show_herr e
  end.

(* the library's machine (no value-level memo) on oracle tables *)
Definition show_hrun (tc td : list (pstr * cres)) (ti : list (pstr * option xv)) (tf : list (pstr * cres))
           (ts : list (pstr * option xv)) (h : list hop) : pstr :=
  join (S ";") (map show_hout (hrun_out false (conv0_of tc) (dumpv_of td) (iso_of ti) (fromts_of tf) (strp_of ts) mk_none hinit h)).

(* Python's == / hash on a list of values, as a 0/1 matrix (validated against the interpreter on every run) *)
Definition show_pyeq (vs : list xv) : pstr :=
  join (S ";") (map (fun a => flat_map (fun b => if py_eq a b then S "1" else S "0") vs) vs).

(* comparison inside Coq (keeps the answer short): empty when every outcome prints as expected, else the index of
   the first difference and the model's text there *)
Fixpoint first_diff (n : nat) (got want : list pstr) : pstr :=
  match got, want with
  | [], [] => []
  | g :: gr, w :: wr => if pstr_eqb g w then first_diff (Datatypes.S n) gr wr else decn' n ++ S ":" ++ g
  | g :: _, [] => decn' n ++ S ":" ++ g
  | [], _ :: _ => decn' n ++ S ":<none>"
  end.
Definition show_hcmp (tc td : list (pstr * cres)) (ti : list (pstr * option xv)) (tf : list (pstr * cres))
           (ts : list (pstr * option xv)) (h : list hop) (want : list pstr) : pstr :=
  first_diff 0 (map show_hout (hrun_out false (conv0_of tc) (dumpv_of td) (iso_of ti) (fromts_of tf) (strp_of ts) mk_none hinit h)) want.
