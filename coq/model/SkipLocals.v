(* SkipLocals.v — model for property C11, part 4: the closure environment of a WHOLE class.

   SkipModel.v describes what one call of `get_skip_if_condition` contributes to
   `_locals` as a value (`snd (get_skip_if_condition c var)`) and glues the
   contributions with `++`.  The source does something else: `_locals` is ONE mutable
   dict that `dump_func_for_dataclass` creates, hands to every call of
   `get_skip_if_condition(cond, _locals, operand_2)` (which may read it and writes
   `_locals[operand_2] = skip_if.val`) and to the field loop (`_locals[_default_i] = ...`),
   and finally turns into the parameters of `__create_cls_asdict_fn__`.  Here that
   dict is a state threaded through the generator, in the order of the source:

       Meta.skip_if -> Meta.skip_defaults_if -> for each field i: default, own condition.

   What `get_skip_if_condition` does with the dict for a value it does not inline is a
   parameter (`binder`): `bind_own` is the source (a new entry under the requested
   name); `bind_dedup` is a generator that re-uses an existing `_skip_*` local whose
   value `==` the new one.  Objects are `lval`s: structural content `val` (what `==`
   looks at) and identity `oid` (what `is` looks at).  No proofs in this file. *)
From DW Require Export SkipModel.
From Coq Require Import ZArith.

(* ------------------------------------------------------------- `_locals` *)
Definition locals := list (name * lval).

(* _locals[n] = v  (insertion-ordered dict: an existing key keeps its position) *)
Fixpoint dict_set (l : locals) (n : name) (v : lval) : locals :=
  match l with
  | [] => [(n, v)]
  | (k, x) :: r => if name_eqb k n then (k, v) :: r else (k, x) :: dict_set r n v
  end.

(* (name spliced into the text, `_locals` afterwards) for a value that is not inlined *)
Definition binder := locals -> name -> lval -> name * locals.

(* models.py get_skip_if_condition:
       _locals[operand_2] = skip_if.val
       return f'{skip_if.op} {operand_2}'                                         *)
Definition bind_own : binder := fun l var v => (var, dict_set l var v).

(* Meaning of the statements that follow the early returns of get_skip_if_condition, as the
   translator harness/tables/CondOps.py encodes them from the source text (tie T):
       ("setitem", [dict; key; value])        dict[key] = value
       ("return_op_name", [e1; e2])           return f'{e1} {e2}'
   with `aliases` the local names assigned once before (val = skip_if.val).  Only the form
   "store the condition's value object under the requested name, mention that name" has a
   meaning here; any other statement list (a loop over `_locals`, another key, another
   value) has none. *)
Definition binder_of_src (aliases : list (pstr * pstr)) (tail : list (pstr * list pstr)) : option binder :=
  let resolve := fun e => match lookup_str aliases e with Some t => t | None => e end in
  match tail with
  | [(k1, [d; key; v]); (k2, [o; nm])] =>
      if pstr_eqb k1 (S "setitem") && pstr_eqb d (S "_locals") && pstr_eqb key (S "operand_2") &&
         pstr_eqb (resolve v) (S "skip_if.val") &&
         pstr_eqb k2 (S "return_op_name") && pstr_eqb (resolve o) (S "skip_if.op") && pstr_eqb nm (S "operand_2")
      then Some (fun l var x => (var, dict_set l var x))
      else None
  | _ => None
  end.

(* name.startswith('_skip_') *)
Definition skip_prefixed (n : name) : bool :=
  match n with
  | NSkip _ | NSkipIf _ | NSkipValue | NSkipDefaultsValue => true
  | _ => false
  end.

(* for name, bound in _locals.items(): if name.startswith('_skip_') and bound == val: return name *)
Fixpoint find_equal (l : locals) (v : lval) : option name :=
  match l with
  | [] => None
  | (k, b) :: r => if skip_prefixed k && py_eq (val b) (val v) then Some k else find_equal r v
  end.

(* a generator that keeps one local per `==`-class of comparison values *)
Definition bind_dedup : binder := fun l var v =>
  match find_equal l v with
  | Some k => (k, l)
  | None => (var, dict_set l var v)
  end.

(* ------------------------------------------------- the threaded generator *)
(* g_uses: the log of what the emitted text relies on — (name it mentions, the object
   the condition was built with), one entry per closure-bound condition, in order. *)
Record gstate := GS { g_loc : locals; g_uses : list (name * lval) }.

(* get_skip_if_condition(skip_if, _locals, operand_2) *)
Definition gsc_st (B : binder) (c : option cond) (var : name) (st : gstate) : gsc * gstate :=
  match c with
  | None => (GNone, st)
  | Some c =>
      if t_or_f (c_op c) then (GTruthy, st)
      else if inlined (c_op c) (val (c_val c)) then (GCmp (c_op c) (repr_expr (val (c_val c))), st)
      else let kl := B (g_loc st) var (c_val c) in
           (GCmp (c_op c) (EFree (fst kl)), GS (snd kl) (g_uses st ++ [(fst kl, c_val c)]))
  end.

(* `if field in field_to_default:` part of the loop body *)
Definition dflt_step (m : cmeta) (gd : gsc) (i : nat) (f : fdesc) (st : gstate) : list stmt * gstate :=
  match f_default f with
  | None => ([], st)
  | Some d =>
      if gsc_true gd then
        ([SAssign (NSkip i)
            (EOr (ELocal (NSkip i))
                 (match m_skip_defaults_if m with
                  | Some c => finalize_skip_if c (EField (f_name f)) gd
                  | None => EBad
                  end))], st)
      else
        ([SAssign (NSkip i) (EOr (ELocal (NSkip i)) (ECmp OpEq (EField (f_name f)) (EFree (NDefault i))))],
         GS (dict_set (g_loc st) (NDefault i) d) (g_uses st))
  end.

(* `if json_field is not ExplicitNull:` part of the loop body *)
Definition body_step (B : binder) (m : cmeta) (gs : gsc) (i : nat) (f : fdesc) (st : gstate)
  : list stmt * gstate :=
  match f_key f with
  | None => ([], st)
  | Some key =>
      match f_cond f with
      | Some c =>
          let g := gsc_st B (Some c) (NSkipIf i) st in
          ([SIf (ENot (EOr (ELocal (NSkip i)) (finalize_skip_if c (EField (f_name f)) (fst g))))
                [SAppend key (f_name f)] []], snd g)
      | None =>
          ([SIf (if gsc_true gs then
                   match m_skip_if m with
                   | Some c => ENot (EOr (ELocal (NSkip i)) (finalize_skip_if c (EField (f_name f)) gs))
                   | None => EBad
                   end
                 else ENot (ELocal (NSkip i)))
                [SAppend key (f_name f)] []], st)
      end
  end.

(* `for i, field in enumerate(field_names):` — (skip_default_assignments, field_assignments) *)
Fixpoint gen_loop (B : binder) (m : cmeta) (gs gd : gsc) (i : nat) (fs : list fdesc) (st : gstate)
  : (list stmt * list stmt) * gstate :=
  match fs with
  | [] => (([], []), st)
  | f :: r =>
      let d := dflt_step m gd i f st in
      let b := body_step B m gs i f (snd d) in
      let rest := gen_loop B m gs gd (i + 1) r (snd b) in
      ((fst d ++ fst (fst rest), fst b ++ snd (fst rest)), snd rest)
  end.

(* dump_func_for_dataclass: the statements of cls_asdict and the final `_locals`.
   (`config`, `asdict`, `hooks`, `cls_to_asdict` are in `_locals` from the start; they are
   not generator names and never start with `_skip_`.) *)
Definition gen_st (B : binder) (m : cmeta) (fs : list fdesc) : list stmt * gstate :=
  let s1 := gsc_st B (m_skip_if m) NSkipValue (GS [] []) in
  let s2 := gsc_st B (m_skip_defaults_if m) NSkipDefaultsValue (snd s1) in
  let lp := gen_loop B m (fst s1) (fst s2) 0 fs (snd s2) in
  (match fs with
   | [] => []
   | _ =>
       SIf (ECmp OpIs (ELocal NExclude) (EConst VNone)) (gen_false 0 fs) (gen_excl 0 fs) ::
       (match fst (fst lp) with
        | [] => []
        | d => [SIf (ELocal NSkipDefaultsArg) d []]
        end) ++ snd (fst lp)
   end, snd lp).

Definition gen_locals (B : binder) (m : cmeta) (fs : list fdesc) : locals := g_loc (snd (gen_st B m fs)).
Definition gen_uses (B : binder) (m : cmeta) (fs : list fdesc) : list (name * lval) := g_uses (snd (gen_st B m fs)).

(* every name the text mentions denotes, in the function's closure, the object its
   condition was built with *)
Definition own_value (B : binder) (m : cmeta) (fs : list fdesc) : Prop :=
  Forall (fun kv => lookup_name (gen_locals B m fs) (fst kv) = Some (snd kv)) (gen_uses B m fs).

Definition own_valueb (B : binder) (m : cmeta) (fs : list fdesc) : bool :=
  forallb (fun kv => match lookup_name (gen_locals B m fs) (fst kv) with
                     | Some x => match oid x, oid (snd kv) with
                                 | Some i, Some j => (i =? j)%Z
                                 | None, None => true
                                 | _, _ => false
                                 end
                     | None => false
                     end) (gen_uses B m fs).

(* cls_asdict of the class generated with binder B *)
Definition cls_asdict_st (B : binder) (m : cmeta) (fs : list fdesc) (E : option (list pstr)) (s : sarg)
  : res (list (pstr * pstr)) :=
  let g := gen_st B m fs in
  if prog_bad (fst g) then Err SyntaxError
  else
    let frame0 := [(NExclude, exclude_val E); (NSkipDefaultsArg, LV None (VBool (eff_skip_defaults m s)))] in
    match exec_block (obj_of fs) (g_loc (snd g)) (fst g) (St frame0 []) with
    | Ok st => Ok (s_out st)
    | Err er => Err er
    end.

(* ------------------------------------------------------ identity, decided *)
(* an object whose identity is known: a singleton / token, or a located object *)
Definition identified (a : lval) : bool :=
  is_singleton (val a) || match oid a with Some _ => true | None => false end.

(* a is b, for identified objects *)
Definition same_object (a b : lval) : bool :=
  if is_singleton (val a) || is_singleton (val b) then same_singleton (val a) (val b)
  else match oid a, oid b with
       | Some i, Some j => (i =? j)%Z
       | _, _ => false
       end.

(* Condition.evaluate with `is` / `is not` read as object identity — no outcome is left open *)
Definition evaluate_id (c : cond) (other : lval) : res bool :=
  match c_op c with
  | OpIs => Ok (same_object other (c_val c))
  | OpIsNot => Ok (negb (same_object other (c_val c)))
  | _ => evaluate c other
  end.

Definition ocond_identified (c : option cond) : bool :=
  match c with Some c => t_or_f (c_op c) || identified (c_val c) | None => true end.

(* every comparison value and every field value of the instance is an identified object *)
Definition cls_identified (m : cmeta) (fs : list fdesc) : bool :=
  ocond_identified (m_skip_if m) && ocond_identified (m_skip_defaults_if m) &&
  forallb (fun f => ocond_identified (f_cond f) && identified (f_value f)) fs.

(* ---------------------------------------------------------------- encoders *)
Definition show_oid (x : lval) : pstr :=
  match oid x with Some z => S "id" ++ show_Z z | None => S "@" end.

(* `_locals` as "name=id<oid>,..." (generator names only) *)
Definition show_locals (l : locals) : pstr :=
  join (S ",") (map (fun p => show_expr (ELocal (fst p)) ++ S "=" ++ show_oid (snd p)) l).
