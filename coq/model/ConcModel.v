(* ConcModel.v — C20: micro-step model of the library's shared-table accesses.

   An API call (load / dump / EnvWizard instantiate), including the first call
   for a class (generation of the function, filling of the per-class tables),
   is a PROGRAM of micro-steps at the accesses to the module-level tables of
   class_helper.py, loader_selection.py, loaders.py, dumpers.py and
   environ/lookups.py.  Programs are resumptions: a read hands its answer to a
   continuation, so control flow (cache hit / miss -> generate -> store) is
   ordinary Gallina.

   CPython rules, as MODEL RULES (trusted base, not axioms):
     R1  one dict get / set / pop / len / `in` is one atomic micro-step;
     R2  a dict keeps its keys in insertion order; overwriting keeps the position;
     R3  a live iterator over a dict remembers the size of the dict at creation;
         its next step raises RuntimeError when the size differs (so inserting a
         NEW key invalidates every live iterator over that dict);
     R4  threads interleave only between micro-steps.

   No proofs in this file. *)
From Coq Require Import List Arith Bool DecimalString.
From DW Require Import PyStr T_ConcHooks.
Import ListNotations.

(* ------------------------------------------------------------------ tables *)
Definition key := nat.

Inductive tab :=
| T_FIELDS      (* class_helper.FIELDS *)
| T_DEFREG      (* class_helper.FIELD_TO_DEFAULT : cls -> dict (registration of the inner dict) *)
| T_DEFAULTS (owner : nat)  (* the inner dict created by thread `owner` for FIELD_TO_DEFAULT[cls] : field -> default *)
| T_LOADFUNC    (* CLASS_TO_LOAD_FUNC *)
| T_DUMPFUNC    (* CLASS_TO_DUMP_FUNC *)
| T_LOADER      (* CLASS_TO_LOADER *)
| T_DUMPER      (* CLASS_TO_DUMPER *)
| T_PARSERS     (* FIELD_NAME_TO_LOAD_PARSER *)
| T_DUMPFLAG    (* IS_DUMP_CONFIG_SETUP *)
| T_JSON2F      (* JSON_FIELD_TO_DATACLASS_FIELD[cls] : the JSON key cache *)
| T_PATH        (* DATACLASS_FIELD_TO_JSON_PATH[cls] *)
| T_ALIAS       (* DATACLASS_FIELD_TO_ALIAS[cls] *)
| T_ATTR        (* attributes patched onto the user class: 0 = from_dict, 1 = to_dict *)
| T_HOOKS (owner : nat)  (* __DUMP_HOOKS__ of the dumper class created by thread `owner` *)
| T_ENVIRON     (* environ/lookups.py global `environ` (key 0) *)
| T_VARNAMES    (* Env.var_names (cached class property): key 0 -> object id *)
| T_CLEANED     (* Env.cleaned_to_env: key 0 -> object id *)
| T_ACCESSED    (* Env._accessed_cleaned_to_env *)
| T_OBJ         (* heap of mutable set/dict objects: id -> content (0 = empty, 1 = full) *)
| T_V1ALIAS     (* DATACLASS_FIELD_TO_ALIAS_FOR_LOAD[cls] (v1), used by the catch-all protocol *)
| T_V1FLAG      (* IS_V1_LOAD_CONFIG_SETUP *)
| T_V1AL (cls : nat)   (* DATACLASS_FIELD_TO_ALIAS_FOR_LOAD[cls] (v1 program model, ConcV1Model.v): field -> load alias *)
| T_V1PA (cls : nat)   (* DATACLASS_FIELD_TO_ALIAS_PATH_FOR_LOAD[cls] (v1): field -> paths *)
| T_META.       (* class_helper._META: cls -> Meta (get_meta / Meta.bind_to) *)

Definition tab_eqb (a b : tab) : bool :=
  match a, b with
  | T_FIELDS, T_FIELDS | T_DEFREG, T_DEFREG | T_LOADFUNC, T_LOADFUNC
  | T_DUMPFUNC, T_DUMPFUNC | T_LOADER, T_LOADER | T_DUMPER, T_DUMPER | T_PARSERS, T_PARSERS
  | T_DUMPFLAG, T_DUMPFLAG | T_JSON2F, T_JSON2F | T_PATH, T_PATH | T_ALIAS, T_ALIAS | T_ATTR, T_ATTR
  | T_ENVIRON, T_ENVIRON | T_VARNAMES, T_VARNAMES | T_CLEANED, T_CLEANED | T_ACCESSED, T_ACCESSED
  | T_OBJ, T_OBJ | T_V1ALIAS, T_V1ALIAS | T_V1FLAG, T_V1FLAG | T_META, T_META => true
  | T_V1AL o1, T_V1AL o2 => Nat.eqb o1 o2
  | T_V1PA o1, T_V1PA o2 => Nat.eqb o1 o2
  | T_HOOKS o1, T_HOOKS o2 => Nat.eqb o1 o2
  | T_DEFAULTS o1, T_DEFAULTS o2 => Nat.eqb o1 o2
  | _, _ => false
  end.

Inductive val := VU | VN (n : nat) | VL (l : list nat).

(* A store is an insertion-ordered association list (rule R2). *)
Definition entry := (tab * key * val)%type.
Definition store := list entry.

Definition ent_is (T : tab) (k : key) (e : entry) : bool :=
  let '(T', k', _) := e in tab_eqb T T' && Nat.eqb k k'.

Fixpoint lookup (s : store) (T : tab) (k : key) : option val :=
  match s with
  | [] => None
  | e :: r => if ent_is T k e then Some (snd e) else lookup r T k
  end.

Fixpoint update (s : store) (T : tab) (k : key) (v : val) : store :=
  match s with
  | [] => [(T, k, v)]
  | e :: r => if ent_is T k e then (T, k, v) :: r else e :: update r T k v
  end.

Fixpoint remove (s : store) (T : tab) (k : key) : store :=
  match s with
  | [] => []
  | e :: r => if ent_is T k e then r else e :: remove r T k
  end.

(* The default dump hooks are registered when a dumper class is created (class
   creation is private to the creating thread until the class is published in
   CLASS_TO_DUMPER); they are the static prefix of every hook table. *)
Definition NBASE : nat := List.length conc_dump_hook_types.

Definition static_keys (T : tab) : list key :=
  match T with T_HOOKS _ => seq 0 NBASE | _ => [] end.

Definition static_val (T : tab) (k : key) : option val :=
  match T with T_HOOKS _ => if k <? NBASE then Some (VN k) else None | _ => None end.

Definition dyn_keys (s : store) (T : tab) : list key :=
  map (fun e => snd (fst e)) (filter (fun e => tab_eqb T (fst (fst e))) s).

Definition get (s : store) (T : tab) (k : key) : option val :=
  match static_val T k with Some v => Some v | None => lookup s T k end.

Definition keys (s : store) (T : tab) : list key := static_keys T ++ dyn_keys s T.
Definition size (s : store) (T : tab) : nat := List.length (keys s T).

(* ---------------------------------------------------------------- programs *)
Inductive err := ERuntime | EKeyError | EMissingFields | EMissingVars | ETypeError | ENameError | EModel.
Inductive outcome :=
| OSeq            (* the call returns the result of the sequential execution *)
| OWrong          (* the call returns a value, but not the sequential one *)
| OErr (e : err). (* the call raises *)

Inductive itres := INext (k : key) | IStop | IRaise.

(* yield points of hook H2 (dataclass_wizard/_verif.py) *)
Inductive ypoint :=
| Y_fields_miss | Y_defaults_miss | Y_defaults_registered | Y_defaults_fill
| Y_load_cfg_begin | Y_load_cfg_field | Y_load_cfg_store
| Y_dump_cfg_begin | Y_dump_cfg_paths_read | Y_dump_cfg_field | Y_dump_cfg_flag
| Y_loader_miss | Y_dumper_miss
| Y_load_miss | Y_load_gen | Y_load_setattr | Y_load_store
| Y_dump_miss | Y_dump_gen | Y_dump_cfg_done | Y_dump_setattr | Y_dump_store
| Y_hook_scan_begin | Y_hook_scan_iter | Y_hook_scan_store
| Y_key_cache_miss | Y_key_cache_store
| Y_env_load_environ | Y_env_var_names | Y_env_cleaned
| Y_v1_cfg_flag | Y_v1_load_aliases_read | Y_v1_load_store
| Y_env_names_update | Y_env_cleaned_update
| Y_v1_load_gen | Y_v1_cfg_begin | Y_v1_cfg_paths_read | Y_v1_cfg_field | Y_v1_load_setattr.

Inductive prog :=
| Ret (os : list outcome)                          (* outcomes of the calls of this thread *)
| Rd (T : tab) (k : key) (c : option val -> prog)  (* d.get(k) / d[k] / k in d *)
| Wr (T : tab) (k : key) (v : val) (c : prog)      (* d[k] = v *)
| Pop (T : tab) (k : key) (c : option val -> prog) (* d.pop(k, None) *)
| Size (T : tab) (c : nat -> prog)                 (* len(d) / bool(d) *)
| Keys (T : tab) (c : list key -> prog)            (* tuple(d): an atomic snapshot of the keys *)
| ItBegin (T : tab) (c : prog)                     (* iter(d) *)
| ItNext (c : itres -> prog)                       (* next(it) *)
| Yield (y : ypoint) (c : prog).                   (* yield point (no effect) *)

Fixpoint bind (p : prog) (k : list outcome -> prog) : prog :=
  match p with
  | Ret os => k os
  | Rd T x c => Rd T x (fun r => bind (c r) k)
  | Wr T x v c => Wr T x v (bind c k)
  | Pop T x c => Pop T x (fun r => bind (c r) k)
  | Size T c => Size T (fun n => bind (c n) k)
  | Keys T c => Keys T (fun l => bind (c l) k)
  | ItBegin T c => ItBegin T (bind c k)
  | ItNext c => ItNext (fun r => bind (c r) k)
  | Yield y c => Yield y (bind c k)
  end.

(* --------------------------------------------------------------- semantics *)
Record thread := mkT { th_prog : prog; th_it : option (tab * nat * nat) }.

Definition step (s : store) (t : thread) : store * thread :=
  let it := th_it t in
  match th_prog t with
  | Ret _ => (s, t)
  | Rd T k c => (s, mkT (c (get s T k)) it)
  | Wr T k v c => (update s T k v, mkT c it)
  | Pop T k c => (remove s T k, mkT (c (lookup s T k)) it)
  | Size T c => (s, mkT (c (size s T)) it)
  | Keys T c => (s, mkT (c (keys s T)) it)
  | ItBegin T c => (s, mkT c (Some (T, 0, size s T)))
  | ItNext c =>
      match it with
      | None => (s, mkT (c IRaise) None)
      | Some (T, pos, sz) =>
          if Nat.eqb (size s T) sz then                                   (* rule R3 *)
            match nth_error (keys s T) pos with
            | Some k => (s, mkT (c (INext k)) (Some (T, Datatypes.S pos, sz)))
            | None => (s, mkT (c IStop) None)
            end
          else (s, mkT (c IRaise) None)
      end
  | Yield _ c => (s, mkT c it)
  end.

Definition config := (store * list thread)%type.

Fixpoint set_nth {A} (l : list A) (i : nat) (x : A) : list A :=
  match l, i with
  | [], _ => []
  | _ :: r, 0 => x :: r
  | a :: r, Datatypes.S j => a :: set_nth r j x
  end.

(* one micro-step of thread i (no-op when i is not a thread) *)
Definition step_thread (c : config) (i : nat) : config :=
  match nth_error (snd c) i with
  | None => c
  | Some t => let '(s', t') := step (fst c) t in (s', set_nth (snd c) i t')
  end.

(* interleaving as a function of a schedule: one thread id per micro-step (rule R4) *)
Definition run (sched : list nat) (c : config) : config := fold_left step_thread sched c.

Definition finished (t : thread) : option (list outcome) :=
  match th_prog t with Ret os => Some os | _ => None end.

Definition start (ps : list prog) : list thread := map (fun p => mkT p None) ps.

(* running one thread alone for n micro-steps *)
Fixpoint solo (n : nat) (s : store) (t : thread) : store * thread :=
  match n with 0 => (s, t) | Datatypes.S m => let '(s', t') := step s t in solo m s' t' end.

(* ------------------------------- yield-point granularity (the replay harness) *)
(* A released thread runs until it ARRIVES at its next yield point (or finishes). *)
Fixpoint run_to_yield (fuel : nat) (s : store) (t : thread) : store * thread :=
  match fuel with
  | 0 => (s, t)
  | Datatypes.S f =>
      match th_prog t with
      | Ret _ | Yield _ _ => (s, t)
      | _ => let '(s', t') := step s t in run_to_yield f s' t'
      end
  end.

Definition segment (fuel : nat) (s : store) (t : thread) : store * thread :=
  match th_prog t with
  | Yield _ _ => let '(s', t') := step s t in run_to_yield fuel s' t'
  | _ => run_to_yield fuel s t
  end.

Definition at_yield (t : thread) : option ypoint :=
  match th_prog t with Yield y _ => Some y | _ => None end.

(* replay of a harness schedule (one thread id per decision); returns the final
   configuration and the global trace of (thread, yield point) arrivals *)
Fixpoint run_segments (fuel : nat) (sched : list nat) (c : config) (tr : list (nat * ypoint))
  : config * list (nat * ypoint) :=
  match sched with
  | [] => (c, rev tr)
  | i :: rest =>
      match nth_error (snd c) i with
      | None => run_segments fuel rest c tr
      | Some t =>
          let '(s', t') := segment fuel (fst c) t in
          let tr' := match at_yield t' with Some y => (i, y) :: tr | None => tr end in
          run_segments fuel rest (s', set_nth (snd c) i t') tr'
      end
  end.

(* the micro-step schedule (one thread id per shared-table access) a harness schedule stands for *)
Fixpoint steps_to_yield (fuel : nat) (s : store) (t : thread) (n : nat) : store * thread * nat :=
  match fuel with
  | 0 => (s, t, n)
  | Datatypes.S f =>
      match th_prog t with
      | Ret _ | Yield _ _ => (s, t, n)
      | _ => let '(s', t') := step s t in steps_to_yield f s' t' (Datatypes.S n)
      end
  end.

Definition segment_steps (fuel : nat) (s : store) (t : thread) : store * thread * nat :=
  match th_prog t with
  | Yield _ _ => let '(s', t') := step s t in steps_to_yield fuel s' t' 1
  | _ => steps_to_yield fuel s t 0
  end.

Fixpoint micro_of (fuel : nat) (sched : list nat) (c : config) : list nat :=
  match sched with
  | [] => []
  | i :: rest =>
      match nth_error (snd c) i with
      | None => micro_of fuel rest c
      | Some t =>
          let '(s', t', n) := segment_steps fuel (fst c) t in
          repeat i n ++ micro_of fuel rest (s', set_nth (snd c) i t')
      end
  end.

Definition outcomes (c : config) : list (option (list outcome)) := map finished (snd c).

(* ----------------------------------------------------- scenario descriptors *)
(* The model describes the CURRENT tree, i.e. with the repairs F30 (hook scan over a snapshot),
   F32 (defaults dict published when complete), F33 (v1 catch-all read, not popped) and F34
   (Env.reload loads environ first) in place.  The one repair still only PROPOSED is F31; the
   harness detects from the source whether it is present (`no_fixes` = it is not). *)
Record fixes := mkX {
  fx31 : bool;         (* the JSON-path tables are always (re)written: no `set_paths` guard (proposed F31 repair) *)
  env_inplace : bool;  (* Env.load_environ(force_reload) refills the module-level `environ` dict IN PLACE
                          (clear, update) instead of REBINDING the global to a complete fresh copy *)
  h2b : bool           (* hook extension H2b: yield points before the in-place updates of Env.reload() *)
}.
Definition no_fixes : fixes := mkX false false false.   (* the current tree: F31 open, rebind, no H2b *)

Record fdesc := mkF { fd_dflt : bool; fd_path : bool }.
Record cdesc := mkC {
  cd_fields : list fdesc;
  cd_wiz : bool;        (* JSONWizard subclass: from_dict / to_dict are patched on first use *)
  cd_skipdef : bool;    (* DumpMeta(skip_defaults=True) bound to the class *)
  cd_dumpmeta : bool    (* a DumpMeta is bound: the dumper class exists before the first call *)
}.

Inductive kspec :=        (* a key of the input document *)
| KExact (i : nat)        (* field i under its own name *)
| KCamel (i : nat)        (* field i in camelCase (differs from the field name) *)
| KUnknown (j : nat)      (* a key of no field *)
| KPathTop.               (* the shared first component of the JSON paths *)

Inductive vty :=          (* run-time type of a dumped field value *)
| VTBase (b : nat)        (* exactly the b-th type of the default hook table *)
| VTSub (id parent : nat) (* a user subclass; `parent` = first hook type it is an instance of *)
| VTOther (id : nat).     (* a user class that is an instance of no hook type *)

Inductive call :=
| CLoad (ks : list kspec)
| CDump (vals : list vty)
| CEnv (reload : bool)
| CV1Load.                (* first-or-later load of the v1 catch-all class (abstract protocol) *)

Definition VNull : val := VN 999.     (* ExplicitNull *)
Definition VEmpty : val := VL [].      (* '' : the alias of a field dumped under a JSON path *)
Definition K_CATCH_ALL : key := 997.
Definition K_PATHTOP : key := 1000.

Definition key_of (k : kspec) : key :=
  match k with KExact i => i | KCamel i => 100 + i | KUnknown j => 200 + j | KPathTop => K_PATHTOP end.

Definition tkey_of (v : vty) : key :=
  match v with VTBase b => b | VTSub id _ => NBASE + id | VTOther id => NBASE + id end.

Definition need (r : option val) (c : val -> prog) : prog :=
  match r with Some v => c v | None => Ret [OErr EKeyError] end.

Fixpoint for_fields (fs : list fdesc) (i : nat) (body : nat -> fdesc -> prog -> prog) (c : prog) : prog :=
  match fs with
  | [] => c
  | f :: r => body i f (for_fields r (Datatypes.S i) body c)
  end.

Fixpoint path_ids (fs : list fdesc) (i : nat) : list nat :=
  match fs with [] => [] | f :: r => (if fd_path f then [i] else []) ++ path_ids r (Datatypes.S i) end.
Fixpoint dflt_ids (fs : list fdesc) (i : nat) : list nat :=
  match fs with [] => [] | f :: r => (if fd_dflt f then [i] else []) ++ dflt_ids r (Datatypes.S i) end.

Definition mem (x : nat) (l : list nat) : bool := existsb (Nat.eqb x) l.
Definition subset (a b : list nat) : bool := forallb (fun x => mem x b) a.

(* ------------------------------------------------ protocols of class_helper *)
(* dataclass_fields(cls):  if cls not in FIELDS: FIELDS[cls] = fields(cls);  return FIELDS[cls] *)
Definition p_fields (c : prog) : prog :=
  Rd T_FIELDS 0 (fun r =>
    match r with
    | Some _ => Rd T_FIELDS 0 (fun r2 => need r2 (fun _ => c))
    | None => Yield Y_fields_miss (Wr T_FIELDS 0 VU (Rd T_FIELDS 0 (fun r2 => need r2 (fun _ => c))))
    end).

(* dataclass_field_to_default(cls): a NEW local dict is filled, then published (F32 repair);
   `return FIELD_TO_DEFAULT[cls]` re-reads the registration, which may by then be the (equally
   complete) dict of another thread.  Returns the owner of the dict it hands out. *)
Definition p_defaults (tid : nat) (cd : cdesc) (c : nat -> prog) : prog :=
  let ret := Rd T_DEFREG 0 (fun r2 => match r2 with
                                      | Some (VN o) => c o
                                      | Some _ => Ret [OErr ETypeError]
                                      | None => Ret [OErr EKeyError]
                                      end) in
  Rd T_DEFREG 0 (fun r =>
    match r with
    | Some _ => ret
    | None =>
        let fill (k : prog) :=
          Yield Y_defaults_registered
            (p_fields (for_fields (cd_fields cd) 0
               (fun i f k => Yield Y_defaults_fill (if fd_dflt f then Wr (T_DEFAULTS tid) i VU k else k)) k)) in
        Yield Y_defaults_miss (fill (Wr T_DEFREG 0 (VN tid) ret))
    end).

(* get_loader(cls) *)
Definition p_loader (tid : nat) (c : prog) : prog :=
  Rd T_LOADER 0 (fun r =>
    match r with
    | Some _ => c
    | None => Yield Y_loader_miss (Wr T_LOADER 0 (VN tid) c)
    end).

(* get_dumper(cls): set_class_dumper stores, then RE-READS the table *)
Definition p_dumper (tid : nat) (c : nat -> prog) : prog :=
  Rd T_DUMPER 0 (fun r =>
    match r with
    | Some (VN o) => c o
    | Some _ => Ret [OErr ETypeError]
    | None => Yield Y_dumper_miss (Wr T_DUMPER 0 (VN tid)
                (Rd T_DUMPER 0 (fun r2 => match r2 with Some (VN o) => c o | _ => Ret [OErr EKeyError] end)))
    end).

(* dataclass_field_to_load_parser -> _setup_load_config_for_cls *)
Definition p_load_cfg (fx : fixes) (cd : cdesc) (c : prog) : prog :=
  Rd T_PARSERS 0 (fun r =>
    match r with
    | Some _ => Rd T_PARSERS 0 (fun r2 => need r2 (fun _ => c))
    | None =>
        Size T_PATH (fun n =>
          let set_paths := fx31 fx || Nat.eqb n 0 in
          Yield Y_load_cfg_begin (p_fields (for_fields (cd_fields cd) 0
            (fun i f k => Yield Y_load_cfg_field
               (if fd_path f
                then Wr T_JSON2F K_PATHTOP VNull (if set_paths then Wr T_PATH i VU k else k)
                else k))
            (Yield Y_load_cfg_store (Wr T_PARSERS 0 VU c)))))
    end).

(* setup_dump_config_for_cls_if_needed *)
Definition p_dump_cfg (fx : fixes) (cd : cdesc) (c : prog) : prog :=
  Rd T_DUMPFLAG 0 (fun r =>
    match r with
    | Some _ => c
    | None =>
        Yield Y_dump_cfg_begin (Size T_PATH (fun n =>
          let set_paths := fx31 fx || Nat.eqb n 0 in
          Yield Y_dump_cfg_paths_read (p_fields (for_fields (cd_fields cd) 0
            (fun i f k => Yield Y_dump_cfg_field
               (if fd_path f
                then (if set_paths then Wr T_PATH i VU (Wr T_ALIAS i VEmpty k) else Wr T_ALIAS i VEmpty k)
                else k))
            (Yield Y_dump_cfg_flag (Wr T_DUMPFLAG 0 VU c))))))
    end).

(* _set_new_attribute(cls, name, fn): never overwrites *)
Definition p_setattr (cd : cdesc) (a : key) (c : prog) : prog :=
  if cd_wiz cd
  then Rd T_ATTR a (fun r => match r with Some _ => c | None => Wr T_ATTR a VU c end)
  else c.

(* for ... in d.items(): collect the keys; a concurrent insertion raises (rule R3) *)
Fixpoint it_collect (fuel : nat) (acc : list key) (c : list key -> prog) : prog :=
  match fuel with
  | 0 => Ret [OErr EModel]
  | Datatypes.S f => ItNext (fun r =>
      match r with
      | INext k => it_collect f (k :: acc) c
      | IStop => c (rev acc)
      | IRaise => Ret [OErr ERuntime]
      end)
  end.

(* ------------------------------------------------------------ load (v0) *)
(* the generated `cls_fromdict`: d = loop_over_o :: fields whose JSON path is compiled in *)
Fixpoint key_loop (ks : list kspec) (c : prog) : prog :=
  match ks with
  | [] => c
  | k :: r =>
      Rd T_JSON2F (key_of k) (fun h =>
        match h with
        | Some _ => key_loop r c
        | None =>
            Yield Y_key_cache_miss
              match k with
              | KExact i => Wr T_JSON2F (key_of k) (VN i) (key_loop r c)
              | KCamel i => Yield Y_key_cache_store (Wr T_JSON2F (key_of k) (VN i) (key_loop r c))
              | KUnknown _ | KPathTop => Yield Y_key_cache_store (Wr T_JSON2F (key_of k) VNull (key_loop r c))
              end
        end)
  end.

Definition run_load_fn (cd : cdesc) (d : list nat) (ks : list kspec) : prog :=
  match d with
  | [] => Ret [OErr ETypeError]
  | loop :: snap =>
      let final := Ret [if subset (path_ids (cd_fields cd) 0) snap then OSeq else OErr EMissingFields] in
      if Nat.eqb loop 1 then key_loop ks final else final
  end.

Definition gen_load (fx : fixes) (tid : nat) (cd : cdesc) (ks : list kspec) : prog :=
  Yield Y_load_gen (p_fields (p_loader tid (p_load_cfg fx cd
    (Size T_PATH (fun num_paths =>
       Rd T_JSON2F K_CATCH_ALL (fun _ =>
         let finish (d : list nat) :=
           Yield Y_load_setattr (p_setattr cd 0 (Yield Y_load_store
             (Wr T_LOADFUNC 0 (VL d) (run_load_fn cd d ks)))) in
         if Nat.eqb num_paths 0 then finish [1]
         else p_fields (p_defaults tid cd (fun _ => ItBegin T_PATH
                (it_collect (Datatypes.S (Datatypes.S (List.length (cd_fields cd)))) []
                   (fun snap => finish ((if Nat.eqb num_paths (List.length (cd_fields cd)) then 0 else 1) :: snap))))))))))).

Definition call_load (fx : fixes) (tid : nat) (cd : cdesc) (ks : list kspec) : prog :=
  Rd T_LOADFUNC 0 (fun r =>
    match r with
    | Some (VL d) => run_load_fn cd d ks
    | Some _ => Ret [OErr ETypeError]
    | None => Yield Y_load_miss (gen_load fx tid cd ks)
    end).

(* ------------------------------------------------------------ dump (v0) *)
Definition matches (v : vty) (t : key) : bool :=
  match v with
  | VTBase b => Nat.eqb t b
  | VTSub id parent => Nat.eqb t parent || Nat.eqb t (NBASE + id)
  | VTOther id => Nat.eqb t (NBASE + id)
  end.

Definition VDefaultHook : val := VN 996.

(* the hook scan of _asdict_inner: `for t in tuple(hooks): if isinstance(obj, t): hooks[cls] = hooks[t]; break`
   walks a private snapshot of the keys (F30 repair) *)
Fixpoint hook_scan_snap (l : list key) (o : nat) (v : vty) (c : prog) : prog :=
  match l with
  | [] => Yield Y_hook_scan_store (Wr (T_HOOKS o) (tkey_of v) VDefaultHook c)
  | t :: r =>
      Yield Y_hook_scan_iter
        (if matches v t
         then Yield Y_hook_scan_store
                (Rd (T_HOOKS o) t (fun h => need h (fun hv => Wr (T_HOOKS o) (tkey_of v) hv c)))
         else hook_scan_snap r o v c)
  end.

Definition p_value (o : nat) (v : vty) (c : prog) : prog :=
  Rd (T_HOOKS o) (tkey_of v) (fun h =>
    match h with
    | Some _ => c
    | None => Yield Y_hook_scan_begin (Keys (T_HOOKS o) (fun l => hook_scan_snap l o v c))
    end).

Fixpoint dump_values (cd : cdesc) (o : nat) (skip : list nat) (i : nat) (vals : list vty) (c : prog) : prog :=
  match vals with
  | [] => c
  | v :: r =>
      if cd_skipdef cd && mem i skip
      then dump_values cd o skip (Datatypes.S i) r c
      else p_value o v (dump_values cd o skip (Datatypes.S i) r c)
  end.

(* the generated `cls_asdict`: d = owner of the dumper :: fields compiled with a skip-default test *)
Definition run_dump_fn (cd : cdesc) (d : list nat) (vals : list vty) : prog :=
  match d with
  | [] => Ret [OErr ETypeError]
  | o :: skip =>
      dump_values cd o skip 0 vals
        (Ret [if cd_skipdef cd && negb (subset (dflt_ids (cd_fields cd) 0) skip) then OWrong else OSeq])
  end.

(* the per-field part of dump_func_for_dataclass *)
Fixpoint gen_dump_fields (dd : nat) (fs : list fdesc) (i : nat) (skip : list nat) (c : list nat -> prog) : prog :=
  match fs with
  | [] => c (rev skip)
  | f :: r =>
      Rd (T_DEFAULTS dd) i (fun dv =>
        let skip' := match dv with Some _ => i :: skip | None => skip end in
        Rd T_ALIAS i (fun a =>
          match a with
          | None => Wr T_ALIAS i (VN (100 + i)) (gen_dump_fields dd r (Datatypes.S i) skip' c)
          | Some av =>
              match av with
              | VL [] => Rd T_PATH i (fun p => need p (fun _ => gen_dump_fields dd r (Datatypes.S i) skip' c))
              | _ => gen_dump_fields dd r (Datatypes.S i) skip' c
              end
          end))
  end.

Definition gen_dump (fx : fixes) (tid : nat) (cd : cdesc) (vals : list vty) : prog :=
  Yield Y_dump_gen (p_dumper tid (fun o =>
    p_dump_cfg fx cd (Yield Y_dump_cfg_done (p_defaults tid cd (fun dd => p_fields
      (Rd T_ALIAS K_CATCH_ALL (fun _ => Size T_PATH (fun _ =>
         gen_dump_fields dd (cd_fields cd) 0 [] (fun skip =>
           Yield Y_dump_setattr (p_setattr cd 1 (Yield Y_dump_store
             (Wr T_DUMPFUNC 0 (VL (o :: skip)) (run_dump_fn cd (o :: skip) vals))))))))))))).

Definition call_dump (fx : fixes) (tid : nat) (cd : cdesc) (vals : list vty) : prog :=
  Rd T_DUMPFUNC 0 (fun r =>
    match r with
    | Some (VL d) => run_dump_fn cd d vals
    | Some _ => Ret [OErr ETypeError]
    | None => Yield Y_dump_miss (gen_dump fx tid cd vals)
    end).

(* -------------------------------------------- EnvWizard.__init__ (one required field) *)
(* set / dict objects live in T_OBJ (content 0 = empty, 1 = every variable of os.environ) *)
Definition content (r : option val) : nat := match r with Some (VN (Datatypes.S _)) => 1 | _ => 0 end.
Definition is_some {A} (o : option A) : bool := match o with Some _ => true | None => false end.

(* The module-level `environ` is a reference (T_ENVIRON 0 -> object id) to a dict object whose
   content lives in T_OBJ (1 = every variable of os.environ, 0 = empty / partially filled).
   `set(environ)` and `environ[key]` go through the reference to the object. *)
Definition p_env_content (c : nat -> prog) : prog :=
  Rd T_ENVIRON 0 (fun e =>
    match e with
    | Some (VN eo) => Rd T_OBJ eo (fun r => c (content r))
    | Some _ => Ret [OErr ETypeError]
    | None => c 0
    end).

(* environ[key] for a variable that is set in os.environ *)
Definition p_env_get (c : prog) : prog :=
  p_env_content (fun ct => if Nat.eqb ct 1 then c else Ret [OErr EKeyError]).

(* Env.var_names (cached_class_property): returns the object id *)
Definition p_varnames (oid : nat) (c : nat -> prog) : prog :=
  Rd T_VARNAMES 0 (fun r =>
    match r with
    | Some (VN a) => c a
    | Some _ => Ret [OErr ETypeError]
    | None => Yield Y_env_var_names (p_env_content (fun ct =>
                Wr T_OBJ oid (VN ct) (Wr T_VARNAMES 0 (VN oid) (c oid))))
    end).

Definition p_member (oid : nat) (c : nat -> prog) : prog :=
  p_varnames oid (fun a => Rd T_OBJ a (fun r => c (content r))).

(* Env.cleaned_to_env (cached_class_property) *)
Definition p_cleaned (tid : nat) (c : nat -> prog) : prog :=
  Rd T_CLEANED 0 (fun r =>
    match r with
    | Some (VN a) => c a
    | Some _ => Ret [OErr ETypeError]
    | None => Wr T_ACCESSED 0 VU (Yield Y_env_cleaned (p_member (10 * tid + 1) (fun ct =>
                Wr T_OBJ (10 * tid + 3) (VN ct) (Wr T_CLEANED 0 (VN (10 * tid + 3)) (c (10 * tid + 3))))))
    end).

(* Env.load_environ(force_reload).
   REBIND  (current tree): `environ = os.environ.copy()` - a complete new dict is built privately and
           published by one assignment of the global;
   IN PLACE (env_inplace): `environ.clear(); environ.update(os.environ)` - the dict every reader holds
           is emptied and refilled (a Python-level loop), so it is transiently empty / partial. *)
Definition p_load_environ (fx : fixes) (tid : nat) (force : bool) (c : prog) : prog :=
  Rd T_ENVIRON 0 (fun e =>
    let not_setup := negb (is_some e) in
    if not_setup || force then
      Yield Y_env_load_environ
        (let refresh :=       (* cls.var_names = set(environ); cleaned_to_env rebuilt if it was ever accessed *)
           p_env_content (fun ct =>
             Wr T_OBJ (10 * tid + 2) (VN ct) (Wr T_VARNAMES 0 (VN (10 * tid + 2))
               (Rd T_ACCESSED 0 (fun a =>
                  if is_some a
                  then p_member (10 * tid + 1) (fun ct2 =>
                         Wr T_OBJ (10 * tid + 4) (VN ct2) (Wr T_CLEANED 0 (VN (10 * tid + 4)) c))
                  else c)))) in
         match e with
         | None => Wr T_OBJ (10 * tid + 5) (VN 1) (Wr T_ENVIRON 0 (VN (10 * tid + 5)) c)
         | Some ev =>
             if env_inplace fx
             then match ev with
                  | VN eo => Wr T_OBJ eo (VN 0) (Wr T_OBJ eo (VN 1) refresh)
                  | _ => Ret [OErr ETypeError]
                  end
             else Wr T_OBJ (10 * tid + 6) (VN 1) (Wr T_ENVIRON 0 (VN (10 * tid + 6)) refresh)
         end)
    else c).

(* Env.reload() *)
Definition p_reload (fx : fixes) (tid : nat) (c : prog) : prog :=
  let yb (y : ypoint) (k : prog) := if h2b fx then Yield y k else k in
  p_load_environ fx tid false       (* F34 repair: `environ` is loaded before var_names is touched *)
  (p_varnames (10 * tid + 1) (fun a =>
    p_load_environ fx tid true
      (Rd T_OBJ a (fun old =>
         yb Y_env_names_update (Wr T_OBJ a (VN 1)           (* env_vars.update(new_vars): in place, only adds *)
           (Rd T_ACCESSED 0 (fun acc =>
              if is_some acc
              then yb Y_env_cleaned_update
                     (p_cleaned tid (fun cobj => Rd T_OBJ cobj (fun cc =>
                        Wr T_OBJ cobj (VN (if Nat.eqb (content old) 1 then content cc else 1)) c)))
              else c))))))).

Definition call_env (fx : fixes) (tid : nat) (reload : bool) : prog :=
  (if reload then p_reload fx tid else p_load_environ fx tid false)
    (p_member (10 * tid + 1) (fun c1 =>            (* upper_key in Env.var_names *)
       if Nat.eqb c1 1 then p_env_get (Ret [OSeq]) (* return environ[upper_key] *)
       else p_member (10 * tid + 1) (fun _ =>      (* field_name in Env.var_names *)
              p_cleaned tid (fun cobj => Rd T_OBJ cobj (fun cc =>   (* try_cleaned *)
                if Nat.eqb (content cc) 1 then p_env_get (Ret [OSeq]) else Ret [OErr EMissingVars]))))).

(* ------- abstract protocol: first load of a v1 class with a CatchAll field (class key 1) *)
(* The alias set-up writes the catch-all entry into the shared alias table once (guarded by
   IS_V1_LOAD_CONFIG_SETUP); every generation READS it (`field_to_aliases.get(CATCH_ALL)`, F33
   repair - the pinned code popped it).  The generated function is VN 1 when it handles the
   catch-all field. *)
Definition K_V1CLS : key := 1.
Definition call_v1_catchall : prog :=
  Rd T_LOADFUNC K_V1CLS (fun r =>
    match r with
    | Some (VN 1) => Ret [OSeq]
    | Some _ => Ret [OErr ETypeError]       (* a function generated without the catch-all field *)
    | None =>
        Yield Y_load_miss
          (Rd T_V1FLAG 0 (fun fl =>
             (fun k : prog => match fl with
                              | Some _ => k
                              | None => Wr T_V1ALIAS K_CATCH_ALL VU (Yield Y_v1_cfg_flag (Wr T_V1FLAG 0 VU k))
                              end)
             (Yield Y_v1_load_aliases_read
               (Rd T_V1ALIAS K_CATCH_ALL (fun ca =>
                  let has := if is_some ca then 1 else 0 in
                  Yield Y_v1_load_store (Wr T_LOADFUNC K_V1CLS (VN has)
                    (Ret [if Nat.eqb has 1 then OSeq else OErr ETypeError])))))))
    end).

(* ---------------------------------------------------------------- threads *)
Definition call_prog (fx : fixes) (tid : nat) (cd : cdesc) (c : call) : prog :=
  match c with
  | CLoad ks => call_load fx tid cd ks
  | CDump vals => call_dump fx tid cd vals
  | CEnv reload => call_env fx tid reload
  | CV1Load => call_v1_catchall
  end.

Fixpoint thread_prog (fx : fixes) (tid : nat) (cd : cdesc) (cs : list call) : prog :=
  match cs with
  | [] => Ret []
  | c :: r => bind (call_prog fx tid cd c) (fun o1 => bind (thread_prog fx tid cd r) (fun o2 => Ret (o1 ++ o2)))
  end.

Fixpoint thread_progs (fx : fixes) (tid : nat) (cd : cdesc) (ps : list (list call)) : list prog :=
  match ps with [] => [] | cs :: r => thread_prog fx tid cd cs :: thread_progs fx (Datatypes.S tid) cd r end.

Definition initial_store (cd : cdesc) : store :=
  if cd_dumpmeta cd then [(T_DUMPER, 0, VN 90)] else [].

Definition scenario (fx : fixes) (cd : cdesc) (ps : list (list call)) : config :=
  (initial_store cd, start (thread_progs fx 0 cd ps)).

(* ---------------------------------------------------------------- printing *)
Definition show_nat (n : nat) : pstr := list_ascii_of_string (NilZero.string_of_uint (Nat.to_uint n)).

Definition show_yp (y : ypoint) : pstr :=
  match y with
  | Y_fields_miss => S "fields.miss" | Y_defaults_miss => S "defaults.miss"
  | Y_defaults_registered => S "defaults.registered" | Y_defaults_fill => S "defaults.fill"
  | Y_load_cfg_begin => S "load_cfg.begin" | Y_load_cfg_field => S "load_cfg.field"
  | Y_load_cfg_store => S "load_cfg.store"
  | Y_dump_cfg_begin => S "dump_cfg.begin" | Y_dump_cfg_paths_read => S "dump_cfg.paths_read"
  | Y_dump_cfg_field => S "dump_cfg.field" | Y_dump_cfg_flag => S "dump_cfg.flag"
  | Y_loader_miss => S "loader.miss" | Y_dumper_miss => S "dumper.miss"
  | Y_load_miss => S "load.miss" | Y_load_gen => S "load.gen" | Y_load_setattr => S "load.setattr"
  | Y_load_store => S "load.store"
  | Y_dump_miss => S "dump.miss" | Y_dump_gen => S "dump.gen" | Y_dump_cfg_done => S "dump.cfg_done"
  | Y_dump_setattr => S "dump.setattr" | Y_dump_store => S "dump.store"
  | Y_hook_scan_begin => S "hook_scan.begin" | Y_hook_scan_iter => S "hook_scan.iter"
  | Y_hook_scan_store => S "hook_scan.store"
  | Y_key_cache_miss => S "key_cache.miss" | Y_key_cache_store => S "key_cache.store"
  | Y_env_load_environ => S "env.load_environ" | Y_env_var_names => S "env.var_names"
  | Y_env_cleaned => S "env.cleaned"
  | Y_v1_cfg_flag => S "v1_cfg.flag" | Y_v1_load_aliases_read => S "v1_load.aliases_read"
  | Y_v1_load_store => S "v1_load.store"
  | Y_env_names_update => S "env.names_update" | Y_env_cleaned_update => S "env.cleaned_update"
  | Y_v1_load_gen => S "v1_load.gen" | Y_v1_cfg_begin => S "v1_cfg.begin"
  | Y_v1_cfg_paths_read => S "v1_cfg.paths_read" | Y_v1_cfg_field => S "v1_cfg.field"
  | Y_v1_load_setattr => S "v1_load.setattr"
  end.

Definition show_err (e : err) : pstr :=
  match e with
  | ERuntime => S "RuntimeError" | EKeyError => S "KeyError" | EMissingFields => S "MissingFields"
  | EMissingVars => S "MissingVars" | ETypeError => S "TypeError" | ENameError => S "NameError"
  | EModel => S "MODEL-FUEL"
  end.

Definition show_outcome (o : outcome) : pstr :=
  match o with OSeq => S "seq" | OWrong => S "wrong" | OErr e => show_err e end.

Definition show_thread (t : thread) : pstr :=
  match th_prog t with
  | Ret os => join (S "+") (map show_outcome os)
  | _ => S "running"
  end.

Definition RUN_FUEL : nat := 4000.

(* "t.point,t.point,...;outcomes of thread 0|outcomes of thread 1|..." *)
Definition show_run (c : config) (sched : list nat) : pstr :=
  let '(c', tr) := run_segments RUN_FUEL sched c [] in
  join (S ",") (map (fun p => show_nat (fst p) ++ S "." ++ show_yp (snd p)) tr)
  ++ S ";" ++ join (S "|") (map show_thread (snd c')).

(* compact rendering for the replay harness: one character per yield point *)
Definition yp_code (y : ypoint) : pstr :=
  match y with
  | Y_fields_miss => S "a"
  | Y_defaults_miss => S "b"
  | Y_defaults_registered => S "c"
  | Y_defaults_fill => S "d"
  | Y_load_cfg_begin => S "e"
  | Y_load_cfg_field => S "f"
  | Y_load_cfg_store => S "g"
  | Y_dump_cfg_begin => S "h"
  | Y_dump_cfg_paths_read => S "i"
  | Y_dump_cfg_field => S "j"
  | Y_dump_cfg_flag => S "k"
  | Y_loader_miss => S "l"
  | Y_dumper_miss => S "m"
  | Y_load_miss => S "n"
  | Y_load_gen => S "o"
  | Y_load_setattr => S "p"
  | Y_load_store => S "q"
  | Y_dump_miss => S "r"
  | Y_dump_gen => S "s"
  | Y_dump_cfg_done => S "t"
  | Y_dump_setattr => S "u"
  | Y_dump_store => S "v"
  | Y_hook_scan_begin => S "w"
  | Y_hook_scan_iter => S "x"
  | Y_hook_scan_store => S "y"
  | Y_key_cache_miss => S "z"
  | Y_key_cache_store => S "A"
  | Y_env_load_environ => S "B"
  | Y_env_var_names => S "C"
  | Y_env_cleaned => S "D"
  | Y_v1_cfg_flag => S "E"
  | Y_v1_load_aliases_read => S "F"
  | Y_v1_load_store => S "G"
  | Y_env_names_update => S "H"
  | Y_env_cleaned_update => S "I"
  | Y_v1_load_gen => S "J"
  | Y_v1_cfg_begin => S "K"
  | Y_v1_cfg_paths_read => S "L"
  | Y_v1_cfg_field => S "M"
  | Y_v1_load_setattr => S "N"
  end.

Definition all_ypoints : list ypoint :=
  [Y_fields_miss; Y_defaults_miss; Y_defaults_registered; Y_defaults_fill; Y_load_cfg_begin; Y_load_cfg_field; Y_load_cfg_store; Y_dump_cfg_begin; Y_dump_cfg_paths_read; Y_dump_cfg_field; Y_dump_cfg_flag; Y_loader_miss; Y_dumper_miss; Y_load_miss; Y_load_gen; Y_load_setattr; Y_load_store; Y_dump_miss; Y_dump_gen; Y_dump_cfg_done; Y_dump_setattr; Y_dump_store; Y_hook_scan_begin; Y_hook_scan_iter; Y_hook_scan_store; Y_key_cache_miss; Y_key_cache_store; Y_env_load_environ; Y_env_var_names; Y_env_cleaned; Y_v1_cfg_flag; Y_v1_load_aliases_read; Y_v1_load_store;
   Y_env_names_update; Y_env_cleaned_update;
   Y_v1_load_gen; Y_v1_cfg_begin; Y_v1_cfg_paths_read; Y_v1_cfg_field; Y_v1_load_setattr].

(* "name=code,name=code,..." : lets the harness check its own code table against this one *)
Definition show_codes : pstr :=
  join (S ",") (map (fun y => show_yp y ++ S "=" ++ yp_code y) all_ypoints).

(* "<tid><code><tid><code>...;outcomes of thread 0|outcomes of thread 1|..." *)
Definition show_run_c (c : config) (sched : list nat) : pstr :=
  let '(c', tr) := run_segments RUN_FUEL sched c [] in
  flat_map (fun p => show_nat (fst p) ++ yp_code (snd p)) tr
  ++ S ";" ++ join (S "|") (map show_thread (snd c')).
