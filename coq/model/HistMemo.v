(* HistMemo.v — a memo table in general (property C06, second state machine).

   A memo table is an association list consulted with the TABLE'S OWN key equality `keq`
   (for a Python dict: `==` together with equal hashes), filled on a miss with the value of
   the memoised function `f`, and only when the value is `cacheable` (the library never
   stores a raised error; C06-9's decorator does not store a failed conversion).
   No proofs in this file. *)
From Coq Require Import List Bool.
Import ListNotations.

Section Memo.
  Context {K V : Type}.
  Variable f : K -> V.                (* the function the table memoises *)
  Variable keq : K -> K -> bool.      (* keq query stored : the table treats the two keys as one *)
  Variable cacheable : V -> bool.

  Definition mtable := list (K * V).

  Fixpoint mlookup (t : mtable) (k : K) : option V :=
    match t with
    | [] => None
    | (k', v) :: r => if keq k k' then Some v else mlookup r k
    end.

  (* one memoised call: new table, answer *)
  Definition mcall (t : mtable) (k : K) : mtable * V :=
    match mlookup t k with
    | Some v => (t, v)
    | None => let v := f k in ((if cacheable v then (k, v) :: t else t), v)
    end.

  (* the table after a history of calls *)
  Fixpoint mrun (t : mtable) (ks : list K) : mtable :=
    match ks with [] => t | k :: r => mrun (fst (mcall t k)) r end.

  (* every entry that a lookup can return equals the pure function of the key looked up *)
  Definition msound (t : mtable) : Prop := forall k v, mlookup t k = Some v -> v = f k.

  (* the memoised function factors through the key equivalence of the table (on the entries the table keeps) *)
  Definition factors : Prop := forall k k', keq k k' = true -> cacheable (f k') = true -> f k = f k'.

  (* the memo is transparent: after EVERY history of calls every call answers as the function itself *)
  Definition mtransparent : Prop := forall ks k, snd (mcall (mrun [] ks) k) = f k.
End Memo.
