(* V1Conf.v — C05 for the v1 engine: the CONFORMANCE relation of property C05 over the
   value universe of the v1 model (V1Base.v).  `conforms_v1 ct dl n t v`: v is a value of
   annotation t — exact container kind, element types, fixed-tuple arity, dict / defaultdict
   (factory) with key and value types, NamedTuple (its name, every field), TypedDict (every
   required key present, every key present declared, each value of its key's type), Literal
   membership by value AND type, Optional, Union (some member), nested dataclass (the class
   itself, every init field in declaration order).  Class tables may be cyclic, so the
   helper-compiled annotations (Union, Literal, NamedTuple, TypedDict, dataclass) are
   budgeted exactly as in the loader specification `load_v1` (V1Eval.v): nested at most n deep.
   dl = true admits ONE thing beyond the annotation: a field may hold the default its class
   declares for it (a non-conforming declared default is the declaration, not the loader).
   No proofs in this file. *)
From DW Require Import PyStr V1Base V1Gen V1Errors V1Eval V1Show.
From Coq Require Import ZArith List Bool.
Import ListNotations.

(* a value of a leaf annotation: the concrete Python type (bool is NOT an int here) *)
Definition leaf_conf (l : leaf) (v : pv) : bool :=
  match l with
  | LAny => true
  | LNone => is_none v
  | LStr => match v with VStr _ => true | _ => false end
  | LInt => match v with VInt _ => true | _ => false end
  | LFloat => match v with VFloat _ => true | _ => false end
  | LBool => match v with VBool _ => true | _ => false end
  | LBytes => match v with VBytes _ => true | _ => false end
  | LBytearray => match v with VByteArray _ => true | _ => false end
  | LEnum _ | LUUID | LDecimal | LPath | LDate | LTime | LDatetime | LTimedelta =>
      match v with VObj l' _ => leaf_eqb l l' | _ => false end
  end.

(* the premise about the leaf oracle: a leaf conversion that returns, returns a value of its type *)
Definition leaf_sound (Or : oracle) : Prop :=
  forall l o v x, conv Or l o v = Ok x -> leaf_conf l x = true.

(* the same, decided on a finite oracle table *)
Definition table_sound (tbl : list oentry) : bool :=
  forallb (fun e => match e with
                    | (l, _, _, Ok x) => leaf_conf l x
                    | (_, _, _, Err _) => true
                    end) tbl.

Definition is_set_kind (k : seqkind) : bool := match k with KSet | KFrozen => true | _ => false end.

Section Conf1.
  Variable ct : ctable.
  Variable dl : bool.

  Section Step.
    (* conformance to a helper-compiled annotation, with a smaller budget *)
    Variable crec : ty -> pv -> bool.

    Fixpoint cf (t : ty) (v : pv) {struct t} : bool :=
      match t with
      | TLeaf l => leaf_conf l v
      | TSeq k t' =>
          match v with
          | VSeq k' l =>
              seqkind_eqb k k' && forallb (cf t') l && (negb (is_set_kind k) || forallb hashable l)
          | _ => false
          end
      | TTuple ts => match v with VSeq KTuple l => cf_l ts l | _ => false end
      | TDict dd kt vt =>
          match v with
          | VDict dd' kvs =>
              opt_eqb pstr_eqb dd dd' &&
              forallb (fun kv => (cf kt (fst kv) && hashable (fst kv)) && cf vt (snd kv)) kvs
          | _ => false
          end
      | TOpt t' => is_none v || cf t' v
      | TUnion _ | TLit _ | TNamed _ _ | TTyped _ _ _ | TData _ => crec t v
      end
    with cf_l (ts : tys) (l : list pv) {struct ts} : bool :=
      match ts, l with
      | TNil, [] => true
      | TCons _ t r, x :: xr => cf t x && cf_l r xr
      | _, _ => false
      end.

    (* v is a value of SOME member *)
    Fixpoint cf_any (ts : tys) (v : pv) : bool :=
      match ts with TNil => false | TCons _ t r => cf t v || cf_any r v end.

    (* every key of ts is present in kvs with a value of its type *)
    Fixpoint cf_req (ts : tys) (kvs : list (pv * pv)) : bool :=
      match ts with
      | TNil => true
      | TCons lbl t r => existsb (fun kv => str_key (fst kv) lbl && cf t (snd kv)) kvs && cf_req r kvs
      end.

    (* (k, y) is an entry for a key declared in ts, y a value of that key's type *)
    Fixpoint cf_key (ts : tys) (k y : pv) : bool :=
      match ts with
      | TNil => false
      | TCons lbl t r => (str_key k lbl && cf t y) || cf_key r k y
      end.

    Definition dflt_is (f : fdecl) (x : pv) : bool :=
      dl && match f_default f with Some d => pv_eqb d x | None => false end.

    (* the init fields, in declaration order, each a value of its type *)
    Fixpoint cf_fields (fs : list fdecl) (vs : list (pstr * pv)) : bool :=
      match fs, vs with
      | [], [] => true
      | f :: r, (n, x) :: xr =>
          pstr_eqb (f_name f) n && (cf (f_ty f) x || dflt_is f x) && cf_fields r xr
      | _, _ => false
      end.

    Definition cf_helper (t : ty) (v : pv) : bool :=
      match t with
      | TLit vs => existsb (fun a => pv_eqb v (lit_pv a)) vs
      | TUnion ts => cf_any ts v
      | TNamed n fs => match v with VNamed n' l => pstr_eqb n n' && cf_l fs l | _ => false end
      | TTyped _ req opt =>
          match v with
          | VDict None kvs =>
              cf_req req kvs && forallb (fun kv => cf_key req (fst kv) (snd kv) || cf_key opt (fst kv) (snd kv)) kvs
          | _ => false
          end
      | TData c =>
          match v, nth_error ct c with
          | VInst c' fs, Some cd => Nat.eqb c c' && cf_fields (c_fields cd) fs
          | _, _ => false
          end
      | _ => cf t v
      end.
  End Step.

  Fixpoint cf_n (n : nat) (t : ty) (v : pv) : bool :=
    match n with
    | 0%nat => false
    | Datatypes.S m => cf_helper (cf_n m) t v
    end.

  Definition conforms_v1 (n : nat) (t : ty) (v : pv) : bool := cf (cf_n n) t v.
  (* an instance of class c *)
  Definition conforms_cls (n : nat) (c : cid) (v : pv) : bool := cf_n n (TData c) v.
End Conf1.

(* every declared default is a value of its field's annotation (helpers nested at most k deep) *)
Definition defaults_conform (ct : ctable) (k : nat) : Prop :=
  forall c cd f d, nth_error ct c = Some cd -> In f (c_fields cd) -> f_default f = Some d ->
                   conforms_v1 ct false k (f_ty f) d = true.
Definition defaults_conformb (ct : ctable) (k : nat) : bool :=
  forallb (fun cd => forallb (fun f => match f_default f with
                                       | Some d => conforms_v1 ct false k (f_ty f) d
                                       | None => true
                                       end) (c_fields cd)) ct.

(* ---- entry point of the correspondence harness --------------------------------------
   specification outcome, generated-code outcome, the conformance verdicts (strict, and with
   declared defaults admitted) on whatever the specification returns, and the audit of the
   oracle table *)
Definition show_b (b : bool) : pstr := if b then S "1" else S "0".
Definition case_conf (tbl : list oentry) (ct : ctable) (n : nat) (c : cid) (o : pv) : pstr :=
  let Or := table_oracle tbl [] in
  let r := load_cls Or ct n c o in
  join (S "#") [show_res r;
                show_res (run_main Or ct (Datatypes.S (List.length ct)) n c o);
                match r with
                | Ok x => show_b (conforms_cls ct false n c x) ++ show_b (conforms_cls ct true n c x)
                | Err _ => S "--"
                end;
                show_b (table_sound tbl);
                show_b (defaults_conformb ct n)].
