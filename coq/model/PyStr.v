(* PyStr.v — Python `str` restricted to what the library's pure cores use.
   A string is a list of bytes (`list ascii`).  Case-sensitive operations
   (upper/lower/islower/title/isdigit) are modelled on ASCII; bytes >= 128 are
   uncased and transparent.  Theorems about case carry explicit hypotheses on
   the alphabet, and the correspondence harness only feeds ASCII to the
   case-sensitive functions.  No proofs in this file. *)
From Coq Require Export List Ascii String Bool NArith ZArith.
Export ListNotations.
Open Scope list_scope.

Definition pstr := list ascii.

Definition S (s : string) : pstr := list_ascii_of_string s.
Definition B (l : list N) : pstr := map ascii_of_N l.

Definition ch (n : N) : ascii := ascii_of_N n.
Definition code (c : ascii) : N := N_of_ascii c.

Definition c_us   : ascii := "_"%char.
Definition c_dash : ascii := "-"%char.
Definition c_sp   : ascii := " "%char.
Definition c_dot  : ascii := "."%char.
Definition c_nl   : ascii := ch 10.

Definition is_upper (c : ascii) : bool := (65 <=? code c)%N && (code c <=? 90)%N.
Definition is_lower (c : ascii) : bool := (97 <=? code c)%N && (code c <=? 122)%N.
Definition is_digit (c : ascii) : bool := (48 <=? code c)%N && (code c <=? 57)%N.
Definition is_alpha (c : ascii) : bool := is_upper c || is_lower c.
Definition is_lower_or_digit (c : ascii) : bool := is_lower c || is_digit c.

Definition to_upper (c : ascii) : ascii :=
  if is_lower c then ch (code c - 32) else c.
Definition to_lower (c : ascii) : ascii :=
  if is_upper c then ch (code c + 32) else c.

Definition upper (s : pstr) : pstr := map to_upper s.
Definition lower (s : pstr) : pstr := map to_lower s.

Definition ascii_eqb (a b : ascii) : bool := (code a =? code b)%N.

Fixpoint pstr_eqb (a b : pstr) : bool :=
  match a, b with
  | [], [] => true
  | x :: a', y :: b' => ascii_eqb x y && pstr_eqb a' b'
  | _, _ => false
  end.

(* str.islower(): at least one cased character and no uppercase one. *)
Definition py_islower (s : pstr) : bool :=
  existsb is_lower s && negb (existsb is_upper s).

(* str.replace(a, b) for single characters. *)
Definition replace_char (a b : ascii) (s : pstr) : pstr :=
  map (fun c => if ascii_eqb c a then b else c) s.

(* str.replace(a, '') for a single character. *)
Definition remove_char (a : ascii) (s : pstr) : pstr :=
  filter (fun c => negb (ascii_eqb c a)) s.

(* str.title() on ASCII: a letter is upper-cased when the previous character
   is uncased, lower-cased otherwise. *)
Fixpoint title_from (prev_cased : bool) (s : pstr) : pstr :=
  match s with
  | [] => []
  | c :: r =>
      if is_alpha c
      then (if prev_cased then to_lower c else to_upper c) :: title_from true r
      else c :: title_from false r
  end.
Definition title (s : pstr) : pstr := title_from false s.

Fixpoint mem_str (x : pstr) (l : list pstr) : bool :=
  match l with
  | [] => false
  | y :: r => pstr_eqb x y || mem_str x r
  end.

(* list.remove(x): drop the first occurrence. *)
Fixpoint remove_first (x : pstr) (l : list pstr) : list pstr :=
  match l with
  | [] => []
  | y :: r => if pstr_eqb x y then r else y :: remove_first x r
  end.

Fixpoint starts_with (p s : pstr) : bool :=
  match p, s with
  | [], _ => true
  | a :: p', b :: s' => ascii_eqb a b && starts_with p' s'
  | _ :: _, [] => false
  end.

(* str.replace(old, new, 1) for arbitrary old/new: first occurrence only. *)
Fixpoint replace_first (old new s : pstr) : pstr :=
  match s with
  | [] => match old with [] => new | _ => [] end
  | c :: r =>
      if starts_with old s then new ++ skipn (List.length old) s
      else c :: replace_first old new r
  end.

(* ---- output encoding for the correspondence harness -------------------- *)
Definition hex_digit (n : N) : ascii :=
  if (n <? 10)%N then ch (48 + n) else ch (87 + n).
Definition hex_of_ascii (c : ascii) : pstr :=
  [hex_digit (code c / 16); hex_digit (code c mod 16)].
Definition hex (s : pstr) : pstr := flat_map hex_of_ascii s.

Definition out (s : pstr) : string := string_of_list_ascii s.

Fixpoint join (sep : pstr) (l : list pstr) : pstr :=
  match l with
  | [] => []
  | [x] => x
  | x :: r => x ++ sep ++ join sep r
  end.
