(* StateShow.v — text encoders of outcomes for the correspondence harness
   (harness/props/c06.py parses this syntax).  No proofs. *)
From DW Require Import PyStr StrConv StateModel.

Definition decn (n : nat) : pstr := dec (Z.of_nat n).

Fixpoint show_iv (v : iv) : pstr :=
  match v with
  | VNone => S "n"
  | VInt z => S "i" ++ dec z
  | VStr s => S "s" ++ hex s
  | VSub _ z => S "u" ++ dec z
  | VInst c fs =>
      S "c" ++ decn c ++ S "(" ++
      join (S ",") ((fix go (l : list (pstr * iv)) : list pstr :=
                       match l with [] => [] | (x, w) :: r => (hex x ++ S "=" ++ show_iv w) :: go r end) fs)
      ++ S ")"
  end.

Fixpoint show_jv (v : jv) : pstr :=
  match v with
  | JNull => S "n"
  | JInt z => S "i" ++ dec z
  | JStr s => S "s" ++ hex s
  | JDict kv =>
      S "{" ++
      join (S ",") ((fix go (l : list (pstr * jv)) : list pstr :=
                       match l with [] => [] | (x, w) :: r => (hex x ++ S ":" ++ show_jv w) :: go r end) kv)
      ++ S "}"
  end.

Definition show_err (e : err) : pstr :=
  match e with
  | EParse c f => S "P" ++ decn c ++ S ":" ++ hex f
  | EMissingData c f => S "D" ++ decn c ++ S ":" ++ hex f
  | EMissingFields c fs => S "M" ++ decn c ++ S ":" ++ join (S "+") (map hex fs)
  | EUnknownKey c k => S "U" ++ decn c ++ S ":" ++ hex k
  | EValue => S "V"
  | EIndex => S "X"
  | EAttr => S "A"
  | ERawType => S "rt"
  | ERawNone => S "rn"
  | EModel => S "?"
  end.

Definition show_outcome (o : outcome) : pstr :=
  match o with
  | ODone => S "d"
  | OVal v => S "v" ++ show_iv v
  | OJson j => S "j" ++ show_jv j
  | OErr e => S "e" ++ show_err e
  end.

Definition show_run (h : list op) : pstr := join (S ";") (map show_outcome (run_out init h)).
