(* PatStd.v — a fixed-width SLICE of the standard library functions that C17's decision trees call:
   datetime.strptime, <class>.fromisoformat, isoformat / strftime, restricted to

     directives  %Y (4 digits)  %m %d %H %M %S (2 digits), every other pattern character a literal;
     strings     in which every numeric field is zero-padded to its full width (what strftime and
                 isoformat produce);
     ISO-8601    the extended forms  YYYY-MM-DD,  HH:MM:SS | HH:MM | HH,  <date><any char><time> | <date>.

   It exists to make the AMBIGUOUS region of C17 concrete: patterns that are a permutation of the ISO
   field order with the ISO separators ('%Y-%d-%m', '%S:%M:%H', '%Y-%d-%mT%M:%H:%S' ...) parse the ISO
   rendering of a value as ANOTHER value.  PatModel's `iso` / `strp` remain parameters; this file gives
   one executable instance, compared with the real functions by the harness on every run (on the
   slice's domain).  No proofs in this file. *)
From DW Require Export PatModel.

Inductive fld := FY | Fm | Fd | FH | FM | FS.
Inductive tok :=
| TF (f : fld)          (* a directive *)
| TL (c : ascii)        (* a literal character *)
| TAny.                 (* any one character (the date/time separator of datetime.fromisoformat);
                           never produced from a pattern text *)

Definition fld_eqb (a b : fld) : bool :=
  match a, b with
  | FY, FY | Fm, Fm | Fd, Fd | FH, FH | FM, FM | FS, FS => true
  | _, _ => false
  end.

Definition letter (f : fld) : ascii :=
  match f with FY => "Y" | Fm => "m" | Fd => "d" | FH => "H" | FM => "M" | FS => "S" end%char.

Definition fld_of (c : ascii) : option fld :=
  if ascii_eqb c "Y" then Some FY else if ascii_eqb c "m" then Some Fm else
  if ascii_eqb c "d" then Some Fd else if ascii_eqb c "H" then Some FH else
  if ascii_eqb c "M" then Some FM else if ascii_eqb c "S" then Some FS else None.

Definition c_pct : ascii := "%"%char.

(* pattern text -> tokens; None for a directive outside the slice *)
Fixpoint tokens (p : pstr) : option (list tok) :=
  match p with
  | [] => Some []
  | c :: r =>
      if ascii_eqb c c_pct then
        match r with
        | d :: r' =>
            match fld_of d, tokens r' with
            | Some f, Some ts => Some (TF f :: ts)
            | _, _ => None
            end
        | [] => None
        end
      else match tokens r with Some ts => Some (TL c :: ts) | None => None end
  end.

Fixpoint text (ts : list tok) : pstr :=
  match ts with
  | [] => []
  | TF f :: r => c_pct :: letter f :: text r
  | TL c :: r => c :: text r
  | TAny :: r => "T"%char :: text r
  end.

Definition width (f : fld) : nat := match f with FY => 4%nat | _ => 2%nat end.

(* ---- numbers ------------------------------------------------------------------------------------ *)
Definition digit (d : Z) : ascii := ch (48 + Z.to_N d).
Definition digit_val (c : ascii) : option Z :=
  if is_digit c then Some (Z.of_N (code c) - 48)%Z else None.

(* exactly w digits, most significant first *)
Fixpoint fmt_num (w : nat) (n : Z) : pstr :=
  match w with
  | O => []
  | Datatypes.S w' => digit (n / 10 ^ Z.of_nat w')%Z :: fmt_num w' (n mod 10 ^ Z.of_nat w')%Z
  end.

Fixpoint take_num (w : nat) (acc : Z) (s : pstr) : option (Z * pstr) :=
  match w with
  | O => Some (acc, s)
  | Datatypes.S w' =>
      match s with
      | c :: r => match digit_val c with Some d => take_num w' (10 * acc + d)%Z r | None => None end
      | [] => None
      end
  end.

(* ---- a value / a partial parse: one number per field --------------------------------------------- *)
Definition fvals := fld -> Z.
Definition pvals := fld -> option Z.
Definition p_empty : pvals := fun _ => None.
Definition p_put (f : fld) (n : Z) (a : pvals) : pvals := fun g => if fld_eqb g f then Some n else a g.

(* strftime / isoformat of the slice *)
Fixpoint fmt_toks (ts : list tok) (v : fvals) : pstr :=
  match ts with
  | [] => []
  | TF f :: r => fmt_num (width f) (v f) ++ fmt_toks r v
  | TL c :: r => c :: fmt_toks r v
  | TAny :: r => "T"%char :: fmt_toks r v
  end.

(* the whole string must be consumed; a directive given twice is an error (re.error in CPython) *)
Fixpoint run (ts : list tok) (s : pstr) (a : pvals) : option pvals :=
  match ts with
  | [] => match s with [] => Some a | _ => None end
  | TL c :: r => match s with x :: s' => if ascii_eqb x c then run r s' a else None | [] => None end
  | TAny :: r => match s with _ :: s' => run r s' a | [] => None end
  | TF f :: r =>
      match a f, take_num (width f) 0 s with
      | None, Some (n, s') => run r s' (p_put f n a)
      | _, _ => None
      end
  end.

(* ---- validity (the datetime constructor) ------------------------------------------------------------ *)
Definition leap (y : Z) : bool := ((y mod 4 =? 0) && (negb (y mod 100 =? 0) || (y mod 400 =? 0)))%Z.
Definition dim (y m : Z) : Z :=
  (if m =? 2 then (if leap y then 29 else 28)
   else if (m =? 4) || (m =? 6) || (m =? 9) || (m =? 11) then 30 else 31)%Z.
Definition valid_stamp (d : stamp) : bool :=
  ((1 <=? yr d) && (yr d <=? 9999) && (1 <=? mo d) && (mo d <=? 12) && (1 <=? dy d) && (dy d <=? dim (yr d) (mo d)) &&
   (0 <=? hh d) && (hh d <=? 23) && (0 <=? mi d) && (mi d <=? 59) && (0 <=? ss d) && (ss d <=? 59))%Z.

(* strptime's defaults for the components a pattern does not determine: 1900-01-01 00:00:00 *)
Definition dflt (f : fld) : Z := match f with FY => 1900 | Fm => 1 | Fd => 1 | _ => 0 end%Z.
Definition full (a : pvals) : stamp :=
  let g := fun f => match a f with Some n => n | None => dflt f end in
  {| yr := g FY; mo := g Fm; dy := g Fd; hh := g FH; mi := g FM; ss := g FS; us := 0; tz := None; fold := 0 |}.
Definition finish (a : pvals) : option stamp :=
  let d := full a in if valid_stamp d then Some d else None.

(* datetime.strptime(s, p) on the slice *)
Definition strp_toks (ts : list tok) (s : pstr) : option stamp :=
  match run ts s p_empty with Some a => finish a | None => None end.
Definition strp_fix (p s : pstr) : option stamp :=
  match tokens p with Some ts => strp_toks ts s | None => None end.

(* ---- ISO-8601, extended forms ----------------------------------------------------------------------- *)
Definition iso_date_toks : list tok := [TF FY; TL "-"%char; TF Fm; TL "-"%char; TF Fd].
Definition iso_time_toks : list tok := [TF FH; TL ":"%char; TF FM; TL ":"%char; TF FS].
Definition iso_toks (k : kind) : list tok :=
  match k with
  | KDate => iso_date_toks
  | KTime => iso_time_toks
  | KDateTime => iso_date_toks ++ TAny :: iso_time_toks
  end.
(* the shorter accepted forms *)
Definition iso_time_forms : list (list tok) :=
  [iso_time_toks; [TF FH; TL ":"%char; TF FM]; [TF FH]].
Definition iso_forms (k : kind) : list (list tok) :=
  match k with
  | KDate => [iso_date_toks]
  | KTime => iso_time_forms
  | KDateTime => map (fun t => iso_date_toks ++ TAny :: t) iso_time_forms ++ [iso_date_toks]
  end.

(* the value at the target kind: components the kind does not have are 0 *)
Definition kval (k : kind) (d : stamp) : stamp :=
  match k with KDateTime => d | KDate => date_of d | KTime => time_of d end.

Fixpoint first_form (fs : list (list tok)) (s : pstr) : option stamp :=
  match fs with
  | [] => None
  | ts :: r => match run ts s p_empty with Some a => finish a | None => first_form r s end
  end.

(* <class>.fromisoformat(s) on the slice *)
Definition iso_fix (k : kind) (s : pstr) : option stamp :=
  match first_form (iso_forms k) s with Some d => Some (kval k d) | None => None end.

(* <value>.isoformat() on the slice (seconds precision, naive) *)
Definition isofmt (k : kind) (v : fvals) : pstr := fmt_toks (iso_toks k) v.

(* ---- permutations of the ISO field order -------------------------------------------------------------- *)
Definition rename (sg : fld -> fld) (ts : list tok) : list tok :=
  map (fun t => match t with TF f => TF (sg f) | x => x end) ts.

Fixpoint flds (ts : list tok) : list fld :=
  match ts with
  | [] => []
  | TF f :: r => f :: flds r
  | _ :: r => flds r
  end.

Definition in_range (ts : list tok) (v : fvals) : Prop :=
  forall f, In f (flds ts) -> (0 <= v f < 10 ^ Z.of_nat (width f))%Z.

Definition vals_of (v : fvals) : pvals := fun f => Some (v f).
(* the fields of ts taken from v, every other field unset *)
Definition restrict (ts : list tok) (v : fvals) : pvals :=
  fun f => if existsb (fld_eqb f) (flds ts) then Some (v f) else None.

(* ---- the ISO-ambiguous family ------------------------------------------------------------------------------
   the ISO layout of kind k with the date/time separator written 'T'; a pattern = that layout with its
   fields renamed by sg (a permutation of month/day, of hour/minute/second ...); w = the numbers the
   PATTERN reads; the string is the ISO rendering of the value v = w o sg *)
Definition lit_toks (k : kind) : list tok :=
  match k with
  | KDateTime => iso_date_toks ++ TL "T"%char :: iso_time_toks
  | _ => iso_toks k
  end.
Definition fam_v (sg : fld -> fld) (w : fvals) : fvals := fun f => w (sg f).
Definition fam_p (k : kind) (sg : fld -> fld) : pstr := text (rename sg (lit_toks k)).
Definition fam_s (k : kind) (sg : fld -> fld) (w : fvals) : pstr := isofmt k (fam_v sg w).
Definition fam_iso_reading (k : kind) (sg : fld -> fld) (w : fvals) : stamp := full (restrict (iso_toks k) (fam_v sg w)).
Definition fam_pat_reading (k : kind) (sg : fld -> fld) (w : fvals) : stamp := full (restrict (rename sg (lit_toks k)) w).

(* concrete members, for statements in plain words *)
Definition fv (y m d h mi s : Z) : fvals :=
  fun f => match f with FY => y | Fm => m | Fd => d | FH => h | FM => mi | FS => s end.
Definition dstamp (y m d h mi s : Z) : stamp :=
  {| yr := y; mo := m; dy := d; hh := h; mi := mi; ss := s; us := 0; tz := None; fold := 0 |}.
(* day <-> month;  hour <-> second;  both *)
Definition sg_dm (f : fld) : fld := match f with Fm => Fd | Fd => Fm | x => x end.
Definition sg_hs (f : fld) : fld := match f with FH => FS | FS => FH | x => x end.
Definition sg_both (f : fld) : fld := sg_hs (sg_dm f).
