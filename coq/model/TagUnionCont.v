(* TagUnionCont.v — container-typed Union members (list[s], dict[str, s], tuple[...]) standing BESIDE tagged
   dataclass members (property C13).  Extends TagUnion.v; no proofs in this file.

   Sources modelled:
     parsers.py     UnionParser.__post_init__: `parsers_list` receives EVERY member whose parser is an AbstractParser
                    (the scalar members AND the container members: IterableParser / MappingParser / TupleParser), in
                    argument order; UnionParser.__call__: `for parser in self.parsers: if o in parser: return parser(o)`
                    with AbstractParser.__contains__ = `type(item) is self.base_type` — this loop runs BEFORE the tag is
                    read, so a member whose base type is `dict` takes every (plain) dict, tagged or not, wherever it
                    stands among the arguments.  An exception of the element conversion propagates (no try/except).
                    No JSON document is a `tuple`, so a tuple member never takes anything.
     v1/loaders.py  load_to_union: the tag branch (generated only when at least one member carries a tag) comes first
                    and always returns or raises; then, in argument order, `if tp is <scalar>: return v1` for the scalar
                    members and `try: return <container loader>(v1) except Exception: pass` for the container members;
                    the scalar members' own try-loads come last.  The v1 list loader ITERATES its input
                    (`[elem(x) for x in v1]`): a dict yields its keys, a str its characters; the dict loader needs
                    `.items()`.

   At a Union with container members JDict stands for a plain `dict` (json.loads output): the default engine's
   exact-type test does not accept dict subclasses.  Element values are scalars; an element of exactly the declared
   type travels unchanged, any other goes through the stdlib-level oracle `coerce` (int(), str(), ...).  A loaded
   container value is represented as `LScalar (JList ..)` / `LScalar (JDict ..)` (a plain JSON value, no class). *)
From DW Require Import PyStr TagUnion.

Inductive ckind :=
| CList (s : scalar)       (* list[s] *)
| CDict (s : scalar)       (* dict[str, s] *)
| CTuple.                  (* tuple[...] *)

Inductive carg := CArg (a : arg) | CCont (k : ckind).

(* the members TagUnion.v knows, in the same order *)
Fixpoint plain (cargs : list carg) : list arg :=
  match cargs with
  | [] => []
  | CArg a :: r => a :: plain r
  | CCont _ :: r => plain r
  end.

Fixpoint map_opt {A B} (f : A -> option B) (l : list A) : option (list B) :=
  match l with
  | [] => Some []
  | x :: r => match f x, map_opt f r with
              | Some y, Some ys => Some (y :: ys)
              | _, _ => None
              end
  end.

Section Cont.
  Variable coerce : scalar -> jv -> option jv.     (* the same oracle as TagUnion.V1 *)
  Variable tuple_v1 : jv -> option jv.             (* v1 tuple loader on an arbitrary value (arity rules: C02) *)

  Definition elem (s : scalar) (v : jv) : option jv :=
    match scalar_of v with
    | Some s' => if scalar_eqb s s' then Some v else coerce s v
    | None => coerce s v
    end.

  Definition elem_item (s : scalar) (kv : pstr * jv) : option (pstr * jv) :=
    match elem s (snd kv) with Some v => Some (fst kv, v) | None => None end.

  (* ---- default engine ---- *)
  (* `o in parser` then `parser(o)`; None: the parser's base type is not type(o) *)
  Definition load_cont_v0 (k : ckind) (o : jv) : option res :=
    match k, o with
    | CList s, JList l =>
        Some (match map_opt (elem s) l with Some l' => Ok (LScalar (JList l')) | None => Err EElem end)
    | CDict s, JDict items =>
        Some (match map_opt (elem_item s) items with Some it => Ok (LScalar (JDict it)) | None => Err EElem end)
    | _, _ => None
    end.

  Fixpoint scan_cont_v0 (cargs : list carg) (o : jv) : option res :=
    match cargs with
    | [] => None
    | CCont k :: r => match load_cont_v0 k o with Some x => Some x | None => scan_cont_v0 r o end
    | CArg _ :: r => scan_cont_v0 r o
    end.

  (* The `for parser in self.parsers` loop visits scalar and container parsers in argument order; a scalar parser
     matches only scalar values and a container parser only lists / dicts, so the loop is the container scan on
     lists / dicts and TagUnion.scan_scalars (inside load_union_v0) on everything else. *)
  Definition load_union_c_v0 (c : uconf) (pre : bool) (cargs : list carg) (o : jv) : res :=
    match o, has_none (plain cargs) with
    | JNull, true => Ok LNone
    | _, _ => match scan_cont_v0 cargs o with
              | Some r => r
              | None => load_union_v0 c pre (plain cargs) o
              end
    end.

  (* ---- v1 ---- *)
  Definition iter_v1 (o : jv) : option (list jv) :=
    match o with
    | JList l => Some l
    | JDict items => Some (map (fun kv => JStr (fst kv)) items)
    | JStr s => Some (map (fun ch => JStr [ch]) s)
    | _ => None
    end.

  Definition try_cont_v1 (k : ckind) (o : jv) : option jv :=
    match k with
    | CList s => match iter_v1 o with
                 | Some l => match map_opt (elem s) l with Some l' => Some (JList l') | None => None end
                 | None => None
                 end
    | CDict s => match o with
                 | JDict items => match map_opt (elem_item s) items with Some it => Some (JDict it) | None => None end
                 | _ => None
                 end
    | CTuple => tuple_v1 o
    end.

  (* `type_checks`, in argument order *)
  Fixpoint type_checks_v1 (cargs : list carg) (o : jv) : option jv :=
    match cargs with
    | [] => None
    | CArg (AScalar s) :: r =>
        match scalar_of o with
        | Some s' => if scalar_eqb s s' then Some o else type_checks_v1 r o
        | None => type_checks_v1 r o
        end
    | CArg _ :: r => type_checks_v1 r o
    | CCont k :: r => match try_cont_v1 k o with Some v => Some v | None => type_checks_v1 r o end
    end.

  Definition untagged_c_v1 (cargs : list carg) (o : jv) : res :=
    match type_checks_v1 cargs o with
    | Some v => Ok (LScalar v)
    | None => match try_scalars coerce (plain cargs) o with        (* try_parse_at_end *)
              | Some v => Ok (LScalar v)
              | None => Err ENoMatch
              end
    end.

  (* `if dataclass_tag_to_lines:` *)
  Definition has_tagged (c : uconf) (args : list arg) : bool :=
    existsb (fun a => match a with AData m => is_some (eff_tag c m) | _ => false end) args.

  Definition load_union_c_v1 (c : uconf) (cargs : list carg) (o : jv) : res :=
    match o, has_none (plain cargs) with
    | JNull, true => Ok LNone
    | _, _ =>
      match o with
      | JDict items =>
          match lookup (u_tag_key c) items with
          | Some _ => if has_tagged c (plain cargs)
                      then load_union_v1 coerce c (plain cargs) o     (* the tag branch returns or raises *)
                      else untagged_c_v1 cargs o
          | None => untagged_c_v1 cargs o
          end
      | _ => untagged_c_v1 cargs o
      end
    end.
End Cont.

Definition no_tuple (o : jv) : option jv := None.

(* ---- several distinct Unions in ONE annotation -----------------------------------------------------------------------
   Tuple[U0, U1, ...] (each Ui possibly inside list / dict / Optional containers): slot i is loaded by ITS OWN loader.  In v1
   every Union position gets its own generated helper function (v1/decorators.py setup_recursive_safe_function: the helper's
   name carries the running counter len(recursion_guard)), in the default engine its own UnionParser object. *)
(* MODEL: a fixed-arity tuple whose slots have their OWN loaders (Tuple[U0, U1, ...]) *)
Fixpoint load_slots (fs : list (jv -> res)) (docs : list jv) : res :=
  match fs, docs with
  | [], [] => Ok (LTuple [])
  | f :: fr, d :: dr =>
      match f d with
      | Err e => Err e
      | Ok v => match load_slots fr dr with
                | Ok (LTuple vs) => Ok (LTuple (v :: vs))
                | Ok _ => Err EContainer
                | Err e => Err e
                end
      end
  | _, _ => Err EContainer
  end.

Definition slot_loader_v1 coerce c (u : list arg * pos) : jv -> res :=
  load_pos (load_union_v1 coerce c (fst u)) (snd u).
Definition slot_loader_v0 c pre (u : list arg * pos) : jv -> res :=
  load_pos (load_union_v0 c pre (fst u)) (snd u).

