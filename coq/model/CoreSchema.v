(* CoreSchema.v — type grammar of the default engine and the conformance relation.

   A class declaration is carried by the type term itself (`TData c fts`: the
   class identity/field names `c` plus, per field, its annotated type and its
   default value), so the grammar is a finite tree: recursive dataclasses need
   Meta.recursive_classes and are outside this model.  The "class table" of
   DESIGN.md is therefore the set of `TData` nodes of the root type.
   No proofs in this file. *)
From DW Require Export CoreValues.
From Coq Require Import ZArith.

Inductive ty :=
| TAny
| TNone                                   (* annotation `None` / NoneType *)
| TBool | TInt | TFloat | TStr
| TBytes (mut : bool)                     (* bytes / bytearray *)
| TTok (k : tkind)                        (* UUID Decimal Path date datetime time timedelta *)
| TEnum (e : einfo) (members : list (pstr * pv))
| TSeq (k : skind) (t : ty)               (* list[t] set[t] frozenset[t] deque[t]   (k <> STuple) *)
| TTuple (ts : list ty)                   (* tuple[t1, ..., tn] *)
| TVarTuple (t : ty)                      (* tuple[t, ...] *)
| TDict (k : dkind) (kt vt : ty)          (* dict / defaultdict / OrderedDict [kt, vt] *)
| TOptional (t : ty)                      (* Optional[t] = Union[t, None] *)
| TUnion (ts : list ty)                   (* Union of >= 2 non-None members (+ TNone) *)
| TLiteral (vs : list pv)
| TNamedTuple (n : ninfo) (fts : list (ty * option pv))         (* typing.NamedTuple: type + default per field *)
| TTypedDict (tid : N) (req opt : list (pstr * ty))             (* required / optional keys *)
| TData (c : cinfo) (fts : list (ty * option pv)).              (* dataclass: type + default per field *)

(* values an Enum member may carry in this model: what dump returns must be a JSON scalar *)
Definition enum_value_ok (v : pv) : bool :=
  match v with VInt _ | VStr _ => true | _ => false end.

Definition lit_value_ok (v : pv) : bool :=
  match v with VNone | VBool _ | VInt _ | VStr _ => true | _ => false end.

Definition is_set_kind (k : skind) : bool :=
  match k with SSet | SFrozenSet => true | _ => false end.
Definition seq_type_kind (k : skind) : bool :=
  match k with STuple => false | _ => true end.

(* parsers whose __contains__ accepts None: OptionalParser, UnionParser with a None member,
   LiteralParser with a None member, the identity parser of an annotation `None` *)
Definition accepts_none (t : ty) : bool :=
  match t with
  | TNone | TOptional _ => true
  | TUnion ts => existsb (fun t' => match t' with TNone => true | _ => false end) ts
  | TLiteral vs => existsb (fun m => match m with VNone => true | _ => false end) vs
  | _ => false
  end.
Definition required_count (ts : list ty) : nat :=
  List.length (filter (fun t' => negb (accepts_none t')) ts).

(* `sub l' l`: l' is obtained from l by deleting elements (optional TypedDict keys that are absent) *)
Inductive sublist {A} : list A -> list A -> Prop :=
| sub_nil : sublist [] []
| sub_keep x l' l : sublist l' l -> sublist (x :: l') (x :: l)
| sub_drop x l' l : sublist l' l -> sublist l' (x :: l).

(* ---- conformance: v is a value of the annotated type t ------------------
   exact container type, element types, Literal members by value and type,
   Union members, nested dataclass types (property C05).
   `conforms_g false` is the strict relation.  `conforms_g true` additionally admits
   exactly the two leniencies of the default-engine loader that the C05 proof
   forces (each one a finding, see props/C05.v):
     LNoneAny    a field annotated `None` keeps whatever it was given (identity parser);
     LTupleShort a fixed-arity tuple is cut to the input's length when that length is
                 at least the number of members that cannot be None. *)
Inductive conforms_g (lax : bool) : ty -> pv -> Prop :=
| CAny v : conforms_g lax TAny v
| CNone : conforms_g lax TNone VNone
| CBool b : conforms_g lax TBool (VBool b)
| CInt z : conforms_g lax TInt (VInt z)
| CFloat h : conforms_g lax TFloat (VFloat h)
| CStr s : conforms_g lax TStr (VStr s)
| CBytes m raw b64 : conforms_g lax (TBytes m) (VBytes m raw b64)
| CTok t : conforms_g lax (TTok (tk_kind t)) (VTok t)
| CEnum e ms m v : In (m, v) ms -> conforms_g lax (TEnum e ms) (VEnum e m v)
| CSeq k t o xs :
    seq_type_kind k = true -> Forall (conforms_g lax t) xs ->
    conforms_g lax (TSeq k t) (VSeq k o xs)
| CTuple ts o xs : Forall2 (conforms_g lax) ts xs -> conforms_g lax (TTuple ts) (VSeq STuple o xs)
| CVarTuple t o xs : Forall (conforms_g lax t) xs -> conforms_g lax (TVarTuple t) (VSeq STuple o xs)
| CDict k kt vt o kvs :
    Forall (fun kv => conforms_g lax kt (fst kv) /\ conforms_g lax vt (snd kv)) kvs ->
    conforms_g lax (TDict k kt vt) (VDict k o kvs)
| COptNone t : conforms_g lax (TOptional t) VNone
| COptSome t v : conforms_g lax t v -> conforms_g lax (TOptional t) v
| CUnion ts t v : In t ts -> conforms_g lax t v -> conforms_g lax (TUnion ts) v
| CLit vs v : In v vs -> conforms_g lax (TLiteral vs) v
| CNT n fts xs :
    Forall2 (fun ft x => conforms_g lax (fst ft) x) fts xs -> conforms_g lax (TNamedTuple n fts) (VNT n xs)
| CTD tid req opt opt' o kvs1 kvs2 :
    Forall2 (fun kt kv => fst kv = VStr (fst kt) /\ conforms_g lax (snd kt) (snd kv)) req kvs1 ->
    sublist opt' opt ->
    Forall2 (fun kt kv => fst kv = VStr (fst kt) /\ conforms_g lax (snd kt) (snd kv)) opt' kvs2 ->
    conforms_g lax (TTypedDict tid req opt) (VDict DDict o (kvs1 ++ kvs2))
| CData c fts xs :
    Forall2 (fun ft x => conforms_g lax (fst ft) x) fts xs -> conforms_g lax (TData c fts) (VInst c xs)
| LNoneAny v : lax = true -> conforms_g lax TNone v
| LTupleShort ts1 ts2 o xs :
    lax = true -> (required_count (ts1 ++ ts2) <= List.length ts1)%nat ->
    Forall2 (conforms_g lax) ts1 xs -> conforms_g lax (TTuple (ts1 ++ ts2)) (VSeq STuple o xs).

Notation conforms := (conforms_g false).

(* ---- well-formed declarations -------------------------------------------
   Default values conform to their annotation (dataclasses does not check this;
   a non-conforming default is the user's declaration, not the loader's output),
   enum/literal members are scalars, a class has one type per field. *)
Inductive wf_ty_g (lax : bool) : ty -> Prop :=
| WAny : wf_ty_g lax TAny | WNone : wf_ty_g lax TNone | WBool : wf_ty_g lax TBool | WInt : wf_ty_g lax TInt
| WFloat : wf_ty_g lax TFloat | WStr : wf_ty_g lax TStr | WBytes m : wf_ty_g lax (TBytes m) | WTok k : wf_ty_g lax (TTok k)
| WEnum e ms : wf_ty_g lax (TEnum e ms)
| WSeq k t : seq_type_kind k = true -> wf_ty_g lax t -> wf_ty_g lax (TSeq k t)
| WTuple ts : Forall (wf_ty_g lax) ts -> wf_ty_g lax (TTuple ts)
| WVarTuple t : wf_ty_g lax t -> wf_ty_g lax (TVarTuple t)
| WDict k kt vt : wf_ty_g lax kt -> wf_ty_g lax vt -> wf_ty_g lax (TDict k kt vt)
| WOptional t : wf_ty_g lax t -> wf_ty_g lax (TOptional t)
| WUnion ts : Forall (wf_ty_g lax) ts -> wf_ty_g lax (TUnion ts)
| WLiteral vs : wf_ty_g lax (TLiteral vs)
| WNamedTuple n fts :
    Forall (fun ft => wf_ty_g lax (fst ft) /\ forall d, snd ft = Some d -> conforms_g lax (fst ft) d) fts ->
    List.length (n_fields n) = List.length fts ->
    wf_ty_g lax (TNamedTuple n fts)
| WTypedDict tid req opt :
    Forall (fun kt => wf_ty_g lax (snd kt)) req -> Forall (fun kt => wf_ty_g lax (snd kt)) opt ->
    wf_ty_g lax (TTypedDict tid req opt)
| WData c fts :
    Forall (fun ft => wf_ty_g lax (fst ft) /\ forall d, snd ft = Some d -> conforms_g lax (fst ft) d) fts ->
    List.length (c_fields c) = List.length fts ->
    wf_ty_g lax (TData c fts).

Notation wf_ty := (wf_ty_g false).

(* ---- the region in which the default-engine loader is strict -----------------
   no field annotated `None` on its own (finding F46), no fixed-arity tuple has a member
   that may be None (finding F45), no two-member Union written None-first (finding F55). *)
Definition is_tnone (t : ty) : bool := match t with TNone => true | _ => false end.
(* Union[None, X] - a two-member Union written None-first (finding F55): the default engine builds
   OptionalParser(args[0]) = OptionalParser(NoneType), i.e. the identity parser *)
Definition none_first2 (ts : list ty) : bool :=
  match ts with [a; _] => is_tnone a | _ => false end.
Definition optional_like (ts : list ty) : bool :=
  match ts with [a; b] => is_tnone a || is_tnone b | _ => false end.
Fixpoint safe_ty (t : ty) : bool :=
  match t with
  | TNone => false
  | TSeq _ t' | TVarTuple t' | TOptional t' => safe_ty t'
  | TTuple ts => forallb (fun t' => negb (accepts_none t') && safe_ty t') ts
  | TDict _ kt vt => safe_ty kt && safe_ty vt
  | TUnion ts => forallb (fun t' => is_tnone t' || safe_ty t') ts && negb (none_first2 ts)
  | TNamedTuple _ fts | TData _ fts => forallb (fun ft => safe_ty (fst ft)) fts
  | TTypedDict _ req opt => forallb (fun kt => safe_ty (snd kt)) req && forallb (fun kt => safe_ty (snd kt)) opt
  | _ => true
  end.

(* ---- well-formed values (what dump needs; independent of annotations) ---- *)
Definition utc_off : pstr := S "+00:00".

Fixpoint wfv (v : pv) : bool :=
  match v with
  | VSeq _ _ xs => forallb wfv xs
  | VDict _ _ kvs => forallb (fun kv => wfv (fst kv) && wfv (snd kv)) kvs
  | VEnum _ _ x => enum_value_ok x
  | VNT _ xs => forallb wfv xs
  | VInst c xs => Nat.eqb (List.length (c_fields c)) (List.length xs) && forallb wfv xs
  | _ => true
  end.

(* every dict key dumps to something json accepts as a key *)
Definition key_value_ok (v : pv) : bool :=
  match v with
  | VNone | VBool _ | VInt _ | VFloat _ | VStr _ | VEnum _ _ _ | VTok _ | VBytes _ _ _ => true
  | _ => false
  end.
Fixpoint keys_scalar (v : pv) : bool :=
  match v with
  | VSeq _ _ xs => forallb keys_scalar xs
  | VDict _ _ kvs => forallb (fun kv => key_value_ok (fst kv) && keys_scalar (snd kv)) kvs
  | VNT _ xs => forallb keys_scalar xs
  | VInst _ xs => forallb keys_scalar xs
  | _ => true
  end.
