(* ConcV1Model.v — C20: the FIRST LOAD of a v1 class (with nested classes) as a program of
   micro-steps, in the language of ConcModel.v.

   Source order of the shared-table accesses (dataclass_wizard 0.35.0 + repairs):
     loader_selection.fromdict            CLASS_TO_LOAD_FUNC[cls]  (hit -> call) ; miss: yp load.miss
     _get_load_fn_for_dataclass           get_meta(cls)            (_META[cls])
     v1/loaders.load_func_for_dataclass   yp v1_load.gen
        dataclass_fields / dataclass_init_fields / dataclass_init_field_names
                                          FIELDS[cls]  x 3  (check, [yp fields.miss, store], re-read)
        dataclass_field_to_default        FIELD_TO_DEFAULT[cls] (check; miss: local dict filled under
                                          yp defaults.*, published, re-read)
        get_loader(cls, v1=True)          CLASS_TO_V1_LOADER[cls] (check; miss: yp loader.miss, store)
        get_meta(cls)                     _META[cls]
        nested class only:                (meta | config).bind_to(cls): get_loader, get_dumper, _META[cls] = ...
        v1_dataclass_field_to_alias(cls)  IS_V1_LOAD_CONFIG_SETUP (check) ; miss -> _setup_v1_load_config_for_cls:
              yp v1_cfg.begin ; bool(DATACLASS_FIELD_TO_ALIAS_PATH_FOR_LOAD[cls]) (`set_paths`) ; yp v1_cfg.paths_read ;
              FIELDS[cls] ; per init field: yp v1_cfg.field ; path field: IF set_paths: load-path, dump-path entry ;
              dump alias '' ; CatchAll field: load + dump alias table entry CATCH_ALL ;
              yp v1_cfg.flag ; IS_V1_LOAD_CONFIG_SETUP.add(cls)
        yp v1_load.aliases_read ; bool(field_to_aliases) ; bool(DATACLASS_FIELD_TO_ALIAS_PATH_FOR_LOAD[cls]) ;
        field_to_aliases.get(CATCH_ALL)
        per init field (CatchAll field removed):  name in field_to_default ;
              check_aliases: field_to_aliases.get(name) ; has_alias_paths: field_to_paths.get(name) ;
              key-case transform: field_to_aliases[name] = (alias,)     <- a WRITE into the shared alias table
              nested dataclass type, not yet in this generation's recursion guard: the whole of the above
              for the nested class (is_main_class = False), then the parent's loop goes on
        main class:  yp v1_load.setattr ; _set_new_attribute(from_dict) (wizard) ; _set_new_attribute(__..from_dict__) ;
                     yp v1_load.store ; CLASS_TO_LOAD_FUNC[cls] = fn ; fn(o)
   The generated function makes no shared-table access (keys are compiled in; no key cache).

   Class-level tables are keyed by the class id; per-class dicts whose truth value / length is
   read are separate tables (T_V1AL c, T_V1PA c); the dump-side tables written by the set-up use
   the key 1000 * class + field.  No proofs in this file. *)
From Coq Require Import List Arith Bool.
From DW Require Import PyStr T_ConcHooks ConcModel.
Import ListNotations.

Record v1f := mkV1F {
  vf_dflt : bool;            (* has a default *)
  vf_path : bool;            (* AliasPath(...) *)
  vf_catch : bool;           (* annotated CatchAll *)
  vf_nested : option nat     (* the field type is the dataclass with this id *)
}.
Record v1cd := mkV1C {
  vc_fields : list v1f;
  vc_keycase : bool;         (* a key-case transform other than AUTO is set (v1_key_case='CAMEL'): aliases are
                                written into the shared alias table DURING generation *)
  vc_wiz : bool;             (* JSONWizard subclass: from_dict is patched *)
  vc_bound : bool            (* LoadMeta(v1=True).bind_to(cls) ran at definition time: loader / dumper class exist *)
}.
Definition v1env := list v1cd.   (* class id = position *)

Definition ck (c i : nat) : key := 1000 * c + i.

Fixpoint for_v1 (fs : list v1f) (i : nat) (body : nat -> v1f -> prog -> prog) (c : prog) : prog :=
  match fs with
  | [] => c
  | f :: r => body i f (for_v1 r (Datatypes.S i) body c)
  end.

(* dataclass_fields(cls) *)
Definition q_fields (c : nat) (k : prog) : prog :=
  Rd T_FIELDS c (fun r =>
    match r with
    | Some _ => Rd T_FIELDS c (fun r2 => need r2 (fun _ => k))
    | None => Yield Y_fields_miss (Wr T_FIELDS c VU (Rd T_FIELDS c (fun r2 => need r2 (fun _ => k))))
    end).

(* dataclass_field_to_default(cls): local dict filled, then published, then the registration re-read *)
Definition q_defaults (tid c : nat) (fs : list v1f) (k : nat -> prog) : prog :=
  let own := 1000 * tid + c in
  let ret := Rd T_DEFREG c (fun r2 => match r2 with
                                      | Some (VN o) => k o
                                      | Some _ => Ret [OErr ETypeError]
                                      | None => Ret [OErr EKeyError]
                                      end) in
  Rd T_DEFREG c (fun r =>
    match r with
    | Some _ => ret
    | None =>
        Yield Y_defaults_miss (Yield Y_defaults_registered
          (q_fields c (for_v1 fs 0
             (fun i f k1 => Yield Y_defaults_fill (if vf_dflt f then Wr (T_DEFAULTS own) i VU k1 else k1))
             (Wr T_DEFREG c (VN own) ret))))
    end).

(* get_loader(cls, v1=True): CLASS_TO_V1_LOADER *)
Definition q_loader (tid c : nat) (k : prog) : prog :=
  Rd T_LOADER c (fun r =>
    match r with
    | Some _ => k
    | None => Yield Y_loader_miss (Wr T_LOADER c (VN tid) k)
    end).

(* v1_dataclass_field_to_alias(cls) -> _setup_v1_load_config_for_cls(cls) *)
Definition q_cfg (c : nat) (cd : v1cd) (k : prog) : prog :=
  Rd T_V1FLAG c (fun fl =>
    match fl with
    | Some _ => k
    | None =>
        Yield Y_v1_cfg_begin (Size (T_V1PA c) (fun n =>
          let set_paths := Nat.eqb n 0 in
          Yield Y_v1_cfg_paths_read (q_fields c (for_v1 (vc_fields cd) 0
            (fun i f k1 =>
               Yield Y_v1_cfg_field
                 (let k2 := if vf_catch f
                            then Wr (T_V1AL c) K_CATCH_ALL VU (Wr T_ALIAS (ck c K_CATCH_ALL) VU k1)
                            else k1 in
                  if vf_path f
                  then (if set_paths
                        then Wr (T_V1PA c) i VU (Wr T_PATH (ck c i) VU (Wr T_ALIAS (ck c i) VEmpty k2))
                        else Wr T_ALIAS (ck c i) VEmpty k2)
                  else k2))
            (Yield Y_v1_cfg_flag (Wr T_V1FLAG c VU k))))))
    end).

(* the per-field loop of load_func_for_dataclass.  G = generation of a nested class.
   seen = recursion guard of this generation; acc = path fields compiled with their path. *)
Fixpoint q_loop (G : nat -> list nat -> list nat -> (list nat -> list nat -> prog) -> prog)
                (c : nat) (cd : v1cd) (dd : nat) (check_aliases has_paths : bool)
                (fs : list v1f) (i : nat) (seen acc : list nat)
                (k : list nat -> list nat -> prog) : prog :=
  match fs with
  | [] => k seen acc
  | f :: r =>
      if vf_catch f then q_loop G c cd dd check_aliases has_paths r (Datatypes.S i) seen acc k
      else
        Rd (T_DEFAULTS dd) i (fun _ =>                               (* name in field_to_default *)
          let after (acc' : list nat) : prog :=                      (* generate_field_code *)
            match vf_nested f with
            | Some nc =>
                if mem nc seen then q_loop G c cd dd check_aliases has_paths r (Datatypes.S i) seen acc' k
                else G nc (nc :: seen) acc'
                       (fun seen' acc'' => q_loop G c cd dd check_aliases has_paths r (Datatypes.S i) seen' acc'' k)
            | None => q_loop G c cd dd check_aliases has_paths r (Datatypes.S i) seen acc' k
            end in
          let keycase : prog :=                                      (* alias = key_case(name) *)
            if vc_keycase cd then Wr (T_V1AL c) i (VN (100 + i)) (after acc) else after acc in
          let pathbr : prog :=
            if has_paths
            then Rd (T_V1PA c) i (fun p => match p with Some _ => after (ck c i :: acc) | None => keycase end)
            else keycase in
          if check_aliases
          then Rd (T_V1AL c) i (fun a => match a with Some _ => after acc | None => pathbr end)
          else pathbr)
  end.

(* load_func_for_dataclass(cls, extras).  Out of fuel / not a class of the environment: the field is
   not expanded (faithful as long as fuel > number of classes: `seen` cuts every cycle). *)
Fixpoint q_gen (fuel tid : nat) (env : v1env) (main : bool) (c : nat) (seen acc : list nat)
               (k : list nat -> list nat -> prog) : prog :=
  match fuel with
  | 0 => k seen acc
  | Datatypes.S fu =>
      match nth_error env c with
      | None => k seen acc
      | Some cd =>
          Yield Y_v1_load_gen
          (q_fields c (q_fields c (q_fields c
          (q_defaults tid c (vc_fields cd) (fun dd =>
          q_loader tid c
          (Rd T_META c (fun _ =>
          (fun k1 : prog => if main then k1
                            else Rd T_LOADER c (fun _ => Rd T_DUMPER c (fun _ => Wr T_META c VU k1)))
          (q_cfg c cd
          (Yield Y_v1_load_aliases_read
          (Size (T_V1AL c) (fun na => Size (T_V1PA c) (fun np =>
          Rd (T_V1AL c) K_CATCH_ALL (fun _ =>
          q_loop (fun nc s a k2 => q_gen fu tid env false nc s a k2)
                 c cd dd (negb (Nat.eqb na 0)) (negb (Nat.eqb np 0)) (vc_fields cd) 0 seen acc k)))))))))))))
      end
  end.

Fixpoint v1_path_ids (c : nat) (fs : list v1f) (i : nat) : list nat :=
  match fs with
  | [] => []
  | f :: r => (if vf_path f then [ck c i] else []) ++ v1_path_ids c r (Datatypes.S i)
  end.

(* the path fields of the classes one generation went through *)
Definition v1_paths_of (env : v1env) (seen : list nat) : list nat :=
  flat_map (fun c => match nth_error env c with
                     | Some cd => v1_path_ids c (vc_fields cd) 0
                     | None => []
                     end) seen.

(* the generated function: VL [1] = every path field compiled with its path, VL [0] = not *)
Definition v1_fn_outcome (d : list nat) : outcome :=
  match d with
  | 1 :: nil => OSeq
  | _ => OErr EMissingFields
  end.
Definition run_v1_fn (d : list nat) : prog := Ret [v1_fn_outcome d].

Definition q_setattr (c a : nat) (k : prog) : prog :=      (* _set_new_attribute: never overwrites *)
  Rd T_ATTR (ck c a) (fun r => match r with Some _ => k | None => Wr T_ATTR (ck c a) VU k end).

Definition v1_fuel (env : v1env) : nat := Datatypes.S (List.length env).

(* fromdict(cls, o), v1 engine *)
Definition call_v1_load (tid : nat) (env : v1env) (c : nat) : prog :=
  Rd T_LOADFUNC c (fun r =>
    match r with
    | Some (VL d) => run_v1_fn d
    | Some _ => Ret [OErr ETypeError]
    | None =>
        Yield Y_load_miss (Rd T_META c (fun _ =>
          q_gen (v1_fuel env) tid env true c [c] [] (fun seen acc =>
            let d := [if subset (v1_paths_of env seen) acc then 1 else 0] in
            Yield Y_v1_load_setattr
              ((fun k : prog => match nth_error env c with
                                | Some cd => if vc_wiz cd then q_setattr c 0 k else k
                                | None => k
                                end)
               (q_setattr c 2 (Yield Y_v1_load_store (Wr T_LOADFUNC c (VL d) (run_v1_fn d))))))))
    end).

(* a thread makes a list of v1 loads (class ids), one after the other: the later ones find what the
   earlier ones (of any thread) left in the tables *)
Fixpoint v1_thread_prog (tid : nat) (env : v1env) (cs : list nat) : prog :=
  match cs with
  | [] => Ret []
  | c :: r => bind (call_v1_load tid env c) (fun o1 => bind (v1_thread_prog tid env r) (fun o2 => Ret (o1 ++ o2)))
  end.

Fixpoint v1_thread_progs (tid : nat) (env : v1env) (pss : list (list nat)) : list prog :=
  match pss with [] => [] | cs :: r => v1_thread_prog tid env cs :: v1_thread_progs (Datatypes.S tid) env r end.

Fixpoint v1_initial (env : v1env) (c : nat) : store :=
  match env with
  | [] => []
  | cd :: r => (if vc_bound cd then [(T_LOADER, c, VN 90); (T_DUMPER, c, VN 90); (T_META, c, VU)] else [])
               ++ v1_initial r (Datatypes.S c)
  end.

Definition v1_scenario (env : v1env) (pss : list (list nat)) : config :=
  (v1_initial env 0, start (v1_thread_progs 0 env pss)).
