(* CoreDumpConfig.v — model of the CLASS-DEFINITION-TIME CONFIGURATION PIPELINE that decides
   which dump configuration (key transform, marshal_date_time_as, tag key) is in force for a
   class:  serial_json.py  JSONSerializable.__init_subclass__ / JSONPyWizard.__init_subclass__,
   class_helper.py  call_meta_initializer_if_needed (own inner Meta, then the inner Meta of the
   immediate base class), bases_meta.py  BaseJSONWizardMeta.bind_to (writes
   cls_dumper.transform_dataclass_field, re-registers the date/datetime hooks under TIMESTAMP,
   merges into the stored Meta with `_META[cls] &= meta`), DumpMeta/LoadMeta(...).bind_to after
   the definition.

   A declaration (`decl`) is the documented way a class was declared; `bind_seq` is the sequence
   of bind_to calls the library performs for it, in program order; `configure` folds `bind_to`
   over that sequence from the pristine per-class state; `effective_cfg` is the `dcfg` that
   CoreDump.dump then runs under.  `documented_cfg` is the INDEPENDENT statement of the
   documented priority (latest explicit bind_to > the class's own inner Meta > the inner Meta
   inherited from the base class > the implicit default of the wizard base: 'NONE' for
   JSONPyWizard, camelCase otherwise).

   The ORDER of the steps inside __init_subclass__ / call_meta_initializer_if_needed, the
   transform JSONPyWizard passes and the library defaults are not written here: they are a
   parameter (`pipeline`), instantiated from coq/gen/T_CoreDumpBindOrder.v, which is
   regenerated from the source on every run.

   Limits: one level of user-class inheritance (the parent is declared directly on the wizard
   base, has no bind_to of its own after its definition); no module-level (global) Meta; inner
   Meta classes derive from JSONWizard.Meta directly; binds happen before the first dump of the
   class (later binds are cached away: history properties C06/C07).  Meta of NESTED classes and
   the recursive cascade belong to C12.  No proofs in this file. *)
From DW Require Export CoreDump.
From Coq Require Import ZArith.

(* What the body / keyword arguments of ONE Meta class set, restricted to what dump reads.
   None = the attribute is not in the Meta's own __dict__ (getattr gives AbstractMeta's None). *)
Record mset := mkMS { ms_xf : option xf; ms_dt : option dtmode; ms_tk : option pstr }.
Definition ms_none : mset := mkMS None None None.          (* e.g. LoadMeta(v1=True, v1_key_case=..), LoadMeta(tag=..) *)

(* per-class tables after some binds *)
Record cstate := mkCS {
  cs_xf : xf;                  (* cls_dumper.transform_dataclass_field *)
  cs_ts : bool;                (* date/datetime hooks of cls_dumper re-registered as timestamps *)
  cs_meta : option mset        (* _META[cls]  (None: get_meta gives AbstractMeta) *)
}.

Definition or_else {A} (a b : option A) : option A := match a with Some _ => a | None => b end.

(* ABCOrAndMeta.__and__:  for k in all_fields: if k in other.__dict__: setattr(cls, k, ..) *)
Definition meta_and (a b : mset) : mset :=
  mkMS (or_else (ms_xf b) (ms_xf a)) (or_else (ms_dt b) (ms_dt a)) (or_else (ms_tk b) (ms_tk a)).

Definition sets_ts (m : mset) : bool := match ms_dt m with Some DtTimestamp => true | _ => false end.

(* BaseJSONWizardMeta.bind_to(cls)   (create=True, is_default=True) *)
Definition bind_to (st : cstate) (m : mset) : cstate :=
  mkCS (match ms_xf m with Some x => x | None => cs_xf st end)        (* if key_transform_with_dump is not None: ... *)
       (cs_ts st || sets_ts m)                                        (* TIMESTAMP registers; ISO_FORMAT is a no-op *)
       (Some (match cs_meta st with Some a => meta_and a m | None => m end)).

Definition run_binds (seq : list mset) (st : cstate) : cstate := fold_left bind_to seq st.

(* ---- the pipeline parameter (regenerated from the source) ------------------------------ *)
Inductive step := StImplicitDump | StMetaInit | StLoadKwargs.     (* statements of JSONSerializable.__init_subclass__ *)
Inductive mstep := MiOwn | MiBase.                                 (* lookups of call_meta_initializer_if_needed *)
Record pipeline := mkPL {
  pl_steps : list step;
  pl_msteps : list mstep;
  pl_py_xf : option xf;          (* _key_transform passed by JSONPyWizard.__init_subclass__ *)
  pl_default_xf : xf;            (* DumpMixin.transform_dataclass_field of a fresh dumper *)
  pl_tag_key : pstr              (* constants.TAG *)
}.

Definition step_of_name (n : pstr) : option step :=
  if pstr_eqb n (S "dump_meta_bind") then Some StImplicitDump
  else if pstr_eqb n (S "meta_initializer") then Some StMetaInit
  else if pstr_eqb n (S "load_meta_bind") then Some StLoadKwargs else None.
Definition mstep_of_name (n : pstr) : option mstep :=
  if pstr_eqb n (S "own") then Some MiOwn else if pstr_eqb n (S "base") then Some MiBase else None.
Definition xf_of_member (n : pstr) : option xf :=
  if pstr_eqb n (S "CAMEL") then Some XCamel else if pstr_eqb n (S "PASCAL") then Some XPascal
  else if pstr_eqb n (S "LISP") then Some XLisp else if pstr_eqb n (S "SNAKE") then Some XSnake
  else if pstr_eqb n (S "NONE") then Some XNone else None.
Definition xf_of_function (n : pstr) : option xf :=
  if pstr_eqb n (S "to_camel_case") then Some XCamel else if pstr_eqb n (S "to_pascal_case") then Some XPascal
  else if pstr_eqb n (S "to_lisp_case") then Some XLisp else if pstr_eqb n (S "to_snake_case") then Some XSnake else None.

Fixpoint all_some {A} (l : list (option A)) : option (list A) :=
  match l with
  | [] => Some []
  | None :: _ => None
  | Some a :: r => match all_some r with Some r' => Some (a :: r') | None => None end
  end.

(* fail-closed reading of the regenerated tables *)
Definition pipeline_of_tables (steps msteps : list pstr) (py_xf default_fn tag_key : pstr) : option pipeline :=
  match all_some (map step_of_name steps), all_some (map mstep_of_name msteps),
        xf_of_member py_xf, xf_of_function default_fn with
  | Some ss, Some ms, Some px, Some dx => Some (mkPL ss ms (Some px) dx tag_key)
  | _, _, _, _ => None
  end.

(* ---- declaration forms ------------------------------------------------------------------- *)
Inductive wbase := BPlain | BWizard | BPyWizard.    (* plain @dataclass | JSONWizard = JSONSerializable | JSONPyWizard *)
Record decl := mkDecl {
  dc_base : wbase;
  dc_key_case : bool;                       (* class keyword key_case=... (switches the LOAD side to v1) *)
  dc_inner : option mset;                   (* inner Meta of the class: what its body sets *)
  dc_parent : option (option mset);         (* Some p: derives from a user class declared on dc_base; p = that class's inner Meta *)
  dc_post : list mset                       (* DumpMeta(..)/LoadMeta(..).bind_to(cls) after the definition, in program order *)
}.

Definition opt_list {A} (o : option A) : list A := match o with Some a => [a] | None => [] end.
Definition parent_meta (d : decl) : option mset := match dc_parent d with Some p => p | None => None end.

Section Pipeline.
Variable pl : pipeline.

Definition cs_init : cstate := mkCS (pl_default_xf pl) false None.

Definition implicit_binds (b : wbase) : list mset :=
  match b, pl_py_xf pl with
  | BPyWizard, Some x => [mkMS (Some x) None None]          (* DumpMeta(key_transform=_key_transform).bind_to(cls) *)
  | _, _ => []
  end.

Definition mstep_binds (d : decl) (m : mstep) : list mset :=
  match m with
  | MiOwn => opt_list (dc_inner d)                           (* META_INITIALIZER[cls_name](cls) *)
  | MiBase => opt_list (parent_meta d)                       (* META_INITIALIZER[base_cls_name](cls) *)
  end.

Definition step_binds (d : decl) (s : step) : list mset :=
  match s with
  | StImplicitDump => implicit_binds (dc_base d)
  | StMetaInit => flat_map (mstep_binds d) (pl_msteps pl)
  | StLoadKwargs => if dc_key_case d then [ms_none] else []  (* LoadMeta(v1=True, v1_key_case=key_case).bind_to(cls) *)
  end.

(* a plain dataclass runs no __init_subclass__ of the library *)
Definition init_subclass_binds (d : decl) : list mset :=
  match dc_base d with
  | BPlain => []
  | _ => flat_map (step_binds d) (pl_steps pl)
  end.

Definition bind_seq (d : decl) : list mset := init_subclass_binds d ++ dc_post d.
Definition configure (d : decl) : cstate := run_binds (bind_seq d) cs_init.

(* `tag_key = meta.tag_key or TAG` *)
Definition tk_or_default (o : option pstr) : pstr :=
  match o with Some (c :: r) => c :: r | _ => pl_tag_key pl end.
Definition meta_get {A} (get : mset -> option A) (st : cstate) : option A :=
  match cs_meta st with Some m => get m | None => None end.

Definition cfg_of_state (st : cstate) : dcfg :=
  mkCfg (cs_xf st) (if cs_ts st then DtTimestamp else DtIso) (tk_or_default (meta_get ms_tk st)).
Definition effective_cfg (d : decl) : dcfg := cfg_of_state (configure d).

(* ---- the documented priority, stated without reference to any order of execution ----------- *)
(* the LATEST explicit setting among binds listed in program order *)
Fixpoint latest {A} (get : mset -> option A) (l : list mset) : option A :=
  match l with
  | [] => None
  | m :: r => or_else (latest get r) (get m)
  end.
Definition own_inner {A} (get : mset -> option A) (d : decl) : option A :=
  match dc_inner d with Some m => get m | None => None end.
Definition inherited {A} (get : mset -> option A) (d : decl) : option A :=
  match parent_meta d with Some m => get m | None => None end.
(* explicit bind_to after the definition > own inner Meta > inner Meta of the base class *)
Definition configured {A} (get : mset -> option A) (d : decl) : option A :=
  or_else (latest get (dc_post d)) (or_else (own_inner get d) (inherited get d)).

Definition base_default_xf (b : wbase) : xf :=
  match b with BPyWizard => XNone | _ => XCamel end.
Definition documented_xf (d : decl) : xf :=
  match configured ms_xf d with Some x => x | None => base_default_xf (dc_base d) end.
Definition documented_dt (d : decl) : dtmode :=
  match configured ms_dt d with Some x => x | None => DtIso end.
Definition documented_tk (d : decl) : pstr :=
  match configured ms_tk d with Some (c :: r) => c :: r | _ => S "__tag__" end.
Definition documented_cfg (d : decl) : dcfg :=
  mkCfg (documented_xf d) (documented_dt d) (documented_tk d).

(* ---- well-formed declarations and the regions of the two open findings ----------------------- *)
Definition is_none {A} (o : option A) : bool := match o with None => true | Some _ => false end.
(* a plain dataclass has no inner Meta machinery, no class keywords, no configured parent *)
Definition wf_decl (d : decl) : bool :=
  match dc_base d with
  | BPlain => is_none (dc_inner d) && is_none (parent_meta d) && negb (dc_key_case d)
  | _ => true
  end.

Definition xf_eqb (a b : xf) : bool :=
  match a, b with
  | XCamel, XCamel | XPascal, XPascal | XLisp, XLisp | XSnake, XSnake | XNone, XNone => true
  | _, _ => false
  end.

(* finding F93: the class's own inner Meta and its base class's inner Meta set the same attribute
   differently and no later bind_to sets it: the BASE's value is bound last and wins *)
Definition overridden {A} (eqb : A -> A -> bool) (get : mset -> option A) (d : decl) : bool :=
  match latest get (dc_post d), own_inner get d, inherited get d with
  | None, Some a, Some b => negb (eqb a b)
  | _, _, _ => false
  end.
Definition f93_xf (d : decl) : bool := overridden xf_eqb ms_xf d.
Definition f93_tk (d : decl) : bool := overridden pstr_eqb ms_tk d.
(* finding F94: TIMESTAMP is sticky - some bind sets TIMESTAMP although the documented priority
   gives ISO_FORMAT (an explicit ISO_FORMAT overrides it) *)
Definition f94_dt (d : decl) : bool :=
  match documented_dt d with DtIso => existsb sets_ts (bind_seq d) | DtTimestamp => false end.

Definition safe_decl (d : decl) : bool :=
  wf_decl d && negb (f93_xf d) && negb (f93_tk d) && negb (f94_dt d).

End Pipeline.

(* ---- printers for the correspondence ------------------------------------------------------------ *)
Definition show_xf (x : xf) : pstr :=
  match x with XCamel => S "CAMEL" | XPascal => S "PASCAL" | XLisp => S "LISP" | XSnake => S "SNAKE" | XNone => S "NONE" end.
Definition show_dt (x : dtmode) : pstr := match x with DtIso => S "ISO_FORMAT" | DtTimestamp => S "TIMESTAMP" end.
Definition show_opt {A} (f : A -> pstr) (o : option A) : pstr := match o with Some a => f a | None => S "-" end.
Definition show_cfg (c : dcfg) : pstr :=
  show_xf (d_xf c) ++ S "|" ++ show_dt (d_dt c) ++ S "|" ++ d_tag_key c.
(* the stored Meta: what get_meta(cls) answers for the three attributes *)
Definition show_meta (o : option mset) : pstr :=
  match o with
  | None => S "nometa"
  | Some m => show_opt show_xf (ms_xf m) ++ S "|" ++ show_opt show_dt (ms_dt m) ++ S "|" ++ show_opt (fun k => k) (ms_tk m)
  end.
Definition show_config (pl : option pipeline) (d : decl) : pstr :=
  match pl with
  | None => S "!pipeline tables unreadable"
  | Some p => show_cfg (effective_cfg p d) ++ S "#" ++ show_meta (cs_meta (configure p d))
  end.
(* dump under the configuration in force for the declared class *)
Definition dump_decl (hooks0 : list (pstr * pstr)) (pl : option pipeline) (d : decl) (v : pv) : res pv :=
  match pl with
  | None => Err (EUnmodelled (S "pipeline tables unreadable"))
  | Some p => dump hooks0 (effective_cfg p d) v
  end.
