(* StateModel.v — the module-level memo tables of dataclass-wizard (default
   engine) as one global state `sigma`, and the operations that read and write
   them (properties C06, C07).

   Modelled tables (class_helper.py:17-82 and the places that fill them):
     CLASS_TO_LOAD_FUNC / CLASS_TO_DUMP_FUNC        cs_loadfn / cs_dumpfn (closures)
     class attributes from_dict / to_dict            cs_from_dict / cs_to_dict, resolved through the MRO
     FIELD_NAME_TO_LOAD_PARSER                       cs_parsers
     JSON_FIELD_TO_DATACLASS_FIELD                   cs_j2f  (positive entries and ExplicitNull)
     DATACLASS_FIELD_TO_ALIAS                        cs_alias
     IS_DUMP_CONFIG_SETUP                            cs_dump_setup
     FIELD_TO_DEFAULT                                cs_defaults
     CLASS_TO_LOADER[c].transform_json_field         cs_ltr  (None = class default to_snake_case)
     CLASS_TO_DUMPER[c].transform_dataclass_field    cs_dtr  (None = class default to_camel_case)
     CLASS_TO_DUMPER[c].__DUMP_HOOKS__               cs_hooks (entries appended at run time, ordered)
     nested_cls_to_dump_func of a root's dump func   cs_nested_dfns
     _META (class -> Meta class OBJECT)              cs_meta : reference into st_mobjs
     META_INITIALIZER (QUALNAME -> Meta.bind_to)     st_minit
   The model is faithful including the open defects F2, F10, F11, F40.
   No proofs in this file. *)
From DW Require Import PyStr StrConv.
From Coq Require Import DecimalString.

Definition cid := nat.

(* ---------------------------------------------------------------- values *)
Definition dec (z : Z) : pstr := list_ascii_of_string (NilZero.string_of_int (Z.to_int z)).

Inductive jv :=                       (* documents / dump results *)
| JNull | JInt (z : Z) | JStr (s : pstr) | JDict (kv : list (pstr * jv)).

Inductive vroot := KInt | KStr | KObj.
(* a user-defined value type: plain mixin classes, then a class chain (most derived first) over a root;
   chain [3;1] over KInt is  class V3(V1), class V1(int);  mixin m is the plain class with chain [m]
   over KObj, listed BEFORE the chain class in the bases:  mixins [5], chain [], KInt  is
   class T(M5, int)  (MRO: T, M5, int, object). *)
Record vtype := { vt_mixins : list nat; vt_chain : list nat; vt_root : vroot }.

Inductive iv :=                       (* Python values held by instances *)
| VNone | VInt (z : Z) | VStr (s : pstr)
| VSub (t : vtype) (z : Z)            (* instance of a user subtype, payload z *)
| VInst (c : cid) (fs : list (pstr * iv)).

Inductive dval := DInt (z : Z) | DStr (s : pstr).   (* field defaults *)

(* ---------------------------------------------------------------- Meta *)
Inductive tr := TrSnake | TrCamel | TrPascal | TrLisp | TrNone.   (* LetterCase *)

Definition apply_tr (t : tr) (s : pstr) : option pstr :=           (* None = IndexError *)
  match t with
  | TrSnake => Some (to_snake s) | TrCamel => to_camel s | TrPascal => to_pascal s
  | TrLisp => Some (to_lisp s) | TrNone => Some s
  end.
Definition tr_load (t : option tr) : tr := match t with Some x => x | None => TrSnake end.
Definition tr_dump (t : option tr) : tr := match t with Some x => x | None => TrCamel end.

(* a Meta class: only explicitly set attributes are Some *)
Record meta := { m_ltr : option tr;        (* key_transform_with_load *)
                 m_dtr : option tr;        (* key_transform_with_dump *)
                 m_raise : option bool;    (* raise_on_unknown_json_key *)
                 m_skipdef : option bool;  (* skip_defaults *)
                 m_rec : option bool }.    (* recursive (special attribute) *)
Definition meta0 : meta := Build_meta None None None None None.   (* AbstractMeta *)

Definition first_some {A} (a b : option A) : option A := match a with Some _ => a | None => b end.
(* a | b  (bases.py __or__): priority to a; special attributes from a only *)
Definition meta_or (a b : meta) : meta :=
  {| m_ltr := first_some (m_ltr a) (m_ltr b); m_dtr := first_some (m_dtr a) (m_dtr b);
     m_raise := first_some (m_raise a) (m_raise b); m_skipdef := first_some (m_skipdef a) (m_skipdef b);
     m_rec := m_rec a |}.
(* a &= b  (bases.py __and__): every attribute set in b overwrites a, in place *)
Definition meta_and (a b : meta) : meta :=
  {| m_ltr := first_some (m_ltr b) (m_ltr a); m_dtr := first_some (m_dtr b) (m_dtr a);
     m_raise := first_some (m_raise b) (m_raise a); m_skipdef := first_some (m_skipdef b) (m_skipdef a);
     m_rec := first_some (m_rec b) (m_rec a) |}.
Definition raise_of (m : meta) : bool := match m_raise m with Some b => b | None => false end.
Definition skip_of (m : meta) : bool := match m_skipdef m with Some b => b | None => false end.
Definition rec_of (m : meta) : bool := match m_rec m with Some b => b | None => true end.

Definition opt_meta (o : option meta) : meta := match o with Some m => m | None => meta0 end.
(* config cascaded by a main class:  `if meta.recursive and meta is not AbstractMeta: config = meta` *)
Definition cfg_of (own : option meta) : option meta :=
  match own with Some m => if rec_of m then Some m else None | None => None end.
(* meta in force for a class generated under cascaded config cfg
   (`meta = get_meta(cls) | config`; AbstractMeta | g = g) *)
Definition eff (own : option meta) (cfg : option meta) : meta :=
  match cfg with
  | None => opt_meta own
  | Some g => match own with Some m => meta_or m g | None => g end
  end.

(* ---------------------------------------------------------------- class declarations *)
Inductive fty (D : Type) := TInt | TStr | TNested (d : D).
Arguments TInt {D}. Arguments TStr {D}. Arguments TNested {D} d.

Record cinfo := { ci_id : cid;
                  ci_qn : nat;               (* __qualname__ *)
                  ci_wiz : bool;             (* JSONWizard subclass (else plain @dataclass) *)
                  ci_mro : list cid;         (* proper ancestors among user classes, nearest first *)
                  ci_base_qn : option nat;   (* qualname of cls.__base__ when it is a user class *)
                  ci_inner : option meta }.  (* inner `class _(JSONWizard.Meta)` *)

(* stored declaration: the nested classes are embedded as trees *)
Inductive cdecl := CDecl (info : cinfo) (fields : list (pstr * fty cdecl * option dval)).
Definition d_info (d : cdecl) := match d with CDecl i _ => i end.
Definition d_fields (d : cdecl) := match d with CDecl _ f => f end.
Definition d_id (d : cdecl) : cid := ci_id (d_info d).
Definition d_names (d : cdecl) : list pstr := map (fun x => fst (fst x)) (d_fields d).
Definition d_defaults (d : cdecl) : list (pstr * dval) :=
  flat_map (fun x => match snd x with Some v => [(fst (fst x), v)] | None => [] end) (d_fields d).

(* what a DefineClass operation carries: nested classes by id *)
Inductive fref := FInt | FStr | FNested (c : cid).
Record cdef := { cd_info : cinfo; cd_fields : list (pstr * fref * option dval) }.

(* ---------------------------------------------------------------- state *)
Inductive kres := KField (f : pstr) | KNull.          (* KNull = ExplicitNull *)
(* generated cls_fromdict: class, captured py_case, baked raise_on_unknown_json_key *)
Record lfn := { l_cls : cid; l_tr : option tr; l_raise : bool }.
Inductive parser := PInt | PStr | PNested (f : lfn).
Inductive hook := HInt | HStr | HDefault.
(* generated cls_asdict: class, spliced (field, key) pairs, baked skip_defaults,
   captured defaults, captured config passed down to nested values *)
Record dfn := { f_cls : cid; f_keys : list (pstr * pstr); f_skipdef : bool;
                f_defaults : list (pstr * dval); f_cfg : option meta }.
Inductive mref := MI (c : cid) | MB (c : cid).   (* Meta class objects: inner Meta of c / LoadMeta bound first to c *)

Record cstate := {
  cs_decl : option cdecl;
  cs_meta : option mref;
  cs_ltr : option tr;
  cs_dtr : option tr;
  cs_loadfn : option lfn;
  cs_dumpfn : option dfn;
  cs_from_dict : option lfn;
  cs_to_dict : option dfn;
  cs_parsers : option (list (pstr * parser));
  cs_j2f : list (pstr * kres);
  cs_alias : list (pstr * pstr);
  cs_dump_setup : bool;
  cs_defaults : option (list (pstr * dval));
  cs_hooks : list (vtype * hook);
  cs_nested_dfns : list (cid * dfn) }.

Definition cs0 : cstate :=
  Build_cstate None None None None None None None None None [] [] false None [] [].

Record sigma := { st_cls : cid -> cstate;
                  st_mobjs : mref -> option meta;
                  st_minit : nat -> option mref }.

Definition init : sigma := {| st_cls := fun _ => cs0; st_mobjs := fun _ => None; st_minit := fun _ => None |}.

Definition mref_eqb (a b : mref) : bool :=
  match a, b with MI x, MI y => Nat.eqb x y | MB x, MB y => Nat.eqb x y | _, _ => false end.

Definition updc (s : sigma) (c : cid) (f : cstate -> cstate) : sigma :=
  {| st_cls := fun c' => if Nat.eqb c' c then f (st_cls s c') else st_cls s c';
     st_mobjs := st_mobjs s; st_minit := st_minit s |}.
Definition set_mobj (s : sigma) (r : mref) (m : meta) : sigma :=
  {| st_cls := st_cls s; st_mobjs := fun r' => if mref_eqb r' r then Some m else st_mobjs s r';
     st_minit := st_minit s |}.
Definition set_minit (s : sigma) (q : nat) (r : mref) : sigma :=
  {| st_cls := st_cls s; st_mobjs := st_mobjs s;
     st_minit := fun q' => if Nat.eqb q' q then Some r else st_minit s q' |}.

(* field setters *)
Definition w_decl v (x : cstate) := Build_cstate v (cs_meta x) (cs_ltr x) (cs_dtr x) (cs_loadfn x) (cs_dumpfn x) (cs_from_dict x) (cs_to_dict x) (cs_parsers x) (cs_j2f x) (cs_alias x) (cs_dump_setup x) (cs_defaults x) (cs_hooks x) (cs_nested_dfns x).
Definition w_meta v (x : cstate) := Build_cstate (cs_decl x) v (cs_ltr x) (cs_dtr x) (cs_loadfn x) (cs_dumpfn x) (cs_from_dict x) (cs_to_dict x) (cs_parsers x) (cs_j2f x) (cs_alias x) (cs_dump_setup x) (cs_defaults x) (cs_hooks x) (cs_nested_dfns x).
Definition w_ltr v (x : cstate) := Build_cstate (cs_decl x) (cs_meta x) v (cs_dtr x) (cs_loadfn x) (cs_dumpfn x) (cs_from_dict x) (cs_to_dict x) (cs_parsers x) (cs_j2f x) (cs_alias x) (cs_dump_setup x) (cs_defaults x) (cs_hooks x) (cs_nested_dfns x).
Definition w_dtr v (x : cstate) := Build_cstate (cs_decl x) (cs_meta x) (cs_ltr x) v (cs_loadfn x) (cs_dumpfn x) (cs_from_dict x) (cs_to_dict x) (cs_parsers x) (cs_j2f x) (cs_alias x) (cs_dump_setup x) (cs_defaults x) (cs_hooks x) (cs_nested_dfns x).
Definition w_loadfn v (x : cstate) := Build_cstate (cs_decl x) (cs_meta x) (cs_ltr x) (cs_dtr x) v (cs_dumpfn x) (cs_from_dict x) (cs_to_dict x) (cs_parsers x) (cs_j2f x) (cs_alias x) (cs_dump_setup x) (cs_defaults x) (cs_hooks x) (cs_nested_dfns x).
Definition w_dumpfn v (x : cstate) := Build_cstate (cs_decl x) (cs_meta x) (cs_ltr x) (cs_dtr x) (cs_loadfn x) v (cs_from_dict x) (cs_to_dict x) (cs_parsers x) (cs_j2f x) (cs_alias x) (cs_dump_setup x) (cs_defaults x) (cs_hooks x) (cs_nested_dfns x).
Definition w_from_dict v (x : cstate) := Build_cstate (cs_decl x) (cs_meta x) (cs_ltr x) (cs_dtr x) (cs_loadfn x) (cs_dumpfn x) v (cs_to_dict x) (cs_parsers x) (cs_j2f x) (cs_alias x) (cs_dump_setup x) (cs_defaults x) (cs_hooks x) (cs_nested_dfns x).
Definition w_to_dict v (x : cstate) := Build_cstate (cs_decl x) (cs_meta x) (cs_ltr x) (cs_dtr x) (cs_loadfn x) (cs_dumpfn x) (cs_from_dict x) v (cs_parsers x) (cs_j2f x) (cs_alias x) (cs_dump_setup x) (cs_defaults x) (cs_hooks x) (cs_nested_dfns x).
Definition w_parsers v (x : cstate) := Build_cstate (cs_decl x) (cs_meta x) (cs_ltr x) (cs_dtr x) (cs_loadfn x) (cs_dumpfn x) (cs_from_dict x) (cs_to_dict x) v (cs_j2f x) (cs_alias x) (cs_dump_setup x) (cs_defaults x) (cs_hooks x) (cs_nested_dfns x).
Definition w_j2f v (x : cstate) := Build_cstate (cs_decl x) (cs_meta x) (cs_ltr x) (cs_dtr x) (cs_loadfn x) (cs_dumpfn x) (cs_from_dict x) (cs_to_dict x) (cs_parsers x) v (cs_alias x) (cs_dump_setup x) (cs_defaults x) (cs_hooks x) (cs_nested_dfns x).
Definition w_alias v (x : cstate) := Build_cstate (cs_decl x) (cs_meta x) (cs_ltr x) (cs_dtr x) (cs_loadfn x) (cs_dumpfn x) (cs_from_dict x) (cs_to_dict x) (cs_parsers x) (cs_j2f x) v (cs_dump_setup x) (cs_defaults x) (cs_hooks x) (cs_nested_dfns x).
Definition w_dump_setup v (x : cstate) := Build_cstate (cs_decl x) (cs_meta x) (cs_ltr x) (cs_dtr x) (cs_loadfn x) (cs_dumpfn x) (cs_from_dict x) (cs_to_dict x) (cs_parsers x) (cs_j2f x) (cs_alias x) v (cs_defaults x) (cs_hooks x) (cs_nested_dfns x).
Definition w_defaults v (x : cstate) := Build_cstate (cs_decl x) (cs_meta x) (cs_ltr x) (cs_dtr x) (cs_loadfn x) (cs_dumpfn x) (cs_from_dict x) (cs_to_dict x) (cs_parsers x) (cs_j2f x) (cs_alias x) (cs_dump_setup x) v (cs_hooks x) (cs_nested_dfns x).
Definition w_hooks v (x : cstate) := Build_cstate (cs_decl x) (cs_meta x) (cs_ltr x) (cs_dtr x) (cs_loadfn x) (cs_dumpfn x) (cs_from_dict x) (cs_to_dict x) (cs_parsers x) (cs_j2f x) (cs_alias x) (cs_dump_setup x) (cs_defaults x) v (cs_nested_dfns x).
Definition w_nested_dfns v (x : cstate) := Build_cstate (cs_decl x) (cs_meta x) (cs_ltr x) (cs_dtr x) (cs_loadfn x) (cs_dumpfn x) (cs_from_dict x) (cs_to_dict x) (cs_parsers x) (cs_j2f x) (cs_alias x) (cs_dump_setup x) (cs_defaults x) (cs_hooks x) v.

(* _META[c] dereferenced *)
Definition own_meta (s : sigma) (c : cid) : option meta :=
  match cs_meta (st_cls s c) with Some r => st_mobjs s r | None => None end.

(* ---------------------------------------------------------------- errors, outcomes *)
Inductive err :=
| EParse (c : cid) (f : pstr)            (* ParseError, class_name / field_name *)
| EMissingData (c : cid) (f : pstr)      (* MissingData attributed to parent class / field *)
| EMissingFields (c : cid) (fs : list pstr)
| EUnknownKey (c : cid) (k : pstr)       (* UnknownKeysError *)
| EValue                                 (* bare ValueError from int() *)
| EIndex                                 (* bare IndexError from a key transform *)
| EAttr                                  (* AttributeError: instance lacks a field *)
| ERawType | ERawNone                    (* nested loader got a non-dict / None; attributed by the caller *)
| EModel.                                (* operation outside the modelled domain *)

Inductive res (A : Type) := Ok (a : A) | Er (e : err).
Arguments Ok {A} a. Arguments Er {A} e.

Inductive outcome := ODone | OVal (v : iv) | OJson (j : jv) | OErr (e : err).

(* ---------------------------------------------------------------- small helpers *)
Fixpoint assoc_s {A} (k : pstr) (l : list (pstr * A)) : option A :=
  match l with [] => None | (k', v) :: r => if pstr_eqb k k' then Some v else assoc_s k r end.
Fixpoint assoc_n {A} (k : nat) (l : list (nat * A)) : option A :=
  match l with [] => None | (k', v) :: r => if Nat.eqb k k' then Some v else assoc_n k r end.
Fixpoint set_assoc_s {A} (k : pstr) (v : A) (l : list (pstr * A)) : list (pstr * A) :=
  match l with [] => [(k, v)] | (k', v') :: r => if pstr_eqb k k' then (k, v) :: r else (k', v') :: set_assoc_s k v r end.

Fixpoint list_nat_eqb (a b : list nat) : bool :=
  match a, b with [] , [] => true | x :: a', y :: b' => Nat.eqb x y && list_nat_eqb a' b' | _, _ => false end.
Definition vroot_eqb (a b : vroot) : bool :=
  match a, b with KInt, KInt | KStr, KStr | KObj, KObj => true | _, _ => false end.
Definition vtype_eqb (a b : vtype) : bool :=
  vroot_eqb (vt_root a) (vt_root b) && list_nat_eqb (vt_chain a) (vt_chain b) &&
  list_nat_eqb (vt_mixins a) (vt_mixins b).
(* suffix test: chain b is a (non-strict) suffix of chain a *)
Fixpoint is_suffix (b a : list nat) : bool :=
  list_nat_eqb a b || match a with [] => false | _ :: a' => is_suffix b a' end.
(* isinstance(obj of type a, class b) for user types: the type itself, a class of its chain,
   or one of its mixins *)
Definition is_sub (a b : vtype) : bool :=
  vtype_eqb a b ||
  (match vt_mixins b with [] => true | _ => false end &&
   ((vroot_eqb (vt_root a) (vt_root b) && is_suffix (vt_chain b) (vt_chain a)) ||
    (vroot_eqb (vt_root b) KObj &&
     match vt_chain b with [m] => existsb (Nat.eqb m) (vt_mixins a) | _ => false end))).

Fixpoint assoc_vt {A} (k : vtype) (l : list (vtype * A)) : option A :=
  match l with [] => None | (k', v) :: r => if vtype_eqb k k' then Some v else assoc_vt k r end.

Definition is_digit_str (s : pstr) : bool := match s with [] => false | _ => forallb is_digit s end.
Definition digits_val (s : pstr) : Z := fold_left (fun acc c => (acc * 10 + Z.of_N (code c - 48))%Z) s 0%Z.

(* load hooks for `int` / `str` fields on the document values the harness uses:
   ints, digit strings, the empty string, other (letter) strings, None *)
Definition conv_int (v : jv) : res iv :=
  match v with
  | JInt z => Ok (VInt z)
  | JStr [] => Ok (VInt 0)
  | JStr s => if is_digit_str s then Ok (VInt (digits_val s)) else Er EValue
  | JNull => Ok (VInt 0)
  | JDict _ => Er EModel
  end.
Definition conv_str (v : jv) : res iv :=
  match v with
  | JStr s => Ok (VStr s)
  | JInt z => Ok (VStr (dec z))
  | JNull => Ok (VStr [])
  | JDict _ => Er EModel
  end.

(* ---------------------------------------------------------------- key resolution *)
Inductive kpure := RField (f : pstr) | RUnknown | RIndex.
(* the function JSON_FIELD_TO_DATACLASS_FIELD memoises (loaders.py:672-709) *)
Definition resolve_pure (fields : list pstr) (t : option tr) (k : pstr) : kpure :=
  if mem_str k fields then RField k
  else match apply_tr (tr_load t) k with
       | None => RIndex
       | Some p => match find_last_lower (lower p) fields None with
                   | Some f => RField f | None => RUnknown end
       end.

Definition resolve (s : sigma) (f : lfn) (fields : list pstr) (k : pstr) : sigma * res kres :=
  let n := l_cls f in
  match assoc_s k (cs_j2f (st_cls s n)) with
  | Some r => (s, Ok r)
  | None =>
      match resolve_pure fields (l_tr f) k with
      | RField x => (updc s n (fun x0 => w_j2f ((k, KField x) :: cs_j2f x0) x0), Ok (KField x))
      | RIndex => (s, Er EIndex)
      | RUnknown =>
          if l_raise f then (s, Er (EUnknownKey n k))      (* F1 repaired: no negative entry *)
          else (updc s n (fun x0 => w_j2f ((k, KNull) :: cs_j2f x0) x0), Ok KNull)
      end
  end.

(* ---------------------------------------------------------------- load *)
Definition attribute (c : cid) (x : pstr) (r : res iv) : res iv :=
  match r with
  | Er ERawType => Er (EParse c x)
  | Er ERawNone => Er (EMissingData c x)
  | _ => r
  end.

(* the constructor call on init_kwargs: declared order, defaults, MissingFields *)
Fixpoint build_fields (fs : list (pstr * fty cdecl * option dval)) (kw : list (pstr * iv))
  : list (pstr * iv) * list pstr :=
  match fs with
  | [] => ([], [])
  | (x, _, dv) :: r =>
      let (vals, miss) := build_fields r kw in
      match assoc_s x kw with
      | Some v => ((x, v) :: vals, miss)
      | None => match dv with
                | Some (DInt z) => ((x, VInt z) :: vals, miss)
                | Some (DStr t) => ((x, VStr t) :: vals, miss)
                | None => (vals, x :: miss)
                end
      end
  end.
Definition construct (d : cdecl) (kw : list (pstr * iv)) : res iv :=
  let (vals, miss) := build_fields (d_fields d) kw in
  match miss with [] => Ok (VInst (d_id d) vals) | _ => Er (EMissingFields (d_id d) miss) end.

(* the `for json_key in o` loop of a generated cls_fromdict; `rec` runs a nested
   class's generated function *)
Section LoadLoop.
Variable rec : sigma -> lfn -> jv -> sigma * res iv.
Variable f : lfn.
Variable ps : list (pstr * parser).
Fixpoint load_loop (s : sigma) (kv : list (pstr * jv)) (kw : list (pstr * iv)) {struct kv}
  : sigma * res (list (pstr * iv)) :=
  match kv with
  | [] => (s, Ok kw)
  | (k, v) :: rest =>
      match resolve s f (map fst ps) k with
      | (s1, Er e) => (s1, Er e)
      | (s1, Ok KNull) => load_loop s1 rest kw
      | (s1, Ok (KField x)) =>
          match assoc_s x ps with
          | None => (s1, Er EModel)
          | Some p =>
              match (match p with
                     | PInt => (s1, conv_int v)
                     | PStr => (s1, conv_str v)
                     | PNested g => let (s', r) := rec s1 g v in (s', attribute (l_cls f) x r)
                     end) with
              | (s2, Er e) => (s2, Er e)
              | (s2, Ok w) => load_loop s2 rest (set_assoc_s x w kw)
              end
          end
      end
  end.
End LoadLoop.

(* run a generated cls_fromdict *)
Fixpoint exec_load (s : sigma) (f : lfn) (doc : jv) {struct doc} : sigma * res iv :=
  match doc with
  | JNull => (s, Er ERawNone)
  | JInt _ => (s, Er ERawType)
  | JStr _ => (s, Er EModel)
  | JDict kv =>
      let n := l_cls f in
      match cs_parsers (st_cls s n), cs_decl (st_cls s n) with
      | Some ps, Some d =>
          match load_loop (fun s0 g v => exec_load s0 g v) f ps s kv [] with
          | (s', Er e) => (s', Er e)
          | (s', Ok kw) => (s', construct d kw)
          end
      | _, _ => (s, Er EModel)
      end
  end.

(* Meta.bind_to(cls, is_default=False): only the loader / dumper attributes *)
Definition bind_attrs (s : sigma) (n : cid) (m : meta) : sigma :=
  updc s n (fun x => w_dtr (first_some (m_dtr m) (cs_dtr x)) (w_ltr (first_some (m_ltr m) (cs_ltr x)) x)).

(* does `getattr(cls, 'from_dict')` still resolve to the generic classmethod? *)
Definition attr_lookup {A} (s : sigma) (get : cstate -> option A) (classes : list cid) : option A :=
  fold_right (fun c acc => match get (st_cls s c) with Some f => Some f | None => acc end) None classes.

(* building FIELD_NAME_TO_LOAD_PARSER[cls]: one parser per field; `rec` generates the
   function of a nested class *)
Section GenParsers.
Variable rec : sigma -> cdecl -> sigma * lfn.
Fixpoint gen_parsers (s : sigma)
         (fs : list (pstr * fty cdecl * option dval)) {struct fs} : sigma * list (pstr * parser) :=
  match fs with
  | [] => (s, [])
  | f :: r =>
      let '(sa, p) := match snd (fst f) with
                      | TInt => (s, PInt)
                      | TStr => (s, PStr)
                      | TNested dm => let (s', g) := rec s dm in (s', PNested g)
                      end in
      let (sb, ps) := gen_parsers sa r in (sb, (fst (fst f), p) :: ps)
  end.
End GenParsers.

(* the Meta in force and the config handed to nested classes *)
Definition gen_meta (own : option meta) (main : bool) (cfg : option meta) : meta * option meta :=
  if main then (opt_meta own, cfg_of own) else (eff own cfg, cfg).

(* load_func_for_dataclass (loaders.py:544-790) *)
Fixpoint gen_load (s : sigma) (d : cdecl) (main : bool) (cfg : option meta) {struct d} : sigma * lfn :=
  match d with
  | CDecl info fields =>
      let n := ci_id info in
      let own := own_meta s n in
      let m := fst (gen_meta own main cfg) in
      let cfg' := snd (gen_meta own main cfg) in
      let s1 := if main then s else match cfg with Some _ => bind_attrs s n m | None => s end in
      let s2 :=
        match cs_parsers (st_cls s1 n) with
        | Some _ => s1
        | None =>
            let (s', ps) := gen_parsers (fun s0 dm => gen_load s0 dm false cfg') s1 fields in
            updc s' n (w_parsers (Some ps))
        end in
      let f := {| l_cls := n; l_tr := cs_ltr (st_cls s2 n); l_raise := raise_of m |} in
      if main then
        let generic := match attr_lookup s2 cs_from_dict (n :: ci_mro info) with Some _ => false | None => true end in
        let s3 := if ci_wiz info && generic then updc s2 n (w_from_dict (Some f)) else s2 in
        (updc s3 n (w_loadfn (Some f)), f)
      else (s2, f)
  end.

Definition out_of_iv (r : res iv) : outcome := match r with Ok v => OVal v | Er e => OErr e end.
Definition out_of_jv (r : res jv) : outcome := match r with Ok v => OJson v | Er e => OErr e end.

(* fromdict(cls, doc) *)
Definition load_functional (s : sigma) (d : cdecl) (doc : list (pstr * jv)) : sigma * outcome :=
  let c := d_id d in
  match cs_loadfn (st_cls s c) with
  | Some f => let (s', r) := exec_load s f (JDict doc) in (s', out_of_iv r)
  | None => let (s1, f) := gen_load s d true None in
            let (s', r) := exec_load s1 f (JDict doc) in (s', out_of_iv r)
  end.

Definition step_load (s : sigma) (c : cid) (attr : bool) (doc : list (pstr * jv)) : sigma * outcome :=
  match cs_decl (st_cls s c) with
  | None => (s, OErr EModel)
  | Some d =>
      if attr then
        if ci_wiz (d_info d) then
          match attr_lookup s cs_from_dict (c :: ci_mro (d_info d)) with
          | Some f => let (s', r) := exec_load s f (JDict doc) in (s', out_of_iv r)   (* specialised function, possibly an ancestor's (F2) *)
          | None => load_functional s d doc
          end
        else (s, OErr EModel)
      else load_functional s d doc
  end.

(* ---------------------------------------------------------------- dump *)
Definition hook_pure (t : vtype) : hook :=
  match vt_root t with KInt => HInt | KStr => HStr | KObj => HDefault end.
Definition apply_hook (h : hook) (t : vtype) (z : Z) : jv :=
  match h with
  | HInt => JInt z
  | HStr => JStr (dec z)
  | HDefault => JStr (match vt_root t with KObj => S "obj" ++ dec z | _ => dec z end)
  end.

(* _asdict_inner on a value of a user subtype: exact lookup, else isinstance scan
   over the defaults then over the appended entries, caching the result *)
Definition dump_sub (s : sigma) (howner : cid) (t : vtype) (z : Z) : sigma * jv :=
  let hs := cs_hooks (st_cls s howner) in
  match assoc_vt t hs with
  | Some h => (s, apply_hook h t z)
  | None =>
      let h := match vt_root t with
               | KStr => HStr
               | KInt => HInt
               | KObj => match find (fun e => is_sub t (fst e)) hs with Some (_, h') => h' | None => HDefault end
               end in
      (updc s howner (fun x => w_hooks (cs_hooks x ++ [(t, h)]) x), apply_hook h t z)
  end.

Definition val_eq_default (v : iv) (d : dval) : bool :=
  match v, d with
  | VInt z, DInt z' => Z.eqb z z'
  | VSub t z, DInt z' => match vt_root t with KInt => Z.eqb z z' | _ => false end
  | VStr a, DStr b => pstr_eqb a b
  | VSub t z, DStr b => match vt_root t with KStr => pstr_eqb (dec z) b | _ => false end
  | _, _ => false
  end.

Fixpoint mapM_keys (t : tr) (s : sigma) (n : cid) (names : list pstr) : sigma * res (list (pstr * pstr)) :=
  match names with
  | [] => (s, Ok [])
  | x :: r =>
      match assoc_s x (cs_alias (st_cls s n)) with
      | Some k => let (s', rr) := mapM_keys t s n r in
                  (s', match rr with Ok ks => Ok ((x, k) :: ks) | Er e => Er e end)
      | None =>
          match apply_tr t x with
          | None => (s, Er EIndex)
          | Some k =>
              let s1 := updc s n (fun x0 => w_alias ((x, k) :: cs_alias x0) x0) in
              let (s', rr) := mapM_keys t s1 n r in
              (s', match rr with Ok ks => Ok ((x, k) :: ks) | Er e => Er e end)
          end
      end
  end.

(* dump_func_for_dataclass (dumpers.py:263-523); root = None for the main class,
   Some r when generated for a nested instance met by root r's function *)
Definition gen_dump (s : sigma) (d : cdecl) (cfg : option meta) (root : option cid) : sigma * res dfn :=
  let n := d_id d in
  let own := own_meta s n in
  let '(s1, m, cfg') :=
    match root with
    | None => (s, opt_meta own, cfg_of own)
    | Some _ => match cfg with
                | Some g => let m := eff own cfg in (bind_attrs s n m, m, cfg)
                | None => (s, opt_meta own, None)
                end
    end in
  let s2 := updc s1 n (w_dump_setup true) in
  let s3 := match cs_defaults (st_cls s2 n) with
            | Some _ => s2 | None => updc s2 n (w_defaults (Some (d_defaults d))) end in
  let defaults := match cs_defaults (st_cls s3 n) with Some l => l | None => [] end in
  match mapM_keys (tr_dump (cs_dtr (st_cls s3 n))) s3 n (d_names d) with
  | (s4, Er e) => (s4, Er e)
  | (s4, Ok ks) =>
      let f := {| f_cls := n; f_keys := ks; f_skipdef := skip_of m; f_defaults := defaults; f_cfg := cfg' |} in
      match root with
      | None =>
          let generic := match attr_lookup s4 cs_to_dict (n :: ci_mro (d_info d)) with Some _ => false | None => true end in
          let s5 := if ci_wiz (d_info d) && generic then updc s4 n (w_to_dict (Some f)) else s4 in
          (updc s5 n (w_dumpfn (Some f)), Ok f)
      | Some r => (updc s4 r (fun x => w_nested_dfns ((n, f) :: cs_nested_dfns x) x), Ok f)
      end
  end.

(* a field value waiting for (root, hooks owner, config, state) *)
Definition dclosure := cid -> cid -> option meta -> sigma -> sigma * res jv.

(* body of a generated cls_asdict *)
Fixpoint run_dfn (f : dfn) (root : cid) (cl : list (pstr * dclosure)) (vals : list (pstr * iv))
         (keys : list (pstr * pstr)) (s : sigma) : sigma * res (list (pstr * jv)) :=
  match keys with
  | [] => (s, Ok [])
  | (x, k) :: rest =>
      match assoc_s x cl, assoc_s x vals with
      | Some c, Some v =>
          let skip := f_skipdef f && match assoc_s x (f_defaults f) with Some dv => val_eq_default v dv | None => false end in
          if skip then run_dfn f root cl vals rest s
          else match c root (f_cls f) (f_cfg f) s with
               | (s1, Er e) => (s1, Er e)
               | (s1, Ok j) => match run_dfn f root cl vals rest s1 with
                               | (s2, Er e) => (s2, Er e)
                               | (s2, Ok js) => (s2, Ok ((k, j) :: js))
                               end
               end
      | _, _ => (s, Er EAttr)
      end
  end.

Definition call_dfn (f : dfn) (root : cid) (cl : list (pstr * dclosure)) (vals : list (pstr * iv)) (s : sigma)
  : sigma * res jv :=
  match run_dfn f root cl vals (f_keys f) s with
  | (s', Ok js) => (s', Ok (JDict js))
  | (s', Er e) => (s', Er e)
  end.

(* _asdict_inner (dumpers.py:531-576) *)
Fixpoint dumpv (v : iv) {struct v} : dclosure :=
  match v with
  | VNone => fun _ _ _ s => (s, Ok JNull)
  | VInt z => fun _ _ _ s => (s, Ok (JInt z))
  | VStr t => fun _ _ _ s => (s, Ok (JStr t))
  | VSub t z => fun _ howner _ s => let (s', j) := dump_sub s howner t z in (s', Ok j)
  | VInst m fs =>
      let cl := map (fun p => (fst p, dumpv (snd p))) fs in
      fun root _ cfg s =>
        match assoc_n m (cs_nested_dfns (st_cls s root)) with
        | Some g => call_dfn g root cl fs s
        | None =>
            match cs_decl (st_cls s m) with
            | None => (s, Er EModel)
            | Some dm =>
                match gen_dump s dm cfg (Some root) with
                | (s1, Er e) => (s1, Er e)
                | (s1, Ok g) => call_dfn g root cl fs s1
                end
            end
        end
  end.

Definition closures (fs : list (pstr * iv)) : list (pstr * dclosure) := map (fun p => (fst p, dumpv (snd p))) fs.

(* asdict(inst) *)
Definition dump_functional (s : sigma) (d : cdecl) (fs : list (pstr * iv)) : sigma * outcome :=
  let c := d_id d in
  match cs_dumpfn (st_cls s c) with
  | Some f => let (s', r) := call_dfn f c (closures fs) fs s in (s', out_of_jv r)
  | None => match gen_dump s d None None with
            | (s1, Er e) => (s1, OErr e)
            | (s1, Ok f) => let (s', r) := call_dfn f c (closures fs) fs s1 in (s', out_of_jv r)
            end
  end.

Definition step_dump (s : sigma) (attr : bool) (v : iv) : sigma * outcome :=
  match v with
  | VInst c fs =>
      match cs_decl (st_cls s c) with
      | None => (s, OErr EModel)
      | Some d =>
          if attr then
            if ci_wiz (d_info d) then
              match attr_lookup s cs_to_dict (c :: ci_mro (d_info d)) with
              | Some f => let (s', r) := call_dfn f (f_cls f) (closures fs) fs s in (s', out_of_jv r)   (* F2 *)
              | None => dump_functional s d fs
              end
            else (s, OErr EModel)
          else dump_functional s d fs
      end
  | _ => (s, OErr EModel)
  end.

(* ---------------------------------------------------------------- definitions and Meta binding *)
(* Meta.bind_to(cls) with is_default=True, the Meta class object being r *)
Definition bind_default (s : sigma) (n : cid) (r : mref) : sigma :=
  match st_mobjs s r with
  | None => s
  | Some x =>
      let s1 := bind_attrs s n x in
      match cs_meta (st_cls s1 n) with
      | Some r0 => match st_mobjs s1 r0 with
                   | Some old => set_mobj s1 r0 (meta_and old x)      (* _META[cls] &= x : in place (F40) *)
                   | None => s1
                   end
      | None => updc s1 n (w_meta (Some r))
      end
  end.

Fixpoint resolve_fields (s : sigma) (fs : list (pstr * fref * option dval))
  : option (list (pstr * fty cdecl * option dval)) :=
  match fs with
  | [] => Some []
  | (x, ty, dv) :: r =>
      match resolve_fields s r with
      | None => None
      | Some r' =>
          match ty with
          | FInt => Some ((x, TInt, dv) :: r')
          | FStr => Some ((x, TStr, dv) :: r')
          | FNested c => match cs_decl (st_cls s c) with
                         | Some d => Some ((x, TNested d, dv) :: r')
                         | None => None
                         end
          end
      end
  end.

(* class statement (+ JSONWizard.__init_subclass__ -> call_meta_initializer_if_needed) *)
Definition step_define (s : sigma) (cd : cdef) : sigma * outcome :=
  let info := cd_info cd in
  let n := ci_id info in
  match cs_decl (st_cls s n), resolve_fields s (cd_fields cd) with
  | None, Some fields =>
      if negb (ci_wiz info) && match ci_inner info with Some _ => true | None => false end
      then (s, OErr EModel)
      else
        let s1 := updc s n (fun _ => w_decl (Some (CDecl info fields)) cs0) in
        if ci_wiz info then
          let s2 := match ci_inner info with
                    | Some m => set_minit (set_mobj s1 (MI n) m) (ci_qn info) (MI n)     (* keyed by QUALNAME (F11) *)
                    | None => s1 end in
          let s3 := match st_minit s2 (ci_qn info) with Some r => bind_default s2 n r | None => s2 end in
          let s4 := match ci_base_qn info with
                    | Some bq => match st_minit s3 bq with Some r => bind_default s3 n r | None => s3 end
                    | None => s3 end in
          (s4, ODone)
        else (s1, ODone)
  | _, _ => (s, OErr EModel)
  end.

(* LoadMeta(kw).bind_to(cls) / DumpMeta(kw).bind_to(cls): a fresh Meta class *)
Definition step_bind (s : sigma) (c : cid) (m : meta) : sigma * outcome :=
  match cs_decl (st_cls s c) with
  | None => (s, OErr EModel)
  | Some _ =>
      let s1 := bind_attrs s c m in
      match cs_meta (st_cls s1 c) with
      | Some r0 => match st_mobjs s1 r0 with
                   | Some old => (set_mobj s1 r0 (meta_and old m), ODone)
                   | None => (s1, OErr EModel)
                   end
      | None => (updc (set_mobj s1 (MB c) m) c (w_meta (Some (MB c))), ODone)
      end
  end.

(* ---------------------------------------------------------------- operations *)
Inductive op :=
| ODefine (cd : cdef)                                   (* DefineClass / DefineSubclass (ci_mro <> []) *)
| OBind (c : cid) (m : meta)                            (* BindMeta *)
| OLoad (c : cid) (attr : bool) (doc : list (pstr * jv))(* fromdict(cls, doc) / cls.from_dict(doc) *)
| ODump (attr : bool) (v : iv).                         (* asdict(inst) / inst.to_dict() *)

Definition step (s : sigma) (o : op) : sigma * outcome :=
  match o with
  | ODefine cd => step_define s cd
  | OBind c m => step_bind s c m
  | OLoad c attr doc => step_load s c attr doc
  | ODump attr v => step_dump s attr v
  end.

Definition run (s : sigma) (h : list op) : sigma := fold_left (fun s o => fst (step s o)) h s.

Fixpoint run_out (s : sigma) (h : list op) : list outcome :=
  match h with
  | [] => []
  | o :: r => let (s', x) := step s o in x :: run_out s' r
  end.

Definition is_def (o : op) : bool := match o with ODefine _ | OBind _ _ => true | _ => false end.
(* the definitions and Meta bindings of a history, in order *)
Definition defs_all (h : list op) : list op := filter is_def h.
