(* PropWizMatrix.v — the finite style x default-kind x annotation-kind matrix of
   C16 and the expectation for each cell, written as explicit tables
   (independent of `dfa`): definitions only, no proofs. *)
From DW Require Export PropWiz.

(* ---- decidable equality on observations ---------------------------------------- *)
Definition conc_tag (c : conc) : N :=
  match c with
  | CInt => 0 | CStr => 1 | CFloat => 2 | CBool => 3 | CBytes => 4 | CTuple => 5
  | CFrozenset => 6 | CList => 7 | CDict => 8 | CSet => 9 | CNoZero => 10
  | COrdDict => 11 | CDefDict => 12 | CCounter => 13 | CMyList => 14
  | CMySet => 15 | CUserObj => 16 | CDeque => 17
  end%N.
Definition conc_eqb (a b : conc) : bool := (conc_tag a =? conc_tag b)%N.

Definition factory_eqb (a b : factory) : bool :=
  match a, b with
  | FacConc x, FacConc y => conc_eqb x y
  | FacUser x, FacUser y => (x =? y)%N
  | _, _ => false
  end.

Definition value_eqb (a b : value) : bool :=
  match a, b with
  | VNone, VNone => true
  | VInt x, VInt y => (x =? y)%Z
  | VStr x, VStr y => pstr_eqb x y
  | VBool x, VBool y => Bool.eqb x y
  | VZero x, VZero y => conc_eqb x y
  | VNew f i, VNew g j => factory_eqb f g && (i =? j)%N
  | VPropObj, VPropObj => true
  | _, _ => false
  end.

Fixpoint list_eqb {X} (e : X -> X -> bool) (a b : list X) : bool :=
  match a, b with
  | [], [] => true
  | x :: a', y :: b' => e x y && list_eqb e a' b'
  | _, _ => false
  end.

Definition entry_eqb (a b : pstr * value) : bool :=
  pstr_eqb (fst a) (fst b) && value_eqb (snd a) (snd b).

(* ---- the matrix -------------------------------------------------------------------- *)
Inductive dkk :=
| KNone              (* x: T *)
| KValue             (* x: T = 7 *)
| KValueNone         (* x: T = None *)
| KFieldDefault      (* x: T = field(default=7) *)
| KFieldFactoryUser  (* x: T = field(default_factory=lambda: [1]) *)
| KFieldFactoryList  (* x: T = field(default_factory=list) *)
| KFieldEmpty        (* x: T = field() *)
| KAnnDefault        (* x: Annotated[T, 'doc', field(default=9)] *)
| KAnnFactory        (* x: Annotated[T, 'doc', field(default_factory=lambda: [2])] *)
| KAnnEmpty.         (* x: Annotated[T, 'doc', field()] *)

Inductive expect :=
| XVal (v : value)          (* this value reaches the setter *)
| XFresh (f : factory).     (* a fresh product of f reaches the setter, one per instance *)

Definition styles : list style := [PubUnder; PubPub; UnderPub; UnderUnder].
Definition dkinds : list dkk :=
  [KNone; KValue; KValueNone; KFieldDefault; KFieldFactoryUser; KFieldFactoryList; KFieldEmpty;
   KAnnDefault; KAnnFactory; KAnnEmpty].

Definition t_int := TConc CInt.
Definition t_str := TConc CStr.
Definition g_list (inst : bool) := TGen (GConc CList) inst.

(* annotation kinds with the default each one implies (property text / docs):
   concrete type -> its zero value (a fresh object for list/dict/set, None if it has
   no no-argument constructor); Optional / Union containing None -> None; other Union ->
   zero value of the first member when that member can be instantiated, else None;
   Literal -> its first value; generic collection -> zero value of its origin;
   unresolvable forward reference -> None; Annotated without a Field -> as the inner type *)
Definition ann_table : list (ty * expect) :=
  [ (TConc CInt, XVal (VInt 0)); (TConc CStr, XVal (VStr [])); (TConc CFloat, XVal (VZero CFloat));
    (TConc CBool, XVal (VBool false)); (TConc CBytes, XVal (VZero CBytes)); (TConc CTuple, XVal (VZero CTuple));
    (TConc CFrozenset, XVal (VZero CFrozenset));
    (TConc CList, XFresh (FacConc CList)); (TConc CDict, XFresh (FacConc CDict)); (TConc CSet, XFresh (FacConc CSet));
    (TConc CNoZero, XVal VNone); (TNoneType, XVal VNone);
    (g_list false, XFresh (FacConc CList)); (g_list true, XFresh (FacConc CList));
    (TGen (GConc CDict) false, XFresh (FacConc CDict)); (TGen (GConc CDict) true, XFresh (FacConc CDict));
    (TGen (GConc CSet) false, XFresh (FacConc CSet)); (TGen (GConc CSet) true, XFresh (FacConc CSet));
    (TGen (GConc CTuple) false, XVal (VZero CTuple)); (TGen (GConc CTuple) true, XVal (VZero CTuple));
    (TGen (GConc CFrozenset) false, XVal (VZero CFrozenset)); (TGen GAbstract false, XVal VNone);
    (TUnion [t_int; TNoneType], XVal VNone); (TUnion [t_int; t_str], XVal (VInt 0));
    (TUnion [t_str; t_int], XVal (VStr [])); (TUnion [t_int; t_str; TNoneType], XVal VNone);
    (TUnion [g_list false; t_str], XVal VNone); (TUnion [g_list true; t_str], XFresh (FacConc CList));
    (TUnion [TConc CNoZero; t_int], XVal VNone); (TUnion [TRef None; t_int], XVal VNone);
    (TUnion [TLiteral [VInt 1]; t_str], XVal VNone);
    (TLiteral [VInt 1; VStr (S "1"); VInt 0; VStr (S "0")], XVal (VInt 1));
    (TLiteral [VStr (S "r"); VStr (S "r+")], XVal (VStr (S "r"))); (TLiteral [VNone; VInt 3], XVal VNone);
    (TRef None, XVal VNone); (TRef (Some t_int), XVal (VInt 0));
    (TRef (Some (TUnion [t_int; TNoneType])), XVal VNone); (TRef (Some (g_list false)), XFresh (FacConc CList));
    (TAnnot t_int [EOther; EOther], XVal (VInt 0)); (TAnnot (TUnion [t_int; t_str]) [EOther], XVal (VInt 0));
    (* collection types that SUBCLASS dict / list: the implied default is a fresh product too *)
    (TConc COrdDict, XFresh (FacConc COrdDict)); (TConc CDefDict, XFresh (FacConc CDefDict));
    (TConc CCounter, XFresh (FacConc CCounter)); (TConc CMyList, XFresh (FacConc CMyList));
    (TGen (GConc COrdDict) true, XFresh (FacConc COrdDict)); (TGen (GConc CCounter) true, XFresh (FacConc CCounter));
    (TUnion [TGen (GConc CDefDict) true; t_str], XFresh (FacConc CDefDict)) ].

Definition cell : Type := style * (dkk * (ty * expect)).
Definition matrix : list cell := list_prod styles (list_prod dkinds ann_table).

Definition wheels : pstr := S "wheels".

Definition cell_rhs (k : dkk) : option rhs :=
  match k with
  | KValue => Some (RVal (VInt 7))
  | KValueNone => Some (RVal VNone)
  | KFieldDefault => Some (RField (fd_def (VInt 7)))
  | KFieldFactoryUser => Some (RField (fd_fac (FacUser 1)))
  | KFieldFactoryList => Some (RField (fd_fac (FacConc CList)))
  | KFieldEmpty => Some (RField fd_empty)
  | _ => None
  end.

Definition cell_ty (k : dkk) (t : ty) : ty :=
  match k with
  | KAnnDefault => TAnnot t [EOther; EField (fd_def (VInt 9))]
  | KAnnFactory => TAnnot t [EOther; EField (fd_fac (FacUser 2))]
  | KAnnEmpty => TAnnot t [EOther; EField fd_empty]
  | _ => t
  end.

Definition cell_decl (c : cell) : decl :=
  let '(st, (k, (t, _))) := c in DProp st wheels (cell_ty k t) (cell_rhs k).

(* the declared default of the cell: when field and property share one name only the
   annotation survives, so it is the one carried by Annotated or implied by the type *)
Definition cell_expect (c : cell) : expect :=
  let '(st, (k, (_, implied))) := c in
  let from_annotation :=
    match k with
    | KAnnDefault => XVal (VInt 9)
    | KAnnFactory => XFresh (FacUser 2)
    | _ => implied
    end in
  match st with
  | PubPub | UnderUnder => from_annotation
  | PubUnder | UnderPub =>
      match k with
      | KValue => XVal (VInt 7)
      | KValueNone => XVal VNone
      | KFieldDefault => XVal (VInt 7)
      | KFieldFactoryUser => XFresh (FacUser 1)
      | KFieldFactoryList => XFresh (FacConc CList)
      | _ => from_annotation
      end
  end.

Definition run_matches (r : result run) (next : N) (lg : list (pstr * value)) (nx : N) : bool :=
  match r with
  | Ok r' => list_eqb entry_eqb (log r') lg
             && list_eqb entry_eqb (inst r') (map (fun e => (under_of (fst e), snd e)) lg)
             && (nxt r' =? nx)%N
  | Err _ => false
  end.

(* what is checked for a single-property class with public name `wheels`: constructor
   signature, state of the class attributes, the setter log / stored value / allocation for:
   no argument (twice: freshness), an explicit argument, and a later assignment *)
Definition body_ok (b : list stmt) (e : expect) : bool :=
  let cl := make_class b in
  let sig_ok := match dataclass_fields cl with
                | Ok [(n, DPropObj)] => pstr_eqb n wheels
                | _ => false
                end in
  let attrs_ok := match dget wheels (attrs cl), dget (under_of wheels) (attrs cl) with
                  | Some (CProp true (Some _)), None => true
                  | _, _ => false
                  end in
  let dflt (next : N) := match e with
                         | XVal v => (v, next)
                         | XFresh f => (VNew f next, (next + 1)%N)
                         end in
  let '(v1, n1) := dflt 5%N in
  let '(v2, n2) := dflt n1 in
  sig_ok && attrs_ok
  && run_matches (construct cl [] 5) 5 [(wheels, v1)] n1
  && run_matches (construct cl [] n1) n1 [(wheels, v2)] n2
  && negb (match e with XFresh _ => value_eqb v1 v2 | XVal _ => false end)
  && run_matches (construct cl [(wheels, VStr (S "6"))] 5) 5 [(wheels, VStr (S "6"))] 5
  && match construct cl [] 5 with
     | Ok r => match set_attr (attrs cl) r wheels (VInt 123) with
               | Ok r' => list_eqb entry_eqb (log r') [(wheels, v1); (wheels, VInt 123)]
                          && list_eqb entry_eqb (inst r') [(under_of wheels, VInt 123)]
               | Err _ => false
               end
     | Err _ => false
     end.

Definition cell_ok (c : cell) : bool := body_ok (body_blocks [cell_decl c]) (cell_expect c).

(* ---- the "both annotated" variant of the docs: the public field carries the default (in
   Annotated or implied by its type), and an extra `_wheels: int = field(init=False)` line is
   present "to make the IDE happier" (it may also carry the default: `field(default=x, init=False)`) ---- *)
Inductive ukind :=
| UBare               (* _wheels: int *)
| UFieldEmpty         (* _wheels: int = field(init=False) *)
| UFieldDefault       (* _wheels: int = field(default=7, init=False) *)
| UValue              (* _wheels: int = 7 *)
| UFieldFactory.      (* _wheels: int = field(default_factory=lambda: [1], init=False) *)

Definition ukinds : list ukind := [UBare; UFieldEmpty; UFieldDefault; UValue; UFieldFactory].
Definition pub_kinds : list dkk := [KNone; KAnnDefault; KAnnFactory; KAnnEmpty].

Definition urhs (u : ukind) : option rhs :=
  match u with
  | UBare => None
  | UFieldEmpty => Some (RField fd_empty)
  | UFieldDefault => Some (RField (fd_def (VInt 7)))
  | UValue => Some (RVal (VInt 7))
  | UFieldFactory => Some (RField (fd_fac (FacUser 1)))
  end.

Definition cell2 : Type := bool * (ukind * (dkk * (ty * expect))).   (* bool: public line first *)
Definition matrix_both : list cell2 :=
  list_prod [true; false] (list_prod ukinds (list_prod pub_kinds ann_table)).

Definition cell2_body (c : cell2) : list stmt :=
  let '(pub_first, (u, (k, (t, _)))) := c in
  let sp := SAnn wheels (cell_ty k t) None in
  let su := SAnn (under_of wheels) (TConc CInt) (urhs u) in
  (if pub_first then [sp; su] else [su; sp]) ++ [SPropDef wheels true].

Definition cell2_expect (c : cell2) : expect :=
  let '(_, (u, (k, (_, implied)))) := c in
  match u with
  | UFieldDefault | UValue => XVal (VInt 7)
  | UFieldFactory => XFresh (FacUser 1)
  | UBare | UFieldEmpty =>
      match k with
      | KAnnDefault => XVal (VInt 9)
      | KAnnFactory => XFresh (FacUser 2)
      | _ => implied
      end
  end.

Definition cell2_ok (c : cell2) : bool := body_ok (cell2_body c) (cell2_expect c).
