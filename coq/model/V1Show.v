(* V1Show.v — text encoders used by the correspondence harness (C02, C14):
   values, outcomes, and the BINDING SUMMARY of every generated function
   (parameters are fixed by the kind; access paths read, with a mark when the
   base variable is not bound by an enclosing comprehension; comprehension
   variables bound; helpers called with the access path passed).
   No proofs in this file. *)
From DW Require Import PyStr V1Base V1Gen V1Errors V1Eval.
From Coq Require Import ZArith List Bool.
Import ListNotations.

Definition sp : pstr := S " ".
Definition cat (l : list pstr) : pstr := concat l.
Definition words (l : list pstr) : pstr := join sp l.

Definition show_leaf (l : leaf) : pstr :=
  match l with
  | LStr => S "str" | LInt => S "int" | LFloat => S "float" | LBool => S "bool" | LNone => S "none"
  | LBytes => S "bytes" | LBytearray => S "bytearray" | LEnum n => S "enum." ++ hex n
  | LUUID => S "uuid" | LDecimal => S "decimal" | LPath => S "path" | LDate => S "date"
  | LTime => S "time" | LDatetime => S "datetime" | LTimedelta => S "timedelta" | LAny => S "any"
  end.

Definition show_kind (k : seqkind) : pstr :=
  match k with KList => S "L" | KTuple => S "T" | KSet => S "E" | KFrozen => S "Z" | KDeque => S "Q" end.

Definition show_opt (o : option pstr) : pstr :=
  match o with None => S "-" | Some s => S "+" ++ hex s end.

Fixpoint show_pv (v : pv) : pstr :=
  match v with
  | VNone => S "N"
  | VBool b => if b then S "B1" else S "B0"
  | VInt z => S "I" ++ show_Z z
  | VFloat h => S "F" ++ hex h
  | VStr s => S "S" ++ hex s
  | VBytes s => S "Y" ++ hex s
  | VByteArray s => S "A" ++ hex s
  | VObj l t => S "O" ++ show_leaf l ++ S ":" ++ hex t
  | VSeq k l => S "(" ++ words (show_kind k :: map show_pv l) ++ S ")"
  | VDict dd kvs =>
      S "(" ++ words ((S "D" ++ show_opt dd) :: flat_map (fun kv => [show_pv (fst kv); show_pv (snd kv)]) kvs) ++ S ")"
  | VNamed n l => S "(" ++ words ((S "M" ++ hex n) :: map show_pv l) ++ S ")"
  | VInst c fs =>
      S "(" ++ words ((S "C" ++ show_nat c) :: flat_map (fun nv => [hex (fst nv); show_pv (snd nv)]) fs) ++ S ")"
  end.

Definition show_ekind (k : ekind) : pstr :=
  match k with KParse => S "P" | KMissingData => S "D" | KMissingFields => S "M" | KUnknownKeys => S "U" end.

Definition show_exn (x : exn) : pstr :=
  match x with
  | XBare k => S "!B " ++ hex k
  | XFuel => S "!F"
  | XOracle => S "!O"
  | XLib e =>
      words [S "!L"; show_ekind (e_kind e); show_opt (class_name e); show_opt (e_fld e);
             S "[" ++ join (S ",") (map hex (e_names e)) ++ S "]"; show_pv (e_obj e)]
  end.

Definition show_res (r : result pv) : pstr :=
  match r with Ok v => S "OK " ++ show_pv v | Err x => show_exn x end.

Definition show_attr (a : option attribution) : pstr :=
  match a with
  | None => S "none"
  | Some (c, f) => words [S "at"; hex c; show_opt f]
  end.

(* ---- binding summary ---------------------------------------------------------- *)
Definition show_var (x : var) : pstr :=
  (match fst x with PV => S "v" | PK => S "k" end) ++ show_nat (snd x).
Definition show_idx (ix : idx) : pstr :=
  match ix with IxN n => S "[" ++ show_nat n ++ S "]" | IxS s => S "[s" ++ hex s ++ S "]" end.

(* an access path: variable with a chain of constant subscripts *)
Fixpoint path_of (e : expr) : option (var * pstr) :=
  match e with
  | EVar p i => Some ((p, i), [])
  | EIdx e' ix => match path_of e' with Some (x, s) => Some (x, s ++ show_idx ix) | None => None end
  | _ => None
  end.

Definition bound_in (bs : list var) (x : var) : bool := existsb (var_eqb x) bs.

(* "R <path>" for a read whose base is bound by an enclosing comprehension,
   "F <path>" for a free read, "B <var>" for a binder, "C <helper> <path>" for a call *)
Definition read_tok (bs : list var) (e : expr) : list pstr :=
  match path_of e with
  | Some (x, s) => [(if bound_in bs x then S "R " else S "F ") ++ show_var x ++ s]
  | None => [S "X"]
  end.

Fixpoint summ (bs : list var) (e : expr) : list pstr :=
  match e with
  | EVar _ _ | EIdx _ _ => read_tok bs e
  | ENone => []
  | ELeaf _ _ e' => summ bs e'
  | ECall f e' =>
      (S "C " ++ hex f ++ S " " ++ match path_of e' with Some (x, s) => show_var x ++ s | None => S "?" end)
        :: summ bs e'
  | ESeq _ body i src => (S "B " ++ show_var (PV, i)) :: summ bs src ++ summ ((PV, i) :: bs) body
  | EDict _ kb vb i src =>
      (S "B " ++ show_var (PK, i)) :: (S "B " ++ show_var (PV, i)) :: summ bs src ++
      summ ((PK, i) :: (PV, i) :: bs) kb ++ summ ((PK, i) :: (PV, i) :: bs) vb
  | ETuple es => flat_map (summ bs) es
  | EIfNone c e' => summ bs c ++ summ bs e'
  end.

Definition body_exprs (b : fbody) : list expr :=
  match b with
  | FLit _ => []
  | FUnion alts => flat_map (fun a => match a with UNone => [] | USimple _ e | UOther e => [e] end) alts
  | FNamed _ es => map snd es
  | FTyped _ r o => map snd r ++ map snd o
  | FClass _ es => es
  end.

Definition body_kind (b : fbody) : pstr :=
  match b with
  | FLit _ => S "literal" | FUnion _ => S "union" | FNamed _ _ => S "named_tuple"
  | FTyped _ _ _ => S "typed_dict" | FClass _ _ => S "dataclass"
  end.

(* one line per function: name, kind, then the tokens (duplicates are removed by the harness) *)
Definition show_fn (nf : pstr * (ty * fbody)) : pstr :=
  join (S "|") (hex (fst nf) :: body_kind (snd (snd nf)) :: (S "F v1") ::
                flat_map (summ []) (body_exprs (snd (snd nf)))).

Definition show_gen (ct : ctable) (r : result (pstr * gstate)) : pstr :=
  match r with
  | Err x => S "GENERR " ++ show_exn x
  | Ok (f, g) => S "GEN " ++ hex f ++ (if coherent g then S " coh" else S " incoh") ++
                 (if names_distinct g then S " dist" else S " nodist") ++ S "#" ++
                 join (S "#") (map show_fn (g_fns g))
  end.

(* ---- entry points used by the harness --------------------------------------------- *)
Definition case_gen (ct : ctable) (c : cid) : pstr :=
  show_gen ct (gen_main ct (Datatypes.S (List.length ct)) c).

(* generated code, specification and locator on one document *)
Definition case_load (tbl : list oentry) (ct : ctable) (n : nat) (c : cid) (o : pv) : pstr :=
  let Or := table_oracle tbl [] in
  join (S "#") [show_res (run_main Or ct (Datatypes.S (List.length ct)) n c o);
                show_res (load_cls Or ct n c o);
                show_attr (locate_n Or ct n c o);
                if dc_shape_n ct n c o then S "shape" else S "noshape"].
