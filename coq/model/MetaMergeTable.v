(* MetaMergeTable.v — multi-root HISTORIES over the global _META table (property C12).

   Sources modelled:
     class_helper.py  _META : class -> Meta (get_meta: absent = AbstractMeta); create_meta
     bases_meta.py    bind_to(..., is_default=True): `_META[cls] &= meta` if the class has an entry, else `_META[cls] = meta`
                      (class definition with an inner Meta, LoadMeta(...)/DumpMeta(...).bind_to(cls))
     parsers.py       UnionParser.__post_init__: a dataclass member without a truthy tag, when
                      `config.auto_assign_tags or meta.auto_assign_tags`: an auto-created Meta {tag: <class name>} is
                      registered for a class without Meta, else `meta.tag = <class name>` (written into the own Meta)
     v1/loaders.py    load_to_union: the same two writes (create_meta(..., tag=) / meta.tag = ...)
     class_helper.py  dataclass_field_to_load_parser: the default engine caches the field parsers of a class
                      (FIELD_NAME_TO_LOAD_PARSER) the first time they are built; cached classes are not walked again
     dumpers.py       dump_func_for_dataclass: `if meta.auto_assign_tags:` (merged Meta) builds the load parsers of the
                      class (save=False) so that the Unions in its fields assign their tags
   State: the table of own settings per class, the table of what the USER declared (ghost), the set of classes whose
   field parsers are cached.  Operations: a user-level binding, the first load / first dump of a root.
   No proofs in this file. *)
From DW Require Import PyStr T_MetaFields MetaMerge.

(* field types that refer to dataclasses BY NAME (their Meta is looked up in the table when they are reached) *)
Inductive rty :=
| RScalar
| ROpt (t : rty)
| RList (t : rty)
| RDict (t : rty)
| RTuple (ts : list rty)
| RUnion (ts : list rty)
| RClass (c : pstr).

Definition cdecls := list (pstr * list rty).       (* dataclass name -> field types *)

Fixpoint fields_of (D : cdecls) (c : pstr) : list rty :=
  match D with
  | [] => []
  | (c', fs) :: r => if pstr_eqb c c' then fs else fields_of r c
  end.

(* _META: class name -> own settings of the registered Meta; absent = AbstractMeta *)
Definition mtab := list (pstr * meta).

Fixpoint tget (c : pstr) (t : mtab) : cmeta :=
  match t with
  | [] => None
  | (c', m) :: r => if pstr_eqb c c' then Some m else tget c r
  end.

Definition tset (c : pstr) (m : meta) (t : mtab) : mtab := (c, m) :: t.

Record tstate := {
  t_meta : mtab;            (* _META *)
  t_decl : mtab;            (* ghost: what the user bound (same overlay rule), never touched by the library *)
  t_parsed : list pstr;     (* default engine: classes whose field parsers are cached *)
  t_fuel_out : bool         (* the walk ran out of fuel: the result is not a prediction *)
}.

Definition st0 : tstate := {| t_meta := []; t_decl := []; t_parsed := []; t_fuel_out := false |}.

(* bind_to(cls, is_default=True) *)
Definition user_bind (c : pstr) (m : meta) (t : mtab) : mtab :=
  match tget c t with
  | None => tset c m t
  | Some old => tset c (meta_and old m) t
  end.

(* the library's own write: tag = <class name> *)
Definition tag_write (c : pstr) (t : mtab) : mtab :=
  match tget c t with
  | None => tset c [(k_tag, VStr c)] t                      (* auto-created Meta: {'tag': name} and nothing else *)
  | Some m => tset c ((k_tag, VStr c) :: m) t               (* meta.tag = name *)
  end.

(* `tag = meta.tag; if not tag and (auto_assign_tags or meta.auto_assign_tags): ...` *)
Definition autotag (cfg : cmeta) (c : pstr) (t : mtab) : mtab :=
  let m := tget c t in
  if negb (otruthy (cget k_tag m)) && (impl_union_auto cfg || otruthy (cget k_auto m)) then tag_write c t else t.

Definition with_meta (t : mtab) (st : tstate) : tstate :=
  {| t_meta := t; t_decl := t_decl st; t_parsed := t_parsed st; t_fuel_out := t_fuel_out st |}.
Definition add_parsed (c : pstr) (st : tstate) : tstate :=
  {| t_meta := t_meta st; t_decl := t_decl st; t_parsed := c :: t_parsed st; t_fuel_out := t_fuel_out st |}.
Definition out_of_fuel (st : tstate) : tstate :=
  {| t_meta := t_meta st; t_decl := t_decl st; t_parsed := t_parsed st; t_fuel_out := true |}.

(* building the field parsers of class c under the cascading config cfg.
   cache = true: default engine (a class whose parsers are cached is not walked again; save: cache the result);
   cache = false: v1 (everything is generated anew for every root). *)
Fixpoint walk (fuel : nat) (D : cdecls) (cfg : cmeta) (cache save : bool) (c : pstr) (st : tstate) : tstate :=
  match fuel with
  | 0 => out_of_fuel st
  | Datatypes.S f =>
      if cache && mem_str c (t_parsed st) then st
      else
        let st' := fold_left (fun s t => visit f D cfg cache t s) (fields_of D c) st in
        if cache && save then add_parsed c st' else st'
  end
with visit (fuel : nat) (D : cdecls) (cfg : cmeta) (cache : bool) (t : rty) (st : tstate) : tstate :=
  match fuel with
  | 0 => out_of_fuel st
  | Datatypes.S f =>
      match t with
      | RScalar => st
      | ROpt t' => visit f D cfg cache t' st
      | RList t' => visit f D cfg cache t' st
      | RDict t' => visit f D cfg cache t' st
      | RTuple ts => fold_left (fun s t' => visit f D cfg cache t' s) ts st
      | RUnion ts =>
          fold_left (fun s t' =>
                       match t' with
                       | RClass c =>
                           (* the member's load function (and its field parsers) first, then the tag *)
                           let s1 := walk f D cfg cache true c s in
                           with_meta (autotag cfg c (t_meta s1)) s1
                       | _ => visit f D cfg cache t' s
                       end) ts st
      | RClass c => walk f D cfg cache true c st
      end
  end.

(* dump of a value that inhabits every dataclass position: the dump function of every class reached is generated
   under own | cfg; `if meta.auto_assign_tags:` runs the parser-building pass for that class (save=False) *)
Fixpoint dvisit_cls (fuel : nat) (D : cdecls) (cfg : cmeta) (main : bool) (c : pstr) (st : tstate) : tstate :=
  match fuel with
  | 0 => out_of_fuel st
  | Datatypes.S f =>
      let own_ := tget c (t_meta st) in
      let m := if main then own_ else bound_meta cfg own_ in
      let st1 := if otruthy (cget k_auto m) then walk f D cfg true false c st else st in
      fold_left (fun s t => dvisit f D cfg t s) (fields_of D c) st1
  end
with dvisit (fuel : nat) (D : cdecls) (cfg : cmeta) (t : rty) (st : tstate) : tstate :=
  match fuel with
  | 0 => out_of_fuel st
  | Datatypes.S f =>
      match t with
      | RScalar => st
      | ROpt t' => dvisit f D cfg t' st
      | RList t' => dvisit f D cfg t' st
      | RDict t' => dvisit f D cfg t' st
      | RTuple ts => fold_left (fun s t' => dvisit f D cfg t' s) ts st
      | RUnion ts => fold_left (fun s t' => dvisit f D cfg t' s) ts st
      | RClass c => dvisit_cls f D cfg false c st
      end
  end.

(* first load / first dump of root r *)
Definition use_root (fuel : nat) (D : cdecls) (e : engine) (r : pstr) (st : tstate) : tstate :=
  let cfg := root_config e (tget r (t_meta st)) in
  match e with
  | LoadV0 => walk fuel D cfg true true r st
  | LoadV1 => walk fuel D cfg false false r st
  | DumpV0 => dvisit_cls fuel D cfg true r st
  end.

Inductive hop :=
| HNop
| HBind (c : pstr) (m : meta)          (* the USER binds Meta m to class c *)
| HUse (e : engine) (r : pstr).        (* first load / dump of root r *)

Definition hstep (fuel : nat) (D : cdecls) (st : tstate) (op : hop) : tstate :=
  match op with
  | HNop => st
  | HBind c m =>
      {| t_meta := user_bind c m (t_meta st); t_decl := user_bind c m (t_decl st);
         t_parsed := t_parsed st; t_fuel_out := t_fuel_out st |}
  | HUse e r => use_root fuel D e r st
  end.

Definition run_hist (fuel : nat) (D : cdecls) (h : list hop) : tstate := fold_left (hstep fuel D) h st0.

(* the Meta a class reached under root r is generated under, read off the table *)
Definition table_effective (st : tstate) (n r : pstr) : cmeta := effective (tget n (t_meta st)) (tget r (t_meta st)).
Definition declared_effective (st : tstate) (n r : pstr) : cmeta := effective (tget n (t_decl st)) (tget r (t_decl st)).

(* bridge to the shape grammar of MetaMerge: every dataclass position carries the own Meta the table holds *)
Fixpoint resolve (fuel : nat) (D : cdecls) (tab : mtab) (t : rty) : ty :=
  match fuel with
  | 0 => TScalar []
  | Datatypes.S f =>
      match t with
      | RScalar => TScalar []
      | ROpt t' => TOpt (resolve f D tab t')
      | RList t' => TList (resolve f D tab t')
      | RDict t' => TDict (resolve f D tab t')
      | RTuple ts => TTuple (map (resolve f D tab) ts)
      | RUnion ts => TUnion (map (resolve f D tab) ts)
      | RClass c => TData c (tget c tab) (map (resolve f D tab) (fields_of D c))
      end
  end.

(* ---- encoders for the correspondence harness ------------------------------ *)
(* a setting is printed as the letter 'a' + its index in meta_all_fields *)
Fixpoint show_settings (i : N) (keys : list pstr) (m : meta) : list pstr :=
  match keys with
  | [] => []
  | k :: r =>
      match own k m with
      | Some v => ([ch (97 + i)] ++ S ":" ++ show_sval v) :: show_settings (i + 1) r m
      | None => show_settings (i + 1) r m
      end
  end.

Definition show_entry (m : meta) : pstr := join (S ",") (show_settings 0 meta_all_fields m).

Definition show_table (names : list pstr) (t : mtab) : pstr :=
  join (S ";") (map (fun c => c ++ S "=" ++ match tget c t with None => S "-" | Some m => show_entry m end) names).

Definition show_state (names : list pstr) (st : tstate) : pstr :=
  (if t_fuel_out st then S "FUEL!" else []) ++ show_table names (t_meta st).

(* the _META snapshot after every operation of the history; "=" when it is the previous one *)
Fixpoint show_scan (fuel : nat) (D : cdecls) (names : list pstr) (h : list hop) (st : tstate) (prev : pstr) : list pstr :=
  match h with
  | [] => []
  | op :: r =>
      let st' := hstep fuel D st op in
      let cur := show_state names st' in
      (if pstr_eqb cur prev then S "=" else cur) :: show_scan fuel D names r st' cur
  end.

Definition show_run (fuel : nat) (D : cdecls) (h : list hop) (names : list pstr) : pstr :=
  join (S "#") (show_scan fuel D names h st0 (S "?")).
