(* CoreRT.v — the domain of the default-engine round trip (property C01):
   `rtd t v` = "v conforms to t" (CoreSchema.conforms) restricted to the supported
   grammar and decorated with the side conditions the proof of
        load t (dump v) = Ok v
   forces.  Each side condition is either a declaration-level restriction stated in
   the property (Union members distinguishable by wire type, no bytes), a leaf law
   of a stdlib function (leaf_ok: fromisoformat . isoformat = id, UUID(u.hex) = u,
   Decimal(str d) = d, Path(str p) = p, pytimeparse(str td) = td), or a
   representation invariant of the model (sets / dict keys without duplicates,
   containers flagged `new`).  No proofs in this file. *)
From DW Require Export CoreDump CoreLoad.
From Coq Require Import ZArith.

Definition c_Z : ascii := "Z"%char.
Definition no_z (s : pstr) : bool := forallb (fun c => negb (ascii_eqb c c_Z)) s.

Section RT.
Variable orc : pstr -> pv -> ores.
Variable dc : dcfg.      (* dump configuration (key transform; ISO date/time) *)
Variable lc : lcfg.      (* load configuration *)

(* ---- leaf laws: the stdlib inverse functions undo the stdlib printers ------------- *)
Definition leaf_ok (t : tok) : Prop :=
  match tk_kind t with
  | KUUID => orc (S "uuid") (VStr (tk_aux t)) = OVal (VTok t)                   (* UUID(u.hex) == u *)
  | KDecimal => orc (S "decimal") (VStr (tk_str t)) = OVal (VTok t)             (* Decimal(str(d)) == d *)
  | KPath => orc (S "path") (VStr (tk_str t)) = OVal (VTok t)                   (* Path(str(p)) == p *)
  | KDate => orc (S "date_iso") (VStr (tk_str t)) = OVal (VTok t)               (* date.fromisoformat(d.isoformat()) == d *)
  | KDateTime => no_z (tk_str t) = true /\                                      (* isoformat() never contains 'Z' *)
                 orc (S "datetime_iso") (VStr (tk_str t)) = OVal (VTok t)
  | KTime => no_z (tk_str t) = true /\
             orc (S "time_iso") (VStr (tk_str t)) = OVal (VTok t)
  | KTimedelta => forallb is_ascii (tk_str t) = true /\ numeric_text (tk_str t) = false /\
                  orc (S "td_parse") (VStr (tk_str t)) = OVal (VTok t)          (* timedelta(seconds=pytimeparse.parse(str(td))) == td :
                                                                                   FALSE for td < 0 - finding F3 *)
  end.

(* F3 region *)
Definition neg_timedelta (t : tok) : bool :=
  match tk_kind t with KTimedelta => Z.ltb (tk_num t) 0 | _ => false end.

(* ---- Enum: the member is the first one found by value / by name -------------------- *)
Definition enum_rt_ok (ms : list (pstr * pv)) (m : pstr) (v : pv) : bool :=
  match find (fun mv => val_eq (snd mv) v None) ms with
  | Some (m', v') => pstr_eqb m' m && pv_eqb v' v
  | None => false
  end &&
  match find (fun mv => pstr_eqb (fst mv) m) ms with
  | Some (m', v') => pstr_eqb m' m && pv_eqb v' v
  | None => false
  end.

(* ---- Literal: members that are == have the same type (Literal[1, True] is ambiguous) -- *)
Definition lit_unambiguous (vs : list pv) : bool :=
  forallb (fun a => forallb (fun b => implb (lit_eq a b) (N.eqb (tyname a) (tyname b))) vs) vs.

(* ---- Union members distinguishable by the exact wire type of their dump ---------------- *)
Inductive wirek := WBool | WInt | WFloat | WStr | WList | WDict.
Definition wirek_eqb (a b : wirek) : bool :=
  match a, b with
  | WBool, WBool | WInt, WInt | WFloat, WFloat | WStr, WStr | WList, WList | WDict, WDict => true
  | _, _ => false
  end.
Definition wire_of (t : ty) : option wirek :=
  match t with
  | TBool => Some WBool | TInt => Some WInt | TFloat => Some WFloat | TStr => Some WStr
  | TSeq SList _ => Some WList
  | TDict DDict _ _ => Some WDict
  | _ => None
  end.
(* A dataclass member of a Union has no parser of its own in UnionParser.parsers: it is reached through
   tag_to_parser only, so it must carry a tag (Meta.tag, or the class name under auto_assign_tags - in the model
   c_tag = Some _ either way); an untagged dataclass member can never be loaded. *)
Fixpoint wires_distinct (seen : list wirek) (ts : list ty) : bool :=
  match ts with
  | [] => true
  | TNone :: r => wires_distinct seen r
  | TData c _ :: r => match c_tag c with Some _ => wires_distinct seen r | None => false end
  | t :: r => match wire_of t with
              | Some w => negb (existsb (wirek_eqb w) seen) && wires_distinct (w :: seen) r
              | None => false
              end
  end.
Definition is_data (t : ty) : bool := match t with TData _ _ => true | _ => false end.
Definition is_wdict (t : ty) : bool := match wire_of t with Some WDict => true | _ => false end.
Fixpoint tags_of (ts : list ty) : list pstr :=
  match ts with
  | [] => []
  | t :: r => match tag_of t with Some g => g :: tags_of r | None => tags_of r end
  end.
Fixpoint str_nodup (l : list pstr) : bool :=
  match l with [] => true | x :: r => negb (mem_str x r) && str_nodup r end.
(* tagged dataclass members: the dumped dict must not be claimed by a dict[...] member (exact-type scan comes
   first), and the tag assignment is injective (tag_to_parser is a dict: a later class with the same tag
   replaces the earlier one - finding F9 for equal class names under auto_assign_tags) *)
Definition data_members_ok (ts : list ty) : bool :=
  negb (existsb is_data ts) || (negb (existsb is_wdict ts) && str_nodup (tags_of ts)).
Definition union_ok (ts : list ty) : bool :=
  wires_distinct [] ts && negb (none_first2 ts)     (* not Union[None, X]: finding F55 *)
  && data_members_ok ts.

(* ---- keys: every dumped key of a class resolves back to its own field ------------------- *)
Fixpoint keys_resolve (c : cinfo) (fs : list finfo) (i : nat) : bool :=
  match fs with
  | [] => true
  | f :: r =>
      match key_of dc f with
      | Ok k => match resolve lc c k with KField j => Nat.eqb i j | KIgnore => false end
      | Err _ => false
      end && keys_resolve c r (Datatypes.S i)
  end.
Definition keys_ok (c : cinfo) : bool :=
  keys_resolve c (c_fields c) O &&
  match c_tag c with
  | None => true
  | Some _ => pstr_eqb (d_tag_key dc) (l_tag_key lc) &&
              match resolve lc c (l_tag_key lc) with KIgnore => true | KField _ => false end
  end.

(* ---- values at `Any` positions: exactly what the dumper leaves alone ------------------------
   The loader of an `Any` annotation returns its input as it is, so load Any (dump v) = v iff dump v = v.
   `anyv` is the set of runtime values the dispatch of _asdict_inner maps to themselves: JSON scalars,
   list / tuple (dump_with_list_or_tuple rebuilds `typ(...)`), dict / OrderedDict (dump_with_dict rebuilds
   `typ(...)`; keys are dumped like values), NamedTuple instances, int/str-mixin Enum members (found by the
   isinstance scan under int / str) - of such values, at every nesting.  NOT in the set (the dump changes
   the runtime type and `Any` carries nothing to undo it): set / frozenset / deque (-> list), defaultdict
   (-> dict), plain Enum (-> value), UUID / Decimal / Path / date / datetime / time / timedelta / bytes
   (-> str), dataclass instances (-> dict).  props/C01.v proves both directions (C01_any_exact).
   `json_any` is the sub-domain every TEXT format can carry back with the same types: what a JSON parser
   itself produces (no tuple, no NamedTuple, str keys). *)
Fixpoint anyv (v : pv) : bool :=
  match v with
  | VNone | VBool _ | VInt _ | VFloat _ | VStr _ => true
  | VSeq k old xs => match k with SList | STuple => negb old && forallb anyv xs | _ => false end
  | VDict k old kvs =>
      match k with
      | DDefault => false
      | _ => negb old && forallb (fun kv => anyv (fst kv) && anyv (snd kv)) kvs
      end
  | VEnum e _ _ => match e_mix e with EPlain => false | _ => true end
  | VNT _ xs => forallb anyv xs
  | _ => false
  end.

Definition is_vstr (v : pv) : bool := match v with VStr _ => true | _ => false end.
Fixpoint json_any (v : pv) : bool :=
  match v with
  | VNone | VBool _ | VInt _ | VFloat _ | VStr _ => true
  | VSeq SList old xs => negb old && forallb json_any xs
  | VDict DDict old kvs => negb old && forallb (fun kv => is_vstr (fst kv) && json_any (snd kv)) kvs
  | _ => false
  end.
Definition plain (v : pv) : bool := anyv v.

(* ---- the round-trip domain ------------------------------------------------------------------ *)
Inductive rtd : ty -> pv -> Prop :=
| RAny v : plain v = true -> rtd TAny v
| RNone : rtd TNone VNone
| RBool b : rtd TBool (VBool b)
| RInt z : rtd TInt (VInt z)
| RFloat h : rtd TFloat (VFloat h)
| RStr s : rtd TStr (VStr s)
| RTok t : leaf_ok t -> rtd (TTok (tk_kind t)) (VTok t)
| REnum e ms m v :
    In (m, v) ms -> enum_value_ok v = true -> enum_rt_ok ms m v = true -> rtd (TEnum e ms) (VEnum e m v)
| RSeq k t xs :
    seq_type_kind k = true -> Forall (rtd t) xs ->
    (is_set_kind k = true -> nodupb xs = true /\ forallb hashable xs = true) ->
    rtd (TSeq k t) (VSeq k false xs)
| RTuple ts xs : ts <> [] -> Forall2 rtd ts xs -> rtd (TTuple ts) (VSeq STuple false xs)
| RVarTuple t xs : Forall (rtd t) xs -> rtd (TVarTuple t) (VSeq STuple false xs)
| RDict k kt vt kvs :
    Forall (fun kv => rtd kt (fst kv) /\ rtd vt (snd kv)) kvs ->
    nodupb (map fst kvs) = true -> forallb (fun kv => hashable (fst kv)) kvs = true ->
    rtd (TDict k kt vt) (VDict k false kvs)
| ROptNone t : rtd (TOptional t) VNone
| ROptSome t v : v <> VNone -> rtd t v -> rtd (TOptional t) v
| RUnionNone ts : In TNone ts -> rtd (TUnion ts) VNone
| RUnion ts t v : In t ts -> union_ok ts = true -> v <> VNone -> rtd t v -> rtd (TUnion ts) v
| RLit vs v :
    In v vs -> forallb lit_value_ok vs = true -> lit_unambiguous vs = true -> rtd (TLiteral vs) v
| RNT n fts xs :
    Forall2 (fun ft x => rtd (fst ft) x) fts xs -> rtd (TNamedTuple n fts) (VNT n xs)
(* TypedDict: a plain dict; `==` on plain dicts ignores order, the model's representative lists the required
   keys, then the optional keys that are present (opt' = opt with the absent keys deleted), in declaration order;
   the key names of one TypedDict are distinct (they are the keys of __annotations__).  Keys are NOT transformed. *)
| RTD tid req opt opt' kvs1 kvs2 :
    Forall2 (fun kt kv => fst kv = VStr (fst kt) /\ rtd (snd kt) (snd kv)) req kvs1 ->
    sublist opt' opt ->
    Forall2 (fun kt kv => fst kv = VStr (fst kt) /\ rtd (snd kt) (snd kv)) opt' kvs2 ->
    NoDup (map fst req ++ map fst opt) ->
    rtd (TTypedDict tid req opt) (VDict DDict false (kvs1 ++ kvs2))
| RData c fts xs :
    keys_ok c = true -> List.length (c_fields c) = List.length fts ->
    Forall2 (fun ft x => rtd (fst ft) x) fts xs -> rtd (TData c fts) (VInst c xs).

End RT.
