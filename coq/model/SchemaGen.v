(* SchemaGen.v — executable model of dataclass_wizard/wizard_cli/schema.py
   (`wiz gen-schema`): type inference for a JSON document, the TypeContainer
   lattice (append with de-duplication, `__or__` with the single-element merge
   rule), PyDataclassGenerator / PyListGenerator (sibling-object merge, nested
   level naming), rendering to class declarations in both annotation styles,
   an acceptance relation for the default loader, the per-run generator state,
   and the CLI as a step machine over a one-file file system.

   Functions the generator merely CALLS are Section variables: the naming
   functions (to_snake_case, to_pascal_case, humanize+singularize), the string
   classifiers (date/time/datetime.fromisoformat via as_date/as_time/as_datetime,
   str.isnumeric, float()), int() for acceptance, and identifier validity.
   The harness instantiates them with finite oracle tables computed by the real
   functions.  No proofs in this file. *)
From DW Require Export PyStr.
From Coq Require Import DecimalString.

(* ---------------------------------------------------------------- JSON -- *)
(* Explicit list constructors (no nested `list`) so that mutual structural
   recursion and `Scheme` induction principles are available. *)
Inductive json :=
| JNull
| JBool (b : bool)
| JInt (z : Z)
| JFloat (iv : option Z) (r : pstr)   (* iv = Some z when the float is integral (== z); r = repr *)
| JStr (s : pstr)
| JArr (l : jlist)
| JObj (m : jmap)
with jlist := JLNil | JLCons (v : json) (r : jlist)
with jmap := JMNil | JMCons (k : pstr) (v : json) (r : jmap).

Fixpoint jl_of_list (l : list json) : jlist :=
  match l with [] => JLNil | v :: r => JLCons v (jl_of_list r) end.
Fixpoint jm_of_list (l : list (pstr * json)) : jmap :=
  match l with [] => JMNil | (k, v) :: r => JMCons k v (jm_of_list r) end.
Fixpoint jl_to_list (l : jlist) : list json :=
  match l with JLNil => [] | JLCons v r => v :: jl_to_list r end.
Fixpoint jm_to_list (m : jmap) : list (pstr * json) :=
  match m with JMNil => [] | JMCons k v r => (k, v) :: jm_to_list r end.
Definition jarr (l : list json) : json := JArr (jl_of_list l).
Definition jobj (l : list (pstr * json)) : json := JObj (jm_of_list l).

Fixpoint jm_lookup (k : pstr) (m : jmap) : option json :=
  match m with
  | JMNil => None
  | JMCons k' v r => if pstr_eqb k k' then Some v else jm_lookup k r
  end.
Fixpoint jm_len (m : jmap) : nat :=
  match m with JMNil => O | JMCons _ _ r => Datatypes.S (jm_len r) end.

(* Python `==` on parsed JSON (used by the dataclass-generated __eq__ of
   PyListGenerator through its `data` field): bool/int/float compare by
   numeric value, dicts irrespective of key order. *)
Definition num_of (v : json) : option (option Z * pstr) :=
  match v with
  | JBool b => Some (Some (if b then 1%Z else 0%Z), [])
  | JInt z => Some (Some z, [])
  | JFloat iv r => Some (iv, r)
  | _ => None
  end.
Definition num_eqb (a b : option Z * pstr) : bool :=
  match fst a, fst b with
  | Some x, Some y => Z.eqb x y
  | None, None => pstr_eqb (snd a) (snd b)
  | _, _ => false
  end.

Fixpoint json_eqb (a b : json) {struct a} : bool :=
  match a with
  | JNull => match b with JNull => true | _ => false end
  | JStr s => match b with JStr s' => pstr_eqb s s' | _ => false end
  | JArr l => match b with JArr l' => jlist_eqb l l' | _ => false end
  | JObj m => match b with JObj m' => Nat.eqb (jm_len m) (jm_len m') && jmap_sub m m' | _ => false end
  | _ => match num_of a, num_of b with Some x, Some y => num_eqb x y | _, _ => false end
  end
with jlist_eqb (a b : jlist) {struct a} : bool :=
  match a with
  | JLNil => match b with JLNil => true | _ => false end
  | JLCons v r => match b with JLCons v' r' => json_eqb v v' && jlist_eqb r r' | _ => false end
  end
with jmap_sub (a b : jmap) {struct a} : bool :=
  match a with
  | JMNil => true
  | JMCons k v r => match jm_lookup k b with Some v' => json_eqb v v' | None => false end && jmap_sub r b
  end.

(* --------------------------------------------------------------- types -- *)
Inductive prim := PStr | PFloat | PInt | PBool | PDate | PDatetime | PTime.

Definition prim_eqb (a b : prim) : bool :=
  match a, b with
  | PStr, PStr | PFloat, PFloat | PInt, PInt | PBool, PBool
  | PDate, PDate | PDatetime, PDatetime | PTime, PTime => true
  | _, _ => false
  end.

(* ty: an element of a TypeContainer.  TClass = PyDataclassGenerator
   (_name, is_root, parsed_types); TList = PyListGenerator (data,
   container_name, _name, parsed_types); its `model` is the unique TClass in
   its container.  tc = TypeContainer (elements, is_optional). *)
Inductive ty :=
| TPrim (p : prim)
| TClass (name : pstr) (root : bool) (fs : flds)
| TList (data : jlist) (cname : pstr) (name : pstr) (c : tc)
with tc := TC (items : tys) (opt : bool)
with tys := TNil | TCons (t : ty) (r : tys)
with flds := FNil | FCons (k : pstr) (c : tc) (r : flds).

Definition tc_items (c : tc) : tys := match c with TC i _ => i end.
Definition tc_opt (c : tc) : bool := match c with TC _ o => o end.
Definition tc_empty : tc := TC TNil false.

Fixpoint tys_len (l : tys) : nat :=
  match l with TNil => O | TCons _ r => Datatypes.S (tys_len r) end.
Fixpoint tys_snoc (l : tys) (t : ty) : tys :=
  match l with TNil => TCons t TNil | TCons x r => TCons x (tys_snoc r t) end.
Fixpoint tys_to_list (l : tys) : list ty :=
  match l with TNil => [] | TCons t r => t :: tys_to_list r end.
Fixpoint flds_to_list (f : flds) : list (pstr * tc) :=
  match f with FNil => [] | FCons k c r => (k, c) :: flds_to_list r end.
Fixpoint flds_snoc (f : flds) (k : pstr) (c : tc) : flds :=
  match f with FNil => FCons k c FNil | FCons k' c' r => FCons k' c' (flds_snoc r k c) end.
Fixpoint flds_has (k : pstr) (f : flds) : bool :=
  match f with FNil => false | FCons k' _ r => pstr_eqb k k' || flds_has k r end.
Fixpoint flds_get (k : pstr) (f : flds) : option tc :=
  match f with FNil => None | FCons k' c r => if pstr_eqb k k' then Some c else flds_get k r end.
Fixpoint flds_len (f : flds) : nat :=
  match f with FNil => O | FCons _ _ r => Datatypes.S (flds_len r) end.
Fixpoint flds_keys_sub (a b : flds) : bool :=
  match a with FNil => true | FCons k _ r => flds_has k b && flds_keys_sub r b end.

(* dict equality of two parsed_types tables: TypeContainer's dataclass-generated
   __eq__ compares no fields (always True), so only the key sets matter
   (keys of a dict are unique: equal key sets = mutual inclusion). *)
Definition flds_keys_eqb (a b : flds) : bool := flds_keys_sub a b && flds_keys_sub b a.

(* first PyDataclassGenerator in a container = PyListGenerator.model *)
Fixpoint model_of (l : tys) : option (pstr * bool * flds) :=
  match l with
  | TNil => None
  | TCons (TClass n r f) _ => Some (n, r, f)
  | TCons _ r => model_of r
  end.

Definition model_eqb (a b : option (pstr * bool * flds)) : bool :=
  match a, b with
  | None, None => true
  | Some (n, r, f), Some (n', r', f') => pstr_eqb n n' && Bool.eqb r r' && flds_keys_eqb f f'
  | _, _ => false
  end.

(* Python `==` between container elements (`o in self` in TypeContainer.append). *)
Definition ty_eqb (a b : ty) : bool :=
  match a, b with
  | TPrim p, TPrim q => prim_eqb p q
  | TClass n r f, TClass n' r' f' => pstr_eqb n n' && Bool.eqb r r' && flds_keys_eqb f f'
  | TList d cn n c, TList d' cn' n' c' =>
      jlist_eqb d d' && pstr_eqb cn cn' && pstr_eqb n n' && model_eqb (model_of (tc_items c)) (model_of (tc_items c'))
  | _, _ => false
  end.

Fixpoint tys_mem (t : ty) (l : tys) : bool :=
  match l with TNil => false | TCons x r => ty_eqb t x || tys_mem t r end.

(* TypeContainer.append for a non-null, non-iterable element *)
Definition tys_append (l : tys) (t : ty) : tys := if tys_mem t l then l else tys_snoc l t.
Definition tc_append (c : tc) (t : ty) : tc := TC (tys_append (tc_items c) t) (tc_opt c).
Definition tc_append_null (c : tc) : tc := TC (tc_items c) true.
Fixpoint tys_append_all (l : tys) (o : tys) : tys :=
  match o with TNil => l | TCons t r => tys_append_all (tys_append l t) r end.

(* replace the model (first TClass) of a PyListGenerator's container *)
Fixpoint tys_set_model (l : tys) (f : flds) : tys :=
  match l with
  | TNil => TNil
  | TCons (TClass n r _) rest => TCons (TClass n r f) rest
  | TCons x rest => TCons x (tys_set_model rest f)
  end.

(* ------------------------------------------------- `__or__` (the merges) -- *)
(* tc_or  = TypeContainer.__or__           (self | other)
   flds_or = PyDataclassGenerator.__or__    on the parsed_types tables
   list_or = PyListGenerator.__or__         on the element containers
   All three recurse structurally on `other`. *)
Fixpoint tc_or (self other : tc) {struct other} : tc :=
  match other with
  | TC oi oo =>
      let o := tc_opt self || oo in
      let dflt := TC (tys_append_all (tc_items self) oi) o in
      match oi with
      | TCons (TClass _ _ f2) TNil =>
          match tc_items self with
          | TCons (TClass n r f1) TNil => TC (TCons (TClass n r (flds_or f1 f2)) TNil) o
          | _ => dflt
          end
      | TCons (TList _ _ _ (TC i2 _)) TNil =>
          match tc_items self with
          | TCons (TList d cn n (TC i1 o1)) TNil => TC (TCons (TList d cn n (TC (list_or i1 i2) o1)) TNil) o
          | _ => dflt
          end
      | _ => dflt
      end
  end
with flds_or (self other : flds) {struct other} : flds :=
  match other with
  | FNil => self
  | FCons k v r =>
      let self' :=
        if flds_has k self
        then (fix upd (s : flds) : flds :=      (* self.parsed_types[k] |= v ; dict keys are unique *)
                match s with
                | FNil => FNil
                | FCons k' c' r' => FCons k' (if pstr_eqb k k' then tc_or c' v else c') (upd r')
                end) self
        else flds_snoc self k v in
      flds_or self' r
  end
with list_or (self other : tys) {struct other} : tys :=
  match other with
  | TNil => self
  | TCons t r =>
      let self' :=
        match t with
        | TClass _ _ f2 =>
            match model_of self with
            | Some (_, _, f1) => tys_set_model self (flds_or f1 f2)
            | None => tys_append self t
            end
        | _ => tys_append self t
        end in
      list_or self' r
  end.

(* ----------------------------------------------------------- inference -- *)
Definition bool_values_default : list pstr :=
  [S "true"; S "t"; S "yes"; S "y"; S "on"; S "1"; S "false"; S "f"; S "no"; S "n"; S "off"; S "0"].

(* what one JSON value contributes to a container *)
Inductive contrib := CNull | CPrims (l : list prim) | CTy (t : ty).

Definition dec_of_N (n : N) : pstr := list_ascii_of_string (NilEmpty.string_of_uint (N.to_uint n)).

Definition tc_add (c : tc) (x : contrib) : tc :=
  match x with
  | CNull => tc_append_null c
  | CPrims ps => fold_left (fun acc p => tc_append acc (TPrim p)) ps c
  | CTy t => tc_append c t
  end.

(* table[k] = g(table[k]) on a dict (keys are unique; every entry with that key is updated) *)
Fixpoint flds_upd (g : tc -> tc) (k : pstr) (f : flds) : flds :=
  match f with
  | FNil => FNil
  | FCons k' c r => FCons k' (if pstr_eqb k k' then g c else c) (flds_upd g k r)
  end.

(* parsed_types[field].append(typ) on the defaultdict of a PyDataclassGenerator *)
Definition flds_add (f : flds) (k : pstr) (x : contrib) : flds :=
  if flds_has k f then flds_upd (fun c => tc_add c x) k f else flds_snoc f k (tc_add tc_empty x).
Definition fields_of (l : list (pstr * contrib)) : flds :=
  fold_left (fun acc kx => flds_add acc (fst kx) (snd kx)) l FNil.

(* one iteration of the element loop of PyListGenerator.__post_init__ *)
Definition list_step (c : tc) (x : contrib) : tc :=
  match x with
  | CTy (TClass n r f2) =>
      match model_of (tc_items c) with
      | Some (_, _, f1) => TC (tys_set_model (tc_items c) (flds_or f1 f2)) (tc_opt c)
      | None => tc_append c (TClass n r f2)
      end
  | _ => tc_add c x
  end.
Definition list_tc (l : list contrib) : tc := fold_left list_step l tc_empty.

Section Infer.
  (* naming: to_snake_case, to_pascal_case, English.humanize+singularize+strip spaces *)
  Variables snake pascal sing : pstr -> pstr.
  (* string classifiers used by possible_types_for_string_value *)
  Variables as_date_ok as_time_ok as_datetime_ok isnumeric is_float : pstr -> bool.
  Variable bool_values : list pstr.
  (* --force-strings *)
  Variable fs : bool.
  (* int(s) succeeds (as_int in the loader); only used by acceptance and the safe region *)
  Variable int_ok : pstr -> bool.

  Definition has_colon (s : pstr) : bool := existsb (fun c => ascii_eqb c ":"%char) s.
  Definition can_be_bool (s : pstr) : bool := mem_str (lower s) bool_values.

  (* possible_types_for_string_value *)
  Definition kinds_of_string (s : pstr) : list prim :=
    if as_date_ok s then [PDate]
    else if negb (has_colon s) then
      let pt := if isnumeric s then [PInt]
                else if is_float s then [PFloat]
                else if can_be_bool s then [PBool] else [] in
      match pt with
      | _ :: _ => if fs then pt else pt ++ [PStr]
      | [] => [PStr]
      end
    else if as_time_ok s then [PTime]
    else if as_datetime_ok s then [PDatetime]
    else [PStr].

  (* PyListGenerator.name: the given key (humanized, singularized) or data<N> *)
  Definition list_name (given : pstr) (lvl : N) : pstr :=
    let n := match given with [] => [] | _ => sing given end in
    match n with
    | [] => sing (S "data" ++ (if (lvl =? 0)%N then [] else dec_of_N lvl))
    | _ => n
    end.

  Definition scalar_contrib (v : json) : contrib :=
    match v with
    | JNull => CNull
    | JBool _ => CPrims [PBool]
    | JInt _ => CPrims [PInt]
    | JFloat _ _ => CPrims [PFloat]
    | JStr s => CPrims (kinds_of_string s)
    | _ => CNull (* not reached: containers are handled by the callers *)
    end.

  (* obj_contribs = the loop of PyDataclassGenerator.__post_init__ (nested_lvl is
     bumped by every list-valued key and carried to the following keys);
     arr_contribs = the loop of PyListGenerator.__post_init__. *)
  Fixpoint obj_contribs (m : jmap) (lvl : N) {struct m} : list (pstr * contrib) :=
    match m with
    | JMNil => []
    | JMCons k v r =>
        match v with
        | JObj m' =>
            (snake k, CTy (TClass (pascal k) false (fields_of (obj_contribs m' lvl)))) :: obj_contribs r lvl
        | JArr l =>
            let lvl' := (lvl + 1)%N in
            let nm := list_name k lvl' in
            (snake k, CTy (TList l k nm (list_tc (arr_contribs l nm false lvl')))) :: obj_contribs r lvl'
        | _ => (snake k, scalar_contrib v) :: obj_contribs r lvl
        end
    end
  with arr_contribs (l : jlist) (nm : pstr) (root : bool) (lvl : N) {struct l} : list contrib :=
    match l with
    | JLNil => []
    | JLCons v r =>
        match v with
        | JObj m' =>
            CTy (TClass (pascal nm) root (fields_of (obj_contribs m' lvl))) :: arr_contribs r nm root lvl
        | JArr l' =>
            let lvl' := (lvl + 1)%N in
            let nm' := list_name [] lvl' in
            CTy (TList l' (S "container") nm' (list_tc (arr_contribs l' nm' false lvl'))) :: arr_contribs r nm root lvl'
        | _ => scalar_contrib v :: arr_contribs r nm root lvl
        end
    end.

  (* JSONRootParser *)
  Inductive rootres :=
  | RObj (c : ty)                              (* class Data(JSONWizard) *)
  | RArr (container : ty) (model : option ty)  (* class Container; class Data(JSONWizard) if any object element *)
  | RBad.                                      (* TypeError: scalar root *)

  Definition is_class_contrib (x : contrib) : bool :=
    match x with CTy (TClass _ _ _) => true | _ => false end.

  Fixpoint number_fields (l : list contrib) (i : N) : list (pstr * contrib) :=
    match l with
    | [] => []
    | x :: r => (snake (S "field_" ++ dec_of_N i), x) :: number_fields r (i + 1)%N
    end.

  Definition model_ty (c : tc) : option ty :=
    match model_of (tc_items c) with Some (n, r, f) => Some (TClass n r f) | None => None end.

  Definition infer_root (j : json) : rootres :=
    match j with
    | JObj m => RObj (TClass (pascal (S "data")) true (fields_of (obj_contribs m 0%N)))
    | JArr l =>
        let nm := list_name [] 0%N in
        let cs := arr_contribs l nm true 0%N in
        let c := list_tc cs in
        let data_list := filter (fun x => negb (is_class_contrib x)) cs in
        let head := match model_ty c with Some t => [(snake nm, CTy t)] | None => [] end in
        RArr (TClass (pascal (S "container")) false (fields_of (head ++ number_fields data_list 1%N))) (model_ty c)
    | _ => RBad
    end.

  (* ------------------------------------------------------- rendering -- *)
  (* experimental = PEP 585/604 style (`--experimental`), else typing style *)
  Definition prim_name (p : prim) : pstr :=
    match p with
    | PStr => S "str" | PFloat => S "float" | PInt => S "int" | PBool => S "bool"
    | PDate => S "date" | PDatetime => S "datetime" | PTime => S "time"
    end.

  Fixpoint str_ty (ex : bool) (t : ty) : pstr :=
    match t with
    | TPrim p => prim_name p
    | TClass n _ _ => if ex then n else S "'" ++ n ++ S "'"
    | TList _ _ _ c =>
        match tc_items c with
        | TNil => if ex then S "list" else S "List"
        | _ => (if ex then S "list[" else S "List[") ++ str_tc ex c ++ S "]"
        end
    end
  with str_tc (ex : bool) (c : tc) : pstr :=
    match c with
    | TC TNil _ => S "Any"
    | TC (TCons t TNil) o =>
        if ex then str_ty ex t ++ (if o then S " | None" else [])
        else if o then S "Optional[" ++ str_ty ex t ++ S "]" else str_ty ex t
    | TC i o =>
        if ex then str_tys ex i (S " | ") ++ (if o then S " | None" else [])
        else let u := S "Union[" ++ str_tys ex i (S ", ") ++ S "]" in
             if o then S "Optional[" ++ u ++ S "]" else u
    end
  with str_tys (ex : bool) (l : tys) (sep : pstr) : pstr :=
    match l with
    | TNil => []
    | TCons t TNil => str_ty ex t
    | TCons t r => str_ty ex t ++ sep ++ str_tys ex r sep
    end.

  (* a rendered class: name, is_root (JSONWizard subclass), fields with annotations *)
  Definition cdecl := (pstr * bool * list (pstr * pstr))%type.

  Fixpoint ann_flds (ex : bool) (f : flds) : list (pstr * pstr) :=
    match f with FNil => [] | FCons k c r => (k, str_tc ex c) :: ann_flds ex r end.

  Fixpoint decls_ty (ex : bool) (t : ty) : list cdecl :=
    match t with
    | TPrim _ => []
    | TClass n r f => (n, r, ann_flds ex f) :: decls_flds ex f
    | TList _ _ _ (TC i _) => decls_model ex i ++ decls_sublists ex i
    end
  with decls_tys (ex : bool) (l : tys) : list cdecl :=
    match l with TNil => [] | TCons t r => decls_ty ex t ++ decls_tys ex r end
  with decls_flds (ex : bool) (f : flds) : list cdecl :=
    match f with FNil => [] | FCons _ (TC i _) r => decls_tys ex i ++ decls_flds ex r end
  with decls_model (ex : bool) (l : tys) : list cdecl :=
    match l with
    | TNil => []
    | TCons (TClass n r f) _ => (n, r, ann_flds ex f) :: decls_flds ex f
    | TCons _ r => decls_model ex r
    end
  with decls_sublists (ex : bool) (l : tys) : list cdecl :=
    match l with
    | TNil => []
    | TCons (TList _ _ _ (TC i _)) r => (decls_model ex i ++ decls_sublists ex i) ++ decls_sublists ex r
    | TCons _ r => decls_sublists ex r
    end.

  Definition decls_root (ex : bool) (r : rootres) : option (list cdecl) :=
    match r with
    | RObj c => Some (decls_ty ex c)
    | RArr c _ => Some (decls_ty ex c)
    | RBad => None
    end.

  (* ------------------------------------------------------ acceptance -- *)
  (* What the default loader accepts for an inferred annotation (conservative
     where the loader is more lenient). *)

  (* The loader maps every JSON key to the field named by its snake-cased form
     and parses each such value with the field's parser (a later key overwrites
     an earlier one, but the earlier value is parsed all the same). *)
  Fixpoint jm_has_field (f : pstr) (m : jmap) : bool :=
    match m with
    | JMNil => false
    | JMCons k _ r => pstr_eqb (snake k) f || jm_has_field f r
    end.
  Fixpoint jm_all_field (f : pstr) (p : json -> bool) (m : jmap) : bool :=
    match m with
    | JMNil => true
    | JMCons k v r => (negb (pstr_eqb (snake k) f) || p v) && jm_all_field f p r
    end.

  Fixpoint jl_forallb (p : json -> bool) (l : jlist) : bool :=
    match l with JLNil => true | JLCons v r => p v && jl_forallb p r end.

  Definition accepts_prim (p : prim) (v : json) : bool :=
    match p, v with
    | PStr, JStr _ => true
    | PInt, JInt _ => true
    | PInt, JStr s => int_ok s
    | PFloat, JFloat _ _ => true
    | PFloat, JStr s => is_float s
    | PBool, JBool _ => true
    | PBool, JStr s => can_be_bool s
    | PDate, JStr s => as_date_ok s
    | PTime, JStr s => as_time_ok s
    | PDatetime, JStr s => as_datetime_ok s
    | _, _ => false
    end.

  (* UnionParser: `type(o) in parser` — exact type match; dataclasses carry no tag *)
  Definition contains (t : ty) (v : json) : bool :=
    match t, v with
    | TPrim PStr, JStr _ | TPrim PInt, JInt _ | TPrim PFloat, JFloat _ _ | TPrim PBool, JBool _ => true
    | TList _ _ _ _, JArr _ => true
    | _, _ => false
    end.

  Fixpoint accepts_ty (t : ty) (v : json) {struct t} : bool :=
    match t with
    | TPrim p => accepts_prim p v
    | TClass _ _ f => match v with JObj m => accepts_flds f m | _ => false end
    | TList _ _ _ c => match v with JArr l => jl_forallb (accepts_tc c) l | _ => false end
    end
  with accepts_tc (c : tc) (v : json) {struct c} : bool :=
    match c with
    | TC TNil _ => true                                        (* Any *)
    | TC (TCons t TNil) o => match v with JNull => o | _ => accepts_ty t v end
    | TC i o => match v with JNull => o | _ => accepts_union i v end
    end
  with accepts_union (l : tys) (v : json) {struct l} : bool :=
    match l with
    | TNil => false
    | TCons t r => if contains t v then accepts_ty t v else accepts_union r v
    end
  with accepts_flds (f : flds) (m : jmap) {struct f} : bool :=
    match f with
    | FNil => true
    | FCons k c r => jm_has_field k m && jm_all_field k (accepts_tc c) m && accepts_flds r m
    end.

  (* "the JSONWizard root loads the document": from_dict for an object root,
     every object element for an array root *)
  Definition is_obj (v : json) : bool := match v with JObj _ => true | _ => false end.
  Definition accepts_root (r : rootres) (j : json) : bool :=
    match r, j with
    | RObj c, JObj _ => accepts_ty c j
    | RArr _ (Some mt), JArr l => jl_forallb (fun v => negb (is_obj v) || accepts_ty mt v) l
    | RArr _ None, JArr l => jl_forallb (fun v => negb (is_obj v)) l
    | _, _ => false
    end.

  (* ------------------------------------------- the safe region (decidable) -- *)
  (* A primitive that a *string* value may have been resolved to. *)
  Definition stringy (p : prim) : bool :=
    match p with
    | PDate | PTime | PDatetime => true
    | PInt | PFloat | PBool => fs
    | PStr => false
    end.
  Definition is_tclass (t : ty) : bool := match t with TClass _ _ _ => true | _ => false end.
  Definition is_tlist (t : ty) : bool := match t with TList _ _ _ _ => true | _ => false end.
  Definition is_stringy_ty (t : ty) : bool := match t with TPrim p => stringy p | _ => false end.
  Definition is_pstr_ty (t : ty) : bool := match t with TPrim PStr => true | _ => false end.
  Fixpoint tys_exists (p : ty -> bool) (l : tys) : bool :=
    match l with TNil => false | TCons t r => p t || tys_exists p r end.
  Fixpoint tys_count (p : ty -> bool) (l : tys) : nat :=
    match l with TNil => O | TCons t r => (if p t then 1 else 0) + tys_count p r end.

  (* A Union (two or more members) is loadable by exact type match only: no
     dataclass member (F14d) and `str` present whenever a member may stand for
     a string value (F14e). *)
  Definition union_ok (i : tys) : bool :=
    match i with
    | TCons _ (TCons _ _) =>
        negb (tys_exists is_tclass i) &&
        (tys_exists is_pstr_ty i || negb (tys_exists is_stringy_ty i))
    | _ => true
    end.

  Fixpoint ty_safe (t : ty) : bool :=
    match t with
    | TPrim _ => true
    | TClass _ _ f => flds_safe f
    | TList _ _ _ c => tc_safe c
    end
  with tc_safe (c : tc) : bool :=
    match c with TC i _ => union_ok i && tys_safe i end
  with tys_safe (l : tys) : bool :=
    match l with TNil => true | TCons t r => ty_safe t && tys_safe r end
  with flds_safe (f : flds) : bool :=
    match f with FNil => true | FCons _ c r => tc_safe c && flds_safe r end.

  (* merge steps that keep every earlier value loadable: a container holds at
     most one dataclass and at most one list (a second one is either dropped as
     a "duplicate" or becomes a second List member of a Union, F14f/F14j),
     sibling objects have equal key sets (F14b), a merged list does not lose
     `null` elements (F14i). *)
  Definition append_ok (l : tys) (t : ty) : bool :=
    match t with
    | TPrim _ => true
    | TClass _ _ _ => negb (tys_exists is_tclass l)
    | TList _ _ _ _ => negb (tys_exists is_tlist l)
    end.
  Fixpoint append_all_ok (l : tys) (o : tys) : bool :=
    match o with TNil => true | TCons t r => append_ok l t && append_all_ok (tys_append l t) r end.

  Fixpoint tc_or_ok (self other : tc) {struct other} : bool :=
    match other with
    | TC oi oo =>
        let dflt := append_all_ok (tc_items self) oi in
        match oi with
        | TCons (TClass _ _ f2) TNil =>
            match tc_items self with
            | TCons (TClass n r f1) TNil => flds_keys_eqb f1 f2 && flds_or_ok f1 f2
            | _ => dflt
            end
        | TCons (TList _ _ _ (TC i2 o2)) TNil =>
            match tc_items self with
            | TCons (TList d cn n (TC i1 o1)) TNil => (negb o2 || o1) && list_or_ok i1 i2
            | _ => dflt
            end
        | _ => dflt
        end
    end
  with flds_or_ok (self other : flds) {struct other} : bool :=
    match other with
    | FNil => true
    | FCons k v r =>
        (fix chk (s : flds) : bool :=
           match s with
           | FNil => true
           | FCons k' c' r' => (negb (pstr_eqb k k') || tc_or_ok c' v) && chk r'
           end) self && flds_or_ok (flds_or self (FCons k v FNil)) r
    end
  with list_or_ok (self other : tys) {struct other} : bool :=
    match other with
    | TNil => true
    | TCons t r =>
        match t with
        | TClass _ _ f2 =>
            match model_of self with
            | Some (_, _, f1) =>
                flds_keys_eqb f1 f2 && flds_or_ok f1 f2 && list_or_ok (tys_set_model self (flds_or f1 f2)) r
            | None => append_ok self t && list_or_ok (tys_append self t) r
            end
        | _ => append_ok self t && list_or_ok (tys_append self t) r
        end
    end.

  Definition tc_add_ok (c : tc) (x : contrib) : bool :=
    match x with CTy t => append_ok (tc_items c) t | _ => true end.
  Fixpoint flds_add_ok (f : flds) (k : pstr) (x : contrib) : bool :=
    match f with
    | FNil => true
    | FCons k' c r => (negb (pstr_eqb k k') || tc_add_ok c x) && flds_add_ok r k x
    end.
  Fixpoint fields_ok_from (acc : flds) (l : list (pstr * contrib)) : bool :=
    match l with
    | [] => true
    | kx :: r => flds_add_ok acc (fst kx) (snd kx) && fields_ok_from (flds_add acc (fst kx) (snd kx)) r
    end.
  Definition fields_ok (l : list (pstr * contrib)) : bool := fields_ok_from FNil l.

  Definition list_step_ok (c : tc) (x : contrib) : bool :=
    match x with
    | CTy (TClass n r f2) =>
        match model_of (tc_items c) with
        | Some (_, _, f1) => flds_keys_eqb f1 f2 && flds_or_ok f1 f2
        | None => append_ok (tc_items c) (TClass n r f2)
        end
    | _ => tc_add_ok c x
    end.
  Fixpoint list_ok_from (acc : tc) (l : list contrib) : bool :=
    match l with
    | [] => true
    | x :: r => list_step_ok acc x && list_ok_from (list_step acc x) r
    end.
  Definition list_ok (l : list contrib) : bool := list_ok_from tc_empty l.

  (* every merge performed while inferring the document is an ok one
     (same traversal and nested-level threading as obj_contribs/arr_contribs) *)
  Fixpoint obj_merges_ok (m : jmap) (lvl : N) {struct m} : bool :=
    match m with
    | JMNil => true
    | JMCons k v r =>
        match v with
        | JObj m' => obj_merges_ok m' lvl && fields_ok (obj_contribs m' lvl) && obj_merges_ok r lvl
        | JArr l =>
            let lvl' := (lvl + 1)%N in
            let nm := list_name k lvl' in
            arr_merges_ok l nm false lvl' && list_ok (arr_contribs l nm false lvl') && obj_merges_ok r lvl'
        | _ => obj_merges_ok r lvl
        end
    end
  with arr_merges_ok (l : jlist) (nm : pstr) (root : bool) (lvl : N) {struct l} : bool :=
    match l with
    | JLNil => true
    | JLCons v r =>
        match v with
        | JObj m' => obj_merges_ok m' lvl && fields_ok (obj_contribs m' lvl) && arr_merges_ok r nm root lvl
        | JArr l' =>
            let lvl' := (lvl + 1)%N in
            let nm' := list_name [] lvl' in
            arr_merges_ok l' nm' false lvl' && list_ok (arr_contribs l' nm' false lvl') && arr_merges_ok r nm root lvl'
        | _ => arr_merges_ok r nm root lvl
        end
    end.

  (* a string resolved to a single non-str type must be loadable as that type;
     only `int` can fail: str.isnumeric() accepts more than int() (F14h) *)
  Definition is_pstr (p : prim) : bool := match p with PStr => true | _ => false end.
  Definition string_ok (s : pstr) : bool :=
    existsb is_pstr (kinds_of_string s) || forallb (fun p => accepts_prim p (JStr s)) (kinds_of_string s).
  Fixpoint strings_ok (v : json) : bool :=
    match v with
    | JStr s => string_ok s
    | JArr l => strings_ok_l l
    | JObj m => strings_ok_m m
    | _ => true
    end
  with strings_ok_l (l : jlist) : bool :=
    match l with JLNil => true | JLCons v r => strings_ok v && strings_ok_l r end
  with strings_ok_m (m : jmap) : bool :=
    match m with JMNil => true | JMCons _ v r => strings_ok v && strings_ok_m r end.

  (* the structural part of schema_safe *)
  Definition struct_safe (j : json) : bool :=
    strings_ok j &&
    match j with
    | JObj m =>
        obj_merges_ok m 0%N && fields_ok (obj_contribs m 0%N) &&
        flds_safe (fields_of (obj_contribs m 0%N))
    | JArr l =>
        let nm := list_name [] 0%N in
        arr_merges_ok l nm true 0%N && list_ok (arr_contribs l nm true 0%N) &&
        (* the element container of the root array is not rendered as a type
           (class Container has one field per non-object element): only its members matter *)
        tys_safe (tc_items (list_tc (arr_contribs l nm true 0%N)))
    | _ => false
    end.

  (* the naming part: generated source is well-formed Python and every class
     reference resolves to its own declaration *)
  Variable ident_ok : pstr -> bool.      (* valid identifier and not a keyword *)
  Variable reserved : list pstr.         (* names the generated module itself uses *)
  Variable root_reserved : list pstr.    (* attributes of JSONWizard: a field of the root class with such a
                                            name gets the inherited attribute as its dataclass default (F14k) *)

  Fixpoint nodup_str (l : list pstr) : bool :=
    match l with [] => true | x :: r => negb (mem_str x r) && nodup_str r end.

  Definition decl_name (d : cdecl) : pstr := fst (fst d).
  Definition decl_ok (d : cdecl) : bool :=
    ident_ok (decl_name d) && negb (mem_str (decl_name d) reserved) &&
    forallb (fun ka => ident_ok (fst ka) && negb (snd (fst d) && mem_str (fst ka) root_reserved)) (snd d).
  Definition names_safe (ds : list cdecl) : bool :=
    forallb decl_ok ds && nodup_str (map decl_name ds).

  Definition schema_safe (j : json) : bool :=
    struct_safe j &&
    match decls_root false (infer_root j) with Some ds => names_safe ds | None => false end.

  (* python module semantics: a later `class X` rebinds X *)
  Fixpoint lookup_decl (n : pstr) (ds : list cdecl) : option cdecl :=
    match ds with
    | [] => None
    | d :: r => match lookup_decl n r with Some x => Some x | None => if pstr_eqb n (decl_name d) then Some d else None end
    end.

End Infer.

(* ------------------------------------------------- per-run generator state -- *)
(* ModuleImporter._MOD_IMPORTS (level, module, name), Globals (force_strings,
   experimental) and the `__str__` methods bound per run are process-global.
   A generation = PyCodeGenerator(...) then .py_code. *)
Record gstate := GState {
  g_imports : list (N * pstr * pstr);
  g_force : bool;
  g_experimental : bool;
  g_str_style : bool       (* which `_..._str` is bound to __str__: true = experimental *)
}.

(* PyCodeGenerator.__post_init__: Globals := flags; JSONRootParser.__post_init__:
   clear_imports(), register __future__ if experimental, rebind __str__, register dataclass *)
Definition gen_begin (st : gstate) (force ex : bool) : gstate :=
  GState ((if ex then [(0%N, S "__future__", S "annotations")] else []) ++ [(1%N, S "dataclasses", S "dataclass")])
         force ex ex.

Section Gen.
  Variables snake pascal sing : pstr -> pstr.
  Variables as_date_ok as_time_ok as_datetime_ok isnumeric is_float : pstr -> bool.
  Variable bool_values : list pstr.

  (* the part of the output that depends on the state: flags read from Globals,
     style read from the bound __str__ *)
  Definition gen_run (st : gstate) (force ex : bool) (j : json) : gstate * option (list cdecl) :=
    let st1 := gen_begin st force ex in
    let r := infer_root snake pascal sing as_date_ok as_time_ok as_datetime_ok isnumeric is_float
                        bool_values (g_force st1) j in
    (st1, decls_root (g_str_style st1) r).
End Gen.

(* ------------------------------------------------------------- the CLI -- *)
(* One output path; its content is None (absent) or Some bytes. *)
Inductive cli_input :=
| InUnreadable            (* in-file cannot be opened: argparse error in parse_args *)
| InSyntaxError           (* not JSON: JSONDecodeError *)
| InScalarRoot            (* JSON, root neither object nor array: TypeError *)
| InGenFails              (* document on which generation raises (e.g. IndexError for key "") *)
| InDoc (code : pstr).    (* document; `code` = generated source *)

Definition cli_valid (i : cli_input) : bool := match i with InDoc _ => true | _ => false end.

Record cli_state := CliState { out_file : option pstr; exit_code : option N }.

(* step 1: parser.parse_args — FileType('r') on in-file, then the out-file argument.
   eager = false (current code, fix F14a): the out-file argument only records the path, the
   file is opened on the first write;  eager = true (pre-fix): FileType('w') called
   open(..., 'w') here, creating/truncating the file.  Which one applies is read from the
   source: T_SchemaTables.cli_output_opened_at_parse. *)
Definition cli_parse_args (eager : bool) (i : cli_input) (st : cli_state) : cli_state :=
  match i with
  | InUnreadable => CliState (out_file st) (Some 2%N)
  | _ => if eager then CliState (Some []) None else st
  end.
(* step 2: in_file.read() — cannot fail on an opened file in the model *)
Definition cli_read (i : cli_input) (st : cli_state) : cli_state := st.
(* step 3: PyCodeGenerator(...) inside try; any exception -> sys.exit(message) = exit code 1 *)
Definition cli_generate (i : cli_input) (st : cli_state) : cli_state :=
  match exit_code st with
  | Some _ => st
  | None => match i with InDoc _ => st | _ => CliState (out_file st) (Some 1%N) end
  end.
(* step 4: out_file.write(code_gen.py_code) *)
Definition cli_write (i : cli_input) (st : cli_state) : cli_state :=
  match exit_code st with
  | Some _ => st
  | None => match i with InDoc code => CliState (Some code) (Some 0%N) | _ => st end
  end.

Definition cli_run (eager : bool) (i : cli_input) (before : option pstr) : cli_state :=
  cli_write i (cli_generate i (cli_read i (cli_parse_args eager i (CliState before None)))).
