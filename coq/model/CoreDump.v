(* CoreDump.v — model of dataclass_wizard/dumpers.py (default engine):
   `_asdict_inner` (exact-type hook lookup, dataclass recursion, namedtuple test,
   insertion-order isinstance scan over the registered hooks, str() fallback),
   the DumpMixin.dump_with_* encoders, the generated `cls_asdict` (keys by alias
   or key transform, tag), marshal_date_time_as (bases_meta.py bind_to), the Z rewrite (a trailing +00:00 only), and an
   independent reference encoder `ref_encode` transcribed from the documentation
   (property C03 text).  The hook registry is a parameter; props/C03.v
   instantiates it with the table regenerated from the source.
   Not modelled here: exclude / skip_defaults / skip_if / dump=False / JSON paths
   / catch-all (properties C11, C08, C10).  No proofs in this file. *)
From DW Require Export CoreSchema StrConv.
From Coq Require Import ZArith.

Inductive xf := XCamel | XPascal | XLisp | XSnake | XNone.    (* key_transform_with_dump *)
Inductive dtmode := DtIso | DtTimestamp.                      (* marshal_date_time_as *)
Record dcfg := mkCfg { d_xf : xf; d_dt : dtmode; d_tag_key : pstr }.

Definition apply_xf (x : xf) (n : pstr) : option pstr :=
  match x with
  | XCamel => to_camel n
  | XPascal => to_pascal n
  | XLisp => Some (to_lisp n)
  | XSnake => Some (to_snake n)
  | XNone => Some n
  end.

(* dataclass_to_json_field[field]: alias if configured, else the transformed name *)
Definition key_of (cfg : dcfg) (f : finfo) : res pstr :=
  match f_alias f with
  | Some a => Ok a
  | None => match apply_xf (d_xf cfg) (f_name f) with
            | Some k => Ok k
            | None => Err (ERaise (S "IndexError"))
            end
  end.

(* ---- runtime type of a value: its class name followed by the registered
        base classes it is an instance of (what isinstance() can see) -------- *)
Definition cls_mark : ascii := "@"%char.     (* user classes: no registry name starts with '@' *)
Definition mro (v : pv) : list pstr :=
  match v with
  | VNone => [S "NoneType"]
  | VBool _ => [S "bool"; S "int"]
  | VInt _ => [S "int"]
  | VFloat _ => [S "float"]
  | VStr _ => [S "str"]
  | VBytes false _ _ => [S "bytes"]
  | VBytes true _ _ => [S "bytearray"]
  | VSeq SList _ _ => [S "list"]
  | VSeq STuple _ _ => [S "tuple"]
  | VSeq SSet _ _ => [S "set"]
  | VSeq SFrozenSet _ _ => [S "frozenset"]
  | VSeq SDeque _ _ => [S "deque"]
  | VDict DDict _ _ => [S "dict"]
  | VDict DDefault _ _ => [S "defaultdict"; S "dict"]
  | VDict DOrdered _ _ => [S "OrderedDict"; S "dict"]
  | VEnum e _ _ =>
      match e_mix e with
      | EPlain => [cls_mark :: e_name e; S "Enum"]
      | EIntMix => [cls_mark :: e_name e; S "int"; S "Enum"]
      | EStrMix => [cls_mark :: e_name e; S "str"; S "Enum"]
      end
  | VTok t =>
      match tk_kind t with
      | KUUID => [S "UUID"]
      | KDecimal => [S "Decimal"]
      | KPath => [S "PosixPath"; S "Path"; S "PurePosixPath"; S "PurePath"]
      | KDate => [S "date"]
      | KDateTime => [S "datetime"; S "date"]
      | KTime => [S "time"]
      | KTimedelta => [S "timedelta"]
      end
  | VNT n _ => [cls_mark :: n_name n; S "tuple"]
  | VInst c _ => [cls_mark :: c_name c]
  end.

Fixpoint assoc_str (k : pstr) (l : list (pstr * pstr)) : option pstr :=
  match l with
  | [] => None
  | (k', v) :: r => if pstr_eqb k k' then Some v else assoc_str k r
  end.

(* `for t in hooks: if isinstance(obj, t)` — first registered type in the value's bases *)
Fixpoint scan_hooks (bases : list pstr) (hooks : list (pstr * pstr)) : option pstr :=
  match hooks with
  | [] => None
  | (t, h) :: r => if mem_str t bases then Some h else scan_hooks bases r
  end.

(* bind_to with marshal_date_time_as=TIMESTAMP re-registers datetime and date *)
Definition ts_datetime : pstr := S "<ts_datetime>".
Definition ts_date : pstr := S "<ts_date>".
Definition hooks_for (dt : dtmode) (hooks : list (pstr * pstr)) : list (pstr * pstr) :=
  match dt with
  | DtIso => hooks
  | DtTimestamp =>
      map (fun th => if pstr_eqb (fst th) (S "datetime") then (fst th, ts_datetime)
                     else if pstr_eqb (fst th) (S "date") then (fst th, ts_date) else th) hooks
  end.

Inductive hook :=
| HIdent | HBytes | HEnumValue | HUuidHex | HIterable | HListTuple | HNamedTuple
| HDict | HDefaultDict | HStr | HIsoZ | HIso | HTimestamp | HData | HDefaultStr | HUnknown (name : pstr).

Definition hook_of_name (n : pstr) : hook :=
  if mem_str n [S "dump_with_str"; S "dump_with_int"; S "dump_with_float"; S "dump_with_bool"; S "dump_with_null"]
  then HIdent
  else if pstr_eqb n (S "dump_with_bytes") then HBytes
  else if pstr_eqb n (S "dump_with_enum") then HEnumValue
  else if pstr_eqb n (S "dump_with_uuid") then HUuidHex
  else if pstr_eqb n (S "dump_with_iterable") then HIterable
  else if pstr_eqb n (S "dump_with_list_or_tuple") then HListTuple
  else if pstr_eqb n (S "dump_with_named_tuple") then HNamedTuple
  else if pstr_eqb n (S "dump_with_dict") then HDict
  else if pstr_eqb n (S "dump_with_defaultdict") then HDefaultDict
  else if mem_str n [S "dump_with_decimal"; S "dump_with_timedelta"] then HStr
  else if mem_str n [S "dump_with_datetime"; S "dump_with_time"] then HIsoZ
  else if pstr_eqb n (S "dump_with_date") then HIso
  else if mem_str n [ts_datetime; ts_date] then HTimestamp
  else HUnknown n.

Definition is_inst (v : pv) : bool := match v with VInst _ _ => true | _ => false end.
Definition is_nt (v : pv) : bool := match v with VNT _ _ => true | _ => false end.

(* _asdict_inner's choice of encoder *)
Definition dispatch (hooks : list (pstr * pstr)) (v : pv) : hook :=
  match mro v with
  | [] => HUnknown []
  | cls :: _ =>
      match assoc_str cls hooks with
      | Some h => hook_of_name h
      | None =>
          if is_inst v then HData
          else if is_nt v then
            match assoc_str (S "NamedTupleMeta") hooks with
            | Some h => hook_of_name h
            | None => HUnknown (S "KeyError")
            end
          else match scan_hooks (mro v) hooks with
               | Some h => hook_of_name h
               | None => HDefaultStr
               end
      end
  end.

Definition z_suffix : pstr := S "Z".

(* dump_with_datetime / dump_with_time:  s = o.isoformat();  s[:-6] + 'Z' if s.endswith('+00:00') else s *)
Definition py_endswith (suf s : pstr) : bool := starts_with (rev suf) (rev s).
Definition iso_z (s : pstr) : pstr :=
  if py_endswith utc_off s then firstn (List.length s - 6) s ++ z_suffix else s.

Section Dump.
Variable hooks0 : list (pstr * pstr).     (* DumpMixin.__DUMP_HOOKS__ *)
Variable cfg : dcfg.

Definition hooks : list (pstr * pstr) := hooks_for (d_dt cfg) hooks0.

Definition unmod {A} (w : string) : res A := Err (EUnmodelled (S w)).

Fixpoint field_items (fs : list finfo) (xs : list (res pv)) : res (list (pv * pv)) :=
  match fs, xs with
  | [], [] => Ok []
  | f :: fs', x :: xs' =>
      bind (key_of cfg f) (fun k =>
      bind x (fun w =>
      bind (field_items fs' xs') (fun rest => Ok ((VStr k, w) :: rest))))
  | _, _ => unmod "instance arity"
  end.

(* `result[tag_key] = tag` on the dict built from the (key, value) list *)
Definition add_tag (c : cinfo) (items : list (pv * pv)) : list (pv * pv) :=
  match c_tag c with
  | Some t => items ++ [(VStr (d_tag_key cfg), VStr t)]
  | None => items
  end.

Fixpoint dump (v : pv) {struct v} : res pv :=
  match dispatch hooks v with
  | HIdent => Ok v
  | HBytes => match v with VBytes _ _ b64 => Ok (VStr b64) | _ => unmod "dump_with_bytes" end
  | HEnumValue => match v with VEnum _ _ x => Ok x | _ => unmod "dump_with_enum" end
  | HUuidHex => match v with VTok t => Ok (VStr (tk_aux t)) | _ => unmod "dump_with_uuid" end
  | HIterable =>
      match v with
      | VSeq _ _ xs => rmap (VSeq SList false) (seqR (map dump xs))
      | _ => unmod "dump_with_iterable"
      end
  | HListTuple =>
      match v with
      | VSeq k _ xs => rmap (VSeq k false) (seqR (map dump xs))
      | _ => unmod "dump_with_list_or_tuple"
      end
  | HNamedTuple =>
      match v with
      | VNT n xs => rmap (VNT n) (seqR (map dump xs))
      | _ => unmod "dump_with_named_tuple"
      end
  | HDict =>
      match v with
      | VDict k _ kvs =>
          rmap (VDict k false)
               (seqR (map (fun kv => bind (dump (fst kv)) (fun k' =>
                                     bind (dump (snd kv)) (fun v' => Ok (k', v')))) kvs))
      | _ => unmod "dump_with_dict"
      end
  | HDefaultDict =>
      match v with
      | VDict _ _ kvs =>
          rmap (VDict DDict false)
               (seqR (map (fun kv => bind (dump (fst kv)) (fun k' =>
                                     bind (dump (snd kv)) (fun v' => Ok (k', v')))) kvs))
      | _ => unmod "dump_with_defaultdict"
      end
  | HStr | HIso | HDefaultStr =>
      match v with VTok t => Ok (VStr (tk_str t)) | _ => unmod "str()" end
  | HIsoZ =>
      match v with
      | VTok t => Ok (VStr (iso_z (tk_str t)))
      | _ => unmod "dump_with_datetime"
      end
  | HTimestamp => match v with VTok t => Ok (VInt (tk_num t)) | _ => unmod "timestamp" end
  | HData =>
      match v with
      | VInst c xs =>
          rmap (fun items => VDict DDict false (add_tag c items))
               (field_items (c_fields c) (map dump xs))
      | _ => unmod "cls_asdict"
      end
  | HUnknown n => Err (EUnmodelled n)
  end.

(* ---- reference encoder: the documented wire encoding --------------------
   docs/overview.rst "Supported Types" + property C03: Enum -> value, UUID -> hex,
   Decimal/Path -> str, date/time/datetime -> ISO-8601 with a trailing +00:00
   written as Z, or epoch seconds under TIMESTAMP, timedelta -> str(),
   bytes -> base64 text, set/frozenset/deque -> list, list/tuple/namedtuple keep
   their type, defaultdict -> plain dict, other mappings keep theirs, nested
   dataclass -> dict under the configured keys (+ tag). *)
Fixpoint ends_with_off (s : pstr) : bool :=
  match s with
  | [] => false
  | _ :: r => pstr_eqb s utc_off || ends_with_off r
  end.
Definition ref_z (s : pstr) : pstr :=
  if ends_with_off s then firstn (List.length s - 6) s ++ z_suffix else s.

Definition ref_tok (t : tok) : pv :=
  match tk_kind t with
  | KUUID => VStr (tk_aux t)
  | KDecimal | KPath | KTimedelta => VStr (tk_str t)
  | KDate => match d_dt cfg with DtIso => VStr (tk_str t) | DtTimestamp => VInt (tk_num t) end
  | KDateTime => match d_dt cfg with DtIso => VStr (ref_z (tk_str t)) | DtTimestamp => VInt (tk_num t) end
  | KTime => VStr (ref_z (tk_str t))
  end.

Fixpoint ref_encode (v : pv) {struct v} : res pv :=
  match v with
  | VNone | VBool _ | VInt _ | VFloat _ | VStr _ => Ok v
  | VBytes _ _ b64 => Ok (VStr b64)
  | VSeq k _ xs =>
      rmap (VSeq (match k with STuple => STuple | _ => SList end) false) (seqR (map ref_encode xs))
  | VDict k _ kvs =>
      rmap (VDict (match k with DDefault => DDict | _ => k end) false)
           (seqR (map (fun kv => bind (ref_encode (fst kv)) (fun k' =>
                                 bind (ref_encode (snd kv)) (fun v' => Ok (k', v')))) kvs))
  | VEnum _ _ x => Ok x
  | VTok t => Ok (ref_tok t)
  | VNT n xs => rmap (VNT n) (seqR (map ref_encode xs))
  | VInst c xs =>
      rmap (fun items => VDict DDict false (add_tag c items))
           (field_items (c_fields c) (map ref_encode xs))
  end.

End Dump.
