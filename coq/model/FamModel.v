(* FamModel.v — the CONFIGURATION PLANE of dataclass-wizard (default engine) as a state machine over a
   HEAP OF META OBJECTS (property C07, second model; the table model StateModel.v stays as it is).

   What StateModel.v leaves out and this file models:
     * Meta classes are OBJECTS with an identity: `_META : class -> address`, `heap : address -> settings`.
       `LoadMeta(..)` / `DumpMeta(..)` / an inner `class _(JSONWizard.Meta)` ALLOCATE an object
       (`alloc`, a parameter of the model: today every call creates a new class, see `fresh_alloc`);
       `bind_to` stores the address or merges IN PLACE into the object already stored (`_META[cls] &= m`).
       The cascaded `config` handed to nested classes is the root's Meta object itself (an address);
       a RecursionSafeParser keeps that reference and dereferences it when it is first called.
     * `Meta.recursive_classes`: every nested dataclass field gets a RecursionSafeParser whose load function
       is generated lazily, at the first call, under the config the parser captured (parsers.py:78-112).
     * Loader / dumper CLASSES: CLASS_TO_LOADER / CLASS_TO_DUMPER are create-on-miss tables; the entry of
       class N is N itself when N subclasses LoadMixin / DumpMixin (its overridden load_to_* / dump_with_*
       methods are then the hooks of N's own fields), else a new subclass of the `base_cls` the caller
       passes (loader_selection.py:67-110, dumpers.py:189-213).
     * every configuration entry point: inner Meta (through META_INITIALIZER, keyed by QUALNAME),
       LoadMeta / DumpMeta bindings in any order and any repetition (also after first use),
       JSONPyWizard (binds DumpMeta(key_transform='NONE') before the inner Meta is merged into it).
   Kept from StateModel.v: documents, values, errors, outcomes, `meta` (five settings), key resolution
   (`resolve_pure`), leaf conversions.  NOT modelled here (StateModel.v has them): inheritance between user
   classes, the per-class key caches (JSON key -> field; the correspondence harness uses every non-exact key
   spelling at most once per class), the type-keyed dump hook cache.
   The state is accessed only through the seven primitives of the monad `M` below.  No proofs in this file. *)
From DW Require Import PyStr StrConv StateModel StatePure.

(* ---------------------------------------------------------------- Meta objects *)
Definition addr := (cid * nat)%type.      (* (c, k): the k-th Meta object created on behalf of class c *)
Definition addr_eqb (a b : addr) : bool := Nat.eqb (fst a) (fst b) && Nat.eqb (snd a) (snd b).

Record fmeta := { fm : meta;                 (* the five settings of StateModel.meta *)
                  fm_rc : option bool }.     (* recursive_classes *)
Definition fmeta0 : fmeta := {| fm := meta0; fm_rc := None |}.
Definition fmeta_or (a b : fmeta) : fmeta :=        (* a | b : a new class *)
  {| fm := meta_or (fm a) (fm b); fm_rc := first_some (fm_rc a) (fm_rc b) |}.
Definition fmeta_and (a b : fmeta) : fmeta :=       (* a &= b : in place *)
  {| fm := meta_and (fm a) (fm b); fm_rc := first_some (fm_rc b) (fm_rc a) |}.
Definition rc_of (m : fmeta) : bool := match fm_rc m with Some b => b | None => false end.
Definition opt_fmeta (o : option fmeta) : fmeta := match o with Some m => m | None => fmeta0 end.
Definition fmeta_eqb (a b : fmeta) : bool := meta_eqb (fm a) (fm b) && opt_eqb Bool.eqb (fm_rc a) (fm_rc b).

(* ---------------------------------------------------------------- declarations (static program text) *)
Inductive wkind := KPlain | KWiz | KPyWiz.      (* @dataclass / (JSONWizard) / (JSONPyWizard) *)
(* overridden hook methods of a class that subclasses LoadMixin (load_to_int: value * k, load_to_str:
   prefix + value) or DumpMixin (dump_with_int: value + k, dump_with_str: value + suffix) *)
Record hooks := { hk_int : option Z; hk_str : option pstr }.
Record finfo := { fi_id : cid; fi_qn : nat; fi_kind : wkind; fi_inner : option fmeta;
                  fi_lmix : option hooks; fi_dmix : option hooks }.
Inductive fdecl := FDecl (info : finfo) (fields : list (pstr * fty fdecl * option dval)).
Definition fd_info (d : fdecl) := match d with FDecl i _ => i end.
Definition fd_fields (d : fdecl) := match d with FDecl _ f => f end.
Definition fd_id (d : fdecl) : cid := fi_id (fd_info d).
Definition fd_names (d : fdecl) : list pstr := map (fun x => fst (fst x)) (fd_fields d).
Definition fd_defaults (d : fdecl) : list (pstr * dval) :=
  flat_map (fun x => match snd x with Some v => [(fst (fst x), v)] | None => [] end) (fd_fields d).

Definition denv := list fdecl.
Definition lookD (env : denv) (c : cid) : option fdecl := find (fun d => Nat.eqb (fd_id d) c) env.

(* ---------------------------------------------------------------- state *)
Definition lbase := option cid.      (* whose hook methods: None = the library's LoadMixin / DumpMixin; Some f = user class f *)
Record lcls := { lc_base : lbase; lc_ltr : option tr }.      (* CLASS_TO_LOADER[c]: a class object *)
Record dcls := { dc_base : lbase; dc_dtr : option tr }.      (* CLASS_TO_DUMPER[c] *)
Inductive fparser :=
| QInt (b : lbase) | QStr (b : lbase)
| QNest (f : lfn)                                           (* generated function of the nested class *)
| QRec (d : fdecl) (cfg : option addr) (hook : option lfn). (* RecursionSafeParser: captured config, lazily set hook *)
Record fdfn := { g_cls : cid; g_tr : tr; g_skipdef : bool; g_base : lbase; g_cfg : option addr }.

Record fcls := {
  fc_defined : bool;
  fc_meta : option addr;                          (* _META[c] *)
  fc_nobj : nat;                                  (* Meta objects created for c so far *)
  fc_loader : option lcls;
  fc_dumper : option dcls;
  fc_parsers : option (list (pstr * fparser));    (* FIELD_NAME_TO_LOAD_PARSER[c] *)
  fc_loadfn : option lfn;                         (* CLASS_TO_LOAD_FUNC[c] *)
  fc_alias : option tr;                           (* DATACLASS_FIELD_TO_ALIAS[c] was filled under this transform *)
  fc_dumpfn : option fdfn;                        (* CLASS_TO_DUMP_FUNC[c] *)
  fc_nested : list (cid * fdfn) }.                (* nested_cls_to_dump_func of c's dump function *)
Definition fc0 : fcls := Build_fcls false None 0 None None None None None None [].

Record fstate := { fs_cls : cid -> fcls; fs_heap : addr -> option fmeta; fs_minit : nat -> option addr }.
Definition finit : fstate := {| fs_cls := fun _ => fc0; fs_heap := fun _ => None; fs_minit := fun _ => None |}.

Definition v_defined v (x : fcls) := Build_fcls v (fc_meta x) (fc_nobj x) (fc_loader x) (fc_dumper x) (fc_parsers x) (fc_loadfn x) (fc_alias x) (fc_dumpfn x) (fc_nested x).
Definition v_meta v (x : fcls) := Build_fcls (fc_defined x) v (fc_nobj x) (fc_loader x) (fc_dumper x) (fc_parsers x) (fc_loadfn x) (fc_alias x) (fc_dumpfn x) (fc_nested x).
Definition v_nobj v (x : fcls) := Build_fcls (fc_defined x) (fc_meta x) v (fc_loader x) (fc_dumper x) (fc_parsers x) (fc_loadfn x) (fc_alias x) (fc_dumpfn x) (fc_nested x).
Definition v_loader v (x : fcls) := Build_fcls (fc_defined x) (fc_meta x) (fc_nobj x) v (fc_dumper x) (fc_parsers x) (fc_loadfn x) (fc_alias x) (fc_dumpfn x) (fc_nested x).
Definition v_dumper v (x : fcls) := Build_fcls (fc_defined x) (fc_meta x) (fc_nobj x) (fc_loader x) v (fc_parsers x) (fc_loadfn x) (fc_alias x) (fc_dumpfn x) (fc_nested x).
Definition v_parsers v (x : fcls) := Build_fcls (fc_defined x) (fc_meta x) (fc_nobj x) (fc_loader x) (fc_dumper x) v (fc_loadfn x) (fc_alias x) (fc_dumpfn x) (fc_nested x).
Definition v_loadfn v (x : fcls) := Build_fcls (fc_defined x) (fc_meta x) (fc_nobj x) (fc_loader x) (fc_dumper x) (fc_parsers x) v (fc_alias x) (fc_dumpfn x) (fc_nested x).
Definition v_alias v (x : fcls) := Build_fcls (fc_defined x) (fc_meta x) (fc_nobj x) (fc_loader x) (fc_dumper x) (fc_parsers x) (fc_loadfn x) v (fc_dumpfn x) (fc_nested x).
Definition v_dumpfn v (x : fcls) := Build_fcls (fc_defined x) (fc_meta x) (fc_nobj x) (fc_loader x) (fc_dumper x) (fc_parsers x) (fc_loadfn x) (fc_alias x) v (fc_nested x).
Definition v_nested v (x : fcls) := Build_fcls (fc_defined x) (fc_meta x) (fc_nobj x) (fc_loader x) (fc_dumper x) (fc_parsers x) (fc_loadfn x) (fc_alias x) (fc_dumpfn x) v.

(* ---------------------------------------------------------------- the state monad and its seven primitives *)
Definition M (A : Type) : Type := fstate -> fstate * A.
Definition ret {A} (a : A) : M A := fun s => (s, a).
Definition bind {A B} (m : M A) (k : A -> M B) : M B := fun s => let (s', a) := m s in k a s'.
Notation "x <- m ;; k" := (bind m (fun x => k)) (at level 61, m at next level, right associativity).
Notation "m ;;; k" := (bind m (fun _ => k)) (at level 61, right associativity).

Definition getC (c : cid) : M fcls := fun s => (s, fs_cls s c).
Definition modC (c : cid) (f : fcls -> fcls) : M unit :=
  fun s => ({| fs_cls := fun c' => if Nat.eqb c' c then f (fs_cls s c') else fs_cls s c';
               fs_heap := fs_heap s; fs_minit := fs_minit s |}, tt).
Definition getH (a : addr) : M (option fmeta) := fun s => (s, fs_heap s a).
Definition putH (a : addr) (m : fmeta) : M unit :=
  fun s => ({| fs_cls := fs_cls s; fs_heap := fun a' => if addr_eqb a' a then Some m else fs_heap s a';
               fs_minit := fs_minit s |}, tt).
Definition getQ (q : nat) : M (option addr) := fun s => (s, fs_minit s q).
Definition putQ (q : nat) (a : addr) : M unit :=
  fun s => ({| fs_cls := fs_cls s; fs_heap := fs_heap s;
               fs_minit := fun q' => if Nat.eqb q' q then Some a else fs_minit s q' |}, tt).
(* the allocation policy: which object LoadMeta(..) / DumpMeta(..) / an inner Meta class statement hands out *)
Definition allocator := fstate -> cid -> fmeta -> addr.
Definition askA (al : allocator) (c : cid) (m : fmeta) : M addr := fun s => (s, al s c m).

(* today's tree: every call builds a new class (bases_meta.py:297-352, `type('Meta', ...)`) *)
Definition fresh_alloc : allocator := fun s c _ => (c, fc_nobj (fs_cls s c)).

(* ---------------------------------------------------------------- hooks *)
Definition hooks0 : hooks := {| hk_int := None; hk_str := None |}.
Definition opt_hooks (o : option hooks) : hooks := match o with Some h => h | None => hooks0 end.

(* str(o) for the document values *)
Definition py_str (v : jv) : option pstr :=
  match v with JStr s => Some s | JInt z => Some (dec z) | JNull => Some (S "None") | JDict _ => None end.

(* load_to_int overridden as `base_type(o) * k` *)
Definition conv_int_k (k : Z) (v : jv) : res iv :=
  match v with
  | JInt z => Ok (VInt (z * k))
  | JStr s => if is_digit_str s then Ok (VInt (digits_val s * k)) else Er EValue
  | _ => Er EModel
  end.
Definition conv_str_p (p : pstr) (v : jv) : res iv :=
  match py_str v with Some s => Ok (VStr (p ++ s)) | None => Er EModel end.

Section WithEnv.
Variable env : denv.
Variable al : allocator.
Definition D (c : cid) : option fdecl := lookD env c.

Definition mix_of (sel : finfo -> option hooks) (b : lbase) : hooks :=
  match b with
  | None => hooks0
  | Some f => match D f with Some d => opt_hooks (sel (fd_info d)) | None => hooks0 end
  end.
Definition load_int (b : lbase) (v : jv) : res iv :=
  match hk_int (mix_of fi_lmix b) with Some k => conv_int_k k v | None => conv_int v end.
Definition load_str (b : lbase) (v : jv) : res iv :=
  match hk_str (mix_of fi_lmix b) with Some p => conv_str_p p v | None => conv_str v end.
Definition dump_int (b : lbase) (z : Z) : jv :=
  match hk_int (mix_of fi_dmix b) with Some k => JInt (z + k) | None => JInt z end.
Definition dump_str (b : lbase) (s : pstr) : jv :=
  match hk_str (mix_of fi_dmix b) with Some p => JStr (s ++ p) | None => JStr s end.

(* the class is its own loader / dumper when it subclasses the mixin *)
Definition self_base (sel : finfo -> option hooks) (c : cid) : lbase :=
  match D c with
  | Some d => match sel (fd_info d) with Some _ => Some c | None => None end
  | None => None
  end.

(* get_loader(cls, base_cls=base) *)
Definition get_loader (n : cid) (base : lbase) : M lcls :=
  x <- getC n ;;
  match fc_loader x with
  | Some l => ret l
  | None =>
      let l := {| lc_base := match self_base fi_lmix n with Some b => Some b | None => base end; lc_ltr := None |} in
      modC n (v_loader (Some l)) ;;; ret l
  end.
(* get_dumper(cls): no base parameter *)
Definition get_dumper (n : cid) : M dcls :=
  x <- getC n ;;
  match fc_dumper x with
  | Some l => ret l
  | None =>
      let l := {| dc_base := self_base fi_dmix n; dc_dtr := None |} in
      modC n (v_dumper (Some l)) ;;; ret l
  end.

(* get_meta(cls) *)
Definition own_meta (n : cid) : M (option fmeta) :=
  x <- getC n ;; match fc_meta x with Some a => getH a | None => ret None end.
Definition deref (cfg : option addr) : M (option fmeta) :=
  match cfg with Some a => getH a | None => ret None end.

(* Meta.bind_to(cls, is_default=False): the loader / dumper attributes *)
Definition bind_attrs (n : cid) (m : fmeta) : M unit :=
  l <- get_loader n None ;;
  d <- get_dumper n ;;
  modC n (fun x => v_dumper (Some {| dc_base := dc_base d; dc_dtr := first_some (m_dtr (fm m)) (dc_dtr d) |})
                     (v_loader (Some {| lc_base := lc_base l; lc_ltr := first_some (m_ltr (fm m)) (lc_ltr l) |}) x)).

(* `if meta.recursive and meta is not AbstractMeta: config = meta` : the OBJECT is handed down *)
Definition cfg_main (n : cid) : M (option addr) :=
  x <- getC n ;;
  match fc_meta x with
  | Some a => h <- getH a ;; ret (match h with Some m => if rec_of (fm m) then Some a else None | None => None end)
  | None => ret None
  end.

(* `meta = get_meta(cls) | config` for a nested class *)
Definition merged (own : option fmeta) (g : option fmeta) : fmeta :=
  match g with
  | None => opt_fmeta own
  | Some gm => match own with Some o => fmeta_or o gm | None => gm end
  end.

Definition mk_lfn (n : cid) (m : fmeta) : M lfn :=
  x <- getC n ;;
  ret {| l_cls := n; l_tr := match fc_loader x with Some l => lc_ltr l | None => None end; l_raise := raise_of (fm m) |}.

(* building FIELD_NAME_TO_LOAD_PARSER[cls] *)
Section BuildParsers.
Variable rec : fdecl -> M lfn.
Variable b : lbase.
Variable rc : bool.
Variable cfg : option addr.
Fixpoint build_parsers (fs : list (pstr * fty fdecl * option dval)) {struct fs} : M (list (pstr * fparser)) :=
  match fs with
  | [] => ret []
  | f :: r =>
      p <- match snd (fst f) with
           | TInt => ret (QInt b)
           | TStr => ret (QStr b)
           | TNested dm => if rc then ret (QRec dm cfg None) else (g <- rec dm ;; ret (QNest g))
           end ;;
      ps <- build_parsers r ;;
      ret ((fst (fst f), p) :: ps)
  end.
End BuildParsers.

(* `AbstractMeta.recursive_classes or (config and config.recursive_classes)` *)
Definition rc_on (cfg : option addr) : M bool :=
  g <- deref cfg ;; ret (match g with Some m => rc_of m | None => false end).

(* load_func_for_dataclass(cls, is_main_class=False, config=cfg)  (loaders.py:545-799) *)
Fixpoint gen_nested (cfg : option addr) (d : fdecl) {struct d} : M lfn :=
  match d with
  | FDecl info fields =>
      let n := fi_id info in
      l <- get_loader n None ;;
      own <- own_meta n ;;
      g <- deref cfg ;;
      let m := merged own g in
      (match g with Some _ => bind_attrs n m | None => ret tt end) ;;;
      x <- getC n ;;
      (match fc_parsers x with
       | Some _ => ret tt
       | None =>
           rc <- rc_on cfg ;;
           ps <- build_parsers (fun dm => gen_nested cfg dm) (lc_base l) rc cfg fields ;;
           modC n (v_parsers (Some ps))
       end) ;;;
      mk_lfn n m
  end.

(* load_func_for_dataclass(cls) for the main class *)
Definition gen_main (d : fdecl) : M lfn :=
  let n := fd_id d in
  l <- get_loader n None ;;
  own <- own_meta n ;;
  cfg <- cfg_main n ;;
  x <- getC n ;;
  (match fc_parsers x with
   | Some _ => ret tt
   | None =>
       rc <- rc_on cfg ;;
       ps <- build_parsers (fun dm => gen_nested cfg dm) (lc_base l) rc cfg (fd_fields d) ;;
       modC n (v_parsers (Some ps))
   end) ;;;
  f <- mk_lfn n (opt_fmeta own) ;;
  modC n (v_loadfn (Some f)) ;;;
  ret f.

(* the constructor call *)
Fixpoint fbuild_fields (fs : list (pstr * fty fdecl * option dval)) (kw : list (pstr * iv))
  : list (pstr * iv) * list pstr :=
  match fs with
  | [] => ([], [])
  | (x, _, dv) :: r =>
      let (vals, miss) := fbuild_fields r kw in
      match assoc_s x kw with
      | Some v => ((x, v) :: vals, miss)
      | None => match dv with
                | Some (DInt z) => ((x, VInt z) :: vals, miss)
                | Some (DStr t) => ((x, VStr t) :: vals, miss)
                | None => (vals, x :: miss)
                end
      end
  end.
Definition fconstruct (d : fdecl) (kw : list (pstr * iv)) : res iv :=
  let (vals, miss) := fbuild_fields (fd_fields d) kw in
  match miss with [] => Ok (VInst (fd_id d) vals) | _ => Er (EMissingFields (fd_id d) miss) end.

Fixpoint set_parser (x : pstr) (p : fparser) (ps : list (pstr * fparser)) : list (pstr * fparser) :=
  match ps with
  | [] => []
  | (y, q) :: r => if pstr_eqb x y then (y, p) :: r else (y, q) :: set_parser x p r
  end.

(* the `for json_key in o` loop of a generated cls_fromdict *)
Section LoadLoop.
Variable rec : lfn -> jv -> M (res iv).
Variable f : lfn.
Variable names : list pstr.
Fixpoint load_loop (kv : list (pstr * jv)) (kw : list (pstr * iv)) {struct kv} : M (res (list (pstr * iv))) :=
  match kv with
  | [] => ret (Ok kw)
  | (k, v) :: rest =>
      match resolve_pure names (l_tr f) k with
      | RIndex => ret (Er EIndex)
      | RUnknown => if l_raise f then ret (Er (EUnknownKey (l_cls f) k)) else load_loop rest kw
      | RField x =>
          cx <- getC (l_cls f) ;;
          match fc_parsers cx with
          | None => ret (Er EModel)
          | Some ps =>
              match assoc_s x ps with
              | None => ret (Er EModel)
              | Some p =>
                  r <- match p with
                       | QInt b => ret (load_int b v)
                       | QStr b => ret (load_str b v)
                       | QNest g => r0 <- rec g v ;; ret (attribute (l_cls f) x r0)
                       | QRec dm cfg (Some g) => r0 <- rec g v ;; ret (attribute (l_cls f) x r0)
                       | QRec dm cfg None =>
                           (* first call of the RecursionSafeParser: generate under the captured config *)
                           g <- gen_nested cfg dm ;;
                           modC (l_cls f) (fun y => v_parsers (option_map (set_parser x (QRec dm cfg (Some g))) (fc_parsers y)) y) ;;;
                           r0 <- rec g v ;; ret (attribute (l_cls f) x r0)
                       end ;;
                  match r with
                  | Er e => ret (Er e)
                  | Ok w => load_loop rest (set_assoc_s x w kw)
                  end
              end
          end
      end
  end.
End LoadLoop.

Fixpoint exec (f : lfn) (doc : jv) {struct doc} : M (res iv) :=
  match doc with
  | JNull => ret (Er ERawNone)
  | JInt _ => ret (Er ERawType)
  | JStr _ => ret (Er EModel)
  | JDict kv =>
      match D (l_cls f) with
      | None => ret (Er EModel)
      | Some d =>
          r <- load_loop (fun g v => exec g v) f (fd_names d) kv [] ;;
          ret (match r with Er e => Er e | Ok kw => fconstruct d kw end)
      end
  end.

Definition step_load (c : cid) (doc : list (pstr * jv)) : M outcome :=
  x <- getC c ;;
  match D c with
  | Some d =>
      if fc_defined x then
        f <- match fc_loadfn x with Some f => ret f | None => gen_main d end ;;
        r <- exec f (JDict doc) ;;
        ret (out_of_iv r)
      else ret (OErr EModel)
  | None => ret (OErr EModel)
  end.

(* ---------------------------------------------------------------- dump *)
(* dump_func_for_dataclass (dumpers.py:263-523): root = None for the main class *)
Definition gen_dump (d : fdecl) (cfg : option addr) (root : option cid) : M (res fdfn) :=
  let n := fd_id d in
  _ <- get_dumper n ;;
  own <- own_meta n ;;
  mc <- match root with
        | None => c <- cfg_main n ;; ret (opt_fmeta own, c)
        | Some _ =>
            g <- deref cfg ;;
            match g with
            | Some _ => let m := merged own g in bind_attrs n m ;;; ret (m, cfg)
            | None => ret (opt_fmeta own, cfg)
            end
        end ;;
  dm <- get_dumper n ;;
  x <- getC n ;;
  t <- match fc_alias x with
       | Some t => ret t
       | None => let t := tr_dump (dc_dtr dm) in modC n (v_alias (Some t)) ;;; ret t
       end ;;
  match keys_of t (fd_names d) with
  | None => ret (Er EIndex)
  | Some _ =>
      let g := {| g_cls := n; g_tr := t; g_skipdef := skip_of (fm (fst mc)); g_base := dc_base dm; g_cfg := snd mc |} in
      match root with
      | None => modC n (v_dumpfn (Some g))
      | Some r => modC r (fun y => v_nested ((n, g) :: fc_nested y) y)
      end ;;;
      ret (Ok g)
  end.

(* a field value waiting for (root, hooks of the enclosing function, config) *)
Definition fclosure := cid -> lbase -> option addr -> M (res jv).

Fixpoint run_fdfn (skip : bool) (defaults : list (pstr * dval)) (root : cid) (b : lbase) (cfg : option addr)
         (cl : list (pstr * fclosure)) (vals : list (pstr * iv)) (keys : list (pstr * pstr)) {struct keys}
  : M (res (list (pstr * jv))) :=
  match keys with
  | [] => ret (Ok [])
  | (x, k) :: rest =>
      match assoc_s x cl, assoc_s x vals with
      | Some c, Some v =>
          if skip && match assoc_s x defaults with Some dv => val_eq_default v dv | None => false end
          then run_fdfn skip defaults root b cfg cl vals rest
          else
            r <- c root b cfg ;;
            match r with
            | Er e => ret (Er e)
            | Ok j =>
                rr <- run_fdfn skip defaults root b cfg cl vals rest ;;
                ret (match rr with Er e => Er e | Ok js => Ok ((k, j) :: js) end)
            end
      | _, _ => ret (Er EAttr)
      end
  end.

Definition call_fdfn (g : fdfn) (root : cid) (cl : list (pstr * fclosure)) (vals : list (pstr * iv)) : M (res jv) :=
  match D (g_cls g) with
  | None => ret (Er EModel)
  | Some d =>
      match keys_of (g_tr g) (fd_names d) with
      | None => ret (Er EIndex)
      | Some ks =>
          r <- run_fdfn (g_skipdef g) (fd_defaults d) root (g_base g) (g_cfg g) cl vals ks ;;
          ret (match r with Ok js => Ok (JDict js) | Er e => Er e end)
      end
  end.

(* _asdict_inner (dumpers.py:531-576) *)
Fixpoint fdumpv (v : iv) {struct v} : fclosure :=
  match v with
  | VNone => fun _ _ _ => ret (Ok JNull)
  | VInt z => fun _ b _ => ret (Ok (dump_int b z))
  | VStr t => fun _ b _ => ret (Ok (dump_str b t))
  | VSub _ _ => fun _ _ _ => ret (Er EModel)
  | VInst m fs =>
      let cl := map (fun p => (fst p, fdumpv (snd p))) fs in
      fun root _ cfg =>
        r <- getC root ;;
        match assoc_n m (fc_nested r) with
        | Some g => call_fdfn g root cl fs
        | None =>
            match D m with
            | None => ret (Er EModel)
            | Some dm =>
                rg <- gen_dump dm cfg (Some root) ;;
                match rg with
                | Er e => ret (Er e)
                | Ok g => call_fdfn g root cl fs
                end
            end
        end
  end.
Definition fclosures (fs : list (pstr * iv)) : list (pstr * fclosure) := map (fun p => (fst p, fdumpv (snd p))) fs.

Definition step_dump (v : iv) : M outcome :=
  match v with
  | VInst c fs =>
      x <- getC c ;;
      match D c with
      | Some d =>
          if fc_defined x then
            rg <- match fc_dumpfn x with Some g => ret (Ok g) | None => gen_dump d None None end ;;
            match rg with
            | Er e => ret (OErr e)
            | Ok g => r <- call_fdfn g c (fclosures fs) fs ;; ret (out_of_jv r)
            end
          else ret (OErr EModel)
      | None => ret (OErr EModel)
      end
  | _ => ret (OErr EModel)
  end.

(* ---------------------------------------------------------------- class statements and Meta binding *)
(* a Meta class object comes into being for class c *)
Definition new_meta (c : cid) (m : fmeta) : M addr :=
  a <- askA al c m ;;
  putH a m ;;;
  modC c (fun x => v_nobj (Datatypes.S (fc_nobj x)) x) ;;;
  ret a.

(* Meta.bind_to(cls)  (is_default=True), the Meta class object being at address a  (bases_meta.py:124-221) *)
Definition bind_default (n : cid) (a : addr) : M unit :=
  h <- getH a ;;
  match h with
  | None => ret tt
  | Some x =>
      bind_attrs n x ;;;
      c <- getC n ;;
      match fc_meta c with
      | Some a0 =>
          old <- getH a0 ;;
          match old with
          | Some o => putH a0 (fmeta_and o x)        (* _META[cls] &= x : IN PLACE *)
          | None => ret tt
          end
      | None => modC n (v_meta (Some a))
      end
  end.

(* LoadMeta(kw).bind_to(cls) / DumpMeta(kw).bind_to(cls) *)
Definition step_bind (c : cid) (m : fmeta) : M outcome :=
  x <- getC c ;;
  match D c with
  | Some _ =>
      if fc_defined x then a <- new_meta c m ;; bind_default c a ;;; ret ODone
      else ret (OErr EModel)
  | None => ret (OErr EModel)
  end.

Definition dump_none_meta : fmeta :=
  {| fm := Build_meta None (Some TrNone) None None None; fm_rc := None |}.

(* the class statement of c *)
Definition step_define (c : cid) : M outcome :=
  x <- getC c ;;
  match D c with
  | None => ret (OErr EModel)
  | Some d =>
      let info := fd_info d in
      if fc_defined x then ret (OErr EModel)
      else
        match fi_kind info with
        | KPlain =>
            match fi_inner info with
            | Some _ => ret (OErr EModel)
            | None => modC c (v_defined true) ;;; ret ODone
            end
        | k =>
            modC c (v_defined true) ;;;
            (* the inner Meta's class body runs first: the object exists and its bind_to is registered
               under the QUALNAME of the outer class (bases_meta.py:84-104) *)
            (match fi_inner info with
             | Some m => a <- new_meta c m ;; putQ (fi_qn info) a
             | None => ret tt
             end) ;;;
            (* JSONPyWizard: DumpMeta(key_transform='NONE').bind_to(cls) comes before the initialiser *)
            (match k with
             | KPyWiz => a <- new_meta c dump_none_meta ;; bind_default c a
             | _ => ret tt
             end) ;;;
            (* call_meta_initializer_if_needed *)
            r <- getQ (fi_qn info) ;;
            (match r with Some a => bind_default c a | None => ret tt end) ;;;
            ret ODone
        end
  end.

(* ---------------------------------------------------------------- operations *)
Inductive fop :=
| FDefine (c : cid)                          (* the class statement of D c *)
| FBind (c : cid) (m : fmeta)                (* LoadMeta(..).bind_to(c) / DumpMeta(..).bind_to(c) *)
| FLoad (c : cid) (doc : list (pstr * jv))   (* fromdict(c, doc) *)
| FDump (v : iv).                            (* asdict(v) *)

Definition fstep (o : fop) : M outcome :=
  match o with
  | FDefine c => step_define c
  | FBind c m => step_bind c m
  | FLoad c doc => step_load c doc
  | FDump v => step_dump v
  end.

Fixpoint frun_out (s : fstate) (h : list fop) : list outcome :=
  match h with
  | [] => []
  | o :: r => let (s', x) := fstep o s in x :: frun_out s' r
  end.
Definition frun (s : fstate) (h : list fop) : fstate := fold_left (fun s o => fst (fstep o s)) h s.

End WithEnv.

(* ---------------------------------------------------------------- class families *)
Definition fop_class (o : fop) : option cid :=
  match o with
  | FDefine c => Some c
  | FBind c _ => Some c
  | FLoad c _ => Some c
  | FDump (VInst c _) => Some c
  | FDump _ => None
  end.
Definition fop_in (inG : cid -> bool) (o : fop) : bool :=
  match fop_class o with Some c => inG c | None => false end.
Definition fproj (inG : cid -> bool) (h : list fop) : list fop := filter (fop_in inG) h.
Fixpoint fouts_in (inG : cid -> bool) (h : list fop) (outs : list outcome) : list outcome :=
  match h, outs with
  | o :: h', x :: outs' => if fop_in inG o then x :: fouts_in inG h' outs' else fouts_in inG h' outs'
  | _, _ => []
  end.

(* nested declarations at any depth *)
Fixpoint fsubtrees (d : fdecl) : list fdecl :=
  match d with
  | FDecl _ fs =>
      (fix go (l : list (pstr * fty fdecl * option dval)) : list fdecl :=
         match l with
         | [] => []
         | (_, TNested dm, _) :: r => dm :: fsubtrees dm ++ go r
         | _ :: r => go r
         end) fs
  end.

Definition bool_eqb (a b : bool) : bool := Bool.eqb a b.

(* STATIC SEPARATION of the program text with respect to a family G:
   every declaration is stored under its own id; the classes nested in a class are on its side of the border;
   two JSONWizard classes with the same qualname are on the same side *)
Definition sep_env (inG : cid -> bool) (env : denv) : bool :=
  forallb (fun d =>
    forallb (fun dm => bool_eqb (inG (fd_id dm)) (inG (fd_id d))) (fsubtrees d) &&
    forallb (fun d' => negb (Nat.eqb (fi_qn (fd_info d)) (fi_qn (fd_info d'))) || bool_eqb (inG (fd_id d)) (inG (fd_id d'))) env) env.

(* the instances inside a dumped value are on the side of the value's class *)
Definition closed_op (inG : cid -> bool) (o : fop) : bool :=
  match o with
  | FDump (VInst c fs) => forallb (fun m => bool_eqb (inG m) (inG c)) (field_inst_ids fs)
  | _ => true
  end.
Definition closed_hist (inG : cid -> bool) (h : list fop) : bool := forallb (closed_op inG) h.

(* ---------------------------------------------------------------- an allocation policy that SHARES objects *)
(* LoadMeta(..) memoised by settings (what seeded change C07-9 does): the first object in the (bounded)
   address space that holds equal settings is handed out again *)
Definition addr_space : list addr :=
  flat_map (fun c => map (fun k => (c, k)) (seq 0 4)) (seq 0 12).
Definition memo_alloc : allocator :=
  fun s c m =>
    match find (fun a => match fs_heap s a with Some m' => fmeta_eqb m' m | None => false end) addr_space with
    | Some a => a
    | None => fresh_alloc s c m
    end.
