(* V1Annot.v — the ANNOTATION-RESOLUTION FRONT END of the v1 generator (C02).

   What a dataclass field / NamedTuple field / TypedDict key / alias value holds after class
   definition is a SURFACE annotation: class and alias OBJECTS, generics over them, the wrappers
   `Annotated[T, ...]`, `Required / NotRequired / ReadOnly[T]`, `type X = ...` aliases
   (TypeAliasType objects), and STRINGS / ForwardRefs whose text still has to be evaluated in some
   module namespace.  The core grammar `ty` of V1Base.v is what is left once all of that is gone.

   Transcribed here:
   * `ev`       typing._eval_type as used by utils/typing_compat.py:215-245 (eval_forward_ref /
                eval_forward_ref_if_needed): a string is evaluated DEEPLY, every name looked up in
                the globals of ONE module: the module the ForwardRef is pinned to
                (TypedDict keys: ForwardRef(..., module=...)) or else `extras['cls'].__module__`;
   * `head_res`     the front of LoadMixin.get_string_for_annotation (v1/loaders.py:716-760): evaluate
                a top-level string; strip ONE `Annotated` or else ONE qualifier; then resolve ONE
                alias (looking through an Annotated, whose `__origin__` is its argument); then
                dispatch on the origin.  It is a single pass: nothing is evaluated / stripped /
                resolved a second time;
   * `resolve`  the recursion through the load_to_* hooks (every type argument, NamedTuple field and
                TypedDict key goes through get_string_for_annotation again with the SAME extras);
   * `walk`     load_func_for_dataclass + load_to_dataclass + the recursion guard: entering a nested
                dataclass works on a COPY of extras in which extras['cls'] is switched to the nested
                class (v1/loaders.py:1036, decorators.py:172), so its strings are evaluated in ITS
                module; NamedTuple / TypedDict / Union helpers keep the enclosing dataclass.
   `denotes` is the reference semantics (what the annotation means, whatever the nesting order of the
   wrappers and whichever module is current).  No proofs in this file. *)
From DW Require Import PyStr V1Base V1Gen V1Errors V1Eval V1Show.
From Coq Require Import ZArith List Bool.
Import ListNotations.

Inductive qual := QRequired | QNotRequired | QReadOnly.

(* objects an annotation can refer to: by index into the tables of the environment *)
Inductive ref := RData (c : nat) | RNamed (i : nat) | RTyped (i : nat) | RAlias (i : nat).

Inductive sann :=
| SLeaf (l : leaf)                         (* int, str, an Enum class, Any, None / NoneType, ... *)
| SSeq (k : seqkind) (a : sann)
| STuple (ts : list sann)
| SDict (dd : option pstr) (k v : sann)
| SOpt (a : sann)                          (* Optional[a] / a | None *)
| SUnion (ts : list sann)
| SLit (vs : list lit)
| SRef (r : ref)                           (* a dataclass / NamedTuple / TypedDict / TypeAliasType OBJECT;
                                              inside a string: its NAME *)
| SAnn (a : sann)                          (* Annotated[a, ...] *)
| SQual (q : qual) (a : sann)              (* Required[a] / NotRequired[a] / ReadOnly[a] *)
| SStr (pin : option nat) (e : sann).      (* str / ForwardRef whose text spells e;
                                              pin = ForwardRef.__forward_module__ *)

Record sfield := { sf_name : pstr; sf_ann : sann; sf_default : option pv; sf_keys : list pstr; sf_dkey : pstr }.
Record sclass := { sc_name : pstr; sc_mod : nat; sc_fields : list sfield }.
Record snamed := { sn_name : pstr; sn_fields : list (pstr * sann) }.
Record styped := { st_name : pstr; st_req : list (pstr * sann); st_opt : list (pstr * sann) }.
Record salias := { sa_name : pstr; sa_value : sann }.

(* the program: definitions + what every module's globals bind (name -> object) *)
Record senv := {
  e_cls : list sclass;
  e_nts : list snamed;
  e_tds : list styped;
  e_als : list salias;
  e_ns : list (list (pstr * ref))
}.

Definition ref_eqb (a b : ref) : bool :=
  match a, b with
  | RData x, RData y | RNamed x, RNamed y | RTyped x, RTyped y | RAlias x, RAlias y => Nat.eqb x y
  | _, _ => false
  end.

Definition name_of (E : senv) (r : ref) : option pstr :=
  match r with
  | RData c => option_map sc_name (nth_error (e_cls E) c)
  | RNamed i => option_map sn_name (nth_error (e_nts E) i)
  | RTyped i => option_map st_name (nth_error (e_tds E) i)
  | RAlias i => option_map sa_name (nth_error (e_als E) i)
  end.

Fixpoint ns_find (l : list (pstr * ref)) (n : pstr) : option ref :=
  match l with
  | [] => None
  | (k, r) :: rest => if pstr_eqb k n then Some r else ns_find rest n
  end.

Definition globals (E : senv) (m : nat) : list (pstr * ref) := nth m (e_ns E) [].

(* eval(name, module globals) *)
Definition lookup (E : senv) (m : nat) (r : ref) : result ref :=
  match name_of E r with
  | None => Err XOracle
  | Some n => match ns_find (globals E m) n with
              | Some r' => Ok r'
              | None => bare "NameError"
              end
  end.

Definition pin_or (pin : option nat) (m : nat) : nat := match pin with Some p => p | None => m end.

(* typing._eval_type: deep; nested strings / ForwardRefs are evaluated with the same globals
   (a nested ForwardRef pinned to a module uses that module) *)
Fixpoint ev (E : senv) (m : nat) (e : sann) : result sann :=
  let evs := fix evs (l : list sann) : result (list sann) :=       (* = mapM (ev E m) l *)
    match l with
    | [] => Ok []
    | x :: r => do y <- ev E m x; do ys <- evs r; Ok (y :: ys)
    end in
  match e with
  | SLeaf l => Ok (SLeaf l)
  | SSeq k a => do a' <- ev E m a; Ok (SSeq k a')
  | STuple ts => do ts' <- evs ts; Ok (STuple ts')
  | SDict dd k v => do k' <- ev E m k; do v' <- ev E m v; Ok (SDict dd k' v')
  | SOpt a => do a' <- ev E m a; Ok (SOpt a')
  | SUnion ts => do ts' <- evs ts; Ok (SUnion ts')
  | SLit vs => Ok (SLit vs)
  | SRef r => do r' <- lookup E m r; Ok (SRef r')
  | SAnn a => do a' <- ev E m a; Ok (SAnn a')
  | SQual q a => do a' <- ev E m a; Ok (SQual q a')
  | SStr pin e' => ev E (pin_or pin m) e'
  end.

(* the text of a string with the quotes of nested strings removed: what evaluation yields when
   every name is bound to the object it was written for *)
Fixpoint unstr (e : sann) : sann :=
  match e with
  | SSeq k a => SSeq k (unstr a)
  | STuple ts => STuple (map unstr ts)
  | SDict dd k v => SDict dd (unstr k) (unstr v)
  | SOpt a => SOpt (unstr a)
  | SUnion ts => SUnion (map unstr ts)
  | SAnn a => SAnn (unstr a)
  | SQual q a => SQual q (unstr a)
  | SStr _ e' => unstr e'
  | SLeaf _ | SLit _ | SRef _ => e
  end.

(* every name in the text is bound, in the module used, to the object it was written for *)
Fixpoint scoped (E : senv) (m : nat) (e : sann) : bool :=
  match e with
  | SLeaf _ | SLit _ => true
  | SSeq _ a | SOpt a | SAnn a | SQual _ a => scoped E m a
  | STuple ts | SUnion ts => forallb (scoped E m) ts
  | SDict _ k v => scoped E m k && scoped E m v
  | SRef r => match lookup E m r with Ok r' => ref_eqb r' r | Err _ => false end
  | SStr pin e' => scoped E (pin_or pin m) e'
  end.

(* ---- get_string_for_annotation, lines 723-760 ------------------------------------------------- *)
(* `if is_annotated(type_ann): type_ann = args[0]  elif is_typed_dict_type_qualifier(origin): ...` *)
Definition strip1 (a : sann) : sann :=
  match a with SAnn t => t | SQual _ t => t | _ => a end.

(* get_origin_v2 of an Annotated alias is its argument (`_AnnotatedAlias.__origin__`) *)
Definition see_thru (a : sann) : sann := match a with SAnn t => t | _ => a end.

Definition alias_value (E : senv) (i : nat) : result sann :=
  match nth_error (e_als E) i with Some d => Ok (sa_value d) | None => Err XOracle end.

(* `if (value := getattr(origin, '__value__', None)) is not None: type_ann = value` *)
Definition unalias (E : senv) (a : sann) : result sann :=
  match see_thru a with
  | SRef (RAlias i) => alias_value E i
  | _ => Ok a
  end.

(* origins that are classes: they are their own origin and need no type arguments *)
Definition classlike (a : sann) : bool :=
  match a with
  | SLeaf _ => true
  | SRef (RAlias _) => false
  | SRef _ => true
  | _ => false
  end.

(* the hook lookup on `origin`: a generic alias (list[int], Optional[int], Literal[...]) reached only
   through `Annotated.__origin__`, a string, a qualifier or a TypeAliasType has no hook and the final
   `issubclass(origin, t)` / ParseError raises *)
Definition dispatch (a : sann) : result sann :=
  match a with
  | SAnn t => if classlike t then Ok t else bare "TypeError"
  | SStr _ _ | SQual _ _ | SRef (RAlias _) => bare "TypeError"
  | _ => Ok a
  end.

Definition head_res (E : senv) (cur : nat) (a : sann) : result sann :=
  do a1 <- match a with SStr pin e => ev E (pin_or pin cur) e | _ => Ok a end;
  do a2 <- unalias E (strip1 a1);
  dispatch a2.

(* ---- core types from resolved components ------------------------------------------------------- *)
Fixpoint unl (ts : list ty) : tys :=
  match ts with [] => TNil | t :: r => TCons [] t (unl r) end.
Fixpoint lbl (ts : list (pstr * ty)) : tys :=
  match ts with [] => TNil | (l, t) :: r => TCons l t (lbl r) end.

Definition on_snd {A B C} (f : B -> result C) (p : A * B) : result (A * C) :=
  do y <- f (snd p); Ok (fst p, y).

(* the structural part shared by `resolve` and `denote`: h is a core-headed annotation, `rec` is how
   a component is turned into a core type *)
Definition build (rec : sann -> result ty) (E : senv) (h : sann) : result ty :=
  match h with
  | SLeaf l => Ok (TLeaf l)
  | SSeq k a => do t <- rec a; Ok (TSeq k t)
  | STuple ts => do ts' <- mapM rec ts; Ok (TTuple (unl ts'))
  | SDict dd k v => do k' <- rec k; do v' <- rec v; Ok (TDict dd k' v')
  | SOpt a => do t <- rec a; Ok (TOpt t)
  | SUnion ts => do ts' <- mapM rec ts; Ok (TUnion (unl ts'))
  | SLit vs => Ok (TLit vs)
  | SRef (RData c) => Ok (TData c)
  | SRef (RNamed i) =>
      match nth_error (e_nts E) i with
      | None => Err XOracle
      | Some d => do fs <- mapM (on_snd rec) (sn_fields d); Ok (TNamed (sn_name d) (lbl fs))
      end
  | SRef (RTyped i) =>
      match nth_error (e_tds E) i with
      | None => Err XOracle
      | Some d => do r <- mapM (on_snd rec) (st_req d); do o <- mapM (on_snd rec) (st_opt d);
                  Ok (TTyped (st_name d) (lbl r) (lbl o))
      end
  | _ => bare "TypeError"
  end.

(* get_string_for_annotation + hooks: every component is resolved with the same extras *)
Fixpoint resolve (fuel : nat) (E : senv) (cur : nat) (a : sann) : result ty :=
  match fuel with
  | O => Err XFuel
  | Datatypes.S f => do h <- head_res E cur a; build (resolve f E cur) E h
  end.

(* ---- reference semantics: independent of nesting order and of the current module ------------- *)
Inductive denotes (E : senv) : sann -> ty -> Prop :=
| D_str : forall pin e t, denotes E e t -> denotes E (SStr pin e) t
| D_ann : forall a t, denotes E a t -> denotes E (SAnn a) t
| D_qual : forall q a t, denotes E a t -> denotes E (SQual q a) t
| D_alias : forall i d t, nth_error (e_als E) i = Some d -> denotes E (sa_value d) t ->
            denotes E (SRef (RAlias i)) t
| D_leaf : forall l, denotes E (SLeaf l) (TLeaf l)
| D_seq : forall k a t, denotes E a t -> denotes E (SSeq k a) (TSeq k t)
| D_tuple : forall ts ts', Forall2 (denotes E) ts ts' -> denotes E (STuple ts) (TTuple (unl ts'))
| D_dict : forall dd k v k' v', denotes E k k' -> denotes E v v' -> denotes E (SDict dd k v) (TDict dd k' v')
| D_opt : forall a t, denotes E a t -> denotes E (SOpt a) (TOpt t)
| D_union : forall ts ts', Forall2 (denotes E) ts ts' -> denotes E (SUnion ts) (TUnion (unl ts'))
| D_lit : forall vs, denotes E (SLit vs) (TLit vs)
| D_data : forall c, denotes E (SRef (RData c)) (TData c)
| D_named : forall i d fs, nth_error (e_nts E) i = Some d ->
            Forall2 (fun p q => fst p = fst q /\ denotes E (snd p) (snd q)) (sn_fields d) fs ->
            denotes E (SRef (RNamed i)) (TNamed (sn_name d) (lbl fs))
| D_typed : forall i d r o, nth_error (e_tds E) i = Some d ->
            Forall2 (fun p q => fst p = fst q /\ denotes E (snd p) (snd q)) (st_req d) r ->
            Forall2 (fun p q => fst p = fst q /\ denotes E (snd p) (snd q)) (st_opt d) o ->
            denotes E (SRef (RTyped i)) (TTyped (st_name d) (lbl r) (lbl o)).

(* executable counterpart (fuel per constructor), used by the harness to cross-check *)
Fixpoint denote (fuel : nat) (E : senv) (a : sann) : result ty :=
  match fuel with
  | O => Err XFuel
  | Datatypes.S f =>
      match a with
      | SStr _ e | SAnn e | SQual _ e => denote f E e
      | SRef (RAlias i) => do v <- alias_value E i; denote f E v
      | _ => build (denote f E) E a
      end
  end.

(* ---- the region in which the single pass handles the wrappers, and names are bound ------------ *)
Definition core (a : sann) : bool :=
  match a with
  | SLeaf _ | SSeq _ _ | STuple _ | SDict _ _ _ | SOpt _ | SUnion _ | SLit _ => true
  | SRef (RAlias _) => false
  | SRef _ => true
  | SAnn _ | SQual _ _ | SStr _ _ => false
  end.

(* after the alias step: a core type, or Annotated[<class>] *)
Definition ok3 (a : sann) : bool :=
  core a || match a with SAnn t => classlike t | _ => false end.
(* before the alias step *)
Definition ok2 (E : senv) (a : sann) : bool :=
  match see_thru a with
  | SRef (RAlias i) => match alias_value E i with Ok v => ok3 v | Err _ => false end
  | _ => ok3 a
  end.
(* after string evaluation *)
Definition ok1 (E : senv) (a : sann) : bool := ok2 E (strip1 a).

(* no string below (a string evaluates deeply: nothing is left to evaluate) *)
Definition top_ok (E : senv) (cur : nat) (a : sann) : bool :=
  match a with
  | SStr pin e => scoped E (pin_or pin cur) e && ok1 E (unstr e)
  | _ => ok1 E a
  end.

Definition head_pure (E : senv) (a : sann) : result sann :=
  do a2 <- unalias E (strip1 (match a with SStr _ e => unstr e | _ => a end)); dispatch a2.

Definition comps (E : senv) (h : sann) : list sann :=
  match h with
  | SSeq _ a | SOpt a => [a]
  | STuple ts | SUnion ts => ts
  | SDict _ k v => [k; v]
  | SRef (RNamed i) => match nth_error (e_nts E) i with Some d => map snd (sn_fields d) | None => [] end
  | SRef (RTyped i) => match nth_error (e_tds E) i with Some d => map snd (st_req d) ++ map snd (st_opt d) | None => [] end
  | _ => []
  end.

Definition ref_valid (E : senv) (h : sann) : bool :=
  match h with
  | SRef (RData c) => Nat.ltb c (List.length (e_cls E))
  | SRef (RNamed i) => match nth_error (e_nts E) i with Some _ => true | None => false end
  | SRef (RTyped i) => match nth_error (e_tds E) i with Some _ => true | None => false end
  | _ => true
  end.

(* `okb fuel E cur a`: at a and at every component reached from it (through NamedTuple fields,
   TypedDict keys and alias values, as deep as the fuel) the wrappers are in an order the single
   pass handles and every string is well scoped in the module that will be used *)
Fixpoint okb (fuel : nat) (E : senv) (cur : nat) (a : sann) : bool :=
  match fuel with
  | O => false
  | Datatypes.S f =>
      top_ok E cur a &&
      match head_pure E a with
      | Ok h => ref_valid E h && forallb (okb f E cur) (comps E h)
      | Err _ => false
      end
  end.

(* ---- classes: load_func_for_dataclass ------------------------------------------------------------ *)
Definition resolve_field (fuel : nat) (E : senv) (cur : nat) (sf : sfield) : result fdecl :=
  do t <- resolve fuel E cur (sf_ann sf);
  Ok {| f_name := sf_name sf; f_ty := t; f_default := sf_default sf; f_keys := sf_keys sf; f_dkey := sf_dkey sf |}.

(* the fields of class sc, strings evaluated in module m *)
Definition resolve_class (fuel : nat) (E : senv) (m : nat) (sc : sclass) : result cdecl :=
  do fs <- mapM (resolve_field fuel E m) (sc_fields sc);
  Ok {| c_name := sc_name sc; c_fields := fs |}.

Definition class_ok (fuel : nat) (E : senv) (sc : sclass) : bool :=
  forallb (fun sf => okb fuel E (sc_mod sc) (sf_ann sf)) (sc_fields sc).

Fixpoint data_refs (t : ty) : list nat :=
  match t with
  | TLeaf _ | TLit _ => []
  | TSeq _ t' | TOpt t' => data_refs t'
  | TTuple ts | TUnion ts | TNamed _ ts => data_refs_s ts
  | TDict _ k v => data_refs k ++ data_refs v
  | TTyped _ r o => data_refs_s r ++ data_refs_s o
  | TData c => [c]
  end
with data_refs_s (ts : tys) : list nat :=
  match ts with TNil => [] | TCons _ t r => data_refs t ++ data_refs_s r end.

Definition class_refs (d : cdecl) : list nat := flat_map (fun f => data_refs (f_ty f)) (c_fields d).

Definition visited (c : nat) (acc : list (nat * cdecl)) : bool := existsb (fun p => Nat.eqb (fst p) c) acc.

(* `walk sw fuel rf E x c acc`: generate class c while extras['cls'] = class x.
   sw = true is the code: the copy of extras made for the nested class gets extras['cls'] = c.
   (sw = false: the stale variant, kept to show what the theorem excludes.)
   acc is the recursion guard (class -> what was generated for it); the guard entry is made before
   the body is generated, so recursive references hit it. *)
Fixpoint walk (sw : bool) (fuel rf : nat) (E : senv) (x c : nat) (acc : list (nat * cdecl))
  : result (list (nat * cdecl)) :=
  match fuel with
  | O => Err XFuel
  | Datatypes.S f =>
      if visited c acc then Ok acc else
      let x' := if sw then c else x in
      match nth_error (e_cls E) c, nth_error (e_cls E) x' with
      | Some sc, Some xc =>
          do d <- resolve_class rf E (sc_mod xc) sc;
          (fix go (cs : list nat) (acc : list (nat * cdecl)) : result (list (nat * cdecl)) :=
             match cs with
             | [] => Ok acc
             | c' :: r => do acc' <- walk sw f rf E x' c' acc; go r acc'
             end) (class_refs d) ((c, d) :: acc)
      | _, _ => Err XOracle
      end
  end.

Fixpoint wfind (c : nat) (w : list (nat * cdecl)) : option cdecl :=
  match w with
  | [] => None
  | (c', d) :: r => if Nat.eqb c' c then Some d else wfind c r
  end.

Fixpoint table_from (i : nat) (cls : list sclass) (w : list (nat * cdecl)) : ctable :=
  match cls with
  | [] => []
  | sc :: r => match wfind i w with
               | Some d => d
               | None => {| c_name := sc_name sc; c_fields := [] |}    (* not reachable from the root *)
               end :: table_from (Datatypes.S i) r w
  end.

(* the class table the generator of V1Gen.v works on: what resolution leaves of the program *)
Definition surface_table (sw : bool) (rf : nat) (E : senv) (root : nat) : result ctable :=
  do w <- walk sw (Datatypes.S (Datatypes.S (List.length (e_cls E)))) rf E root root [];
  Ok (table_from 0 (e_cls E) w).

(* ---- entry points used by the harness -------------------------------------------------------------- *)
Definition RF : nat := 40.

Definition force_table (E : senv) (root : nat) : ctable :=
  match surface_table true RF E root with Ok ct => ct | Err _ => [] end.

Definition ftys_eqb (a b : list fdecl) : bool :=
  list_eqb (fun x y => pstr_eqb (f_name x) (f_name y) && ty_eqb (f_ty x) (f_ty y)) a b.

(* "RESERR <exn>" or "RES <same|diff> <ok|nok>#<case_gen of the resolved table>":
   same/diff: the reachable part of the resolved table equals the table `want` written down
   independently by the harness (the denotation); ok/nok: every reachable class is inside okb *)
Definition case_sgen (E : senv) (root : nat) (want : ctable) : pstr :=
  match walk true (Datatypes.S (Datatypes.S (List.length (e_cls E)))) RF E root root [] with
  | Err x => S "RESERR " ++ show_exn x
  | Ok w =>
      let ct := table_from 0 (e_cls E) w in
      let same := forallb (fun p => match nth_error want (fst p) with
                                    | Some d => ftys_eqb (c_fields (snd p)) (c_fields d)
                                    | None => false end) w in
      let inok := forallb (fun p => match nth_error (e_cls E) (fst p) with
                                    | Some sc => class_ok RF E sc | None => false end) w in
      S "RES " ++ (if same then S "same" else S "diff") ++ (if inok then S " ok" else S " nok") ++
      S "#" ++ case_gen ct root
  end.

(* is the program inside the region of the totality theorem? (every class, reachable or not) *)
Definition case_sok (E : senv) : pstr :=
  if forallb (class_ok RF E) (e_cls E) then S "ok" else S "nok".
