(* V1Gen.v — model of the v1 CODE GENERATOR (dataclass_wizard/v1/loaders.py:111-870,
   v1/decorators.py:67-190, v1/models.py TypeInfo).
   `gen_ty t ti cn g` is `get_string_for_annotation(tp, extras)`: it returns the
   expression text (as an AST) that loads annotation t from the variable
   described by the TypeInfo `ti`, and threads the generator state (the
   recursion guard and the function table of the FunctionBuilder).
   Models the REPAIRED generator of the current /repo:
     - a fixed-arity tuple composes its element index with the parent index
       (`index_into`: v1[0][1]) — repair of F18,
     - the element TypeInfo of a sequence resets the prefix to 'v' — repair of F48,
     - Literal / Union helpers are named _load_{cls}_{kind}_{field_i}_{len(guard)}
       — repair of F22 — and keyed by (type, value) pairs — repair of F23,
     - helper bodies use the reset TypeInfo (F7), `None` means NoneType (F49).
   Still faithful to the open defect F9: NamedTuple / TypedDict / dataclass helpers are
   named after the type's __name__, and the function table is keyed by name
   (last definition wins).
   No proofs in this file. *)
From DW Require Import PyStr V1Base.
From Coq Require Import ZArith List Bool.
Import ListNotations.

Inductive pfx := PV | PK.

(* models.py:34-131 — the attributes that determine the generated text *)
Record tinfo := {
  ti_i : nat;             (* v{i} *)
  ti_ix : list idx;       (* v{i}[ix0][ix1]... *)
  ti_p : pfx;             (* 'v' or 'k' *)
  ti_fi : nat;            (* field_i *)
  ti_opt : bool           (* in_optional *)
}.

(* ---- the expression AST the generator emits --------------------------------- *)
Inductive expr :=
| EVar (p : pfx) (i : nat)                       (* v{i} / k{i} *)
| EIdx (e : expr) (ix : idx)                     (* e[ix] *)
| ENone                                          (* None *)
| ELeaf (l : leaf) (inopt : bool) (e : expr)     (* leaf conversion applied to e *)
| ECall (f : pstr) (e : expr)                    (* helper(e) *)
| ESeq (k : seqkind) (body : expr) (i : nat) (src : expr)
      (* kind([body for v{i} in src]) *)
| EDict (dd : option pstr) (kb vb : expr) (i : nat) (src : expr)
      (* {kb: vb for k{i}, v{i} in src.items()}  [defaultdict(f, ...)] *)
| ETuple (es : list expr)                        (* (e0, e1, ..., ) *)
| EIfNone (c : expr) (e : expr).                 (* None if c is None else e *)

(* one alternative of a Union helper (loaders.py:452-525) *)
Inductive ualt :=
| UNone                          (* if v1 is None: return None *)
| USimple (l : leaf) (e : expr)  (* `if tp is T: return v1` ... and a try-parse at the end *)
| UOther (e : expr).             (* try: return e / except Exception: pass *)

(* bodies of generated functions: the statement skeleton is fixed by the kind,
   the position-dependent part are the expressions *)
Inductive fbody :=
| FLit (vs : list lit)
| FUnion (alts : list ualt)
| FNamed (n : pstr) (es : list (pstr * expr))
| FTyped (n : pstr) (req opt : list (pstr * expr))
| FClass (c : cid) (es : list expr).

(* generator state: extras['recursion_guard'] and FunctionBuilder.functions.
   Each function remembers (ghost) the type it was generated for. *)
Record gstate := {
  g_guard : list (ty * pstr);
  g_fns : list (pstr * (ty * fbody))
}.

(* TypeInfo.v() *)
Definition tiv (ti : tinfo) : expr :=
  fold_left EIdx (ti_ix ti) (EVar (ti_p ti) (ti_i ti)).

(* tp.replace(origin=elem, i=i+1, index=None, prefix='v') *)
Definition ti_next (ti : tinfo) : tinfo :=
  {| ti_i := Datatypes.S (ti_i ti); ti_ix := []; ti_p := PV; ti_fi := ti_fi ti; ti_opt := false |}.
(* tp.replace(origin=arg, index=tp.index_into(k)): the parent index is kept *)
Definition ti_elem (ti : tinfo) (ix : idx) : tinfo :=
  {| ti_i := ti_i ti; ti_ix := ti_ix ti ++ [ix]; ti_p := ti_p ti; ti_fi := ti_fi ti; ti_opt := false |}.
Definition ti_key (ti : tinfo) : tinfo :=
  {| ti_i := Datatypes.S (ti_i ti); ti_ix := []; ti_p := PK; ti_fi := ti_fi ti; ti_opt := false |}.
Definition ti_val (ti : tinfo) : tinfo :=
  {| ti_i := Datatypes.S (ti_i ti); ti_ix := []; ti_p := PV; ti_fi := ti_fi ti; ti_opt := false |}.
Definition ti_inopt (ti : tinfo) : tinfo :=
  {| ti_i := ti_i ti; ti_ix := ti_ix ti; ti_p := ti_p ti; ti_fi := ti_fi ti; ti_opt := true |}.
(* the RESET TypeInfo of a helper body (decorators.py:146, the F7 repair) *)
Definition ti_fn (fi : nat) (opt : bool) : tinfo :=
  {| ti_i := 1; ti_ix := []; ti_p := PV; ti_fi := fi; ti_opt := opt |}.
Definition ti_fn2 (fi : nat) : tinfo :=
  {| ti_i := 2; ti_ix := []; ti_p := PV; ti_fi := fi; ti_opt := false |}.
Definition ti_field (fi : nat) : tinfo := ti_fn fi false.

(* ---- guard and function table ------------------------------------------------- *)
(* recursion_guard key: the class object (non-generic) or the tuple of (type, value)
   pairs of the args (generic): equal keys are equal types *)
Definition key_eqb (a b : ty) : bool := ty_eqb a b.

Fixpoint guard_lookup (gd : list (ty * pstr)) (k : ty) : option (ty * pstr) :=
  match gd with
  | [] => None
  | (k', f) :: r => if key_eqb k k' then Some (k', f) else guard_lookup r k
  end.

Fixpoint fn_lookup {A} (fns : list (pstr * A)) (f : pstr) : option A :=
  match fns with
  | [] => None
  | (f', b) :: r => if pstr_eqb f f' then Some b else fn_lookup r f
  end.

(* dict assignment: an existing name keeps its slot, the value is replaced *)
Fixpoint fn_set {A} (fns : list (pstr * A)) (f : pstr) (b : A) : list (pstr * A) :=
  match fns with
  | [] => [(f, b)]
  | (f', b') :: r => if pstr_eqb f f' then (f', b) :: r else (f', b') :: fn_set r f b
  end.

Definition add_guard (g : gstate) (k : ty) (f : pstr) : gstate :=
  {| g_guard := g_guard g ++ [(k, f)]; g_fns := g_fns g |}.
Definition set_fn (g : gstate) (f : pstr) (k : ty) (b : fbody) : gstate :=
  {| g_guard := g_guard g; g_fns := fn_set (g_fns g) f (k, b) |}.

(* decorators.py:117-160 *)
Definition with_helper (key : ty) (name : pstr) (ti : tinfo) (g : gstate)
           (body : gstate -> result (fbody * gstate)) : result (expr * gstate) :=
  match guard_lookup (g_guard g) key with
  | Some (_, f) => Ok (ECall f (tiv ti), g)
  | None =>
      match body (add_guard g key name) with
      | Ok (b, g2) => Ok (ECall name (tiv ti), set_fn g2 name key b)
      | Err e => Err e
      end
  end.

(* function names *)
Definition dc_name (cn : pstr) : pstr := S "__dataclass_wizard_from_dict_" ++ cn ++ S "__".
(* _load_{cls_name}_{kind}_{field_i}_{len(recursion_guard)} *)
Definition generic_name (cn : pstr) (kind : string) (fi : nat) (n : nat) : pstr :=
  S "_load_" ++ cn ++ S "_" ++ S kind ++ S "_" ++ show_nat fi ++ S "_" ++ show_nat n.
Definition named_name (cn : pstr) (kind : string) (n : pstr) : pstr :=
  S "_load_" ++ cn ++ S "_" ++ S kind ++ S "_" ++ n.

(* _SIMPLE_TYPES members that can be Union alternatives *)
Definition simple_leaf (l : leaf) : bool :=
  match l with LBool | LInt | LFloat | LStr | LBytes => true | _ => false end.

Fixpoint has_none (ts : tys) : bool :=
  match ts with
  | TNil => false
  | TCons _ (TLeaf LNone) _ => true
  | TCons _ _ r => has_none r
  end.

(* how the components of a tys list are positioned relative to the TypeInfo:
   element k of a fixed tuple / NamedTuple (v[k]), required TypedDict key (v['key']),
   or the same position (Union alternatives; optional TypedDict keys) *)
Inductive lmode := MElem | MKey | MSame.
Definition ti_at (m : lmode) (ti : tinfo) (k : nat) (lbl : pstr) : tinfo :=
  match m with
  | MElem => ti_elem ti (IxN k)
  | MKey => ti_elem ti (IxS lbl)
  | MSame => ti
  end.

(* classification of Union alternatives (loaders.py:459-525) *)
Fixpoint mk_alts (ts : tys) (es : list (pstr * expr)) : list ualt :=
  match ts, es with
  | TCons _ t r, (_, e) :: er =>
      (match t with
       | TLeaf LNone => UNone
       | TLeaf l => if simple_leaf l then USimple l e else UOther e
       | _ => UOther e
       end) :: mk_alts r er
  | _, _ => []
  end.

Section Gen.
  Variable ct : ctable.
  (* generation of the body of a nested dataclass (load_func_for_dataclass) *)
  Variable gen_cls : cid -> gstate -> result (fbody * gstate).

  Fixpoint gen_ty (t : ty) (ti : tinfo) (cn : pstr) (g : gstate) {struct t} : result (expr * gstate) :=
    match t with
    | TLeaf LNone => Ok (ENone, g)
    | TLeaf LAny => Ok (tiv ti, g)
    | TLeaf l => Ok (ELeaf l (ti_opt ti) (tiv ti), g)
    | TSeq k t' =>
        match gen_ty t' (ti_next ti) cn g with
        | Ok (b, g1) => Ok (ESeq k b (Datatypes.S (ti_i ti)) (tiv ti), g1)
        | Err e => Err e
        end
    | TTuple ts =>
        match gen_list MElem ts 0 ti cn g with
        | Ok (es, g1) => Ok (ETuple (map snd es), g1)
        | Err e => Err e
        end
    | TDict dd kt vt =>
        match gen_ty kt (ti_key ti) cn g with
        | Ok (kb, g1) =>
            match gen_ty vt (ti_val ti) cn g1 with
            | Ok (vb, g2) => Ok (EDict dd kb vb (Datatypes.S (ti_i ti)) (tiv ti), g2)
            | Err e => Err e
            end
        | Err e => Err e
        end
    | TOpt t' =>
        match gen_ty t' (ti_inopt ti) cn g with
        | Ok (b, g1) => Ok (EIfNone (tiv ti) b, g1)
        | Err e => Err e
        end
    | TLit vs =>
        with_helper t (generic_name cn "literal" (ti_fi ti) (List.length (g_guard g))) ti g (fun g1 => Ok (FLit vs, g1))
    | TUnion ts =>
        (* each alternative from a FRESH TypeInfo(field_i=i), in_optional = None in args *)
        with_helper t (generic_name cn "union" (ti_fi ti) (List.length (g_guard g))) ti g
          (fun g1 => match gen_list MSame ts 0 (ti_fn (ti_fi ti) (has_none ts)) cn g1 with
                     | Ok (es, g2) => Ok (FUnion (mk_alts ts es), g2)
                     | Err e => Err e
                     end)
    | TNamed n fs =>
        with_helper t (named_name cn "named_tuple" n) ti g
          (fun g1 => match gen_list MElem fs 0 (ti_fn (ti_fi ti) false) cn g1 with
                     | Ok (es, g2) => Ok (FNamed n es, g2)
                     | Err e => Err e
                     end)
    | TTyped n req opt =>
        (* required keys read v1['key']; optional keys `(v2 := v1.get(key, MISSING))`, loaded from v2 *)
        with_helper t (named_name cn "typed_dict" n) ti g
          (fun g1 => match gen_list MKey req 0 (ti_fn (ti_fi ti) false) cn g1 with
                     | Ok (rs, g2) =>
                         match gen_list MSame opt 0 (ti_fn2 (ti_fi ti)) cn g2 with
                         | Ok (os, g3) => Ok (FTyped n rs os, g3)
                         | Err e => Err e
                         end
                     | Err e => Err e
                     end)
    | TData c =>
        match nth_error ct c with
        | None => bare "TypeError"
        | Some cd => with_helper t (dc_name (c_name cd)) ti g (gen_cls c)
        end
    end
  with gen_list (m : lmode) (ts : tys) (k : nat) (ti : tinfo) (cn : pstr) (g : gstate) {struct ts}
       : result (list (pstr * expr) * gstate) :=
    match ts with
    | TNil => Ok ([], g)
    | TCons lbl t r =>
        match gen_ty t (ti_at m ti k lbl) cn g with
        | Ok (e, g1) =>
            match gen_list m r (Datatypes.S k) ti cn g1 with
            | Ok (es, g2) => Ok ((lbl, e) :: es, g2)
            | Err x => Err x
            end
        | Err x => Err x
        end
    end.

  (* the fields of a dataclass: field number i is generated from TypeInfo(field_i=i) *)
  Fixpoint gen_fields (fs : list fdecl) (i : nat) (cn : pstr) (g : gstate)
    : result (list expr * gstate) :=
    match fs with
    | [] => Ok ([], g)
    | f :: r =>
        match gen_ty (f_ty f) (ti_field i) cn g with
        | Ok (e, g1) =>
            match gen_fields r (Datatypes.S i) cn g1 with
            | Ok (es, g2) => Ok (e :: es, g2)
            | Err x => Err x
            end
        | Err x => Err x
        end
    end.
End Gen.

(* class recursion with an explicit budget: one unit per class entered *)
Fixpoint gen_cls_n (ct : ctable) (n : nat) (c : cid) (g : gstate) : result (fbody * gstate) :=
  match n with
  | O => Err XFuel
  | Datatypes.S m =>
      match nth_error ct c with
      | None => bare "TypeError"
      | Some cd =>
          match gen_fields ct (gen_cls_n ct m) (c_fields cd) 0 (c_name cd) g with
          | Ok (es, g1) => Ok (FClass c es, g1)
          | Err e => Err e
          end
      end
  end.

Definition gen_expr (ct : ctable) (n : nat) := gen_ty ct (gen_cls_n ct n).

(* load_func_for_dataclass for the main class: guard = {cls: fn_name} *)
Definition gen_main (ct : ctable) (n : nat) (c : cid) : result (pstr * gstate) :=
  match nth_error ct c with
  | None => bare "TypeError"
  | Some cd =>
      let name := dc_name (c_name cd) in
      let g0 := {| g_guard := [(TData c, name)]; g_fns := [] |} in
      match gen_cls_n ct n c g0 with
      | Ok (b, g1) => Ok (name, set_fn g1 name (TData c) b)
      | Err e => Err e
      end
  end.

(* ---- the annotations the generator accepts (model grammar) -------------------- *)
Fixpoint supported (ct : ctable) (t : ty) : bool :=
  match t with
  | TLeaf _ | TLit _ => true
  | TSeq _ t' | TOpt t' => supported ct t'
  | TDict _ k v => supported ct k && supported ct v
  | TTuple ts | TUnion ts | TNamed _ ts => supported_l ct ts
  | TTyped _ r o => supported_l ct r && supported_l ct o
  | TData c => Nat.ltb c (List.length ct)
  end
with supported_l (ct : ctable) (ts : tys) : bool :=
  match ts with
  | TNil => true
  | TCons _ t r => supported ct t && supported_l ct r
  end.

Definition supported_ct (ct : ctable) : bool :=
  forallb (fun cd => forallb (fun f => supported ct (f_ty f)) (c_fields cd)) ct.

(* helper-free fragment: no annotation that is compiled into a separate function *)
Fixpoint helper_free (t : ty) : bool :=
  match t with
  | TLeaf _ => true
  | TSeq _ t' | TOpt t' => helper_free t'
  | TTuple ts => helper_free_l ts
  | TDict _ k v => helper_free k && helper_free v
  | TUnion _ | TLit _ | TNamed _ _ | TTyped _ _ _ | TData _ => false
  end
with helper_free_l (ts : tys) : bool :=
  match ts with
  | TNil => true
  | TCons _ t r => helper_free t && helper_free_l r
  end.

(* coherence of a final generator state: every guard entry names a function that was
   generated for exactly that type.  It can only fail when two DIFFERENT helper-compiled
   types get the same function name — the open defect F9 (NamedTuple / TypedDict /
   dataclass helpers are named after __name__). *)
Definition coherent (g : gstate) : bool :=
  forallb (fun kf => match fn_lookup (g_fns g) (snd kf) with
                     | Some (k', _) => ty_eqb (fst kf) k'
                     | None => false
                     end) (g_guard g).

(* a simpler sufficient check: the function names in the guard are pairwise distinct *)
Fixpoint distinct_names (l : list pstr) : bool :=
  match l with [] => true | x :: r => negb (mem_str x r) && distinct_names r end.
Definition names_distinct (g : gstate) : bool := distinct_names (map snd (g_guard g)).
