(* V1Base.v — shared vocabulary of the v1-engine model (C02, C14).
   Type grammar `ty`, Python values `pv`, error values, the `result` monad, the
   leaf-conversion oracle and the Python primitives the generated code relies on
   (iteration, indexing, .items(), dict.get).  No proofs in this file. *)
From DW Require Import PyStr.
From Coq Require Import ZArith List Bool.
Import ListNotations.

Definition cid := nat.

(* ---- leaf types: loaders that do not recurse into other annotations ------ *)
Inductive leaf :=
| LStr | LInt | LFloat | LBool | LNone | LBytes | LBytearray | LEnum (n : pstr)
| LUUID | LDecimal | LPath | LDate | LTime | LDatetime | LTimedelta | LAny.

Inductive seqkind := KList | KTuple | KSet | KFrozen | KDeque.

(* ---- Python values ---------------------------------------------------------
   Floats and the opaque leaf objects (UUID, Decimal, Path, dates, Enum members)
   carry a canonical text token issued by the harness oracle; structural
   equality of tokens coincides with Python == for values of one type. *)
Inductive pv :=
| VNone
| VBool (b : bool)
| VInt (z : Z)
| VFloat (h : pstr)
| VStr (s : pstr)
| VBytes (s : pstr)
| VByteArray (s : pstr)
| VObj (l : leaf) (tok : pstr)
| VSeq (k : seqkind) (l : list pv)
| VDict (dd : option pstr) (kvs : list (pv * pv))   (* Some f = defaultdict(f) *)
| VNamed (n : pstr) (l : list pv)
| VInst (c : cid) (fs : list (pstr * pv)).

(* Literal[...] arguments: scalars *)
Inductive lit := LitNone | LitBool (b : bool) | LitInt (z : Z) | LitStr (s : pstr).
Definition lit_pv (a : lit) : pv :=
  match a with LitNone => VNone | LitBool b => VBool b | LitInt z => VInt z | LitStr s => VStr s end.

(* ---- the type grammar ------------------------------------------------------ *)
Inductive ty :=
| TLeaf (l : leaf)
| TSeq (k : seqkind) (t : ty)          (* list / tuple[T, ...] / set / frozenset / deque *)
| TTuple (ts : tys)                    (* tuple[T0, ..., Tn-1], n >= 1 *)
| TDict (dd : option pstr) (k v : ty)  (* dict / defaultdict (factory name) *)
| TOpt (t : ty)                        (* Optional[T] = Union[T, None] *)
| TUnion (ts : tys)                    (* any other Union *)
| TLit (vs : list lit)                 (* Literal[...] over scalars *)
| TNamed (n : pstr) (fs : tys)         (* typing.NamedTuple, all fields required *)
| TTyped (n : pstr) (req opt : tys)    (* TypedDict: required and optional keys *)
| TData (c : cid)                      (* nested dataclass (class-table reference) *)
with tys :=
| TNil
| TCons (lbl : pstr) (t : ty) (r : tys).   (* label: field name / key; "" in tuples, unions *)

Fixpoint tys_len (ts : tys) : nat :=
  match ts with TNil => 0 | TCons _ _ r => Datatypes.S (tys_len r) end.

Fixpoint tys_list (ts : tys) : list (pstr * ty) :=
  match ts with TNil => [] | TCons l t r => (l, t) :: tys_list r end.

(* ---- class table ------------------------------------------------------------ *)
Record fdecl := {
  f_name : pstr;
  f_ty : ty;
  f_default : option pv;      (* Some d: the field has a default (value d) *)
  f_keys : list pstr;         (* the keys `o.get` tries, in the generated order *)
  f_dkey : pstr               (* the key the dumper writes *)
}.
Record cdecl := { c_name : pstr; c_fields : list fdecl }.
Definition ctable := list cdecl.

(* ---- errors --------------------------------------------------------------- *)
Inductive ekind := KParse | KMissingData | KMissingFields | KUnknownKeys.

(* The attributes of a JSONWizardError that C14 speaks about.
   class_name (getter) = e_cls or e_dflt. *)
Record liberr := {
  e_kind : ekind;
  e_cls : option pstr;      (* _class_name *)
  e_dflt : option pstr;     (* _default_class_name (ParseError only) *)
  e_fld : option pstr;      (* field_name *)
  e_obj : pv;               (* .obj *)
  e_json : option pv;       (* json_object *)
  e_names : list pstr       (* missing_fields *)
}.

Inductive exn :=
| XBare (k : pstr)          (* a non-library exception, by class name *)
| XLib (e : liberr)
| XFuel                     (* model recursion budget exhausted (never a pass) *)
| XOracle.                  (* the oracle table has no answer (harness bug, never a pass) *)

Inductive result (A : Type) :=
| Ok (a : A)
| Err (e : exn).
Arguments Ok {A} a.
Arguments Err {A} e.

Definition bind {A B} (r : result A) (f : A -> result B) : result B :=
  match r with Ok a => f a | Err e => Err e end.
Notation "'do' x <- r ; k" := (bind r (fun x => k)) (at level 200, x pattern, r at level 100, k at level 200).

Fixpoint mapM {A B} (f : A -> result B) (l : list A) : result (list B) :=
  match l with
  | [] => Ok []
  | x :: r => do y <- f x; do ys <- mapM f r; Ok (y :: ys)
  end.

(* ---- decidable equalities --------------------------------------------------- *)
Definition leaf_eqb (a b : leaf) : bool :=
  match a, b with
  | LStr, LStr | LInt, LInt | LFloat, LFloat | LBool, LBool | LNone, LNone
  | LBytes, LBytes | LBytearray, LBytearray | LUUID, LUUID | LDecimal, LDecimal
  | LPath, LPath | LDate, LDate | LTime, LTime | LDatetime, LDatetime
  | LTimedelta, LTimedelta | LAny, LAny => true
  | LEnum n, LEnum m => pstr_eqb n m
  | _, _ => false
  end.

Definition seqkind_eqb (a b : seqkind) : bool :=
  match a, b with
  | KList, KList | KTuple, KTuple | KSet, KSet | KFrozen, KFrozen | KDeque, KDeque => true
  | _, _ => false
  end.

Definition opt_eqb {A} (f : A -> A -> bool) (a b : option A) : bool :=
  match a, b with
  | None, None => true
  | Some x, Some y => f x y
  | _, _ => false
  end.

Fixpoint pv_eqb (a b : pv) : bool :=
  match a, b with
  | VNone, VNone => true
  | VBool x, VBool y => Bool.eqb x y
  | VInt x, VInt y => Z.eqb x y
  | VFloat x, VFloat y => pstr_eqb x y
  | VStr x, VStr y => pstr_eqb x y
  | VBytes x, VBytes y => pstr_eqb x y
  | VByteArray x, VByteArray y => pstr_eqb x y
  | VObj l x, VObj m y => leaf_eqb l m && pstr_eqb x y
  | VSeq k l, VSeq k' l' =>
      seqkind_eqb k k' &&
      (fix go (l l' : list pv) : bool :=
         match l, l' with
         | [], [] => true
         | x :: r, y :: r' => pv_eqb x y && go r r'
         | _, _ => false
         end) l l'
  | VDict d kvs, VDict d' kvs' =>
      opt_eqb pstr_eqb d d' &&
      (fix go (l l' : list (pv * pv)) : bool :=
         match l, l' with
         | [], [] => true
         | (k, v) :: r, (k', v') :: r' => pv_eqb k k' && pv_eqb v v' && go r r'
         | _, _ => false
         end) kvs kvs'
  | VNamed n l, VNamed n' l' =>
      pstr_eqb n n' &&
      (fix go (l l' : list pv) : bool :=
         match l, l' with
         | [], [] => true
         | x :: r, y :: r' => pv_eqb x y && go r r'
         | _, _ => false
         end) l l'
  | VInst c fs, VInst c' fs' =>
      Nat.eqb c c' &&
      (fix go (l l' : list (pstr * pv)) : bool :=
         match l, l' with
         | [], [] => true
         | (k, v) :: r, (k', v') :: r' => pstr_eqb k k' && pv_eqb v v' && go r r'
         | _, _ => false
         end) fs fs'
  | _, _ => false
  end.

Fixpoint list_eqb {A} (f : A -> A -> bool) (l l' : list A) : bool :=
  match l, l' with
  | [], [] => true
  | x :: r, y :: r' => f x y && list_eqb f r r'
  | _, _ => false
  end.

Definition lit_eqb (a b : lit) : bool :=
  match a, b with
  | LitNone, LitNone => true
  | LitBool x, LitBool y => Bool.eqb x y
  | LitInt x, LitInt y => Z.eqb x y
  | LitStr x, LitStr y => pstr_eqb x y
  | _, _ => false
  end.

Fixpoint ty_eqb (a b : ty) : bool :=
  match a, b with
  | TLeaf l, TLeaf m => leaf_eqb l m
  | TSeq k t, TSeq k' t' => seqkind_eqb k k' && ty_eqb t t'
  | TTuple ts, TTuple ts' => tys_eqb ts ts'
  | TDict d k v, TDict d' k' v' => opt_eqb pstr_eqb d d' && ty_eqb k k' && ty_eqb v v'
  | TOpt t, TOpt t' => ty_eqb t t'
  | TUnion ts, TUnion ts' => tys_eqb ts ts'
  | TLit vs, TLit vs' => list_eqb lit_eqb vs vs'
  | TNamed n fs, TNamed n' fs' => pstr_eqb n n' && tys_eqb fs fs'
  | TTyped n r o, TTyped n' r' o' => pstr_eqb n n' && tys_eqb r r' && tys_eqb o o'
  | TData c, TData c' => Nat.eqb c c'
  | _, _ => false
  end
with tys_eqb (a b : tys) : bool :=
  match a, b with
  | TNil, TNil => true
  | TCons l t r, TCons l' t' r' => pstr_eqb l l' && ty_eqb t t' && tys_eqb r r'
  | _, _ => false
  end.

(* ---- the leaf oracle ----------------------------------------------------------
   conv l in_optional v : what the generated leaf expression for annotation l
   evaluates to on input v (value, or the exception it raises).
   dumpleaf v : what the dumper emits for a leaf value. *)
Record oracle := {
  conv : leaf -> bool -> pv -> result pv;
  dumpleaf : pv -> pv
}.

(* finite oracle used for execution: association table computed by the harness
   from the real functions; a miss is an explicit XOracle error. *)
Definition oentry := (leaf * bool * pv * result pv)%type.
Fixpoint olookup (tbl : list oentry) (l : leaf) (o : bool) (v : pv) : result pv :=
  match tbl with
  | [] => Err XOracle
  | (l', o', v', r) :: rest =>
      if leaf_eqb l l' && Bool.eqb o o' && pv_eqb v v' then r else olookup rest l o v
  end.
Fixpoint dlookup (tbl : list (pv * pv)) (v : pv) : pv :=
  match tbl with
  | [] => v
  | (v', r) :: rest => if pv_eqb v v' then r else dlookup rest v
  end.
Definition table_oracle (tbl : list oentry) (dtbl : list (pv * pv)) : oracle :=
  {| conv := olookup tbl; dumpleaf := dlookup dtbl |}.

(* ---- Python primitives used by the generated code ----------------------------- *)
Definition bare {A} (s : string) : result A := Err (XBare (S s)).

Definition chars (s : pstr) : list pv := map (fun c => VStr [c]) s.

(* `for x in v` *)
Definition py_iter (v : pv) : result (list pv) :=
  match v with
  | VSeq _ l => Ok l
  | VNamed _ l => Ok l
  | VDict _ kvs => Ok (map fst kvs)
  | VStr s => Ok (chars s)
  | VBytes s | VByteArray s => Ok (map (fun c => VInt (Z.of_N (code c))) s)
  | _ => bare "TypeError"
  end.

(* `v.items()` *)
Definition py_items (v : pv) : result (list (pv * pv)) :=
  match v with
  | VDict _ kvs => Ok kvs
  | _ => bare "AttributeError"
  end.

Definition str_key (k : pv) (s : pstr) : bool :=
  match k with VStr x => pstr_eqb x s | _ => false end.

Fixpoint dict_get (kvs : list (pv * pv)) (s : pstr) : option pv :=
  match kvs with
  | [] => None
  | (k, v) :: r => if str_key k s then Some v else dict_get r s
  end.

Inductive idx := IxN (n : nat) | IxS (s : pstr).

(* `v[ix]` *)
Definition py_index (v : pv) (ix : idx) : result pv :=
  match v, ix with
  | VSeq KSet _, _ | VSeq KFrozen _, _ => bare "TypeError"
  | VSeq _ l, IxN n | VNamed _ l, IxN n =>
      match nth_error l n with Some x => Ok x | None => bare "IndexError" end
  | VSeq _ _, IxS _ | VNamed _ _, IxS _ => bare "TypeError"
  | VStr s, IxN n =>
      match nth_error s n with Some c => Ok (VStr [c]) | None => bare "IndexError" end
  | VStr _, IxS _ => bare "TypeError"
  | VBytes s, IxN n | VByteArray s, IxN n =>
      match nth_error s n with Some c => Ok (VInt (Z.of_N (code c))) | None => bare "IndexError" end
  | VDict _ kvs, IxS s =>
      match dict_get kvs s with Some x => Ok x | None => bare "KeyError" end
  | VDict _ kvs, IxN n =>
      match find (fun kv => pv_eqb (fst kv) (VInt (Z.of_nat n))) kvs with
      | Some kv => Ok (snd kv) | None => bare "KeyError" end
  | _, _ => bare "TypeError"
  end.

Definition is_none (v : pv) : bool := match v with VNone => true | _ => false end.
Definition is_dict (v : pv) : bool := match v with VDict _ _ => true | _ => false end.

(* set construction: keep the first of equal elements *)
Fixpoint mem_pv (x : pv) (l : list pv) : bool :=
  match l with [] => false | y :: r => pv_eqb x y || mem_pv x r end.
Fixpoint dedup_rev (acc l : list pv) : list pv :=
  match l with
  | [] => rev acc
  | x :: r => if mem_pv x acc then dedup_rev acc r else dedup_rev (x :: acc) r
  end.
Definition dedup (l : list pv) : list pv := dedup_rev [] l.

(* unhashable values cannot be set elements / dict keys *)
Fixpoint hashable (v : pv) : bool :=
  match v with
  | VSeq KList _ | VSeq KSet _ | VSeq KDeque _ | VDict _ _ | VByteArray _ => false
  | VSeq _ l | VNamed _ l => forallb hashable l
  | VInst _ _ => false
  | _ => true
  end.

(* dict construction from (key, value) pairs: a later equal key replaces the value
   of the earlier one (position of the first kept) *)
Fixpoint dict_set (kvs : list (pv * pv)) (k v : pv) : list (pv * pv) :=
  match kvs with
  | [] => [(k, v)]
  | (k', v') :: r => if pv_eqb k k' then (k', v) :: r else (k', v') :: dict_set r k v
  end.
Definition mk_dict (kvs : list (pv * pv)) : list (pv * pv) :=
  fold_left (fun acc kv => dict_set acc (fst kv) (snd kv)) kvs [].

Definition wrap_seq (k : seqkind) (l : list pv) : result pv :=
  match k with
  | KSet | KFrozen => if forallb hashable l then Ok (VSeq k (dedup l)) else bare "TypeError"
  | _ => Ok (VSeq k l)
  end.

Definition wrap_dict (dd : option pstr) (kvs : list (pv * pv)) : result pv :=
  if forallb (fun kv => hashable (fst kv)) kvs then Ok (VDict dd (mk_dict kvs)) else bare "TypeError".

(* ---- decimal numerals (function names) ---------------------------------------- *)
Fixpoint digits_fuel (fuel : nat) (n : N) (acc : pstr) : pstr :=
  match fuel with
  | O => acc
  | Datatypes.S f =>
      let d := ch (48 + N.modulo n 10) in
      if (n <? 10)%N then d :: acc else digits_fuel f (N.div n 10) (d :: acc)
  end.
Definition show_N (n : N) : pstr := digits_fuel (Datatypes.S (N.size_nat n)) n [].
Definition show_nat (n : nat) : pstr := show_N (N.of_nat n).
Definition show_Z (z : Z) : pstr :=
  match z with
  | Z0 => S "0"
  | Zpos p => show_N (Npos p)
  | Zneg p => S "-" ++ show_N (Npos p)
  end.
