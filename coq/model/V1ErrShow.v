(* V1ErrShow.v — text encoder of the history machine (V1ErrHist.v) for the C14 correspondence:
   one token per operation — "bind", "dflt" (executed by a default-engine function: outcome not
   modelled), or "v1 <outcome>" (executed by a v1-compiled function).
   No proofs in this file. *)
From DW Require Import PyStr V1Base V1Gen V1Errors V1Eval V1Show V1ErrHist.
From Coq Require Import ZArith List Bool.
Import ListNotations.

(* the default engine is abstract in the theorems; the executed cases never look at its result *)
Definition dflt_opaque : hstate -> cid -> loader := fun _ _ _ => Err (XBare (S "DefaultEngine")).

Definition show_hres (x : option (engine * result pv)) : pstr :=
  match x with
  | None => S "bind"
  | Some (EDflt, _) => S "dflt"
  | Some (EV1, r) => S "v1 " ++ show_res r
  end.

Definition case_hist (tbl : list oentry) (ct : ctable) (n : nat) (ops : list hop) : pstr :=
  let Or := table_oracle tbl [] in
  join (S "#") (map show_hres (snd (hrun Or ct n resolve_generate dflt_opaque pristine ops))).
