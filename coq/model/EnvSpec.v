(* EnvSpec.v — the documented precedence of EnvWizard as a PURE specification
   over an environment (an association list read with `get`), written
   independently of the cached, stateful lookups of EnvModel.v: no var_names,
   no cleaned_to_env, no history.  Sources: property C18, docs/env_magic.rst,
   README (prefix example), the comments of AbstractEnvMeta (env_file: "later
   files ... take priority over earlier files") and the docstrings of the
   three lookup priorities.  No proofs in this file. *)
From DW Require Export EnvModel.

(* is variable n set? *)
Definition present (e : env) (n : pstr) : bool :=
  match get e n with Some _ => true | None => false end.

Fixpoint first_present (e : env) (names : list pstr) : option pstr :=
  match names with
  | [] => None
  | n :: r => if present e n then Some n else first_present e r
  end.

(* The exact spellings tried first, in order, per LetterCasePriority:
   SCREAMING_SNAKE: MY_ENV_VAR, then the name as written;
   SNAKE:           the name as written, then MY_ENV_VAR;
   CAMEL / PASCAL:  the name as written, then MY_ENV_VAR, then my_env_var. *)
Definition ref_exact_names (p : prio) (key : pstr) : list pstr :=
  match p with
  | PScreaming => [upper key; key]
  | PSnake => [key; upper key]
  | PCamel | PPascal => [key; upper (to_snake key); to_snake key]
  end.

(* "... then any variable equal to it after removing '_' and '-' and lowering
   case": every such variable is admissible (which one wins is not documented
   and depends on set iteration order in the implementation). *)
Definition same_cleaned (key v : pstr) : bool := pstr_eqb (clean v) (clean key).

Definition ref_candidates (e : env) (p : prio) (key : pstr) : list pstr :=
  match first_present e (ref_exact_names p key) with
  | Some n => [n]
  | None => filter (same_cleaned key) (dom e)
  end.

Inductive rsrc := RKwarg | REnv (var : pstr) | RDefault | RMissing.

Definition ref_fallback (f : field) : rsrc := if f_default f then RDefault else RMissing.

(* explicitly mapped variable name(s), None when the field has no (truthy) mapping *)
Definition explicit_names (f : field) : option (list pstr) :=
  match f_explicit f with
  | ExNone => None
  | ExStr v => if is_nil v then None else Some [v]
  | ExTuple vs => if is_nil vs then None else Some vs
  end.

(* keyword > explicit variable(s), first present, prefix applied > letter-case
   priority on prefix ++ field name > default > missing.  The result is the list
   of admissible sources (a singleton except in the "same cleaned name" region). *)
Definition ref_field (e : env) (p : prio) (prefix : pstr) (kw : list pstr) (f : field) : list rsrc :=
  if mem_str (f_name f) kw then [RKwarg]
  else match explicit_names f with
       | Some names =>
           match first_present e (map (app prefix) names) with
           | Some n => [REnv n]
           | None => [ref_fallback f]
           end
       | None =>
           match ref_candidates e p (prefix ++ f_name f) with
           | [] => [ref_fallback f]
           | l => map REnv l
           end
       end.

(* source s (computed by the implementation model) is admitted by r *)
Definition adm (e : env) (s : src) (r : list rsrc) : Prop :=
  match s with
  | SKwarg => In RKwarg r
  | SEnv var v => In (REnv var) r /\ get e var = Some v
  | SDefault => In RDefault r
  | SMissing => In RMissing r
  | SCrash => False
  end.

(* the specification as a function, meaningful where it is deterministic *)
Definition src_of_rsrc (e : env) (r : rsrc) : src :=
  match r with
  | RKwarg => SKwarg
  | REnv v => match get e v with Some x => SEnv v x | None => SCrash end
  | RDefault => SDefault
  | RMissing => SMissing
  end.

Definition ref_resolve (e : env) (p : prio) (prefix : pstr) (kw : list pstr) (fs : list field) : list src :=
  map (fun f => match ref_field e p prefix kw f with
                | r :: _ => src_of_rsrc e r
                | [] => SCrash
                end) fs.

Definition is_single {A} (l : list A) : bool := match l with [_] => true | _ => false end.

Definition deterministic (e : env) (p : prio) (prefix : pstr) (kw : list pstr) (fs : list field) : bool :=
  forallb (fun f => is_single (ref_field e p prefix kw f)) fs.

Definition ref_is_missing (e : env) (p : prio) (prefix : pstr) (kw : list pstr) (f : field) : bool :=
  match ref_field e p prefix kw f with [RMissing] => true | _ => false end.

(* every field without keyword, variable or default - all of them, in field order *)
Definition ref_missing (e : env) (p : prio) (prefix : pstr) (kw : list pstr) (fs : list field) : list pstr :=
  map f_name (filter (ref_is_missing e p prefix kw) fs).

(* the environment an instantiation with _reload=True must see: os.environ,
   overlaid by the secret directories (in order), overlaid by the dotenv files (in order) *)
Definition overlay (os : env) (secrets dotenv : list env) : env :=
  env_update (env_update os (merge_files secrets)) (merge_files dotenv).

(* ... described per variable: the LAST dotenv file defining it (its last line) wins,
   else the last secrets directory defining it, else os.environ *)
Fixpoint last_def (files : list env) (v : pstr) : option pstr :=
  match files with
  | [] => None
  | f :: r => match last_def r v with Some x => Some x | None => get (rev f) v end
  end.

Definition ref_env_value (os : env) (secrets dotenv : list env) (v : pstr) : option pstr :=
  match last_def dotenv v with
  | Some x => Some x
  | None => match last_def secrets v with Some x => Some x | None => get os v end
  end.

(* admissible outcomes of an instantiation on environment e *)
Definition adm_outcome (e : env) (c : cls) (a : args) (o : outcome) : Prop :=
  exists ss,
    Forall2 (adm e) ss (map (ref_field e (c_prio c) (eff_prefix c a) (a_kwargs a)) (c_fields c)) /\
    o = outcome_of (c_fields c) ss /\ o <> OCrash.

(* os.environ as a function of the user's own edits alone *)
Fixpoint user_edits (os : env) (h : list op) : env :=
  match h with
  | [] => os
  | OpSet k v :: r => user_edits (env_set k v os) r
  | OpDel k :: r => user_edits (env_del k os) r
  | _ :: r => user_edits os r
  end.

(* ---- the cache invariant ---------------------------------------------------- *)
Definition cleaned_ok (names : list pstr) (c : env) : Prop :=
  (forall k v, get c k = Some v -> In v names /\ clean v = k) /\
  (forall v, In v names -> get c (clean v) <> None).

Definition EnvInv (st : state) : Prop :=
  match environ st with
  | None => cleaned st = None
  | Some e =>
      (forall v, In v (var_names st) <-> In v (dom e)) /\
      match cleaned st with None => True | Some c => cleaned_ok (var_names st) c end
  end.
