(* EnvInit.v — the parts of the generated EnvWizard.__init__ (environ/wizard.py:_create_methods) and of
   lookups.Env that are LOGIC but were outside EnvModel.v:

   1. the ORDER of the preamble (Env.reload / load_environ, update_with_secret_values,
      update_with_dotenv with the Meta value, update_with_dotenv with the argument) and of the per-field
      decision (keyword, lookup, default, default_factory call, missing) as tables read from the source
      text (gen/T_EnvInitOrderAlg.v), decoded into step lists and interpreted here;
   2. Env.secret_values: a secrets directory as the file system presents it (absent / a file / a
      directory of entries that are regular files or not): file NAME = variable name, content verbatim
      (no stripping: a trailing newline stays), entries that are not regular files ignored, absent
      directories skipped, a path that is a file -> ValueError (after Env.reload / load_environ ran);
   3. the kind of default (none / `default` value shared by all instances / `default_factory` called
      at each instantiation that needs it) and the attribute values of the instance with an allocation
      stamp per factory call.
   No proofs in this file. *)
From DW Require Export EnvModel EnvSpec T_EnvInitOrderAlg.

(* ---- 1a. preamble order ------------------------------------------------------------------------ *)
Inductive pstep := PLoad | PSecrets | PDotenvMeta | PDotenvArg.

Definition triple_eqb (x y : pstr * pstr * pstr) : bool :=
  pstr_eqb (fst (fst x)) (fst (fst y)) && pstr_eqb (snd (fst x)) (snd (fst y)) && pstr_eqb (snd x) (snd y).

(* one generated line -> what it does; None = a line this model does not know (decoding fails) *)
Definition decode_pre (x : pstr * pstr * pstr) : option (option pstep) :=
  if triple_eqb x (S "", S "if _reload", S "Env.reload()") then Some (Some PLoad)
  else if triple_eqb x (S "", S "else", S "Env.load_environ()") then Some None   (* the else arm of PLoad *)
  else if triple_eqb x (S "", S "if _secrets_dir", S "Env.update_with_secret_values(_secrets_dir)")
       then Some (Some PSecrets)
  else if triple_eqb x (S "_meta_env_file", S "if _env_file is None",
                        S "Env.update_with_dotenv(dotenv_values=_dotenv_values)") then Some (Some PDotenvMeta)
  else if triple_eqb x (S "", S "fn _env_file", S "Env.update_with_dotenv(_env_file)") then Some (Some PDotenvArg)
  else None.

Fixpoint decode_preamble (t : list (pstr * pstr * pstr)) : option (list pstep) :=
  match t with
  | [] => Some []
  | x :: r =>
      match decode_pre x, decode_preamble r with
      | Some (Some s), Some l => Some (s :: l)
      | Some None, Some l => Some l
      | _, _ => None
      end
  end.

Definition overlay_nonempty (st : state) (fs : list env) : state :=
  match fs with [] => st | _ => update_with st (merge_files fs) end.

(* one preamble step.  PDotenvMeta exists in the generated code only when Meta.env_file is truthy
   (c_envfile <> []) and runs when `_env_file is None`; PDotenvArg runs when `_env_file` is truthy. *)
Definition run_pstep (c : cls) (a : args) (st : state) (s : pstep) : state :=
  match s with
  | PLoad => if a_reload a then env_reload st else load_environ st
  | PSecrets => overlay_nonempty st (eff_secrets c a)
  | PDotenvMeta => match a_envfile a with EFDefault => overlay_nonempty st (c_envfile c) | _ => st end
  | PDotenvArg => match a_envfile a with EFFiles fs => overlay_nonempty st fs | _ => st end
  end.

Definition prepare_steps (steps : list pstep) (st : state) (c : cls) (a : args) : state :=
  fold_left (run_pstep c a) steps st.

(* ---- 1b. per-field decision order -------------------------------------------------------------------- *)
Inductive fstep := FKwarg | FLookup | FDefault | FFactory | FMissing.

Inductive dkind := DKNone | DKValue | DKFactory.
Definition has_default (k : dkind) : bool := match k with DKNone => false | _ => true end.

(* the value branch `if {name} is not MISSING or {part} is not MISSING`: keyword, then lookup (both
   lookup forms must be the walrus assignment of lookup_exact / get_env on the prefixed name);
   then the else arm: if default / elif default_factory / else add-to-missing *)
Definition decode_field (t : list (pstr * pstr * pstr)) (forms : list (pstr * pstr)) : option (list fstep) :=
  match t, forms with
  | [l0; l1; l2; l3; l4], [(c1, f1); (c2, f2)] =>
      if triple_eqb l0 (S "", S "",
           S "_name={name!r}; _env_var={env_var!r}; _var_name={pfx.format(var_name)} if _env_prefix else {var_name!r}")
         && triple_eqb l1 (S "", S "if {name} is not MISSING or {part} is not MISSING",
                           S "self.{name} = {parser_name}({name})")
         && pstr_eqb c1 (S "env_var") && pstr_eqb f1 (S "({name} := lookup_exact(_var_name))")
         && pstr_eqb c2 (S "not env_var") && pstr_eqb f2 (S "({name} := get_env(_var_name))")
         && triple_eqb l2 (S "f.default is not MISSING", S "else", S "self.{name} = {default_name}")
         && triple_eqb l3 (S "not (f.default is not MISSING) & f.default_factory is not MISSING", S "else",
                           S "self.{name} = {default_name}()")
         && triple_eqb l4 (S "not (f.default is not MISSING) & not (f.default_factory is not MISSING)", S "else",
                           S "add(_vars, _name, _env_prefix, _env_var, {type_field})")
      then Some [FKwarg; FLookup; FDefault; FFactory; FMissing]
      else None
  | _, _ => None
  end.

(* what the instance attribute is bound to *)
Inductive aval :=
| AKwarg                       (* the (converted) keyword value *)
| AEnv (var value : pstr)      (* the (converted) string of variable var *)
| AShared                      (* the class-level default object, the same for every instance *)
| AFresh (stamp : nat)         (* result of the stamp-th call of a default_factory in this process *)
| AMissing                     (* collected for MissingVars *)
| ACrash.

(* interpret a decision list for one field: the first step that applies decides.
   n = number of default_factory calls so far. *)
Fixpoint decide (steps : list fstep) (st : state) (p : prio) (prefix : pstr) (kw : list pstr)
         (f : field) (k : dkind) (n : nat) : state * nat * aval :=
  match steps with
  | [] => (st, n, ACrash)
  | FKwarg :: r =>
      if mem_str (f_name f) kw then (st, n, AKwarg) else decide r st p prefix kw f k n
  | FLookup :: r =>
      let (st', res) := field_lookup st p prefix f in
      match res with
      | Found var v => (st', n, AEnv var v)
      | KeyErr _ => (st', n, ACrash)
      | NotFound => decide r st' p prefix kw f k n
      end
  | FDefault :: r =>
      match k with DKValue => (st, n, AShared) | _ => decide r st p prefix kw f k n end
  | FFactory :: r =>
      match k with DKFactory => (st, Datatypes.S n, AFresh n) | _ => decide r st p prefix kw f k n end
  | FMissing :: r => (st, n, AMissing)
  end.

(* the attribute value that corresponds to a source of EnvModel.resolve_field *)
Definition aval_of (k : dkind) (n : nat) (s : src) : nat * aval :=
  match s with
  | SKwarg => (n, AKwarg)
  | SEnv var v => (n, AEnv var v)
  | SDefault => match k with DKFactory => (Datatypes.S n, AFresh n) | _ => (n, AShared) end
  | SMissing => (n, AMissing)
  | SCrash => (n, ACrash)
  end.

(* all fields of one instantiation, left to right (factories of earlier fields are called before a
   later field is found missing: MissingVars is raised after the loop) *)
Fixpoint attr_values (n : nat) (ks : list dkind) (ss : list src) : nat * list aval :=
  match ks, ss with
  | k :: kr, s :: sr =>
      let (n1, v) := aval_of k n s in
      let (n2, vs) := attr_values n1 kr sr in
      (n2, v :: vs)
  | _, _ => (n, [])
  end.

(* a whole process: the instantiations in order, each with its default kinds and its sources *)
Fixpoint stamp_all (n : nat) (items : list (list dkind * list src)) : list (list aval) :=
  match items with
  | [] => []
  | (ks, ss) :: r => let (n', vs) := attr_values n ks ss in vs :: stamp_all n' r
  end.

Definition stamp_of (v : aval) : list nat := match v with AFresh k => [k] | _ => [] end.
Definition stamps (vs : list aval) : list nat := flat_map stamp_of vs.

(* a field with its kind of default *)
Definition dfield (name : pstr) (ex : explicit) (k : dkind) : field := mkField name ex (has_default k).

(* ---- 2. Env.secret_values over the file system --------------------------------------------------------- *)
Inductive dentry := DEFile (content : pstr) | DEOther.          (* regular file / subdirectory etc. *)
Inductive sdir := SDAbsent | SDIsFile | SDDir (entries : list (pstr * dentry)).

Definition files_of (entries : list (pstr * dentry)) : env :=
  flat_map (fun ne => match snd ne with DEFile c => [(fst ne, c)] | DEOther => [] end) entries.

(* lookups.py:83-103: env = {}; for d in dirs: skip / raise / env[f.name] = f.read_text() *)
Fixpoint secret_values_from (acc : env) (dirs : list sdir) : option env :=
  match dirs with
  | [] => Some acc
  | SDAbsent :: r => secret_values_from acc r
  | SDIsFile :: _ => None
  | SDDir es :: r => secret_values_from (env_update acc (files_of es)) r
  end.

Definition secret_values (dirs : list sdir) : option env := secret_values_from [] dirs.

Definition dir_env (d : sdir) : env := match d with SDDir es => files_of es | _ => [] end.
Definition is_sdfile (d : sdir) : bool := match d with SDIsFile => true | _ => false end.

Inductive foutcome := FOk (o : outcome) | FValueError.

Definition set_secrets (a : args) (l : list env) : args :=
  mkArgs (a_kwargs a) (a_reload a) (a_envfile a) (a_prefix a) (Some l).

(* cls(_secrets_dir=dirs, ...) with the directories as the file system presents them.  The generated
   code tests the truthiness of the ARGUMENT (a non-empty list of absent directories still calls
   update_with_secret_values with {}). *)
Definition instantiate_fs (st : state) (c : cls) (a : args) (dirs : list sdir) : state * foutcome :=
  match secret_values dirs with
  | None => (run_pstep c a st PLoad, FValueError)
  | Some _ => let (st', o) := instantiate st c (set_secrets a (map dir_env dirs)) in (st', FOk o)
  end.

(* ---- histories with default kinds ---------------------------------------------------------------------- *)
Definition inst_sources (st : state) (c : cls) (a : args) : list src :=
  snd (resolve_fields (prepare st c a) (c_prio c) (eff_prefix c a) (a_kwargs a) (c_fields c)).

(* every instantiation of a history with the default kinds of its class and the sources it resolved *)
Fixpoint trace_items (st : state) (ops : list (op * list dkind)) : list (list dkind * list src) :=
  match ops with
  | [] => []
  | (o, ks) :: r =>
      let items := trace_items (fst (step st o)) r in
      match o with OpInst c a => (ks, inst_sources st c a) :: items | _ => items end
  end.

(* ---- output encoding (correspondence) ---------------------------------------------------------------- *)
Definition show_aval (v : aval) : pstr :=
  match v with
  | AKwarg => S "K" | AEnv var x => S "E" | AShared => S "S"
  | AFresh k => S "F" ++ repeat (ch 105) k | AMissing => S "M" | ACrash => S "C"
  end.

Definition show_stamps (os : env) (ops : list (op * list dkind)) : pstr :=
  join sep4 (map (fun vs => join sep2 (map show_aval vs)) (stamp_all 0 (trace_items (init_state os) ops))).

Definition show_secret_values (dirs : list sdir) : pstr :=
  match secret_values dirs with
  | None => S "V"
  | Some e => S "E" ++ show_env e
  end.
