(* EnvModel.v — model of dataclass_wizard/environ/lookups.py (class Env, clean,
   try_cleaned, lookup_exact, with_screaming_snake_case, with_snake_case,
   with_pascal_or_camel_case) and of the `__init__` that
   environ/wizard.py:_create_methods generates for an EnvWizard subclass.

   State (process-wide, lookups.py:14-76, 147-154):
     os_env     os.environ                                   (never written by the library)
     environ    lookups.environ: None before the first use, else the private copy
                of os.environ overlaid with secret-file and dotenv values
     var_names  Env.var_names (cached set of names; a list here, order is NOT
                meaningful: Python iterates the set in hash order)
     cleaned    Env.cleaned_to_env: None until first accessed
                (`_accessed_cleaned_to_env` is True exactly when it is Some)

   Dictionaries are association lists read with `get` (first binding wins);
   `env_set` overwrites in place or appends, so a list without duplicate keys
   stays without duplicates; nothing below relies on that.

   What is NOT modelled here: the conversion of the chosen string by the field's
   type (owned by the loader model, C04) - the model returns, per field, the
   SOURCE (keyword / variable name and raw string / default / missing), and the
   harness converts with an independent reference converter; the file system
   (secret directories and dotenv files arrive as their parsed contents, one
   association list per directory / file, in the order given); generated-code
   splicing of names (F21, repaired by daee07e).  Strings are ASCII for clean/upper/lower.

   With a non-empty prefix, a field mapped to SEVERAL candidate variables looks up
   each prefixed candidate in order (F37, repaired by 466ac1d).
   No proofs in this file. *)
From DW Require Export PyStr StrConv T_LetterCase.

Definition env := list (pstr * pstr).

Fixpoint get (e : env) (k : pstr) : option pstr :=
  match e with
  | [] => None
  | (k', v) :: r => if pstr_eqb k k' then Some v else get r k
  end.

(* d[k] = v *)
Fixpoint env_set (k v : pstr) (e : env) : env :=
  match e with
  | [] => [(k, v)]
  | (k', v') :: r => if pstr_eqb k k' then (k, v) :: r else (k', v') :: env_set k v r
  end.

(* d.update(u): the bindings of u applied left to right *)
Definition env_update (e u : env) : env :=
  fold_left (fun acc kv => env_set (fst kv) (snd kv) acc) u e.

(* d.pop(k, None) *)
Definition env_del (k : pstr) (e : env) : env :=
  filter (fun kv => negb (pstr_eqb k (fst kv))) e.

Definition dom (e : env) : list pstr := map fst e.

(* several files / directories: `env.update(values_of_file)` for each, in order *)
Definition merge_files (fs : list env) : env := fold_left env_update fs [].

(* lookups.clean: s.replace('-', '').replace('_', '').lower() *)
Definition clean (s : pstr) : pstr := lower (remove_char c_us (remove_char c_dash s)).

Record state := mkState {
  os_env : env;
  environ : option env;
  var_names : list pstr;
  cleaned : option env
}.

Definition init_state (os : env) : state := mkState os None [] None.

(* {clean(var): var for var in names} *)
Definition cpairs (names : list pstr) : env := map (fun v => (clean v, v)) names.
Definition build_cleaned (names : list pstr) : env := env_update [] (cpairs names).

(* ---- Env.load_environ / Env.reload / update_with_* ---------------------- *)

(* Env.load_environ(): copies os.environ only when `environ is None`.
   var_names is a cached property computed as set(environ) on its first use;
   nothing mutates environ between this copy and that first use, so it is
   computed here. *)
Definition load_environ (st : state) : state :=
  match environ st with
  | Some _ => st
  | None => mkState (os_env st) (Some (os_env st)) (dom (os_env st)) (cleaned st)
  end.

(* Env.load_environ(force_reload=True), lookups.py:34-51 (with the F13 repair:
   cleaned_to_env is rebuilt from the new var_names when it had been accessed). *)
Definition load_environ_force (st : state) : state :=
  let e := os_env st in
  match environ st with
  | None => mkState e (Some e) (var_names st) (cleaned st)
  | Some _ => mkState e (Some e) (dom e)
                (match cleaned st with Some _ => Some (build_cleaned (dom e)) | None => None end)
  end.

Definition not_in (l : list pstr) (v : pstr) : bool := negb (mem_str v l).

(* Env.reload() with env=None, lookups.py:62-81.  With the F34 repair it first calls
   load_environ(), so `environ` is set before var_names is computed and cached.
   `env_vars` is the set object held BEFORE load_environ(force_reload=True); that
   call rebinds Env.var_names to a new set, so the update of the old object is lost
   (harmless).  new_vars is computed against the OLD names. *)
Definition env_reload (st : state) : state :=
  let st0 := load_environ st in
  let old := var_names st0 in
  let st1 := load_environ_force st0 in
  let e := os_env st in
  let new_vars := filter (not_in old) (dom e) in
  mkState e (Some e) (var_names st1)
    (match cleaned st1 with
     | Some c => Some (env_update c (cpairs new_vars))
     | None => None
     end).

(* Env.reload(env) followed by environ.update(env)
   (update_with_secret_values / update_with_dotenv, lookups.py:108-150). *)
Definition update_with (st : state) (u : env) : state :=
  let st0 := load_environ st in
  match environ st0 with
  | None => st0                      (* unreachable: load_environ sets environ *)
  | Some e =>
      let new_vars := filter (not_in (var_names st0)) (dom u) in
      mkState (os_env st0) (Some (env_update e u)) (var_names st0 ++ new_vars)
        (match cleaned st0 with
         | Some c => Some (env_update c (cpairs new_vars))
         | None => None
         end)
  end.

(* ---- lookups ------------------------------------------------------------- *)

Inductive lres :=
| Found (var value : pstr)
| NotFound
| KeyErr (var : pstr).        (* environ[var] raised KeyError / environ is None *)

Definition env_item (st : state) (var : pstr) : lres :=
  match environ st with
  | Some e => match get e var with Some v => Found var v | None => KeyErr var end
  | None => KeyErr var
  end.

(* first access of the cached class property Env.cleaned_to_env *)
Definition access_cleaned (st : state) : state * env :=
  match cleaned st with
  | Some c => (st, c)
  | None =>
      let c := build_cleaned (var_names st) in
      (mkState (os_env st) (environ st) (var_names st) (Some c), c)
  end.

Definition try_cleaned (st : state) (key : pstr) : state * lres :=
  let (st', c) := access_cleaned st in
  match get c (clean key) with
  | Some var => (st', env_item st' var)
  | None => (st', NotFound)
  end.

Definition with_screaming_snake_case (st : state) (key : pstr) : state * lres :=
  if mem_str (upper key) (var_names st) then (st, env_item st (upper key))
  else if mem_str key (var_names st) then (st, env_item st key)
  else try_cleaned st key.

Definition with_snake_case (st : state) (key : pstr) : state * lres :=
  if mem_str key (var_names st) then (st, env_item st key)
  else if mem_str (upper key) (var_names st) then (st, env_item st (upper key))
  else try_cleaned st key.

Definition with_pascal_or_camel_case (st : state) (key : pstr) : state * lres :=
  if mem_str key (var_names st) then (st, env_item st key)
  else
    let snake := to_snake key in
    if mem_str (upper snake) (var_names st) then (st, env_item st (upper snake))
    else if mem_str snake (var_names st) then (st, env_item st snake)
    else try_cleaned st key.

(* Meta.key_lookup_with_load: a LetterCasePriority member; the member -> function
   table is the one regenerated from enums.py (T_LetterCase.v). *)
Inductive prio := PScreaming | PSnake | PCamel | PPascal.

Definition prio_name (p : prio) : pstr :=
  match p with
  | PScreaming => S "SCREAMING_SNAKE"
  | PSnake => S "SNAKE"
  | PCamel => S "CAMEL"
  | PPascal => S "PASCAL"
  end.

Definition tier_of_fn (fn : pstr) : option (state -> pstr -> state * lres) :=
  if pstr_eqb fn (S "with_screaming_snake_case") then Some with_screaming_snake_case
  else if pstr_eqb fn (S "with_snake_case") then Some with_snake_case
  else if pstr_eqb fn (S "with_pascal_or_camel_case") then Some with_pascal_or_camel_case
  else None.

Definition get_env (p : prio) (st : state) (key : pstr) : state * lres :=
  match get letter_case_priority_members (prio_name p) with
  | Some fn =>
      match tier_of_fn fn with
      | Some f => f st key
      | None => (st, KeyErr (S "<unknown lookup function>"))
      end
  | None => (st, KeyErr (S "<unknown LetterCasePriority member>"))
  end.

(* lookup_exact (non-Windows): a str, or a collection of names - first present wins *)
Definition lookup_exact_str (st : state) (var : pstr) : lres :=
  if mem_str var (var_names st) then env_item st var else NotFound.

Fixpoint lookup_exact_seq (st : state) (vars : list pstr) : lres :=
  match vars with
  | [] => NotFound
  | v :: r => if mem_str v (var_names st) then env_item st v else lookup_exact_seq st r
  end.

(* ---- classes, arguments, the generated __init__ --------------------------- *)

(* FIELD_TO_ENV_VAR[cls][name]: absent, a str (one env_field/json_field key or a
   Meta.field_to_env_var entry), or a tuple of >= 2 keys *)
Inductive explicit := ExNone | ExStr (v : pstr) | ExTuple (vs : list pstr).

Record field := mkField { f_name : pstr; f_explicit : explicit; f_default : bool }.

Record cls := mkCls {
  c_fields : list field;
  c_prio : prio;
  c_prefix : pstr;            (* Meta.env_prefix; [] = None *)
  c_envfile : list env;       (* Meta.env_file: file contents read AT CLASS CREATION; [] = unset *)
  c_secrets : list env        (* Meta.secrets_dir: directory contents (read at instantiation) *)
}.

Inductive efile := EFDefault | EFOff | EFFiles (fs : list env).   (* _env_file: None / falsy / files *)

Record args := mkArgs {
  a_kwargs : list pstr;              (* names of the fields passed as keywords *)
  a_reload : bool;
  a_envfile : efile;
  a_prefix : option pstr;            (* _env_prefix when passed ([] = None or '') *)
  a_secrets : option (list env)      (* _secrets_dir when passed *)
}.

Definition eff_prefix (c : cls) (a : args) : pstr :=
  match a_prefix a with Some p => p | None => c_prefix c end.

Definition eff_secrets (c : cls) (a : args) : list env :=
  match a_secrets a with Some l => l | None => c_secrets c end.

(* wizard.py:256-265 *)
Definition eff_dotenv (c : cls) (a : args) : list env :=
  match a_envfile a with
  | EFDefault => c_envfile c
  | EFOff => []
  | EFFiles fs => fs
  end.

Definition is_nil {A} (l : list A) : bool := match l with [] => true | _ => false end.

Inductive src :=
| SKwarg
| SEnv (var value : pstr)
| SDefault
| SMissing
| SCrash.

Definition src_of (f : field) (r : lres) : src :=
  match r with
  | Found var v => SEnv var v
  | NotFound => if f_default f then SDefault else SMissing
  | KeyErr _ => SCrash
  end.

(* wizard.py:283-312 for one field.  `_var_name` is var_name when there is no prefix,
   else prefix + name, resp. the tuple of prefix + each candidate name; an empty str / tuple mapping is falsy and falls
   back to the field name. *)
Definition field_lookup (st : state) (p : prio) (prefix : pstr) (f : field) : state * lres :=
  match f_explicit f with
  | ExStr v =>
      if is_nil v then get_env p st (prefix ++ f_name f)
      else (st, lookup_exact_str st (prefix ++ v))
  | ExTuple vs =>
      if is_nil vs then get_env p st (prefix ++ f_name f)
      else if is_nil prefix then (st, lookup_exact_seq st vs)
      else (st, lookup_exact_seq st (map (app prefix) vs))
  | ExNone => get_env p st (prefix ++ f_name f)
  end.

Definition resolve_field (st : state) (p : prio) (prefix : pstr) (kw : list pstr) (f : field)
  : state * src :=
  if mem_str (f_name f) kw then (st, SKwarg)
  else let (st', r) := field_lookup st p prefix f in (st', src_of f r).

Fixpoint resolve_fields (st : state) (p : prio) (prefix : pstr) (kw : list pstr) (fs : list field)
  : state * list src :=
  match fs with
  | [] => (st, [])
  | f :: r =>
      let (st1, s) := resolve_field st p prefix kw f in
      let (st2, ss) := resolve_fields st1 p prefix kw r in
      (st2, s :: ss)
  end.

Inductive outcome :=
| OInstance (srcs : list src)          (* one source per field, in field order *)
| OMissing (names : list pstr)         (* MissingVars: every sourceless required field *)
| OCrash.                              (* KeyError inside a lookup (proved unreachable) *)

Definition is_crash (s : src) : bool := match s with SCrash => true | _ => false end.

Fixpoint missing_names (fs : list field) (ss : list src) : list pstr :=
  match fs, ss with
  | f :: fr, s :: sr =>
      match s with SMissing => f_name f :: missing_names fr sr | _ => missing_names fr sr end
  | _, _ => []
  end.

Definition outcome_of (fs : list field) (ss : list src) : outcome :=
  if existsb is_crash ss then OCrash
  else match missing_names fs ss with
       | [] => OInstance ss
       | l => OMissing l
       end.

(* state after the preamble of __init__ (wizard.py:247-265) *)
Definition prepare (st : state) (c : cls) (a : args) : state :=
  let st1 := if a_reload a then env_reload st else load_environ st in
  let st2 := match eff_secrets c a with [] => st1 | ds => update_with st1 (merge_files ds) end in
  match eff_dotenv c a with [] => st2 | fs => update_with st2 (merge_files fs) end.

Definition instantiate (st : state) (c : cls) (a : args) : state * outcome :=
  let st0 := prepare st c a in
  let (st1, ss) := resolve_fields st0 (c_prio c) (eff_prefix c a) (a_kwargs a) (c_fields c) in
  (st1, outcome_of (c_fields c) ss).

(* ---- histories -------------------------------------------------------------- *)
Inductive op :=
| OpSet (k v : pstr)                 (* os.environ[k] = v          (user code) *)
| OpDel (k : pstr)                   (* os.environ.pop(k, None)    (user code) *)
| OpInst (c : cls) (a : args)        (* cls(_reload=.., _env_file=.., ..., **kwargs) *)
| OpReloadEnv.                       (* class statement with reload_env=True: Env.reload() *)

Definition is_library_op (o : op) : bool :=
  match o with OpInst _ _ | OpReloadEnv => true | _ => false end.

Definition set_os (st : state) (e : env) : state :=
  mkState e (environ st) (var_names st) (cleaned st).

Definition step (st : state) (o : op) : state * option outcome :=
  match o with
  | OpSet k v => (set_os st (env_set k v (os_env st)), None)
  | OpDel k => (set_os st (env_del k (os_env st)), None)
  | OpInst c a => let (st', r) := instantiate st c a in (st', Some r)
  | OpReloadEnv => (env_reload st, None)
  end.

Definition run (st : state) (ops : list op) : state :=
  fold_left (fun s o => fst (step s o)) ops st.

Fixpoint run_trace (st : state) (ops : list op) : list (option outcome * state) :=
  match ops with
  | [] => []
  | o :: r => let (st', out) := step st o in (out, st') :: run_trace st' r
  end.

(* ---- output encoding for the correspondence harness -------------------------
   (the driver hex-encodes every result, so control characters are safe separators:
    \001 between name and value, \002 between items, \003 between sections, \004 between steps) *)
Definition sep1 : pstr := [ch 1].
Definition sep2 : pstr := [ch 2].
Definition sep3 : pstr := [ch 3].
Definition sep4 : pstr := [ch 4].

Definition show_src (s : src) : pstr :=
  match s with
  | SKwarg => S "K"
  | SEnv var v => S "E" ++ var ++ sep1 ++ v
  | SDefault => S "D"
  | SMissing => S "M"
  | SCrash => S "C"
  end.

Definition show_env (e : env) : pstr :=
  join sep2 (map (fun kv => fst kv ++ sep1 ++ snd kv) e).

Definition show_outcome (o : outcome) : pstr :=
  match o with
  | OInstance ss => S "I" ++ join sep2 (map show_src ss)
  | OMissing l => S "M" ++ join sep2 l
  | OCrash => S "C"
  end.

Definition show_step (x : option outcome * state) : pstr :=
  match fst x with
  | None => S "-"
  | Some o => show_outcome o ++ sep3 ++
              match environ (snd x) with Some e => show_env e | None => S "?" end
  end.

(* every step, then the final os.environ *)
Definition show_history (os : env) (ops : list op) : pstr :=
  join sep4 (map show_step (run_trace (init_state os) ops)) ++ sep4 ++
  show_env (os_env (run (init_state os) ops)).
