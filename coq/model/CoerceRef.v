(* CoerceRef.v — the DOCUMENTED coercions, transcribed from docs/overview.rst
   ("Special Cases"), docs/env_magic.rst and the README "What's New in v1.0"
   notes, independently of the code-shaped model CoerceModel.v.

   [doc_scalar O e s j r]: the documentation says that engine [e] loads the JSON
   value [j] at a position annotated with the scalar type [s] as [r].  One
   constructor per documented sentence; inputs the documentation does not speak
   about are simply not related to anything.  [lift e c g]: the documented
   element-wise meaning of a container context [c] around a (partial) scalar
   coercion [g].  Only the value types and the standard-library fragments
   (int(str), str(int), strip, split, upper) are shared with the model.
   No proofs in this file. *)
From DW Require Import PyStr CoerceModel.

(* "TRUE, T, YES, Y, ON, 1" *)
Definition truthy_doc : list pstr := [S "TRUE"; S "T"; S "YES"; S "Y"; S "ON"; S "1"].

(* "a case-insensitive search that matches against the following truthy values" *)
Definition doc_truthy (s : pstr) : bool := existsb (pstr_eqb (upper s)) truthy_doc.

(* value of the exact dyadic m * 2^e as a fraction num/den with den > 0 *)
Definition fl_num (m e : Z) : Z := (m * 2 ^ Z.max e 0)%Z.
Definition fl_den (e : Z) : Z := (2 ^ Z.max (- e) 0)%Z.

(* "rounded to the nearest integer" (ties to the even neighbour, as the builtin round) *)
Definition rounds_to (f : fl) (n : Z) : Prop :=
  match f with
  | FDy m e =>
      (2 * Z.abs (fl_num m e - n * fl_den e) <= fl_den e)%Z /\
      ((2 * Z.abs (fl_num m e - n * fl_den e) = fl_den e)%Z -> Z.even n = true)
  | _ => False
  end.

(* "floats without fractional parts (e.g. 3.0)" *)
Definition integral (f : fl) (n : Z) : Prop :=
  match f with FDy m e => (fl_num m e = n * fl_den e)%Z | _ => False end.
Definition fractional (f : fl) : Prop :=
  match f with FDy m e => forall n, (fl_num m e <> n * fl_den e)%Z | _ => False end.

Definition is_nil {A} (l : list A) : bool := match l with [] => true | _ => false end.

(* float strings written with a decimal point: [ws][+-]digits.digits[ws], "123.4", "3.", ".5" *)
Definition point_literal (s : pstr) : bool :=
  let t := cstrip s in
  let u := match t with
           | c :: r => if ascii_eqb c c_dash || ascii_eqb c "+"%char then r else t
           | [] => []
           end in
  match split_once c_dot u with
  | (a, Some b) => forallb is_digit a && forallb is_digit b && negb (is_nil a && is_nil b)
  | (_, None) => false
  end.

(* "a numeric form like '1.23'": digits with at most one point *)
Definition numeric_doc (s : pstr) : bool :=
  match split_once c_dot s with
  | (a, Some b) => forallb is_digit a && forallb is_digit b && negb (is_nil a && is_nil b)
  | (a, None) => forallb is_digit a && negb (is_nil a)
  end.

Definition no_Z (s : pstr) : bool := negb (contains_char "Z"%char s).

Definition is_v1 (e : engine) : bool := match e with V1 => true | _ => false end.
Definition is_env (e : engine) : bool := match e with Env => true | _ => false end.

(* EnvWizard reads digit strings for datetime / date fields as timestamps, so they are
   not ISO strings there *)
Definition iso_candidate (e : engine) (s : pstr) : bool := negb (is_env e && numeric_doc s).

(* ---- numerals, as the documentation means them ------------------------------------------
   "String representations of integers (e.g. "123")": a sign, decimal digits (Python also
   reads single underscores between digits and surrounding blanks), denoting the integer
   sum d_i * 10^i whatever its size.  "Float strings" written with a decimal point whose
   fraction digits are all zero ("3.0", "3.", "-5.00") denote that integer too. *)
Inductive dig := D0 | D1 | D2 | D3 | D4 | D5 | D6 | D7 | D8 | D9.
Definition dig_val (d : dig) : Z :=
  match d with D0 => 0 | D1 => 1 | D2 => 2 | D3 => 3 | D4 => 4 | D5 => 5 | D6 => 6 | D7 => 7 | D8 => 8 | D9 => 9 end%Z.
Definition dig_char (d : dig) : ascii :=
  match d with D0 => "0" | D1 => "1" | D2 => "2" | D3 => "3" | D4 => "4" | D5 => "5" | D6 => "6" | D7 => "7" | D8 => "8" | D9 => "9" end%char.
(* Horner: the value of the digit sequence, most significant digit first *)
Definition dstep (a : Z) (d : dig) : Z := (10 * a + dig_val d)%Z.
Definition dec_val (ds : list dig) : Z := fold_left dstep ds 0%Z.
Definition dig_str (ds : list dig) : pstr := map dig_char ds.

Inductive sgn := SgNone | SgPlus | SgMinus.
Definition sgn_str (g : sgn) : pstr :=
  match g with SgNone => [] | SgPlus => ["+"%char] | SgMinus => [c_dash] end.
Definition sgn_apply (g : sgn) (z : Z) : Z := match g with SgMinus => (- z)%Z | _ => z end.

(* a non-empty run of digits *)
Definition grp := (dig * list dig)%type.
Definition grp_digs (g : grp) : list dig := fst g :: snd g.

(* integer literal: blanks, optional sign, digit groups joined by single underscores, blanks *)
Record int_lit := { il_ws1 : pstr; il_sgn : sgn; il_first : grp; il_more : list grp; il_ws2 : pstr }.
Definition il_wf (l : int_lit) : bool := forallb is_cws (il_ws1 l) && forallb is_cws (il_ws2 l).
Definition il_digs (l : int_lit) : list dig := grp_digs (il_first l) ++ flat_map grp_digs (il_more l).
Definition il_str (l : int_lit) : pstr :=
  il_ws1 l ++ (sgn_str (il_sgn l) ++ dig_str (grp_digs (il_first l)) ++
               flat_map (fun g => c_us :: dig_str (grp_digs g)) (il_more l)) ++ il_ws2 l.
Definition il_val (l : int_lit) : Z := sgn_apply (il_sgn l) (dec_val (il_digs l)).

(* plain decimal numeral with an integral value: blanks, optional sign, digits, and
   optionally a point followed by zeros only ([nl_frac] = Some k: k zeros), blanks *)
Record num_lit := { nl_ws1 : pstr; nl_sgn : sgn; nl_int : list dig; nl_frac : option nat; nl_ws2 : pstr }.
Definition nl_wf (l : num_lit) : bool :=
  forallb is_cws (nl_ws1 l) && forallb is_cws (nl_ws2 l) &&
  match nl_int l, nl_frac l with
  | [], None => false | [], Some O => false | _, _ => true
  end.
Definition nl_str (l : num_lit) : pstr :=
  nl_ws1 l ++ (sgn_str (nl_sgn l) ++ dig_str (nl_int l) ++
               match nl_frac l with Some k => c_dot :: dig_str (repeat D0 k) | None => [] end) ++ nl_ws2 l.
Definition nl_val (l : num_lit) : Z := sgn_apply (nl_sgn l) (dec_val (nl_int l)).

Section Ref.
Variable O : oracles.

Inductive doc_scalar : engine -> sty -> jv -> res pv -> Prop :=
(* str: "If already a string, it remains unchanged. Non-strings are converted to their
   string representation, and None becomes an empty string." *)
| d_str_str : forall e s, doc_scalar e SStr (JStr s) (Ok (VStr s))
| d_str_none : forall e, doc_scalar e SStr JNone (Ok (VStr []))
| d_str_int : forall e z, doc_scalar e SStr (JInt z) (Ok (VStr (str_of_Z z)))
| d_str_bool : forall e b, doc_scalar e SStr (JBool b) (Ok (VStr (if b then S "True" else S "False")))
| d_str_float : forall e f, doc_scalar e SStr (JFloat f) (rmap VStr (o_str O (JFloat f)))
| d_str_list : forall e l, doc_scalar e SStr (JList l) (rmap VStr (o_str O (JList l)))
| d_str_dict : forall e d, doc_scalar e SStr (JDict d) (rmap VStr (o_str O (JDict d)))
(* bool: "strings or integers ... case-insensitive search ... TRUE, T, YES, Y, ON, 1" (or == 1) *)
| d_bool_bool : forall e b, doc_scalar e SBool (JBool b) (Ok (VBool b))
| d_bool_str : forall e s, doc_scalar e SBool (JStr s) (Ok (VBool (doc_truthy s)))
| d_bool_int : forall e z, doc_scalar e SBool (JInt z) (Ok (VBool (Z.eqb z 1)))
| d_bool_float : forall e f, doc_scalar e SBool (JFloat f) (Ok (VBool (fl_eq_Z f 1)))
(* int *)
| d_int_int : forall e z, doc_scalar e SInt (JInt z) (Ok (VInt z))
| d_int_bool : forall e b, doc_scalar e SInt (JBool b) (Err EType)
    (* "String representations of integers (e.g. "123")" *)
| d_int_str : forall e s z, py_int_of_str s = Ok z -> doc_scalar e SInt (JStr s) (Ok (VInt z))
    (* "Floats or float strings with or without fractional parts, rounded to the nearest integer" *)
| d_int_float_round : forall e f n, is_v1 e = false -> rounds_to f n ->
    doc_scalar e SInt (JFloat f) (Ok (VInt n))
| d_int_fstr_round : forall e s f n, is_v1 e = false -> point_literal s = true ->
    py_float_of_str s = Ok f -> rounds_to f n -> doc_scalar e SInt (JStr s) (Ok (VInt n))
    (* "Empty strings or None return the default value of 0" *)
| d_int_empty : forall e, is_v1 e = false -> doc_scalar e SInt (JStr []) (Ok (VInt 0))
| d_int_none : forall e, is_v1 e = false -> doc_scalar e SInt JNone (Ok (VInt 0))
    (* v1: "floats or float strings with fractional parts will raise an error; floats without
       fractional parts (3.0 or "3.0") continue to convert"; None is not coerced *)
| d_int_float_integral : forall f n, integral f n -> doc_scalar V1 SInt (JFloat f) (Ok (VInt n))
| d_int_float_fractional : forall f, fractional f -> doc_scalar V1 SInt (JFloat f) (Err EValue)
| d_int_fstr_integral : forall s f n, point_literal s = true -> py_float_of_str s = Ok f -> integral f n ->
    doc_scalar V1 SInt (JStr s) (Ok (VInt n))
| d_int_fstr_fractional : forall s f, point_literal s = true -> py_float_of_str s = Ok f -> fractional f ->
    doc_scalar V1 SInt (JStr s) (Err EValue)
| d_int_none_v1 : doc_scalar V1 SInt JNone (Err EType)
(* Enum: "de-serialized via the value attribute" (string and integer values) *)
| d_enum_str : forall e ms1 s name ms2,
    (forall v n, In (v, n) ms1 -> jv_py_eqb v (JStr s) = false) ->
    doc_scalar e (SEnum (ms1 ++ (JStr s, name) :: ms2)) (JStr s) (Ok (VEnum name))
| d_enum_int : forall e ms1 z name ms2,
    (forall v n, In (v, n) ms1 -> jv_py_eqb v (JInt z) = false) ->
    doc_scalar e (SEnum (ms1 ++ (JInt z, name) :: ms2)) (JInt z) (Ok (VEnum name))
| d_senum_str : forall e ms1 s name ms2,
    (forall v n, In (v, n) ms1 -> jv_py_eqb v (JStr s) = false) ->
    doc_scalar e (SStrEnum (ms1 ++ (JStr s, name) :: ms2)) (JStr s) (Ok (VEnum name))
(* Decimal: "de-serialized using the Decimal(str(o)) syntax" *)
| d_dec_str : forall e s, doc_scalar e SDecimal (JStr s) (rmap VDecimal (o_decimal O s))
| d_dec_int : forall e z, doc_scalar e SDecimal (JInt z) (rmap VDecimal (o_decimal O (str_of_Z z)))
| d_dec_float : forall e f, doc_scalar e SDecimal (JFloat f) (rmap VDecimal (bind (o_str O (JFloat f)) (o_decimal O)))
(* datetime / time: "string values are de-serialized using fromisoformat; a suffix of Z is
   first replaced with +00:00".  v1 hands the string to the builtin unchanged: the two
   spellings must be read alike by the builtin itself (true of Python >= 3.11 for ISO
   date-times), which is the extra premise of the V1 constructors. *)
| d_dt_z : forall e s', no_Z s' = true ->
    (is_v1 e = true -> o_dt_iso O (s' ++ S "Z") = o_dt_iso O (s' ++ S "+00:00")) ->
    doc_scalar e SDateTime (JStr (s' ++ S "Z")) (rmap VDateTime (o_dt_iso O (s' ++ S "+00:00")))
| d_dt_iso : forall e s, no_Z s = true -> iso_candidate e s = true ->
    doc_scalar e SDateTime (JStr s) (rmap VDateTime (o_dt_iso O s))
| d_time_z : forall e s', no_Z s' = true ->
    (is_v1 e = true -> o_time_iso O (s' ++ S "Z") = o_time_iso O (s' ++ S "+00:00")) ->
    doc_scalar e STime (JStr (s' ++ S "Z")) (rmap VTime (o_time_iso O (s' ++ S "+00:00")))
| d_time_iso : forall e s, no_Z s = true -> doc_scalar e STime (JStr s) (rmap VTime (o_time_iso O s))
| d_date_iso : forall e s, iso_candidate e s = true ->
    doc_scalar e SDate (JStr s) (rmap VDate (o_date_iso O s))
(* "JSON values for datetime and date annotated types appearing as numbers will be
   de-serialized using the builtin fromtimestamp method" (datetime: UTC) *)
| d_dt_int : forall e z, doc_scalar e SDateTime (JInt z) (rmap VDateTime (o_dt_fromts O true (NInt z)))
| d_dt_float : forall e f, doc_scalar e SDateTime (JFloat f) (rmap VDateTime (o_dt_fromts O true (NFloat f)))
| d_date_int : forall e z, doc_scalar e SDate (JInt z) (rmap VDate (o_date_fromts O (NInt z)))
| d_date_float : forall e f, doc_scalar e SDate (JFloat f) (rmap VDate (o_date_fromts O (NFloat f)))
(* EnvWizard: SOME_DT_VAL='1651077045' *)
| d_dt_env_numstr : forall s f, numeric_doc s = true -> py_float_of_str s = Ok f ->
    doc_scalar Env SDateTime (JStr s) (rmap VDateTime (o_dt_fromts O true (NFloat f)))
(* timedelta: "If the value is a string, we first ensure it's in a numeric form like '1.23',
   and if so convert it to a float value in seconds; otherwise ... pytimeparse.  Lastly, any
   numeric values are assumed to be in seconds and are used as is." *)
| d_td_numstr : forall e s f, numeric_doc s = true -> py_float_of_str s = Ok f ->
    doc_scalar e STimedelta (JStr s) (rmap VTimedelta (o_timedelta O (NFloat f)))
| d_td_parse : forall e s x, numeric_doc s = false -> o_timeparse O s = Ok (Some x) ->
    doc_scalar e STimedelta (JStr s) (rmap VTimedelta (o_timedelta O x))
| d_td_int : forall e z, doc_scalar e STimedelta (JInt z) (rmap VTimedelta (o_timedelta O (NInt z)))
| d_td_float : forall e f, doc_scalar e STimedelta (JFloat f) (rmap VTimedelta (o_timedelta O (NFloat f)))
(* v1: "bytes come from base64" *)
| d_bytes_v1 : forall s, doc_scalar V1 SBytes (JStr s) (rmap VBytes (o_b64 O s)).

(* ---- container contexts ------------------------------------------------------ *)
Inductive ctx :=
| CHole
| COpt (c : ctx)
| CList (c : ctx)
| CTupV (c : ctx)
| CTup (pre : list ty) (c : ctx) (post : list ty)
| CDict (k : kty) (c : ctx).

Fixpoint plug (c : ctx) (t : ty) : ty :=
  match c with
  | CHole => t
  | COpt c' => TOpt (plug c' t)
  | CList c' => TList (plug c' t)
  | CTupV c' => TTupV (plug c' t)
  | CTup pre c' post => TTup (pre ++ plug c' t :: post)
  | CDict k c' => TDict k (plug c' t)
  end.

(* all elements documented: the first failing element fails the whole load *)
Fixpoint seqM (l : list (option (res pv))) : option (res (list pv)) :=
  match l with
  | [] => Some (Ok [])
  | None :: _ => None
  | Some r :: rest =>
      match seqM rest with
      | None => None
      | Some R => Some (bind r (fun v => bind R (fun vs => Ok (v :: vs))))
      end
  end.

Fixpoint zap {A B} (gs : list (A -> B)) (l : list A) : list B :=
  match gs, l with
  | g :: gs', x :: l' => g x :: zap gs' l'
  | _, _ => []
  end.

(* EnvWizard shorthand: "a , b,c" -> ["a"; "b"; "c"] *)
Definition shorthand_list (s : pstr) : list jv := map (fun w => JStr (strip w)) (split_on ","%char s).

(* EnvWizard shorthand: "k = v, j=w" -> pairs; None when a part has no '=' *)
Fixpoint shorthand_pairs (ps : list pstr) : option (list (pstr * jv)) :=
  match ps with
  | [] => Some []
  | p :: r =>
      match split_once "="%char p, shorthand_pairs r with
      | (a, Some b), Some rest => Some ((strip a, JStr (strip b)) :: rest)
      | _, _ => None
      end
  end.

Fixpoint distinct_keys (d : list (pstr * jv)) : bool :=
  match d with
  | [] => true
  | (k, _) :: r => negb (existsb (fun kv => pstr_eqb k (fst kv)) r) && distinct_keys r
  end.

(* the elements of a documented list-like value: a JSON list; for EnvWizard also a shorthand
   string or a JSON-array string *)
Definition doc_elems (e : engine) (j : jv) : option (list jv) :=
  match j with
  | JList l => Some l
  | JStr s =>
      if is_env e then
        if first_is "["%char (lstrip s)
        then match o_json O s with Ok (JList l) => Some l | _ => None end
        else Some (shorthand_list s)
      else None
  | _ => None
  end.

Definition doc_items (e : engine) (j : jv) : option (list (pstr * jv)) :=
  match j with
  | JDict d => Some d
  | JStr s =>
      if is_env e then
        if first_is "{"%char (lstrip s)
        then match o_json O s with Ok (JDict d) => Some d | _ => None end
        else match shorthand_pairs (split_on ","%char s) with
             | Some d => if distinct_keys d then Some d else None
             | None => None
             end
      else None
  | _ => None
  end.

(* dict entries: the key goes through the coercion of the key annotation, the value through
   the context; entries are stored in order, a later equal key replaces the value *)
Fixpoint doc_entries (fk : jv -> res pv) (g : jv -> option (res pv)) (items : list (pstr * jv))
         (acc : list (pv * pv)) : option (res (list (pv * pv))) :=
  match items with
  | [] => Some (Ok acc)
  | (k, v) :: r =>
      match g v with
      | None => None
      | Some rv =>
          match fk (JStr k), rv with
          | Err er, _ => Some (Err er)
          | Ok _, Err er => Some (Err er)
          | Ok k', Ok v' => doc_entries fk g r (dict_set k' v' acc)
          end
      end
  end.

Definition raw_len (j : jv) : nat :=
  match j with JStr s => List.length s | JList l => List.length l | _ => 0%nat end.

(* [lift e c g j]: the documented result of loading [j] at a position annotated [plug c t]
   when [g] is the documented (partial) coercion at the hole; None = not documented *)
Fixpoint lift (e : engine) (c : ctx) (g : jv -> option (res pv)) (j : jv) : option (res pv) :=
  match c with
  | CHole => g j
  | COpt c' => match j with JNone => Some (Ok VNone) | _ => lift e c' g j end
  | CList c' =>
      match doc_elems e j with
      | Some l => option_map (rmap VList) (seqM (map (lift e c' g) l))
      | None => None
      end
  | CTupV c' =>
      match doc_elems e j with
      | Some l =>
          (* EnvWizard keeps at most len(raw string) elements: not documented beyond that *)
          if (is_env e && negb (List.length l <=? raw_len j)%nat) then None
          else option_map (rmap VTuple) (seqM (map (lift e c' g) l))
      | None => None
      end
  | CTup pre c' post =>
      match j with
      | JList l =>
          if (List.length l =? List.length pre + 1 + List.length post)%nat then
            option_map (rmap VTuple)
              (seqM (zap (map (fun t x => Some (load O e t x)) pre ++ lift e c' g ::
                          map (fun t x => Some (load O e t x)) post) l))
          else None
      | _ => None          (* EnvWizard strings at a fixed-arity tuple: open defect F36 *)
      end
  | CDict k c' =>
      match doc_items e j with
      | Some d => option_map (rmap VDict) (doc_entries (load_scalar O e (sty_of_kty k)) (lift e c' g) d [])
      | None => None
      end
  end.

End Ref.
