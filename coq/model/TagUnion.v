(* TagUnion.v — executable model of tagged-Union dispatch (property C13).

   Sources modelled:
     parsers.py     UnionParser.__post_init__ (tag_key / auto_assign_tags from extras['config'] or the member's own Meta,
                    tag = meta.tag, else the class __name__ when auto tags are on; tag_to_parser[tag] = parser:
                    a later member with the same tag replaces the earlier one) and UnionParser.__call__
                    (None -> None; exact-type scan of the non-dataclass members; then o[tag_key] -> tag_to_parser;
                    ParseError with valid_tags / without)
     loaders.py     cls_fromdict of a member: json_to_field[tag_key] = ExplicitNull iff `meta.tag is not None`
                    AT GENERATION TIME and tag_key is not a field; unknown keys raise / are captured / ignored
     v1/loaders.py  load_to_union: `if v1 is None: return None` only when NoneType is a member; tag branch before
                    the type checks; `if tag == t: return <fn>(v1)`; the member loader is a generated function
                    NAMED after the class __name__ (a later class of the same name replaces it);
                    load_func_for_dataclass: aliases = {tag_key} iff the member has a tag and tag_key is no field
     dumpers.py     cls_asdict: result[tag_key] = tag when meta.tag is truthy

   Field values are JSON-native and travel unchanged (field-level coercions are C01/C04).  Input documents: JDict stands for any dict instance, dict subclasses
   (OrderedDict, defaultdict, ...) included.  No proofs in this file. *)
From DW Require Import PyStr.

Inductive jv :=
| JNull
| JBool (b : bool)
| JInt (z : Z)
| JFloat (z : Z)          (* a float, identified by a token *)
| JStr (s : pstr)
| JList (l : list jv)
| JDict (items : list (pstr * jv)).

Record member := {
  m_cid : N;                (* identity of the class object *)
  m_name : pstr;            (* __name__ *)
  m_tag : option pstr;      (* explicit Meta.tag *)
  m_auto : bool;            (* auto_assign_tags in the member's OWN Meta *)
  m_fields : list pstr;     (* init fields = keys written by dump / accepted by load *)
  m_defaults : list (pstr * jv);  (* defaults of the fields that have one; the other fields are required *)
  m_catchall : bool;        (* has a CatchAll field with default None *)
  m_raise : bool            (* unknown keys raise for this member *)
}.

Inductive scalar := SInt | SStr | SBool | SFloat.
Inductive arg := AData (m : member) | AScalar (s : scalar) | ANone.

(* what the Union reads from extras['config'] *)
Record uconf := { u_tag_key : pstr; u_auto : bool }.

Definition nonempty (s : pstr) : bool := match s with [] => false | _ => true end.

(* `tag = meta.tag; if not tag and (auto_assign_tags or meta.auto_assign_tags): tag = cls.__name__`;
   registered `if tag` (UnionParser.__post_init__ / load_to_union) *)
Definition eff_tag (c : uconf) (m : member) : option pstr :=
  match m_tag m with
  | Some t => if nonempty t then Some t
              else if (u_auto c || m_auto m) && nonempty (m_name m) then Some (m_name m) else None
  | None => if (u_auto c || m_auto m) && nonempty (m_name m) then Some (m_name m) else None
  end.

(* The tag the member's dump function emits: meta.tag at the time that function is generated (the first dump of
   a member instance under the container).  With auto tags on the CONTAINER its dump builds the Union parser first
   (dumpers.py: `if meta.auto_assign_tags:`); a tag that only the member's own auto_assign_tags would assign exists
   only if the container's Union parser was built earlier (`built`: an earlier load through the container). *)
Definition dump_tag (c : uconf) (built : bool) (m : member) : option pstr :=
  match m_tag m with
  | Some t => if nonempty t then Some t
              else if (u_auto c || (built && m_auto m)) && nonempty (m_name m) then Some (m_name m) else None
  | None => if (u_auto c || (built && m_auto m)) && nonempty (m_name m) then Some (m_name m) else None
  end.

Definition opt_eqb (a : option pstr) (t : pstr) : bool :=
  match a with Some x => pstr_eqb x t | None => false end.

(* tag_to_parser[t]: dict assignment in Union-argument order, so the LAST member with tag t wins *)
Fixpoint tag_lookup (c : uconf) (t : pstr) (args : list arg) : option member :=
  match args with
  | [] => None
  | a :: r =>
      match tag_lookup c t r with
      | Some m => Some m
      | None => match a with
                | AData m => if opt_eqb (eff_tag c m) t then Some m else None
                | _ => None
                end
      end
  end.

Fixpoint dedup (l : list pstr) : list pstr :=
  match l with
  | [] => []
  | x :: r => x :: filter (fun y => negb (pstr_eqb y x)) (dedup r)
  end.

(* list(tag_to_parser.keys()) *)
Definition valid_tags (c : uconf) (args : list arg) : list pstr :=
  dedup (flat_map (fun a => match a with
                            | AData m => match eff_tag c m with Some t => [t] | None => [] end
                            | _ => []
                            end) args).

(* ---- Python dict as an association list with unique keys ------------------ *)
Fixpoint lookup (k : pstr) (items : list (pstr * jv)) : option jv :=
  match items with
  | [] => None
  | (k', v) :: r => if pstr_eqb k k' then Some v else lookup k r
  end.

(* d[k] = v *)
Fixpoint dict_set (k : pstr) (v : jv) (items : list (pstr * jv)) : list (pstr * jv) :=
  match items with
  | [] => [(k, v)]
  | (k', v') :: r => if pstr_eqb k k' then (k', v) :: r else (k', v') :: dict_set k v r
  end.

(* ---- loaded values ---------------------------------------------------------- *)
Inductive lv :=
| LNone
| LScalar (v : jv)
| LInst (m : member) (vals : list (pstr * jv)) (extra : list (pstr * jv))   (* extra: captured by CatchAll *)
| LList (l : list lv)
| LDict (items : list (pstr * lv))
| LTuple (l : list lv).

Inductive err :=
| EUnknownTag (valid : list pstr)     (* ParseError 'Object with tag was not in any of Union types', valid_tags *)
| ENoMatch                            (* ParseError 'Object was not in any of Union types' *)
| EUnknownKey (cid : N) (k : pstr)    (* UnknownKeysError raised by a member *)
| EMissing (cid : N)                  (* MissingFields raised by a member *)
| EBareType                           (* default engine: unhashable tag value -> bare TypeError *)
| EContainer                          (* the enclosing container received a value of the wrong JSON type *)
| EElem.                              (* default engine: the element conversion of a container-typed Union member raised
                                         (ValueError / TypeError of int(), as_int, ...; not a ParseError) *)

Inductive res := Ok (v : lv) | Err (e : err).

(* ---- dump ------------------------------------------------------------------ *)
Definition dump_member (c : uconf) (built : bool) (m : member) (vals : list (pstr * jv)) : jv :=
  match dump_tag c built m with
  | Some t => JDict (dict_set (u_tag_key c) (JStr t) vals)
  | None => JDict vals
  end.

Fixpoint dump_lv (c : uconf) (built : bool) (v : lv) : jv :=
  match v with
  | LNone => JNull
  | LScalar j => j
  | LInst m vals extra => dump_member c built m (vals ++ extra)
  | LList l => JList (map (dump_lv c built) l)
  | LDict items => JDict (map (fun kv => (fst kv, dump_lv c built (snd kv))) items)
  | LTuple l => JList (map (dump_lv c built) l)
  end.

(* ---- member loaders ---------------------------------------------------------- *)
Definition is_field (k : pstr) (m : member) : bool := mem_str k (m_fields m).

Definition first_jv (a b : option jv) : option jv := match a with Some v => Some v | None => b end.

(* constructor call with init_kwargs: every field from the document, else its default, else MissingFields *)
Fixpoint collect (fields : list pstr) (kw dfl : list (pstr * jv)) : option (list (pstr * jv)) :=
  match fields with
  | [] => Some []
  | f :: r => match first_jv (lookup f kw) (lookup f dfl), collect r kw dfl with
              | Some v, Some l => Some ((f, v) :: l)
              | _, _ => None
              end
  end.

Definition is_some {A} (o : option A) : bool := match o with Some _ => true | None => false end.

(* default engine: `has_tag_assigned = meta.tag is not None` when cls_fromdict is generated.  `pre`: the
   auto tags were already assigned earlier in this interpreter (a dump of the container, or an earlier
   construction of the Union parser); on a first load they are assigned only AFTER the member loaders exist. *)
Definition whitelisted_v0 (c : uconf) (pre : bool) (m : member) : bool :=
  (match m_tag m with Some _ => true | None => pre && is_some (eff_tag c m) end)
  && negb (is_field (u_tag_key c) m).

Fixpoint scan_v0 (c : uconf) (m : member) (wl : bool) (items kw extra : list (pstr * jv)) : res :=
  match items with
  | [] => match collect (m_fields m) kw (m_defaults m) with
          | Some vals => Ok (LInst m vals extra)
          | None => Err (EMissing (m_cid m))
          end
  | (k, v) :: r =>
      if is_field k m then scan_v0 c m wl r (dict_set k v kw) extra
      else if wl && pstr_eqb k (u_tag_key c) then scan_v0 c m wl r kw extra
      else if m_raise m then Err (EUnknownKey (m_cid m) k)
      else if m_catchall m then scan_v0 c m wl r kw (dict_set k v extra)
      else scan_v0 c m wl r kw extra
  end.

Definition load_member_v0 (c : uconf) (pre : bool) (m : member) (items : list (pstr * jv)) : res :=
  scan_v0 c m (whitelisted_v0 c pre m) items [] [].

(* v1: the member function is generated after the tag has been assigned *)
Definition whitelisted_v1 (c : uconf) (m : member) : bool :=
  is_some (eff_tag c m) && negb (is_field (u_tag_key c) m).

Definition load_member_v1 (c : uconf) (m : member) (items : list (pstr * jv)) : res :=
  let wl := whitelisted_v1 c m in
  let unknown := filter (fun kv => negb (is_field (fst kv) m) && negb (wl && pstr_eqb (fst kv) (u_tag_key c))) items in
  let known := filter (fun kv => is_field (fst kv) m) items in
  if negb (m_catchall m) && m_raise m && negb (match unknown with [] => true | _ => false end)
  then Err (EUnknownKey (m_cid m) (match unknown with (k, _) :: _ => k | [] => [] end))
  else match collect (m_fields m) known (m_defaults m) with
       | Some vals => Ok (LInst m vals (if m_catchall m then unknown else []))
       | None => Err (EMissing (m_cid m))
       end.

(* ---- Union loaders ------------------------------------------------------------ *)
Definition scalar_of (o : jv) : option scalar :=
  match o with
  | JInt _ => Some SInt
  | JStr _ => Some SStr
  | JBool _ => Some SBool
  | JFloat _ => Some SFloat
  | _ => None
  end.

Definition scalar_eqb (a b : scalar) : bool :=
  match a, b with
  | SInt, SInt | SStr, SStr | SBool, SBool | SFloat, SFloat => true
  | _, _ => false
  end.

(* `for parser in self.parsers: if o in parser: return parser(o)` — exact type, so only scalar values *)
Fixpoint scan_scalars (args : list arg) (o : jv) : option jv :=
  match args with
  | [] => None
  | AScalar s :: r =>
      match scalar_of o with
      | Some s' => if scalar_eqb s s' then Some o else scan_scalars r o
      | None => scan_scalars r o
      end
  | _ :: r => scan_scalars r o
  end.

Definition has_none (args : list arg) : bool :=
  existsb (fun a => match a with ANone => true | _ => false end) args.

(* `if o is None and NoneType in self.base_type: return o` *)
Definition load_union_v0 (c : uconf) (pre : bool) (args : list arg) (o : jv) : res :=
  match o, has_none args with
  | JNull, true => Ok LNone
  | _, _ =>
    match scan_scalars args o with
    | Some v => Ok (LScalar v)
    | None =>
      match o with
      | JDict items =>
          match lookup (u_tag_key c) items with
          | None => Err ENoMatch                                   (* KeyError -> pass *)
          | Some (JStr t) =>
              match tag_lookup c t args with
              | Some m => load_member_v0 c pre m items
              | None => Err (EUnknownTag (valid_tags c args))
              end
          | Some (JList _) | Some (JDict _) => Err EBareType       (* unhashable *)
          | Some _ => Err (EUnknownTag (valid_tags c args))
          end
      | _ => Err ENoMatch                                          (* o[tag_key] raises TypeError -> pass *)
      end
    end
  end.

(* v1: the function called for a member is the LAST generated function with that __name__ *)
Fixpoint fn_member (c : uconf) (name : pstr) (args : list arg) : option member :=
  match args with
  | [] => None
  | a :: r =>
      match fn_member c name r with
      | Some m => Some m
      | None => match a with
                | AData m => if is_some (eff_tag c m) && pstr_eqb (m_name m) name then Some m else None
                | _ => None
                end
      end
  end.

Section V1.
  (* v1 scalar loaders applied to a value of another type (str(o), int(o), ...): a stdlib-level oracle *)
  Variable coerce : scalar -> jv -> option jv.

  Fixpoint try_scalars (args : list arg) (o : jv) : option jv :=
    match args with
    | [] => None
    | AScalar s :: r => match coerce s o with Some v => Some v | None => try_scalars r o end
    | _ :: r => try_scalars r o
    end.

  Definition untagged_v1 (args : list arg) (o : jv) : res :=
    match scan_scalars args o with                 (* `if tp is int: return v1` *)
    | Some v => Ok (LScalar v)
    | None => match try_scalars args o with        (* try: return load(v1) except: pass *)
              | Some v => Ok (LScalar v)
              | None => Err ENoMatch
              end
    end.

  Definition load_union_v1 (c : uconf) (args : list arg) (o : jv) : res :=
    match o, has_none args with
    | JNull, true => Ok LNone
    | _, _ =>
      match o with
      | JDict items =>
          match lookup (u_tag_key c) items with
          | Some tagv =>
              match tagv with
              | JStr t =>
                  match tag_lookup c t args with
                  | Some m => match fn_member c (m_name m) args with
                              | Some m' => load_member_v1 c m' items
                              | None => Err ENoMatch
                              end
                  | None => Err (EUnknownTag (valid_tags c args))
                  end
              | _ => Err (EUnknownTag (valid_tags c args))
              end
          | None => untagged_v1 args o
          end
      | _ => untagged_v1 args o
      end
    end.
End V1.

(* ---- positions inside containers ------------------------------------------------ *)
Inductive pos :=
| PHere
| POpt (p : pos)
| PList (p : pos)
| PDict (p : pos)        (* dict value *)
| PTuple (p : pos)       (* Tuple[X, int]: first element *)
| PVTuple (p : pos).     (* Tuple[X, ...] *)

Definition mapM (g : jv -> res) : list jv -> option (list lv) * option err :=
  fix go (l : list jv) :=
    match l with
    | [] => (Some [], None)
    | x :: r => match g x with
                | Err e => (None, Some e)
                | Ok v => match go r with
                          | (Some vs, _) => (Some (v :: vs), None)
                          | (None, e) => (None, e)
                          end
                end
    end.

Definition mapM_items (g : jv -> res) : list (pstr * jv) -> option (list (pstr * lv)) * option err :=
  fix go (l : list (pstr * jv)) :=
    match l with
    | [] => (Some [], None)
    | (k, x) :: r => match g x with
                     | Err e => (None, Some e)
                     | Ok v => match go r with
                               | (Some vs, _) => (Some ((k, v) :: vs), None)
                               | (None, e) => (None, e)
                               end
                     end
    end.

Definition finish {A} (r : option A * option err) (k : A -> lv) : res :=
  match r with
  | (Some x, _) => Ok (k x)
  | (None, Some e) => Err e
  | (None, None) => Err EContainer
  end.

Fixpoint load_pos (f : jv -> res) (p : pos) (o : jv) : res :=
  match p with
  | PHere => f o
  | POpt p' => match o with JNull => Ok LNone | _ => load_pos f p' o end
  | PList p' => match o with JList l => finish (mapM (load_pos f p') l) LList | _ => Err EContainer end
  | PDict p' => match o with JDict items => finish (mapM_items (load_pos f p') items) LDict | _ => Err EContainer end
  | PTuple p' => match o with
                 | JList [x; JInt n] => match load_pos f p' x with
                                        | Ok v => Ok (LTuple [v; LScalar (JInt n)])
                                        | Err e => Err e
                                        end
                 | _ => Err EContainer
                 end
  | PVTuple p' => match o with JList l => finish (mapM (load_pos f p') l) LTuple | _ => Err EContainer end
  end.

(* ---- encoders for the correspondence harness -------------------------------------- *)
Definition show_N (n : N) : pstr := [ch (48 + n)].

Fixpoint show_jv (j : jv) : pstr :=
  match j with
  | JNull => S "null"
  | JBool true => S "true"
  | JBool false => S "false"
  | JInt z => S "i" ++ (if (z <? 0)%Z then S "-" else []) ++ show_N (Z.to_N (Z.abs z))
  | JFloat z => S "f" ++ show_N (Z.to_N z)
  | JStr s => S "s" ++ hex s
  | JList l => S "[" ++ join (S ",") (map show_jv l) ++ S "]"
  | JDict items => S "{" ++ join (S ",") (map (fun kv => hex (fst kv) ++ S ":" ++ show_jv (snd kv)) items) ++ S "}"
  end.

Definition show_items (items : list (pstr * jv)) : pstr :=
  join (S ",") (map (fun kv => hex (fst kv) ++ S ":" ++ show_jv (snd kv)) items).

Fixpoint show_lv (v : lv) : pstr :=
  match v with
  | LNone => S "None"
  | LScalar j => S "S(" ++ show_jv j ++ S ")"
  | LInst m vals extra => S "I" ++ show_N (m_cid m) ++ S "(" ++ show_items vals ++ S ";" ++ show_items extra ++ S ")"
  | LList l => S "L[" ++ join (S ",") (map show_lv l) ++ S "]"
  | LDict items => S "D{" ++ join (S ",") (map (fun kv => hex (fst kv) ++ S ":" ++ show_lv (snd kv)) items) ++ S "}"
  | LTuple l => S "T[" ++ join (S ",") (map show_lv l) ++ S "]"
  end.

Definition show_err (e : err) : pstr :=
  match e with
  | EUnknownTag valid => S "ParseError:tags=" ++ join (S ",") (map hex valid)
  | ENoMatch => S "ParseError:nomatch"
  | EUnknownKey cid k => S "UnknownKeysError:" ++ show_N cid ++ S ":" ++ hex k
  | EMissing cid => S "MissingFields:" ++ show_N cid
  | EBareType => S "TypeError"
  | EContainer => S "container"
  | EElem => S "elem"
  end.

Definition show_res (r : res) : pstr :=
  match r with Ok v => S "ok:" ++ show_lv v | Err e => S "err:" ++ show_err e end.

Definition no_coerce (s : scalar) (o : jv) : option jv := None.
