(* V1ErrHist.v — C14 over call HISTORIES: the shared function table and the Meta
   settings that decide which function a load (and a nested position) calls.

   class_helper.py:26      CLASS_TO_LOAD_FUNC : class -> compiled `fromdict`, ONE table for
                           both engines; written by loaders.py:798 (default engine) and
                           v1/loaders.py:1327 (v1), only for the class `fromdict` was called on;
   loader_selection.py:11-33   fromdict(cls, d): a table hit is called whatever the class's Meta
                           says NOW; a miss compiles with the engine `get_meta(cls).v1` selects;
   bases_meta.py:213-221   `LoadMeta(...).bind_to(cls)` writes _META[cls] (nothing else does:
                           the Meta handed down to nested classes is bound with is_default=False);
   v1/loaders.py:983-990   config passed down = the root's Meta if `recursive` else AbstractMeta;
   v1/loaders.py:709-713, 811-814   a nested dataclass position of a v1 function ALWAYS gets a
                           freshly generated v1 function (load_to_dataclass), whatever the table,
                           the config and the nested class's own Meta say.

   The last point is a parameter of the model (`resolver`): `resolve_generate` is the real
   code; `resolve_shortcut` (re-use the table entry when no config is passed down) is the
   variant under which the C14 statements are FALSE (see C14_shortcut_resolver_refuted).
   The default engine's compiled function is an arbitrary function of the state and the
   class (`dflt`): the theorems hold for every default engine.
   Not modelled: v1_key_case / alias tables of nested classes (F10, property C07).
   No proofs in this file. *)
From DW Require Import PyStr V1Base V1Gen V1Errors V1Eval.
From Coq Require Import ZArith List Bool.
Import ListNotations.

Inductive engine := EV1 | EDflt.

(* the two Meta settings that select functions *)
Record cmeta := { m_v1 : bool; m_rec : bool }.
Definition meta_abstract : cmeta := {| m_v1 := false; m_rec := true |}.    (* AbstractMeta *)

(* extras['config'] of a v1 generation *)
Inductive config := CfgAbstract | CfgMeta (m : cmeta).
Definition config_of (m : cmeta) : config := if m_rec m then CfgMeta m else CfgAbstract.

Definition ftable := list (cid * (engine * loader)).
Record hstate := {
  h_funcs : ftable;                     (* CLASS_TO_LOAD_FUNC *)
  h_meta : list (cid * cmeta)           (* _META, latest binding first *)
}.
Definition pristine : hstate := {| h_funcs := []; h_meta := [] |}.

Fixpoint alookup {A} (l : list (cid * A)) (c : cid) : option A :=
  match l with
  | [] => None
  | (c', a) :: r => if Nat.eqb c c' then Some a else alookup r c
  end.

Definition meta_of (st : hstate) (c : cid) : cmeta :=
  match alookup (h_meta st) c with Some m => m | None => meta_abstract end.

(* what a nested dataclass position calls: None = a function generated now, for that class,
   by the same generation; Some f = the function f *)
Definition resolver := hstate -> config -> cid -> option loader.
Definition resolve_generate : resolver := fun _ _ _ => None.
Definition resolve_shortcut : resolver :=
  fun st cfg c => match cfg with
                  | CfgAbstract => match alookup (h_funcs st) c with Some ef => Some (snd ef) | None => None end
                  | CfgMeta _ => None
                  end.

Section Hist.
  Variable Or : oracle.
  Variable ct : ctable.
  Variable n : nat.                              (* nesting budget of every compiled v1 function *)
  Variable res : resolver.
  Variable dflt : hstate -> cid -> loader.      (* what the default engine compiles *)

  (* a helper-compiled position of a v1 function under generation: a dataclass position goes
     through `nested`, everything else is generated *)
  Definition via (nested : cid -> option loader) (rec : ty -> pv -> result pv) : ty -> pv -> result pv :=
    fun t v => match t with
               | TData c => match nested c with Some f => f v | None => rec t v end
               | _ => rec t v
               end.

  Fixpoint hload_n (nested : cid -> option loader) (k : nat) (t : ty) (v : pv) : result pv :=
    match k with
    | 0%nat => Err XFuel
    | Datatypes.S m => load_helper Or ct (via nested (hload_n nested m)) t v
    end.

  (* v1/loaders.py:955-1329 for the class `fromdict` was called on *)
  Definition compile_v1 (st : hstate) (cfg : config) (c : cid) : loader :=
    hload_n (res st cfg) n (TData c).

  (* loader_selection.fromdict *)
  Definition fromdict (st : hstate) (c : cid) (o : pv) : hstate * (engine * result pv) :=
    match alookup (h_funcs st) c with
    | Some (e, f) => (st, (e, f o))
    | None =>
        let m := meta_of st c in
        let ef := if m_v1 m then (EV1, compile_v1 st (config_of m) c) else (EDflt, dflt st c) in
        ({| h_funcs := (c, ef) :: h_funcs st; h_meta := h_meta st |}, (fst ef, snd ef o))
    end.

  Inductive hop :=
  | OBind (c : cid) (m : cmeta)      (* LoadMeta(v1=.., recursive=..).bind_to(cls) *)
  | OLoad (c : cid) (o : pv).        (* fromdict(cls, o) *)

  Definition hstep (st : hstate) (op : hop) : hstate * option (engine * result pv) :=
    match op with
    | OBind c m => ({| h_funcs := h_funcs st; h_meta := (c, m) :: h_meta st |}, None)
    | OLoad c o => let (st', r) := fromdict st c o in (st', Some r)
    end.

  Fixpoint hrun (st : hstate) (ops : list hop) : hstate * list (option (engine * result pv)) :=
    match ops with
    | [] => (st, [])
    | op :: r => let (st1, x) := hstep st op in
                 let (st2, xs) := hrun st1 r in (st2, x :: xs)
    end.

  (* the state a history leaves behind *)
  Definition after (ops : list hop) : hstate := fst (hrun pristine ops).

  (* "first use decides": the engine that executes fromdict(c, _) after a history, computed
     without any table — the Meta bound to c when c was first loaded, else the current one *)
  Fixpoint engine_spec (cur : cmeta) (ops : list hop) (c : cid) : engine :=
    match ops with
    | [] => if m_v1 cur then EV1 else EDflt
    | OBind c' m :: r => engine_spec (if Nat.eqb c c' then m else cur) r c
    | OLoad c' _ :: r => if Nat.eqb c c' then (if m_v1 cur then EV1 else EDflt) else engine_spec cur r c
    end.
End Hist.
