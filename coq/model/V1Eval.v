(* V1Eval.v — (1) big-step evaluation of the generated expression AST and of the
   generated functions (Python comprehension scoping: a comprehension binds its
   own variable, visible only in its body), with a call budget;
   (2) `load_v1`, the SEMANTIC specification of the v1 loader: what each
   annotation's loader computes, by recursion on the annotation and the value,
   with no variables, no state and no function table;
   (3) the dumper, conformance, and the reference locator of C14.
   The statement skeletons of the generated helper functions (Literal, Union,
   NamedTuple, TypedDict, dataclass) are shared between (1) and (2); what
   differs is how a component is loaded: by evaluating the generated expression
   in an environment, or by the specification.
   No proofs in this file. *)
From DW Require Import PyStr V1Base V1Gen V1Errors.
From Coq Require Import ZArith List Bool.
Import ListNotations.

(* ---- environments ------------------------------------------------------------ *)
Definition var := (pfx * nat)%type.
Definition var_eqb (a b : var) : bool :=
  (match fst a, fst b with PV, PV | PK, PK => true | _, _ => false end) && Nat.eqb (snd a) (snd b).
Definition env := list (var * pv).
Fixpoint env_get (en : env) (x : var) : result pv :=
  match en with
  | [] => bare "NameError"
  | (y, v) :: r => if var_eqb x y then Ok v else env_get r x
  end.

(* markers of the model are never swallowed by a generated `except Exception` *)
Definition catchable (x : exn) : bool := negb (is_marker x).

(* ---- skeletons of the generated helper functions -------------------------------- *)
Definition loader := pv -> result pv.

(* load_to_literal (loaders.py:564-587) *)
Definition lit_skel (vs : list lit) (v : pv) : result pv :=
  if existsb (fun a => pv_eqb v (lit_pv a)) vs then Ok v else Err (XLib (mk_parse v)).

Inductive salt := SNone | SSimple (l : leaf) (f : loader) | SOther (f : loader).

Definition type_is (l : leaf) (v : pv) : bool :=
  match l, v with
  | LBool, VBool _ | LInt, VInt _ | LFloat, VFloat _ | LStr, VStr _ | LBytes, VBytes _ => true
  | _, _ => false
  end.

(* `try: return f(v1) / except Exception: pass` over a list of parsers *)
Fixpoint try_each (fs : list loader) (v : pv) (k : result pv) : result pv :=
  match fs with
  | [] => k
  | f :: r =>
      match f v with
      | Ok x => Ok x
      | Err e => if catchable e then try_each r v k else Err e
      end
  end.

(* the interleaved `type_checks` list: `if tp is T: return v1` / try-parse *)
Fixpoint union_checks (alts : list salt) (v : pv) (k : result pv) : result pv :=
  match alts with
  | [] => k
  | SNone :: r => union_checks r v k
  | SSimple l _ :: r => if type_is l v then Ok v else union_checks r v k
  | SOther f :: r =>
      match f v with
      | Ok x => Ok x
      | Err e => if catchable e then union_checks r v k else Err e
      end
  end.

Definition simple_parsers (alts : list salt) : list loader :=
  flat_map (fun a => match a with SSimple _ f => [f] | _ => [] end) alts.

(* load_to_union (loaders.py:427-562), no dataclass alternatives *)
Definition union_skel (alts : list salt) (v : pv) : result pv :=
  if existsb (fun a => match a with SNone => true | _ => false end) alts && is_none v then Ok VNone
  else union_checks alts v (try_each (simple_parsers alts) v (Err (XLib (mk_parse v)))).

(* evaluate the components in order: the values loaded so far and the first error *)
Fixpoint seq_load (fs : list loader) (v : pv) : list pv * option exn :=
  match fs with
  | [] => ([], None)
  | f :: r =>
      match f v with
      | Ok x => let (xs, e) := seq_load r v in (x :: xs, e)
      | Err e => ([], Some e)
      end
  end.

(* load_to_named_tuple (loaders.py:265-326), all fields required *)
Definition named_skel (n : pstr) (fs : list (pstr * loader)) (v : pv) : result pv :=
  match seq_load (map snd fs) v with
  | (xs, None) => Ok (VNamed n xs)
  | (xs, Some e) =>
      match e with
      | XBare k =>
          if pstr_eqb k (S "IndexError")
          then Err (XLib (mk_missing_fields n v (map fst (skipn (List.length xs) fs))))
          else if pstr_eqb k (S "KeyError") && is_dict v then bare "TypeError"
          else Err e
      | _ => Err e
      end
  end.

(* optional keys of a TypedDict: `if (v2 := v1.get(key, MISSING)) is not MISSING: result[key] = f(v2)` *)
Fixpoint opt_load (fs : list (pstr * loader)) (kvs : list (pv * pv)) : result (list (pv * pv)) :=
  match fs with
  | [] => Ok []
  | (key, f) :: r =>
      match dict_get kvs key with
      | None => opt_load r kvs
      | Some x =>
          match f x with
          | Ok y => match opt_load r kvs with Ok ys => Ok ((VStr key, y) :: ys) | Err e => Err e end
          | Err e => Err e
          end
      end
  end.

Fixpoint req_load (fs : list (pstr * loader)) (v : pv) : result (list (pv * pv)) :=
  match fs with
  | [] => Ok []
  | (key, f) :: r =>
      match f v with
      | Ok y => match req_load r v with Ok ys => Ok ((VStr key, y) :: ys) | Err e => Err e end
      | Err e => Err e
      end
  end.

(* load_to_typed_dict (loaders.py:384-425): every exception becomes a fresh ParseError *)
Definition typed_skel (req opt : list (pstr * loader)) (v : pv) : result pv :=
  let body :=
    match req_load req v with
    | Err e => Err e
    | Ok rs =>
        match opt with
        | [] => Ok (VDict None rs)
        | _ =>
            match v with
            | VDict _ kvs =>
                match opt_load opt kvs with
                | Ok os => Ok (VDict None (rs ++ os))
                | Err e => Err e
                end
            | _ => bare "AttributeError"
            end
        end
    end in
  match body with
  | Ok x => Ok x
  | Err e => if catchable e then Err (XLib (mk_parse v)) else Err e
  end.

(* the fields of the generated dataclass function, inside its `try` (loaders.py:1107-1236) *)
Fixpoint first_key (kvs : list (pv * pv)) (keys : list pstr) : option pv :=
  match keys with
  | [] => None
  | k :: r => match dict_get kvs k with Some v => Some v | None => first_key kvs r end
  end.

(* result: per field, Some value (loaded) or None (key absent) *)
Fixpoint fields_load (cn : pstr) (o : pv) (kvs : list (pv * pv))
         (fs : list (fdecl * loader)) : result (list (option pv)) :=
  match fs with
  | [] => Ok []
  | (f, ld) :: r =>
      match first_key kvs (f_keys f) with
      | None => match fields_load cn o kvs r with Ok xs => Ok (None :: xs) | Err e => Err e end
      | Some v =>
          match ld v with
          | Ok x => match fields_load cn o kvs r with Ok xs => Ok (Some x :: xs) | Err e => Err e end
          | Err e => Err (re_raise e cn o (f_name f) v)
          end
      end
  end.

(* `return cls(...)`: a required field without a value is an UnboundLocalError ->
   raise_missing_fields (loaders.py:906-943, 1283-1288) *)
Fixpoint construct (fs : list fdecl) (xs : list (option pv)) : list (pstr * pv) * list pstr :=
  match fs, xs with
  | f :: r, x :: xr =>
      let (vals, miss) := construct r xr in
      match x, f_default f with
      | Some v, _ => ((f_name f, v) :: vals, miss)
      | None, Some d => ((f_name f, d) :: vals, miss)
      | None, None => (vals, f_name f :: miss)
      end
  | _, _ => ([], [])
  end.

Definition class_skel (c : cid) (cd : cdecl) (lds : list loader) (o : pv) : result pv :=
  match c_fields cd with
  | [] => Ok (VInst c [])           (* no `try`, `return cls()` *)
  | f0 :: _ =>
      match o with
      | VDict _ kvs =>
          match fields_load (c_name cd) o kvs (combine (c_fields cd) lds) with
          | Err e => Err e
          | Ok xs =>
              let (vals, miss) := construct (c_fields cd) xs in
              match miss with
              | [] => Ok (VInst c vals)
              | _ => Err (XLib (mk_missing_fields (c_name cd) o miss))
              end
          end
      | _ => (* `field='<first>'; v1 = o.get(...)` raises AttributeError inside the try *)
          Err (re_raise (XBare (S "AttributeError")) (c_name cd) o (f_name f0) VNone)
      end
  end.

(* ---- (1) evaluation of generated code ------------------------------------------- *)
Section Eval.
  Variable Or : oracle.
  Variable call : pstr -> pv -> result pv.     (* calling a generated function *)

  Fixpoint eval (en : env) (e : expr) {struct e} : result pv :=
    match e with
    | EVar p i => env_get en (p, i)
    | EIdx e' ix => match eval en e' with Ok v => py_index v ix | Err x => Err x end
    | ENone => Ok VNone
    | ELeaf l o e' => match eval en e' with Ok v => conv Or l o v | Err x => Err x end
    | ECall f e' => match eval en e' with Ok v => call f v | Err x => Err x end
    | ESeq k body i src =>
        match eval en src with
        | Err x => Err x
        | Ok s =>
            match py_iter s with
            | Err x => Err x
            | Ok l =>
                match mapM (fun x => eval (((PV, i), x) :: en) body) l with
                | Ok ys => wrap_seq k ys
                | Err x => Err x
                end
            end
        end
    | EDict dd kb vb i src =>
        match eval en src with
        | Err x => Err x
        | Ok s =>
            match py_items s with
            | Err x => Err x
            | Ok kvs =>
                match mapM (fun kv =>
                              let en' := ((PK, i), fst kv) :: ((PV, i), snd kv) :: en in
                              match eval en' kb with
                              | Ok k' => match eval en' vb with Ok v' => Ok (k', v') | Err x => Err x end
                              | Err x => Err x
                              end) kvs with
                | Ok kvs' => wrap_dict dd kvs'
                | Err x => Err x
                end
            end
        end
    | ETuple es =>
        match (fix go (es : list expr) : result (list pv) :=
                 match es with
                 | [] => Ok []
                 | e' :: r =>
                     match eval en e' with
                     | Ok v => match go r with Ok vs => Ok (v :: vs) | Err x => Err x end
                     | Err x => Err x
                     end
                 end) es with
        | Ok vs => Ok (VSeq KTuple vs)
        | Err x => Err x
        end
    | EIfNone c e' =>
        match eval en c with
        | Ok v => if is_none v then Ok VNone else eval en e'
        | Err x => Err x
        end
    end.

  (* a component expression of a helper body, run with the parameter v1 = v *)
  Definition run1 (e : expr) : loader := fun v => eval [((PV, 1), v)] e.
  (* optional TypedDict key: v1 = the dict (unused by the expression), v2 = the value *)
  Definition run2 (e : expr) : loader := fun x => eval [((PV, 2), x)] e.

  Definition salt_of (a : ualt) : salt :=
    match a with
    | UNone => SNone
    | USimple l e => SSimple l (run1 e)
    | UOther e => SOther (run1 e)
    end.

  Definition eval_body (ct : ctable) (b : fbody) (v : pv) : result pv :=
    match b with
    | FLit vs => lit_skel vs v
    | FUnion alts => union_skel (map salt_of alts) v
    | FNamed n es => named_skel n (map (fun le => (fst le, run1 (snd le))) es) v
    | FTyped _ req opt =>
        typed_skel (map (fun ke => (fst ke, run1 (snd ke))) req)
                   (map (fun ke => (fst ke, run2 (snd ke))) opt) v
    | FClass c es =>
        match nth_error ct c with
        | None => bare "TypeError"
        | Some cd => class_skel c cd (map run1 es) v
        end
    end.
End Eval.

(* calling generated function f with a budget of n nested calls *)
Fixpoint run_fn (Or : oracle) (ct : ctable) (fns : list (pstr * (ty * fbody))) (n : nat)
         (f : pstr) (v : pv) : result pv :=
  match n with
  | 0%nat => Err XFuel
  | Datatypes.S m =>
      match fn_lookup fns f with
      | None => bare "NameError"
      | Some (_, b) => eval_body Or (run_fn Or ct fns m) ct b v
      end
  end.

(* ---- (2) the semantic specification ----------------------------------------------- *)
Section Spec.
  Variable Or : oracle.
  Variable ct : ctable.
  (* loading a helper-compiled annotation (Union, Literal, NamedTuple, TypedDict,
     dataclass) with a smaller budget *)
  Variable rec : ty -> pv -> result pv.

  (* load_r t o rv: load annotation t (o = directly under Optional) from the position
     whose read yields rv (a position that cannot be read is an error unless the
     loader ignores it) *)
  Fixpoint load_r (t : ty) (o : bool) (rv : result pv) {struct t} : result pv :=
    match t with
    | TLeaf LNone => Ok VNone
    | TLeaf LAny => rv
    | TLeaf l => match rv with Ok v => conv Or l o v | Err x => Err x end
    | TSeq k t' =>
        match rv with
        | Err x => Err x
        | Ok s =>
            match py_iter s with
            | Err x => Err x
            | Ok l => match mapM (fun x => load_r t' false (Ok x)) l with
                      | Ok ys => wrap_seq k ys
                      | Err x => Err x
                      end
            end
        end
    | TTuple ts =>
        match load_elems ts 0 rv with
        | Ok vs => Ok (VSeq KTuple vs)
        | Err x => Err x
        end
    | TDict dd kt vt =>
        match rv with
        | Err x => Err x
        | Ok s =>
            match py_items s with
            | Err x => Err x
            | Ok kvs =>
                match mapM (fun kv =>
                              match load_r kt false (Ok (fst kv)) with
                              | Ok k' => match load_r vt false (Ok (snd kv)) with
                                         | Ok v' => Ok (k', v') | Err x => Err x end
                              | Err x => Err x
                              end) kvs with
                | Ok kvs' => wrap_dict dd kvs'
                | Err x => Err x
                end
            end
        end
    | TOpt t' =>
        match rv with
        | Err x => Err x
        | Ok v => if is_none v then Ok VNone else load_r t' true (Ok v)
        end
    | TUnion _ | TLit _ | TNamed _ _ | TTyped _ _ _ | TData _ =>
        match rv with Ok v => rec t v | Err x => Err x end
    end
  (* element k of a fixed tuple is loaded from position rv[k] *)
  with load_elems (ts : tys) (k : nat) (rv : result pv) {struct ts} : result (list pv) :=
    match ts with
    | TNil => Ok []
    | TCons _ t r =>
        match load_r t false (match rv with Ok s => py_index s (IxN k) | Err x => Err x end) with
        | Ok v => match load_elems r (Datatypes.S k) rv with Ok vs => Ok (v :: vs) | Err x => Err x end
        | Err x => Err x
        end
    end.

  Definition load_ty (t : ty) (v : pv) : result pv := load_r t false (Ok v).

  (* the read a component performs on the helper's parameter v *)
  Definition pos_read (m : lmode) (k : nat) (lbl : pstr) (v : pv) : result pv :=
    match m with
    | MElem => py_index v (IxN k)
    | MKey => py_index v (IxS lbl)
    | MSame => Ok v
    end.
  Definition opt_at (m : lmode) (o : bool) : bool := match m with MSame => o | _ => false end.

  Fixpoint list_loaders (m : lmode) (o : bool) (ts : tys) (k : nat) : list (pstr * loader) :=
    match ts with
    | TNil => []
    | TCons lbl t r =>
        (lbl, fun v => load_r t (opt_at m o) (pos_read m k lbl v)) :: list_loaders m o r (Datatypes.S k)
    end.

  Fixpoint mk_salts (ts : tys) (ls : list (pstr * loader)) : list salt :=
    match ts, ls with
    | TCons _ t r, (_, f) :: lr =>
        (match t with
         | TLeaf LNone => SNone
         | TLeaf l => if simple_leaf l then SSimple l f else SOther f
         | _ => SOther f
         end) :: mk_salts r lr
    | _, _ => []
    end.

  (* what the loader of a helper-compiled annotation computes *)
  Definition load_helper (t : ty) (v : pv) : result pv :=
    match t with
    | TLit vs => lit_skel vs v
    | TUnion ts => union_skel (mk_salts ts (list_loaders MSame (has_none ts) ts 0)) v
    | TNamed n fs => named_skel n (list_loaders MElem false fs 0) v
    | TTyped _ req opt => typed_skel (list_loaders MKey false req 0) (list_loaders MSame false opt 0) v
    | TData c =>
        match nth_error ct c with
        | None => bare "TypeError"
        | Some cd => class_skel c cd (map (fun f => load_ty (f_ty f)) (c_fields cd)) v
        end
    | _ => load_ty t v
    end.
End Spec.

Fixpoint load_n (Or : oracle) (ct : ctable) (n : nat) (t : ty) (v : pv) : result pv :=
  match n with
  | 0%nat => Err XFuel
  | Datatypes.S m => load_helper Or ct (load_n Or ct m) t v
  end.

(* load_v1 n t v: the value annotation t denotes on input v, helpers nested at most n deep *)
Definition load_v1 (Or : oracle) (ct : ctable) (n : nat) (t : ty) (v : pv) : result pv :=
  load_ty Or (load_n Or ct n) t v.
Definition load_v1_r (Or : oracle) (ct : ctable) (n : nat) (t : ty) (o : bool) (rv : result pv) : result pv :=
  load_r Or (load_n Or ct n) t o rv.

(* fromdict(cls, o) *)
Definition load_cls (Or : oracle) (ct : ctable) (n : nat) (c : cid) (o : pv) : result pv :=
  load_n Or ct n (TData c) o.

(* the generated program: generate, then call the main function *)
Definition run_main (Or : oracle) (ct : ctable) (gn n : nat) (c : cid) (o : pv) : result pv :=
  match gen_main ct gn c with
  | Ok (f, g) => run_fn Or ct (g_fns g) n f o
  | Err e => Err e
  end.

(* ---- (3) dump, conformance ------------------------------------------------------- *)
(* no element equals (pv_eqb) an earlier one; `seen` = earlier elements, latest first *)
Fixpoint nodup_acc (seen l : list pv) : bool :=
  match l with
  | [] => true
  | x :: r => negb (mem_pv x seen) && nodup_acc (x :: seen) r
  end.
Definition nodup_pv (l : list pv) : bool := nodup_acc [] l.

Section Dump.
  Variable Or : oracle.
  Variable ct : ctable.

  (* dumpers.py: value-directed.  An instance dumps as a dict keyed by the dump keys
     of its class, in field order. *)
  Fixpoint dump (v : pv) : pv :=
    match v with
    | VNone | VBool _ | VInt _ | VFloat _ | VStr _ => v
    | VBytes _ | VByteArray _ | VObj _ _ => dumpleaf Or v
    | VSeq KTuple l => VSeq KTuple (map dump l)
    | VSeq _ l => VSeq KList (map dump l)
    | VDict _ kvs => VDict None (map (fun kv => (dump (fst kv), dump (snd kv))) kvs)
    | VNamed n l => VNamed n (map dump l)
    | VInst c fs =>
        VDict None
          ((fix go (ds : list fdecl) (fs : list (pstr * pv)) {struct fs} : list (pv * pv) :=
              match fs, ds with
              | nv :: fr, d :: dr => (VStr (f_dkey d), dump (snd nv)) :: go dr fr
              | _, _ => []
              end)
             (match nth_error ct c with Some cd => c_fields cd | None => [] end) fs)
    end.

  Variable good : leaf -> pv -> bool.   (* the leaf values the round trip is claimed for *)

  Section Conf.
    (* conformance to a helper-compiled annotation, with a smaller budget *)
    Variable crec : ty -> pv -> bool.
    Fixpoint conf (t : ty) (v : pv) {struct t} : bool :=
      match t with
      | TLeaf l => good l v
      | TSeq k t' =>
          match v with
          | VSeq k' l =>
              seqkind_eqb k k' && forallb (conf t') l &&
              (match k with KSet | KFrozen => forallb hashable l && nodup_pv l | _ => true end)
          | _ => false
          end
      | TTuple ts =>
          match v with VSeq KTuple l => conf_l ts l | _ => false end
      | TDict dd kt vt =>
          match v with
          | VDict dd' kvs =>
              opt_eqb pstr_eqb dd dd' &&
              forallb (fun kv => conf kt (fst kv) && conf vt (snd kv)) kvs &&
              forallb (fun kv => hashable (fst kv)) kvs && nodup_pv (map fst kvs)
          | _ => false
          end
      | TOpt t' => is_none v || conf t' v
      | TLit _ | TNamed _ _ | TData _ => crec t v
      | TUnion _ | TTyped _ _ _ => false     (* outside the round-trip theorem *)
      end
    with conf_l (ts : tys) (l : list pv) {struct ts} : bool :=
      match ts, l with
      | TNil, [] => true
      | TCons _ t r, x :: xr => conf t x && conf_l r xr
      | _, _ => false
      end.

    Fixpoint conf_fields (fs : list fdecl) (vs : list (pstr * pv)) : bool :=
      match fs, vs with
      | [], [] => true
      | f :: r, (n, x) :: xr => pstr_eqb (f_name f) n && conf (f_ty f) x && conf_fields r xr
      | _, _ => false
      end.

    Definition conf_helper (t : ty) (v : pv) : bool :=
      match t with
      | TLit vs => existsb (fun a => pv_eqb v (lit_pv a)) vs
      | TNamed n fs => match v with VNamed n' l => pstr_eqb n n' && conf_l fs l | _ => false end
      | TData c =>
          match v, nth_error ct c with
          | VInst c' fs, Some cd => Nat.eqb c c' && conf_fields (c_fields cd) fs
          | _, _ => false
          end
      | _ => false
      end.
  End Conf.

  Fixpoint conf_n (n : nat) (t : ty) (v : pv) : bool :=
    match n with
    | 0%nat => false
    | Datatypes.S m => conf_helper (conf_n m) t v
    end.

  (* conforms n t v: v is a value of annotation t; helper-compiled annotations
     (Literal, NamedTuple, dataclass) nested at most n deep *)
  Definition conforms (n : nat) (t : ty) (v : pv) : bool := conf (conf_n n) t v.
End Dump.

(* a class whose load keys are consistent with its dump keys: among the keys the
   loader tries for a field, the first that is a dump key of the class is the
   field's own dump key; dump keys are pairwise distinct *)
Fixpoint distinct_strs (l : list pstr) : bool :=
  match l with [] => true | x :: r => negb (mem_str x r) && distinct_strs r end.
Definition keys_ok (cd : cdecl) : bool :=
  let dks := map f_dkey (c_fields cd) in
  distinct_strs dks &&
  forallb (fun f => match find (fun k => mem_str k dks) (f_keys f) with
                    | Some k => pstr_eqb k (f_dkey f)
                    | None => false
                    end) (c_fields cd).

(* ---- C14: the reference locator ------------------------------------------------------
   locate answers, for a failing load of a dict-shaped document, which (class, field)
   is the INNERMOST on the path to the first offending value in document order.  It is
   computed top-down along the path; the specification loader is used only as a
   yes/no oracle ("does loading this position fail?").  The error values' once-only
   setters compute the attribution bottom-up; C14_innermost says the two agree. *)
Definition is_err {A} (r : result A) : bool := match r with Ok _ => false | Err _ => true end.
Definition attribution := (pstr * option pstr)%type.   (* class, field (None: missing fields) *)

Section Locate.
  Variable Or : oracle.
  Variable ct : ctable.
  Variable rec : ty -> pv -> result pv.
  (* attribution decided inside a helper-compiled position (nested instance, NamedTuple), smaller budget *)
  Variable hrec : ty -> pv -> option attribution.

  (* Some a: the first offending value lies inside a nested dataclass document (or is a NamedTuple
     of the wrong arity), a is its attribution; None: it does not (the enclosing class and field are named) *)
  Fixpoint locate_ty (t : ty) (v : pv) {struct t} : option attribution :=
    match t with
    | TLeaf _ => None
    | TSeq _ t' =>
        match py_iter v with
        | Ok l => match find (fun x => is_err (load_r Or rec t' false (Ok x))) l with
                  | Some x => locate_ty t' x
                  | None => None
                  end
        | Err _ => None
        end
    | TTuple ts => locate_elems ts 0 v
    | TDict _ kt vt =>
        match py_items v with
        | Ok kvs =>
            match find (fun kv => is_err (load_r Or rec kt false (Ok (fst kv))) ||
                                  is_err (load_r Or rec vt false (Ok (snd kv)))) kvs with
            | Some kv => if is_err (load_r Or rec kt false (Ok (fst kv)))
                         then locate_ty kt (fst kv) else locate_ty vt (snd kv)
            | None => None
            end
        | Err _ => None
        end
    | TOpt t' => if is_none v then None else locate_ty t' v
    | TUnion _ | TLit _ | TNamed _ _ | TTyped _ _ _ | TData _ => hrec t v
    end
  with locate_elems (ts : tys) (k : nat) (v : pv) {struct ts} : option attribution :=
    match ts with
    | TNil => None
    | TCons _ t r =>
        let rv := py_index v (IxN k) in
        if is_err (load_r Or rec t false rv)
        then match rv with Ok x => locate_ty t x | Err _ => None end
        else locate_elems r (Datatypes.S k) v
    end.

  (* the fields of a NamedTuple: the helper re-raises what a field raises, except that an
     IndexError becomes a MissingFields naming the NamedTuple, and a KeyError on a dict input a
     plain TypeError *)
  Fixpoint locate_named (n : pstr) (ts : tys) (k : nat) (v : pv) {struct ts} : option attribution :=
    match ts with
    | TNil => None
    | TCons _ t r =>
        let rv := py_index v (IxN k) in
        match load_r Or rec t false rv with
        | Ok _ => locate_named n r (Datatypes.S k) v
        | Err e =>
            let inner := match rv with Ok x => locate_ty t x | Err _ => None end in
            match e with
            | XBare s => if pstr_eqb s (S "IndexError") then Some (n, None)
                         else if pstr_eqb s (S "KeyError") && is_dict v then None
                         else inner
            | _ => inner
            end
        end
    end.

  Fixpoint locate_fields (cn : pstr) (kvs : list (pv * pv)) (fs : list fdecl) (missing : bool)
    : option attribution :=
    match fs with
    | [] => if missing then Some (cn, None) else None
    | f :: r =>
        match first_key kvs (f_keys f) with
        | None => locate_fields cn kvs r (missing || match f_default f with None => true | Some _ => false end)
        | Some v =>
            if is_err (load_r Or rec (f_ty f) false (Ok v))
            then match locate_ty (f_ty f) v with
                 | Some a => Some a
                 | None => Some (cn, Some (f_name f))
                 end
            else locate_fields cn kvs r missing
        end
    end.

  (* inside a helper-compiled position *)
  Definition locate_helper (t : ty) (v : pv) : option attribution :=
    match t with
    | TData c =>
        match v, nth_error ct c with
        | VDict _ kvs, Some cd => locate_fields (c_name cd) kvs (c_fields cd) false
        | _, _ => None
        end
    | TNamed n fs => locate_named n fs 0 v
    | _ => None            (* Union / Literal / TypedDict raise a fresh, unattributed ParseError *)
    end.
End Locate.

Fixpoint locate_hn (Or : oracle) (ct : ctable) (n : nat) (t : ty) (v : pv) : option attribution :=
  match n with
  | 0%nat => None
  | Datatypes.S m => locate_helper Or ct (load_n Or ct m) (locate_hn Or ct m) t v
  end.
Definition locate_n (Or : oracle) (ct : ctable) (n : nat) (c : cid) (o : pv) : option attribution :=
  locate_hn Or ct n (TData c) o.

(* region of F24: every value at a dataclass-typed position is None or a dict *)
Section Shape.
  Variable ct : ctable.
  Variable srec : ty -> pv -> bool.       (* shape inside a helper-compiled position *)
  Fixpoint dc_shape (t : ty) (v : pv) {struct t} : bool :=
    match t with
    | TSeq _ t' => match py_iter v with Ok l => forallb (dc_shape t') l | Err _ => true end
    | TTuple ts => dc_shape_l ts 0 v
    | TDict _ kt vt =>
        match py_items v with
        | Ok kvs => forallb (fun kv => dc_shape kt (fst kv) && dc_shape vt (snd kv)) kvs
        | Err _ => true
        end
    | TOpt t' => dc_shape t' v
    | TData c => is_none v || (is_dict v && srec t v)
    | TNamed _ _ => srec t v
    | _ => true
    end
  with dc_shape_l (ts : tys) (k : nat) (v : pv) {struct ts} : bool :=
    match ts with
    | TNil => true
    | TCons _ t r =>
        (match py_index v (IxN k) with Ok x => dc_shape t x | Err _ => true end) &&
        dc_shape_l r (Datatypes.S k) v
    end.

  Definition shape_helper (t : ty) (v : pv) : bool :=
    match t with
    | TData c =>
        match v, nth_error ct c with
        | VDict _ kvs, Some cd =>
            forallb (fun f => match first_key kvs (f_keys f) with
                              | Some x => dc_shape (f_ty f) x
                              | None => true
                              end) (c_fields cd)
        | _, _ => true
        end
    | TNamed _ fs => dc_shape_l fs 0 v
    | _ => true
    end.
End Shape.

Fixpoint dc_shape_hn (ct : ctable) (n : nat) (t : ty) (v : pv) : bool :=
  match n with
  | 0%nat => true
  | Datatypes.S m => shape_helper ct (dc_shape_hn ct m) t v
  end.
Definition dc_shape_n (ct : ctable) (n : nat) (c : cid) (o : pv) : bool := dc_shape_hn ct n (TData c) o.

(* annotations covered by the C14 attribution theorem: everything; Union / Literal / TypedDict
   are opaque units (what is below them is not inspected) *)
Fixpoint c14_ty (t : ty) : bool :=
  match t with
  | TLeaf _ | TLit _ | TUnion _ | TTyped _ _ _ | TData _ => true
  | TNamed _ fs => c14_tys fs
  | TSeq _ t' | TOpt t' => c14_ty t'
  | TDict _ k v => c14_ty k && c14_ty v
  | TTuple ts => c14_tys ts
  end
with c14_tys (ts : tys) : bool :=
  match ts with TNil => true | TCons _ t r => c14_ty t && c14_tys r end.
Definition c14_ct (ct : ctable) : bool :=
  forallb (fun cd => forallb (fun f => c14_ty (f_ty f)) (c_fields cd)) ct.
