(* CoreDumpConfigV0.v — the configuration pipeline of CoreDumpConfig.v instantiated with the step order,
   the JSONPyWizard transform and the defaults regenerated from the source (coq/gen/T_CoreDumpBindOrder.v).
   `None` when the tables cannot be read (fail closed).  No proofs in this file. *)
From DW Require Export CoreDumpConfig T_CoreDumpBindOrder.

Definition pipeline_v0 : option pipeline :=
  pipeline_of_tables init_subclass_steps_v0 meta_initializer_steps_v0 pywizard_key_transform_v0
                     default_dump_transform_v0 default_tag_key_v0.
