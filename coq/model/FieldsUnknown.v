(* FieldsUnknown.v — class-level handling of UNKNOWN keys (property C10), one class level.

   Default engine (loaders.py load_func_for_dataclass, generated `cls_fromdict`):
   * `json_to_field`: per-class cache, key -> field name | ExplicitNull, threaded as STATE
     through successive loads.  Initial content: the internal entry
     CATCH_ALL ('<-|CatchAll|->') -> '<field>' or '<field>?' when the class has a CatchAll
     field (class_helper.py), and tag_key -> ExplicitNull when Meta.tag is set and the tag
     key is not a field name.
   * per key: cached entry, else exact field name, else case-insensitive match of
     to_snake_case(key) (= StrConv.resolve_key_v0), each cached; no match: ExplicitNull is
     cached UNLESS raise_on_unknown_json_key (F1 fix), and UnknownKeysError(json_key) is
     raised when that flag is set.
   * mapped key: init_kwargs[field] = field_to_parser[field](o[key]); a field name that is
     not in field_to_parser is a bare KeyError.
   * unmapped key and CatchAll field: catch_all[key] = o[key], except the tag key when a tag
     is assigned.  After the loop init_kwargs[catch field] = catch_all (always, or only when
     non-empty if the CatchAll field has a default).
   v1 engine (v1/loaders.py, post-F16): per field the first of its keys present in `o`;
   counter i (tag key present, each found field); `aliases` = every key of every field and
   the tag key; extras = [k for k in o if k not in aliases];
   `len(o) != i and extras` guards RAISE and the CatchAll-with-default assignment;
   CatchAll without default: `{} if len(o) == i else {extras}`.
   Dump side (dumpers.py): the CatchAll items are re-emitted at top level, then the tag.
   The outcome `OKCall kwargs` stands for `cls( **kwargs)` (the constructor is C09's model).
   Per-field conversion is the Section variable `conv`: a value, CBad (= ParseError
   attributed to this class and field) or CNested e (the failure of a nested dataclass
   loader, passed up unchanged); for a nested dataclass field it is the nested class's own
   loader (whose cache is that class's state).
   v1 AliasPath fields: a field is "found" when its top-level key is present (the sub-path is
   assumed to exist then; its extraction is part of `conv`).
   No proofs in this file. *)
From DW Require Export PyStr StrConv FieldsMissing.

Set Implicit Arguments.

Definition sentinel : pstr := S "<-|CatchAll|->".
Definition qmark : pstr := S "?".

(* json_to_field values *)
Inductive centry := CField (f : pstr) | CNull.
Definition cache := list (pstr * centry).

Record v0cls := {
  c_name : pstr;
  c_fields : list pstr;            (* keys of field_to_parser: the init fields, incl. the CatchAll field *)
  c_catch : option (pstr * bool);  (* CatchAll field name, has a default *)
  c_tag : option pstr;             (* Some tag_key when Meta.tag is set *)
  c_raise : bool                   (* raise_on_unknown_json_key *)
}.

Inductive v1policy := PIgnore | PRaise | PWarn.

Record v1cls := {
  d_name : pstr;
  d_fields : list (pstr * list pstr);  (* ordinary init fields with the top-level keys tried in order *)
  d_catch : option (pstr * bool);
  d_tag : option pstr;                 (* Some tag_key when the tag key is expected as an extra key *)
  d_policy : v1policy
}.

Definition init_cache (c : v0cls) : cache :=
  (match c_catch c with
   | Some (f, d) => [(sentinel, CField (if d then f ++ qmark else f))]
   | None => []
   end) ++
  (match c_tag c with
   | Some t => if mem_str t (c_fields c) then [] else [(t, CNull)]
   | None => []
   end).

(* library / bare errors of one class level *)
Inductive uerr :=
  | UUnknown (cn : pstr) (ks : list pstr)   (* UnknownKeysError(unknown_keys, class) *)
  | UParse (cn fn : pstr)                   (* ParseError attributed to class cn, field fn *)
  | UKeyError (k : pstr).                   (* bare KeyError *)

Section Unknown.
Variables raw V : Type.

(* result of converting one field value: a value, a conversion failure of this field
   (becomes ParseError(class, field)), or the failure of a NESTED dataclass loader, which
   passes through unchanged *)
Inductive cres := CVal (v : V) | CBad | CNested (e : uerr).
Variable conv : pstr -> raw -> cres.

Inductive kwval := KV (v : V) | KCatch (items : list (pstr * raw)).

Inductive outcome :=
  | OKCall (kwargs : list (pstr * kwval))
  | Fail (e : uerr).

Notation EUnknown cn ks := (Fail (UUnknown cn ks)).
Notation EParseF cn fn := (Fail (UParse cn fn)).
Notation EKeyError k := (Fail (UKeyError k)).

Definition doc := list (pstr * raw).

(* ---- default engine ----------------------------------------------------------- *)
Inductive lookup := LField (f : pstr) | LNull | LRaise.

Definition resolve_step (c : v0cls) (st : cache) (k : pstr) : cache * lookup :=
  match assoc k st with
  | Some (CField f) => (st, LField f)
  | Some CNull => (st, LNull)
  | None =>
      match resolve_key_v0 (c_fields c) k with
      | Some f => (dict_set k (CField f) st, LField f)
      | None => if c_raise c then (st, LRaise) else (dict_set k CNull st, LNull)
      end
  end.

Definition is_tag (c : v0cls) (k : pstr) : bool :=
  match c_tag c with Some t => pstr_eqb k t | None => false end.

Definition has_catch (c : v0cls) : bool :=
  match c_catch c with Some _ => true | None => false end.

Inductive loopres :=
  | LDone (st : cache) (kw : list (pstr * kwval)) (catch : list (pstr * raw))
  | LFail (st : cache) (o : outcome).

Fixpoint v0_loop (c : v0cls) (st : cache) (items : doc)
         (kw : list (pstr * kwval)) (catch : list (pstr * raw)) : loopres :=
  match items with
  | [] => LDone st kw catch
  | (k, v) :: r =>
      match resolve_step c st k with
      | (st', LRaise) => LFail st' (EUnknown (c_name c) [k])
      | (st', LField f) =>
          if mem_str f (c_fields c) then
            match conv f v with
            | CVal x => v0_loop c st' r (dict_set f (KV x) kw) catch
            | CBad => LFail st' (EParseF (c_name c) f)
            | CNested e => LFail st' (Fail e)
            end
          else LFail st' (EKeyError f)
      | (st', LNull) =>
          if has_catch c && negb (is_tag c k)
          then v0_loop c st' r kw (dict_set k v catch)
          else v0_loop c st' r kw catch
      end
  end.

Definition finish_catch (cf : option (pstr * bool)) (kw : list (pstr * kwval))
           (catch : list (pstr * raw)) : list (pstr * kwval) :=
  match cf with
  | Some (f, true) => match catch with [] => kw | _ => dict_set f (KCatch catch) kw end
  | Some (f, false) => dict_set f (KCatch catch) kw
  | None => kw
  end.

Definition v0_load (c : v0cls) (st : cache) (d : doc) : cache * outcome :=
  match v0_loop c st d [] [] with
  | LDone st' kw catch => (st', OKCall (finish_catch (c_catch c) kw catch))
  | LFail st' o => (st', o)
  end.

(* a history of loads on one class, the cache threaded through *)
Fixpoint v0_run (c : v0cls) (st : cache) (docs : list doc) : list outcome :=
  match docs with
  | [] => []
  | d :: r => let '(st', o) := v0_load c st d in o :: v0_run c st' r
  end.

(* ---- specification, default engine (no cache) ----------------------------------- *)
Inductive keyclass := KTag | KMapped (f : pstr) | KUnknown.

Definition classify (c : v0cls) (k : pstr) : keyclass :=
  if is_tag c k && negb (mem_str k (c_fields c)) then KTag
  else match resolve_key_v0 (c_fields c) k with Some f => KMapped f | None => KUnknown end.

Fixpoint v0_spec_loop (c : v0cls) (items : doc) (kw : list (pstr * kwval))
         (catch : list (pstr * raw)) : outcome + (list (pstr * kwval) * list (pstr * raw)) :=
  match items with
  | [] => inr (kw, catch)
  | (k, v) :: r =>
      match classify c k with
      | KTag => v0_spec_loop c r kw catch
      | KMapped f => match conv f v with
                     | CVal x => v0_spec_loop c r (dict_set f (KV x) kw) catch
                     | CBad => inl (EParseF (c_name c) f)
                     | CNested e => inl (Fail e)
                     end
      | KUnknown =>
          if c_raise c then inl (EUnknown (c_name c) [k])
          else v0_spec_loop c r kw (if has_catch c then dict_set k v catch else catch)
      end
  end.

Definition v0_spec (c : v0cls) (d : doc) : outcome :=
  match v0_spec_loop c d [] [] with
  | inl o => o
  | inr (kw, catch) => OKCall (finish_catch (c_catch c) kw catch)
  end.

(* the unknown pairs of a document, verbatim, in document order *)
Definition unknown_pairs (c : v0cls) (d : doc) : doc :=
  filter (fun kv => match classify c (fst kv) with KUnknown => true | _ => false end) d.
Definition known_pairs (c : v0cls) (d : doc) : doc :=
  filter (fun kv => match classify c (fst kv) with KUnknown => false | _ => true end) d.

(* the cache invariant: every entry agrees with the classification of its key, the tag key
   stays cached, and no negative entry for an unknown key exists under the raise policy *)
Definition skip_key (c : v0cls) (k : pstr) : bool := has_catch c && pstr_eqb k sentinel.

Definition entry_ok (c : v0cls) (k : pstr) (e : centry) : Prop :=
  match e with
  | CField f => classify c k = KMapped f
  | CNull => classify c k = KTag \/ (classify c k = KUnknown /\ c_raise c = false)
  end.

Definition cache_inv (c : v0cls) (st : cache) : Prop :=
  (forall k e, skip_key c k = false -> assoc k st = Some e -> entry_ok c k e) /\
  (forall k, skip_key c k = false -> classify c k = KTag -> assoc k st = Some CNull).

Definition sentinel_free (c : v0cls) (d : doc) : Prop :=
  forall k, In k (keys d) -> skip_key c k = false.

(* ---- v1 engine -------------------------------------------------------------------- *)
Fixpoint first_present (ks : list pstr) (o : doc) : option (pstr * raw) :=
  match ks with
  | [] => None
  | k :: r => match assoc k o with Some v => Some (k, v) | None => first_present r o end
  end.

Definition v1_aliases (c : v1cls) : list pstr :=
  (match d_tag c with Some t => [t] | None => [] end) ++ flat_map snd (d_fields c).

Definition v1_counting (c : v1cls) : bool :=
  match d_catch c, d_policy c with
  | Some _, _ => true
  | None, PRaise => true
  | None, PWarn => true
  | None, PIgnore => false
  end.

Definition tag_count (c : v1cls) (o : doc) : nat :=
  match d_tag c with Some t => if has_key t o then 1 else 0 | None => 0 end.

Definition found_fields (c : v1cls) (o : doc) : list (pstr * list pstr) :=
  filter (fun f => match first_present (snd f) o with Some _ => true | None => false end) (d_fields c).

(* the counter `i` *)
Definition v1_count (c : v1cls) (o : doc) : nat :=
  tag_count c o + List.length (found_fields c o).

Fixpoint v1_fields (cn : pstr) (fs : list (pstr * list pstr)) (o : doc) (kw : list (pstr * kwval))
  : outcome + list (pstr * kwval) :=
  match fs with
  | [] => inr kw
  | (f, ks) :: r =>
      match first_present ks o with
      | Some (_, v) => match conv f v with
                       | CVal x => v1_fields cn r o (dict_set f (KV x) kw)
                       | CBad => inl (EParseF cn f)
                       | CNested e => inl (Fail e)
                       end
      | None => v1_fields cn r o kw
      end
  end.

Definition v1_extras (c : v1cls) (o : doc) : doc :=
  filter (fun kv => negb (mem_str (fst kv) (v1_aliases c))) o.

Definition nonempty {A} (l : list A) : bool := match l with [] => false | _ => true end.

Definition v1_load (c : v1cls) (o : doc) : outcome :=
  match v1_fields (d_name c) (d_fields c) o [] with
  | inl e => e
  | inr kw =>
      let neq := negb (Nat.eqb (List.length o) (v1_count c o)) in
      let extras := v1_extras c o in
      match d_catch c with
      | Some (cf, true) =>
          if neq && nonempty extras then OKCall (dict_set cf (KCatch extras) kw) else OKCall kw
      | Some (cf, false) =>
          OKCall (dict_set cf (KCatch (if neq then extras else [])) kw)
      | None =>
          match d_policy c with
          | PRaise => if neq && nonempty extras then EUnknown (d_name c) (keys extras) else OKCall kw
          | _ => OKCall kw
          end
      end
  end.

(* specification, v1: no counter *)
Definition v1_spec (c : v1cls) (o : doc) : outcome :=
  match v1_fields (d_name c) (d_fields c) o [] with
  | inl e => e
  | inr kw =>
      let extras := v1_extras c o in
      match d_catch c with
      | Some (cf, true) => if nonempty extras then OKCall (dict_set cf (KCatch extras) kw) else OKCall kw
      | Some (cf, false) => OKCall (dict_set cf (KCatch extras) kw)
      | None =>
          match d_policy c with
          | PRaise => if nonempty extras then EUnknown (d_name c) (keys extras) else OKCall kw
          | _ => OKCall kw
          end
      end
  end.

(* the hypothesis the count lemma forces: every key belongs to one field only, and the
   tag key to none (F19: two AliasPath fields sharing a top-level key break it) *)
Definition v1_disjoint (c : v1cls) : Prop := NoDup (v1_aliases c).
Definition v1_disjointb (c : v1cls) : bool := nodup_str (v1_aliases c).

(* at most one key of each field is present *)
Definition one_alias_present (c : v1cls) (o : doc) : Prop :=
  forall f ks k1 k2, In (f, ks) (d_fields c) -> In k1 ks -> In k2 ks ->
                     has_key k1 o = true -> has_key k2 o = true -> k1 = k2.

(* ---- dump side ---------------------------------------------------------------------- *)
Inductive dout := DField (v : V) | DRaw (r : raw) | DTag (t : pstr).

(* result.append(...) pairs of the generated cls_asdict: fields in order (the CatchAll
   field contributes its items at its position), then result[tag_key] = tag *)
Definition dump_pairs (dump_key : pstr -> pstr) (catch_field : option pstr)
           (tag : option (pstr * pstr)) (kw : list (pstr * kwval)) (fields : list pstr)
  : list (pstr * dout) :=
  flat_map (fun f =>
    match assoc f kw with
    | Some (KV v) => [(dump_key f, DField v)]
    | Some (KCatch items) => map (fun kv => (fst kv, DRaw (snd kv))) items
    | None => []                 (* default kept: a CatchAll default emits nothing *)
    end) fields
  ++ match tag with Some (tk, t) => [(tk, DTag t)] | None => [] end.

(* dict(result) *)
Definition to_dict {A} (pairs : list (pstr * A)) : list (pstr * A) :=
  fold_left (fun acc kv => dict_set (fst kv) (snd kv) acc) pairs [].

End Unknown.

Arguments OKCall {raw V} kwargs.
Arguments Fail {raw V} e.
Arguments CVal {V} v.
Arguments CBad {V}.
Arguments CNested {V} e.
Notation EUnknown cn ks := (Fail (UUnknown cn ks)).
Notation EParseF cn fn := (Fail (UParse cn fn)).
Notation EKeyError k := (Fail (UKeyError k)).
Arguments KV {raw V} v.
Arguments KCatch {raw V} items.
Arguments DField {raw V} v.
Arguments DRaw {raw V} r.
Arguments DTag {raw V} t.
