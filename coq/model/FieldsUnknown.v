(* FieldsUnknown.v — class-level handling of UNKNOWN keys (property C10), one class level.

   Default engine (loaders.py load_func_for_dataclass, generated `cls_fromdict`):
   * `json_to_field`: per-class cache, key -> field name | ExplicitNull, threaded as STATE
     through successive loads.  Initial content: the internal entry
     CATCH_ALL ('<-|CatchAll|->') -> '<field>' or '<field>?' when the class has a CatchAll
     field (class_helper.py), and tag_key -> ExplicitNull when Meta.tag is set and the tag
     key is not a field name.
   * per key: cached entry, else exact field name, else case-insensitive match of
     to_snake_case(key) (= StrConv.resolve_key_v0), each cached; no match: ExplicitNull is
     cached UNLESS raise_on_unknown_json_key (F1 fix), and UnknownKeysError(json_key) is
     raised when that flag is set.
   * mapped key: init_kwargs[field] = field_to_parser[field](o[key]); a field name that is
     not in field_to_parser is a bare KeyError.
   * unmapped key and CatchAll field: catch_all[key] = o[key], except the tag key when a tag
     is assigned.  After the loop init_kwargs[catch field] = catch_all (always, or only when
     non-empty if the CatchAll field has a default).
   v1 engine (v1/loaders.py, post-F16): per field the first of its keys present in `o`;
   counter i (tag key present, each found field); `aliases` = every key of every field and
   the tag key; extras = [k for k in o if k not in aliases];
   `len(o) != i and extras` guards RAISE and the CatchAll-with-default assignment;
   CatchAll without default: `{} if len(o) == i else {extras}`.
   Dump side (dumpers.py): the CatchAll items are re-emitted at top level, then the tag.
   The outcome `OKCall kwargs` stands for `cls( **kwargs)` (the constructor is C09's model).
   Per-field conversion is the Section variable `conv`: a value, CBad (= ParseError
   attributed to this class and field) or CNested e (the failure of a nested dataclass
   loader, passed up unchanged); for a nested dataclass field it is the nested class's own
   loader (whose cache is that class's state).
   v1 AliasPath fields: a field is "found" when its top-level key is present (the sub-path is
   assumed to exist then; its extraction is part of `conv`).
   No proofs in this file. *)
From DW Require Export PyStr StrConv FieldsMissing.

Set Implicit Arguments.

Definition sentinel : pstr := S "<-|CatchAll|->".
Definition qmark : pstr := S "?".

(* json_to_field values *)
Inductive centry := CField (f : pstr) | CNull.
Definition cache := list (pstr * centry).

Record v0cls := {
  c_name : pstr;
  c_fields : list pstr;            (* keys of field_to_parser: the init fields, incl. the CatchAll field *)
  c_catch : option (pstr * bool);  (* CatchAll field name, has a default *)
  c_tag : option pstr;             (* Some tag_key when Meta.tag is set *)
  c_raise : bool                   (* raise_on_unknown_json_key *)
}.

Inductive v1policy := PIgnore | PRaise | PWarn.

Record v1cls := {
  d_name : pstr;
  d_fields : list (pstr * list pstr);  (* ordinary init fields with the top-level keys tried in order *)
  d_catch : option (pstr * bool);
  d_tag : option pstr;                 (* Some tag_key when the tag key is expected as an extra key *)
  d_policy : v1policy
}.

Definition init_cache (c : v0cls) : cache :=
  (match c_catch c with
   | Some (f, d) => [(sentinel, CField (if d then f ++ qmark else f))]
   | None => []
   end) ++
  (match c_tag c with
   | Some t => if mem_str t (c_fields c) then [] else [(t, CNull)]
   | None => []
   end).

(* library / bare errors of one class level *)
Inductive uerr :=
  | UUnknown (cn : pstr) (ks : list pstr)   (* UnknownKeysError(unknown_keys, class) *)
  | UParse (cn fn : pstr)                   (* ParseError attributed to class cn, field fn *)
  | UKeyError (k : pstr).                   (* bare KeyError *)

Section Unknown.
Variables raw V : Type.

(* result of converting one field value: a value, a conversion failure of this field
   (becomes ParseError(class, field)), or the failure of a NESTED dataclass loader, which
   passes through unchanged *)
Inductive cres := CVal (v : V) | CBad | CNested (e : uerr).
Variable conv : pstr -> raw -> cres.

Inductive kwval := KV (v : V) | KCatch (items : list (pstr * raw)).

Inductive outcome :=
  | OKCall (kwargs : list (pstr * kwval))
  | Fail (e : uerr).

Notation EUnknown cn ks := (Fail (UUnknown cn ks)).
Notation EParseF cn fn := (Fail (UParse cn fn)).
Notation EKeyError k := (Fail (UKeyError k)).

Definition doc := list (pstr * raw).

(* ---- default engine ----------------------------------------------------------- *)
Inductive lookup := LField (f : pstr) | LNull | LRaise.

Definition resolve_step (c : v0cls) (st : cache) (k : pstr) : cache * lookup :=
  match assoc k st with
  | Some (CField f) => (st, LField f)
  | Some CNull => (st, LNull)
  | None =>
      match resolve_key_v0 (c_fields c) k with
      | Some f => (dict_set k (CField f) st, LField f)
      | None => if c_raise c then (st, LRaise) else (dict_set k CNull st, LNull)
      end
  end.

Definition is_tag (c : v0cls) (k : pstr) : bool :=
  match c_tag c with Some t => pstr_eqb k t | None => false end.

Definition has_catch (c : v0cls) : bool :=
  match c_catch c with Some _ => true | None => false end.

Inductive loopres :=
  | LDone (st : cache) (kw : list (pstr * kwval)) (catch : list (pstr * raw))
  | LFail (st : cache) (o : outcome).

Fixpoint v0_loop (c : v0cls) (st : cache) (items : doc)
         (kw : list (pstr * kwval)) (catch : list (pstr * raw)) : loopres :=
  match items with
  | [] => LDone st kw catch
  | (k, v) :: r =>
      match resolve_step c st k with
      | (st', LRaise) => LFail st' (EUnknown (c_name c) [k])
      | (st', LField f) =>
          if mem_str f (c_fields c) then
            match conv f v with
            | CVal x => v0_loop c st' r (dict_set f (KV x) kw) catch
            | CBad => LFail st' (EParseF (c_name c) f)
            | CNested e => LFail st' (Fail e)
            end
          else LFail st' (EKeyError f)
      | (st', LNull) =>
          if has_catch c && negb (is_tag c k)
          then v0_loop c st' r kw (dict_set k v catch)
          else v0_loop c st' r kw catch
      end
  end.

Definition finish_catch (cf : option (pstr * bool)) (kw : list (pstr * kwval))
           (catch : list (pstr * raw)) : list (pstr * kwval) :=
  match cf with
  | Some (f, true) => match catch with [] => kw | _ => dict_set f (KCatch catch) kw end
  | Some (f, false) => dict_set f (KCatch catch) kw
  | None => kw
  end.

Definition v0_load (c : v0cls) (st : cache) (d : doc) : cache * outcome :=
  match v0_loop c st d [] [] with
  | LDone st' kw catch => (st', OKCall (finish_catch (c_catch c) kw catch))
  | LFail st' o => (st', o)
  end.

(* a history of loads on one class, the cache threaded through *)
Fixpoint v0_run (c : v0cls) (st : cache) (docs : list doc) : list outcome :=
  match docs with
  | [] => []
  | d :: r => let '(st', o) := v0_load c st d in o :: v0_run c st' r
  end.

(* ---- specification, default engine (no cache) ----------------------------------- *)
Inductive keyclass := KTag | KMapped (f : pstr) | KUnknown.

Definition classify (c : v0cls) (k : pstr) : keyclass :=
  if is_tag c k && negb (mem_str k (c_fields c)) then KTag
  else match resolve_key_v0 (c_fields c) k with Some f => KMapped f | None => KUnknown end.

Fixpoint v0_spec_loop (c : v0cls) (items : doc) (kw : list (pstr * kwval))
         (catch : list (pstr * raw)) : outcome + (list (pstr * kwval) * list (pstr * raw)) :=
  match items with
  | [] => inr (kw, catch)
  | (k, v) :: r =>
      match classify c k with
      | KTag => v0_spec_loop c r kw catch
      | KMapped f => match conv f v with
                     | CVal x => v0_spec_loop c r (dict_set f (KV x) kw) catch
                     | CBad => inl (EParseF (c_name c) f)
                     | CNested e => inl (Fail e)
                     end
      | KUnknown =>
          if c_raise c then inl (EUnknown (c_name c) [k])
          else v0_spec_loop c r kw (if has_catch c then dict_set k v catch else catch)
      end
  end.

Definition v0_spec (c : v0cls) (d : doc) : outcome :=
  match v0_spec_loop c d [] [] with
  | inl o => o
  | inr (kw, catch) => OKCall (finish_catch (c_catch c) kw catch)
  end.

(* the unknown pairs of a document, verbatim, in document order *)
Definition unknown_pairs (c : v0cls) (d : doc) : doc :=
  filter (fun kv => match classify c (fst kv) with KUnknown => true | _ => false end) d.
Definition known_pairs (c : v0cls) (d : doc) : doc :=
  filter (fun kv => match classify c (fst kv) with KUnknown => false | _ => true end) d.

(* the cache invariant: every entry agrees with the classification of its key, the tag key
   stays cached, and no negative entry for an unknown key exists under the raise policy *)
Definition skip_key (c : v0cls) (k : pstr) : bool := has_catch c && pstr_eqb k sentinel.

Definition entry_ok (c : v0cls) (k : pstr) (e : centry) : Prop :=
  match e with
  | CField f => classify c k = KMapped f
  | CNull => classify c k = KTag \/ (classify c k = KUnknown /\ c_raise c = false)
  end.

Definition cache_inv (c : v0cls) (st : cache) : Prop :=
  (forall k e, skip_key c k = false -> assoc k st = Some e -> entry_ok c k e) /\
  (forall k, skip_key c k = false -> classify c k = KTag -> assoc k st = Some CNull).

Definition sentinel_free (c : v0cls) (d : doc) : Prop :=
  forall k, In k (keys d) -> skip_key c k = false.

(* ---- v1 engine -------------------------------------------------------------------- *)
Fixpoint first_present (ks : list pstr) (o : doc) : option (pstr * raw) :=
  match ks with
  | [] => None
  | k :: r => match assoc k o with Some v => Some (k, v) | None => first_present r o end
  end.

Definition v1_aliases (c : v1cls) : list pstr :=
  (match d_tag c with Some t => [t] | None => [] end) ++ flat_map snd (d_fields c).

Definition v1_counting (c : v1cls) : bool :=
  match d_catch c, d_policy c with
  | Some _, _ => true
  | None, PRaise => true
  | None, PWarn => true
  | None, PIgnore => false
  end.

Definition tag_count (c : v1cls) (o : doc) : nat :=
  match d_tag c with Some t => if has_key t o then 1 else 0 | None => 0 end.

Definition found_fields (c : v1cls) (o : doc) : list (pstr * list pstr) :=
  filter (fun f => match first_present (snd f) o with Some _ => true | None => false end) (d_fields c).

(* the counter `i` *)
Definition v1_count (c : v1cls) (o : doc) : nat :=
  tag_count c o + List.length (found_fields c o).

Fixpoint v1_fields (cn : pstr) (fs : list (pstr * list pstr)) (o : doc) (kw : list (pstr * kwval))
  : outcome + list (pstr * kwval) :=
  match fs with
  | [] => inr kw
  | (f, ks) :: r =>
      match first_present ks o with
      | Some (_, v) => match conv f v with
                       | CVal x => v1_fields cn r o (dict_set f (KV x) kw)
                       | CBad => inl (EParseF cn f)
                       | CNested e => inl (Fail e)
                       end
      | None => v1_fields cn r o kw
      end
  end.

Definition v1_extras (c : v1cls) (o : doc) : doc :=
  filter (fun kv => negb (mem_str (fst kv) (v1_aliases c))) o.

Definition nonempty {A} (l : list A) : bool := match l with [] => false | _ => true end.

Definition v1_load (c : v1cls) (o : doc) : outcome :=
  match v1_fields (d_name c) (d_fields c) o [] with
  | inl e => e
  | inr kw =>
      let neq := negb (Nat.eqb (List.length o) (v1_count c o)) in
      let extras := v1_extras c o in
      match d_catch c with
      | Some (cf, true) =>
          if neq && nonempty extras then OKCall (dict_set cf (KCatch extras) kw) else OKCall kw
      | Some (cf, false) =>
          OKCall (dict_set cf (KCatch (if neq then extras else [])) kw)
      | None =>
          match d_policy c with
          | PRaise => if neq && nonempty extras then EUnknown (d_name c) (keys extras) else OKCall kw
          | _ => OKCall kw
          end
      end
  end.

(* specification, v1: no counter *)
Definition v1_spec (c : v1cls) (o : doc) : outcome :=
  match v1_fields (d_name c) (d_fields c) o [] with
  | inl e => e
  | inr kw =>
      let extras := v1_extras c o in
      match d_catch c with
      | Some (cf, true) => if nonempty extras then OKCall (dict_set cf (KCatch extras) kw) else OKCall kw
      | Some (cf, false) => OKCall (dict_set cf (KCatch extras) kw)
      | None =>
          match d_policy c with
          | PRaise => if nonempty extras then EUnknown (d_name c) (keys extras) else OKCall kw
          | _ => OKCall kw
          end
      end
  end.

(* the hypothesis the count lemma forces: every key belongs to one field only, and the
   tag key to none (F19: two AliasPath fields sharing a top-level key break it) *)
Definition v1_disjoint (c : v1cls) : Prop := NoDup (v1_aliases c).
Definition v1_disjointb (c : v1cls) : bool := nodup_str (v1_aliases c).

(* at most one key of each field is present *)
Definition one_alias_present (c : v1cls) (o : doc) : Prop :=
  forall f ks k1 k2, In (f, ks) (d_fields c) -> In k1 ks -> In k2 ks ->
                     has_key k1 o = true -> has_key k2 o = true -> k1 = k2.

(* ---- dump side ---------------------------------------------------------------------- *)
Inductive dout := DField (v : V) | DRaw (r : raw) | DTag (t : pstr).

(* result.append(...) pairs of the generated cls_asdict: fields in order (the CatchAll
   field contributes its items at its position), then result[tag_key] = tag *)
Definition dump_pairs (dump_key : pstr -> pstr) (catch_field : option pstr)
           (tag : option (pstr * pstr)) (kw : list (pstr * kwval)) (fields : list pstr)
  : list (pstr * dout) :=
  flat_map (fun f =>
    match assoc f kw with
    | Some (KV v) => [(dump_key f, DField v)]
    | Some (KCatch items) => map (fun kv => (fst kv, DRaw (snd kv))) items
    | None => []                 (* default kept: a CatchAll default emits nothing *)
    end) fields
  ++ match tag with Some (tk, t) => [(tk, DTag t)] | None => [] end.

(* dict(result) *)
Definition to_dict {A} (pairs : list (pstr * A)) : list (pstr * A) :=
  fold_left (fun acc kv => dict_set (fst kv) (snd kv) acc) pairs [].

End Unknown.

Arguments OKCall {raw V} kwargs.
Arguments Fail {raw V} e.
Arguments CVal {V} v.
Arguments CBad {V}.
Arguments CNested {V} e.
Notation EUnknown cn ks := (Fail (UUnknown cn ks)).
Notation EParseF cn fn := (Fail (UParse cn fn)).
Notation EKeyError k := (Fail (UKeyError k)).
Arguments KV {raw V} v.
Arguments KCatch {raw V} items.
Arguments DField {raw V} v.
Arguments DRaw {raw V} r.
Arguments DTag {raw V} t.

(* ======================================================================================
   Strengthening round 3.  Three regions that were outside the one-class-level model:
   A. how the unknown-key policy REACHES the generator (Meta binds and their merge);
   B. several GENERATIONS of a loader for the same class (one per root that nests it, one
      alone), the class's init-field table being an input the generations share;
   C. the CatchAll write-back of the dumper composed with every other dump-side setting.
   ====================================================================================== *)

(* ---- A. configuration ------------------------------------------------------------------
   bases_meta.py BaseJSONWizardMeta.bind_to, bases.py ABCOrAndMeta.__and__,
   utils/type_conv.py as_enum.  A Meta class is seen as the set of settings written in its
   own __dict__ (inner `class _(JSONWizard.Meta)`, LoadMeta( **kwargs), DumpMeta( **kwargs)):
   `md_action` = v1_on_unknown_key, `md_raise` = raise_on_unknown_json_key, each absent or a
   Python value as the user spelled it. *)
Inductive pyv := PvNone | PvBool (b : bool) | PvInt (n : N) | PvStr (s : pstr) | PvAction (p : v1policy).

(* v1/enums.py KeyAction: member names *)
Definition action_names : list (pstr * v1policy) :=
  [(S "IGNORE", PIgnore); (S "RAISE", PRaise); (S "WARN", PWarn)].

(* as_enum(o, KeyAction): a member is returned as is; None stays None; '' gives None; another
   str is upper-cased, spaces -> '_', and looked up BY NAME; a failed lookup (also: any
   non-str such as 1 or True) is a ParseError (None here) *)
Definition as_action (v : pyv) : option pyv :=
  match v with
  | PvAction p => Some (PvAction p)
  | PvNone => Some PvNone
  | PvStr [] => Some PvNone
  | PvStr s => match assoc (replace_char c_sp c_us (upper s)) action_names with
               | Some p => Some (PvAction p)
               | None => None
               end
  | PvBool _ => None
  | PvInt _ => None
  end.

Record metadict := { md_action : option pyv; md_raise : option pyv }.

(* attribute read on a Meta class: an absent key falls back to the AbstractMeta default *)
Definition md_get_action (m : metadict) : pyv := match md_action m with Some v => v | None => PvNone end.
Definition md_get_raise (m : metadict) : pyv := match md_raise m with Some v => v | None => PvBool false end.

(* `_META[cls] &= new`: every key of new.__dict__ overwrites, the others stay *)
Definition md_merge (old new : metadict) : metadict :=
  {| md_action := match md_action new with Some v => Some v | None => md_action old end;
     md_raise := match md_raise new with Some v => Some v | None => md_raise old end |}.

Inductive bindres := BOk (store : option metadict) | BParseError.

(* bind_to(dataclass) with is_default=True: v1_on_unknown_key, when not None, is normalised
   ON THE NEW Meta (written back into its __dict__) BEFORE the Meta is saved; the first Meta
   of a class is stored itself, a later one is merged into the stored one *)
Definition bind_to (store : option metadict) (new : metadict) : bindres :=
  let save n := BOk (Some (match store with None => n | Some old => md_merge old n end)) in
  match md_get_action new with
  | PvNone => save new
  | v => match as_action v with
         | None => BParseError
         | Some v' => save {| md_action := Some v'; md_raise := md_raise new |}
         end
  end.

Fixpoint bind_all (store : option metadict) (bs : list metadict) : bindres :=
  match bs with
  | [] => BOk store
  | b :: r => match bind_to store b with BOk s => bind_all s r | BParseError => BParseError end
  end.

(* what the generators read from get_meta(cls) *)
Definition stored_action (store : option metadict) : pyv :=
  match store with Some m => md_get_action m | None => PvNone end.
Definition stored_raise (store : option metadict) : pyv :=
  match store with Some m => md_get_raise m | None => PvBool false end.

(* v1 generator: `on_unknown_key is KeyAction.RAISE`, `is KeyAction.WARN` — identity with the
   enum member; anything else (None, IGNORE, and a raw str if one were ever stored) is ignore *)
Definition v1_policy_of (v : pyv) : v1policy :=
  match v with PvAction PRaise => PRaise | PvAction PWarn => PWarn | _ => PIgnore end.

(* default engine generator: `if meta.raise_on_unknown_json_key:` — truthiness *)
Definition py_truthy (v : pyv) : bool :=
  match v with
  | PvNone => false | PvBool b => b | PvInt n => negb (N.eqb n 0)
  | PvStr s => match s with [] => false | _ => true end
  | PvAction _ => true
  end.

Definition is_normal_action (v : pyv) : bool :=
  match v with PvNone => true | PvAction _ => true | _ => false end.

(* specification: the LAST explicitly written value of a setting over the bind sequence *)
Definition last_explicit (get : metadict -> option pyv) (bs : list metadict) (init : option pyv) : option pyv :=
  fold_left (fun acc b => match get b with Some v => Some v | None => acc end) bs init.

Definition norm_action (v : pyv) : pyv := match as_action v with Some v' => v' | None => PvNone end.

Definition spec_policy (bs : list metadict) : v1policy :=
  match last_explicit md_action bs None with Some v => v1_policy_of (norm_action v) | None => PIgnore end.
Definition spec_raise_flag (bs : list metadict) : bool :=
  match last_explicit md_raise bs None with Some v => py_truthy v | None => false end.

(* two Metas that differ only in spelling *)
Definition md_equiv (a b : metadict) : Prop :=
  option_map as_action (md_action a) = option_map as_action (md_action b) /\
  option_map py_truthy (md_raise a) = option_map py_truthy (md_raise b).

Definition v1_with_policy (c : v1cls) (p : v1policy) : v1cls :=
  {| d_name := d_name c; d_fields := d_fields c; d_catch := d_catch c; d_tag := d_tag c; d_policy := p |}.
Definition v0_with_raise (c : v0cls) (b : bool) : v0cls :=
  {| c_name := c_name c; c_fields := c_fields c; c_catch := c_catch c; c_tag := c_tag c; c_raise := b |}.

(* the class as the generator sees it after the binds (None: a bind failed with ParseError) *)
Definition v1_configured (c : v1cls) (bs : list metadict) : option v1cls :=
  match bind_all None bs with
  | BOk st => Some (v1_with_policy c (v1_policy_of (stored_action st)))
  | BParseError => None
  end.
Definition v0_configured (c : v0cls) (bs : list metadict) : option v0cls :=
  match bind_all None bs with
  | BOk st => Some (v0_with_raise c (py_truthy (stored_raise st)))
  | BParseError => None
  end.

(* a nested class without a Meta of its own under a recursive root: `meta | config` takes the
   root's settings, re-bound with is_default=False (nothing stored) *)
Definition cascade (own root : option metadict) : option metadict :=
  match own, root with
  | None, r => r
  | Some o, None => Some o
  | Some o, Some r => Some (md_merge r o)      (* __or__: the nested class's own explicit keys win *)
  end.

(* ---- B. generations ---------------------------------------------------------------------
   v1/loaders.py load_func_for_dataclass.  `s_init`: the init fields of the dataclass in
   declaration order, INCLUDING the CatchAll field (`if_default` = name in field_to_default:
   default or default_factory).  `s_catch`: the CATCH_ALL marker of the alias table as the
   generator reads it (name, '?').  class_helper.py (after fix d23b12f, finding F91) writes
   '?' iff the field has a default OR a default_factory, i.e. iff `if_default`: `class_marker`
   / `mk_src` below; before the fix only a plain default gave '?' (`pre_fix` witness in
   props/C10.v).  A generation is handed the table `tbl` = dataclass_init_fields(cls) (a list built
   for this call) and derives the names from it; it deletes the CatchAll field from ITS list
   (`del cls_init_fields[catch_all_idx]`).  The final call is
   `cls( *positional, **init_kwargs)`: required fields positionally in field order, the
   CatchAll variable (marker without '?') inserted at `catch_all_idx`. *)
Record ifield := { if_name : pstr; if_keys : list pstr; if_default : bool }.

Record v1src := {
  s_name : pstr;
  s_init : list ifield;
  s_catch : option (pstr * bool);
  s_tag : option pstr
}.

Fixpoint index_of (x : pstr) (l : list pstr) : option nat :=
  match l with
  | [] => None
  | y :: r => if pstr_eqb x y then Some O else option_map Datatypes.S (index_of x r)
  end.

Fixpoint remove_nth {A} (n : nat) (l : list A) : list A :=
  match n, l with
  | _, [] => []
  | O, _ :: r => r
  | Datatypes.S n', y :: r => y :: remove_nth n' r
  end.

(* list.insert(n, x): appends when n >= len *)
Fixpoint insert_at {A} (n : nat) (x : A) (l : list A) : list A :=
  match n, l with
  | O, _ => x :: l
  | Datatypes.S _, [] => [x]
  | Datatypes.S n', y :: r => y :: insert_at n' x r
  end.

Record v1gen := {
  g_cls : v1cls;          (* the field loop, alias set, counter and unknown-key branch: the existing model *)
  g_pos : list pstr       (* variables passed positionally to cls(...), in order (variable = field name) *)
}.

Inductive genres := GenOk (g : v1gen) | GenValueError.

Definition v1_generate (src : v1src) (tbl : list ifield) (pol : v1policy) : genres :=
  let names := map if_name tbl in
  let tag := match s_tag src with Some t => if mem_str t names then None else Some t | None => None end in
  let mk fields catch pos :=
    GenOk {| g_cls := {| d_name := s_name src;
                         d_fields := map (fun f => (if_name f, if_keys f)) fields;
                         d_catch := catch; d_tag := tag; d_policy := pol |};
             g_pos := pos |} in
  let required fields := map if_name (filter (fun f => negb (if_default f)) fields) in
  match s_catch src with
  | None => mk tbl None (required tbl)
  | Some (cf, q) =>
      match index_of cf names with
      | None => GenValueError                        (* tuple.index(x): x not in tuple *)
      | Some idx =>
          let fields := remove_nth idx tbl in
          mk fields (Some (cf, q)) (if q then required fields else insert_at idx cf (required fields))
      end
  end.

(* per class: the table every generation is handed, how many generations ran, the loader
   compiled for each root (root = index; one of them is the class used alone) *)
Record gstate := {
  gs_tbl : list ifield;
  gs_gens : nat;
  gs_loaders : list (nat * v1gen)
}.

Definition g_init (src : v1src) : gstate := {| gs_tbl := s_init src; gs_gens := O; gs_loaders := [] |}.

Fixpoint nassoc {A} (n : nat) (l : list (nat * A)) : option A :=
  match l with [] => None | (m, x) :: r => if Nat.eqb n m then Some x else nassoc n r end.

(* one generation: it works on its own list, so the table it was handed is what the next
   generation is handed *)
Definition gen_step (src : v1src) (pol : nat -> v1policy) (st : gstate) (r : nat) : gstate * genres :=
  let g := v1_generate src (gs_tbl st) (pol r) in
  ({| gs_tbl := gs_tbl st; gs_gens := Datatypes.S (gs_gens st);
      gs_loaders := match g with GenOk x => (r, x) :: gs_loaders st | GenValueError => gs_loaders st end |}, g).

Section Generations.
Variables raw V : Type.
Variable conv : pstr -> raw -> cres V.

Inductive gop := OpGen (r : nat) | OpLoad (r : nat) (o : doc raw).

Inductive gout :=
  | GOut (o : outcome raw V)
  | GTypeError (param : pstr)      (* cls() got multiple values for argument <param> *)
  | GValueError.                   (* the generation failed *)

Fixpoint param_of (k : pstr) (binding : list (pstr * pstr)) : option pstr :=
  match binding with
  | [] => None
  | (p, v) :: r => if pstr_eqb k v then Some p else param_of k r
  end.

Fixpoint first_dup (l : list pstr) : option pstr :=
  match l with [] => None | x :: r => if mem_str x r then Some x else first_dup r end.

(* cls( *g_pos, **init_kwargs): the j-th positional value lands in the j-th init parameter *)
Definition call_ctor (src : v1src) (g : v1gen) (kw : list (pstr * kwval raw V)) : gout :=
  let binding := combine (map if_name (s_init src)) (g_pos g) in
  let kw' := map (fun kv => (match param_of (fst kv) binding with Some p => p | None => fst kv end, snd kv)) kw in
  match first_dup (keys kw') with
  | Some p => GTypeError p
  | None => GOut (OKCall kw')
  end.

Definition v1g_load (src : v1src) (g : v1gen) (o : doc raw) : gout :=
  match v1_load conv (g_cls g) o with
  | OKCall kw => call_ctor src g kw
  | Fail e => GOut (Fail e)
  end.

Definition genres_load (src : v1src) (g : genres) (o : doc raw) : gout :=
  match g with GenOk x => v1g_load src x o | GenValueError => GValueError end.

(* a history of generations and loads; a load through a root that has no loader yet generates it *)
Fixpoint g_run (src : v1src) (pol : nat -> v1policy) (st : gstate) (ops : list gop) : list gout :=
  match ops with
  | [] => []
  | OpGen r :: rest => g_run src pol (fst (gen_step src pol st r)) rest
  | OpLoad r o :: rest =>
      match nassoc r (gs_loaders st) with
      | Some g => v1g_load src g o :: g_run src pol st rest
      | None => let '(st', g) := gen_step src pol st r in genres_load src g o :: g_run src pol st' rest
      end
  end.

(* reference: every load is served by a loader generated from the PRISTINE class *)
Fixpoint g_ref (src : v1src) (pol : nat -> v1policy) (ops : list gop) : list gout :=
  match ops with
  | [] => []
  | OpGen _ :: rest => g_ref src pol rest
  | OpLoad r o :: rest => genres_load src (v1_generate src (s_init src) (pol r)) o :: g_ref src pol rest
  end.

(* the constructor receives every value under the name of its own field *)
Definition pos_ok (src : v1src) (g : v1gen) : bool :=
  forallb (fun pv => pstr_eqb (fst pv) (snd pv)) (combine (map if_name (s_init src)) (g_pos g)).

(* specification of one load: by-name constructor call, no counter *)
Definition v1g_spec (src : v1src) (g : v1gen) (o : doc raw) : gout := GOut (v1_spec conv (g_cls g) o).

End Generations.

Arguments OpGen {raw} r.
Arguments OpLoad {raw} r o.
Arguments GOut {raw V} o.
Arguments GTypeError {raw V} param.
Arguments GValueError {raw V}.

(* ---- C. dump: the CatchAll write-back composed with the skip rules ------------------------
   dumpers.py dump_func_for_dataclass, per field i (name f):
     _skip_i = f in exclude                       (False when exclude is None)
     if skip_defaults and f has a default:        (argument, else Meta.skip_defaults or skip_defaults_if set)
         _skip_i = _skip_i or (<Meta.skip_defaults_if>(o.f) if set else o.f == _default_i)
     ordinary field:  if not (_skip_i or <own SkipIf, else Meta.skip_if>(o.f)): result.append((key, dump(o.f)))
     CatchAll field:  if o.f != _default_i and not _skip_i:   (with a default)
                      if not _skip_i:                         (without)
                          for k, v in o.f.items(): result.append((k, dump(v)))
   then result[tag_key] = tag.  `ctest c f` is the truth of condition c on the CURRENT value
   of field f (None: the comparison raises TypeError), `is_dflt f` is `o.f == _default_f`:
   the theorems hold for every such function, hence for every condition and every value. *)
Section DumpCfg.
Variables raw V cond : Type.
Variable ctest : cond -> pstr -> option bool.
Variable is_dflt : pstr -> bool.

Record dumpcfg := {
  dc_fields : list pstr;
  dc_key : pstr -> pstr;
  dc_catch : option pstr;
  dc_has_default : pstr -> bool;
  dc_skip_if : option cond;
  dc_skip_defaults_if : option cond;
  dc_field_skip : pstr -> option cond;
  dc_tag : option (pstr * pstr)
}.

Record dumpargs := {
  da_exclude : option (list pstr);
  da_skip_defaults : bool
}.

Inductive xval := XField (v : kwval raw V) | XRaw (r : raw) | XTag (t : pstr).

Definition is_xraw (p : pstr * xval) : bool := match snd p with XRaw _ => true | _ => false end.

(* _skip_i after the exclude and skip_defaults phases (None: TypeError) *)
Definition skip_flag (cfg : dumpcfg) (args : dumpargs) (f : pstr) : option bool :=
  let ex := match da_exclude args with None => false | Some E => mem_str f E end in
  if da_skip_defaults args && dc_has_default cfg f then
    if ex then Some true
    else match dc_skip_defaults_if cfg with Some c => ctest c f | None => Some (is_dflt f) end
  else Some ex.

Definition is_catch (cfg : dumpcfg) (f : pstr) : bool :=
  match dc_catch cfg with Some cf => pstr_eqb f cf | None => false end.

(* the pairs appended for one field (None: the dump raises) *)
Definition seg (cfg : dumpcfg) (args : dumpargs) (inst : list (pstr * kwval raw V)) (f : pstr)
  : option (list (pstr * xval)) :=
  match skip_flag cfg args f with
  | None => None
  | Some s =>
      if is_catch cfg f then
        if (if dc_has_default cfg f then negb (is_dflt f) else true) && negb s then
          match assoc f inst with
          | Some (KCatch items) => Some (map (fun kv => (fst kv, XRaw (snd kv))) items)
          | _ => None                                   (* `.items()` on a non-dict *)
          end
        else Some []
      else
        if s then Some []
        else match assoc f inst with
             | None => None
             | Some v =>
                 match (match dc_field_skip cfg f with Some c => Some c | None => dc_skip_if cfg end) with
                 | None => Some [(dc_key cfg f, XField v)]
                 | Some c => match ctest c f with
                             | None => None
                             | Some true => Some []
                             | Some false => Some [(dc_key cfg f, XField v)]
                             end
                 end
             end
  end.

Fixpoint segs (cfg : dumpcfg) (args : dumpargs) (inst : list (pstr * kwval raw V)) (fs : list pstr)
  : option (list (pstr * xval)) :=
  match fs with
  | [] => Some []
  | f :: r => match seg cfg args inst f, segs cfg args inst r with
              | Some a, Some b => Some (a ++ b)
              | _, _ => None
              end
  end.

Definition dump_cfg (cfg : dumpcfg) (args : dumpargs) (inst : list (pstr * kwval raw V))
  : option (list (pstr * xval)) :=
  match segs cfg args inst (dc_fields cfg) with
  | Some l => Some (l ++ match dc_tag cfg with Some (tk, t) => [(tk, XTag t)] | None => [] end)
  | None => None
  end.

(* reference: is the CatchAll FIELD selected by exclude / the skip-defaults rule (C11's rules
   for a defaulted field)?  Meta.skip_if and a SkipIf on the field do not occur. *)
Definition catch_field_skipped (cfg : dumpcfg) (args : dumpargs) (cf : pstr) : bool :=
  (match da_exclude args with None => false | Some E => mem_str cf E end)
  || (dc_has_default cfg cf &&
      (is_dflt cf ||
       (da_skip_defaults args &&
        match dc_skip_defaults_if cfg with
        | Some c => match ctest c cf with Some b => b | None => false end
        | None => false
        end))).

End DumpCfg.

Arguments XField {raw V} v.
Arguments XRaw {raw V} r.
Arguments XTag {raw V} t.

(* ---- B'. the classes for which the positional call is by-name correct ----------------------
   dataclass order (required fields before defaulted ones) and a CatchAll marker whose '?' flag
   agrees with `name in field_to_default`.  The repaired class_helper computes the marker from
   the field itself (`class_marker`), so every class in dataclass order is regular
   (`mk_src`); the pre-fix marker of a default_factory CatchAll field had no '?' (F91, fixed). *)
Fixpoint req_then_opt (l : list ifield) : bool :=
  match l with
  | [] => true
  | f :: r => if if_default f then forallb if_default r else req_then_opt r
  end.

Definition src_regular (src : v1src) : bool :=
  req_then_opt (s_init src) &&
  match s_catch src with
  | None => true
  | Some (cf, q) =>
      forallb (fun f => if pstr_eqb (if_name f) cf then Bool.eqb (if_default f) q else true) (s_init src)
  end.

(* _setup_v1_load_config_for_cls: CATCH_ALL -> name + ('' if f.default is MISSING and
   f.default_factory is MISSING else '?') for the field annotated CatchAll *)
Definition class_marker (init : list ifield) (catch : option pstr) : option (pstr * bool) :=
  match catch with
  | None => None
  | Some cf => match find (fun f => pstr_eqb (if_name f) cf) init with
               | Some f => Some (cf, if_default f)
               | None => None                      (* the CatchAll field is not an init field: no marker *)
               end
  end.

(* the class as the generator sees it, the marker written by class_helper *)
Definition mk_src (name : pstr) (init : list ifield) (catch : option pstr) (tag : option pstr) : v1src :=
  {| s_name := name; s_init := init; s_catch := class_marker init catch; s_tag := tag |}.

(* ---- B''. default engine: the loaders generated for ONE class under several roots share the
   class's json_to_field dict (the cache) and differ in the raise flag only (the root's Meta,
   applied recursively): `rz r` is the flag of root r; the cache is threaded through all loads *)
Section MultiRoot.
Variables raw V : Type.
Variable conv : pstr -> raw -> cres V.

Fixpoint v0_multi_run (c : v0cls) (rz : nat -> bool) (st : cache) (ops : list (nat * doc raw)) : list (outcome raw V) :=
  match ops with
  | [] => []
  | (r, d) :: rest => let '(st', o) := v0_load conv (v0_with_raise c (rz r)) st d in o :: v0_multi_run c rz st' rest
  end.

(* no load under an ignore-policy generation precedes a load under a raise-policy generation *)
Fixpoint strict_then_lax (rz : nat -> bool) (ops : list (nat * doc raw)) : bool :=
  match ops with
  | [] => true
  | (r, _) :: rest => if rz r then strict_then_lax rz rest else forallb (fun ro => negb (rz (fst ro))) rest
  end.

End MultiRoot.
