(* GenPyLitProofs.v — every repr-spliced string re-lexes to itself (C15). *)
From DW Require Import PyStr CharFacts GenPyLit.
From Coq Require Import Lia.

Lemma is_quote_cases q : is_quote q = true -> q = c_sq \/ q = c_dq.
Proof.
  unfold is_quote. intro H. apply orb_true_iff in H as [H|H]; apply ascii_eqb_eq in H; auto.
Qed.

Lemma repr_quote_is_quote s : is_quote (repr_quote s) = true.
Proof. unfold repr_quote. destruct (has_char c_sq s && negb (has_char c_dq s)); reflexivity. Qed.

(* one character of the repr body is read back as that character *)
Lemma lex_repr_char q c tail :
  is_quote q = true ->
  lex_body q (repr_char q c ++ tail) = lcons [c] (lex_body q tail).
Proof.
  intro Hq. destruct (is_quote_cases q Hq) as [-> | ->]; ascii_cases c; reflexivity.
Qed.

Lemma repr_char_head q c :
  is_quote q = true ->
  exists a t, repr_char q c = a :: t /\ ascii_eqb a q = false.
Proof.
  intro Hq. destruct (is_quote_cases q Hq) as [-> | ->]; ascii_cases c;
    eexists; eexists; split; reflexivity.
Qed.

Lemma lex_repr_body q s rest :
  is_quote q = true ->
  lex_body q (repr_body q s ++ q :: rest) = LOk s rest.
Proof.
  intro Hq. induction s as [|c s IH].
  - cbn [repr_body flat_map app lex_body]. now rewrite ascii_eqb_refl.
  - unfold repr_body in *. cbn [flat_map]. rewrite <- app_assoc.
    rewrite (lex_repr_char q c _ Hq), IH. reflexivity.
Qed.

(* the literal is self-delimiting: whatever follows (unless it is another quote,
   which Python would read as a triple quote / adjacent literal), lexing consumes
   exactly repr(s) and yields s *)
Theorem repr_lex_prefix s rest :
  no_quote_head rest = true ->
  lex_literal (py_repr s ++ rest) = LOk s rest.
Proof.
  intro Hrest. unfold py_repr.
  set (q := repr_quote s). assert (Hq : is_quote q = true) by apply repr_quote_is_quote.
  cbn [app lex_literal]. rewrite Hq. rewrite <- app_assoc. cbn [app].
  destruct s as [|c s].
  - cbn [repr_body flat_map app].
    destruct rest as [|b rest'].
    + cbn [lex_body]. now rewrite ascii_eqb_refl.
    + cbn [no_quote_head] in Hrest. apply negb_true_iff in Hrest.
      assert (Hb : ascii_eqb b q = false).
      { destruct (is_quote_cases q Hq) as [E|E]; rewrite E;
          unfold is_quote in Hrest; apply orb_false_iff in Hrest; tauto. }
      rewrite ascii_eqb_refl, Hb. cbn [andb lex_body]. now rewrite ascii_eqb_refl.
  - pose proof (lex_repr_body q (c :: s) rest Hq) as HL.
    unfold repr_body in *. cbn [flat_map] in *.
    destruct (repr_char_head q c Hq) as (a & t & Ha & Hne).
    rewrite Ha in *. rewrite <- app_assoc in *. cbn [app] in *.
    rewrite Hne. cbn [andb].
    destruct (t ++ flat_map (repr_char q) s ++ q :: rest); exact HL.
Qed.

Theorem repr_roundtrip s : parse_literal (py_repr s) = Some s.
Proof.
  unfold parse_literal. rewrite <- (app_nil_r (py_repr s)).
  now rewrite (repr_lex_prefix s [] eq_refl).
Qed.

(* ---- no raw line break / NUL inside a repr ------------------------------- *)
Lemma repr_char_line_safe q c :
  is_quote q = true -> forallb line_safe_char (repr_char q c) = true.
Proof.
  intro Hq. destruct (is_quote_cases q Hq) as [-> | ->]; ascii_cases c; reflexivity.
Qed.

Theorem repr_line_safe s : forallb line_safe_char (py_repr s) = true.
Proof.
  unfold py_repr. set (q := repr_quote s).
  assert (Hq : is_quote q = true) by apply repr_quote_is_quote.
  assert (Hqc : line_safe_char q = true).
  { destruct (is_quote_cases q Hq) as [-> | ->]; reflexivity. }
  cbn [forallb]. rewrite Hqc. cbn [andb]. rewrite forallb_app. cbn [forallb].
  rewrite Hqc. cbn [andb]. rewrite andb_true_r.
  clearbody q. unfold repr_body. induction s as [|c s IH]; [reflexivity|].
  cbn [flat_map]. rewrite forallb_app, (repr_char_line_safe q c Hq). exact IH.
Qed.

(* ---- the bare double-quote splice ---------------------------------------- *)
Lemma lex_bare_char c tail :
  bare_safe_char c = true -> lex_body c_dq (c :: tail) = lcons [c] (lex_body c_dq tail).
Proof. ascii_cases c; intro H; try discriminate H; reflexivity. Qed.

Lemma bare_safe_not_dq c : bare_safe_char c = true -> ascii_eqb c c_dq = false.
Proof. ascii_cases c; intro H; try discriminate H; reflexivity. Qed.

Lemma lex_bare_body s rest :
  bare_safe s = true -> lex_body c_dq (s ++ c_dq :: rest) = LOk s rest.
Proof.
  induction s as [|c s IH]; intro H.
  - reflexivity.
  - cbn [bare_safe forallb] in H. apply andb_true_iff in H as [Hc Hs].
    cbn [app]. rewrite (lex_bare_char c _ Hc), (IH Hs). reflexivity.
Qed.

Theorem bare_splice_safe s : bare_safe s = true -> parse_literal (bare_dq s) = Some s.
Proof.
  intro H. unfold parse_literal, bare_dq. cbn [lex_literal].
  change (is_quote c_dq) with true. cbn iota.
  destruct s as [|c s].
  - reflexivity.
  - pose proof (lex_bare_body (c :: s) [] H) as HL. cbn [app] in *.
    cbn [bare_safe forallb] in H. apply andb_true_iff in H as [Hc _].
    rewrite (bare_safe_not_dq c Hc). cbn [andb].
    destruct (s ++ [c_dq]); rewrite HL; reflexivity.
Qed.

(* F21: a name containing a double quote does not survive the bare splice; a name
   containing backslash-t survives as a different name. *)
Theorem bare_splice_refuted :
  (exists s, parse_literal (bare_dq s) = None) /\
  (exists s v, parse_literal (bare_dq s) = Some v /\ v <> s).
Proof.
  split.
  - exists (S "A" ++ [c_dq] ++ S "B"). vm_compute. reflexivity.
  - exists (S "A" ++ [c_bs] ++ S "tB"), (S "A" ++ [ch 9] ++ S "B"). split.
    + vm_compute. reflexivity.
    + vm_compute. discriminate.
Qed.
