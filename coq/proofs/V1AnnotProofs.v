(* V1AnnotProofs.v — lemmas about the annotation-resolution front end (model/V1Annot.v). *)
From DW Require Import PyStr V1Base V1Gen V1Errors V1Eval V1Show V1Annot V1GenInv V1GenTotal.
From Coq Require Import ZArith List Bool Lia.
Import ListNotations.

(* ---- induction over surface annotations (nested lists) ---------------------------------------- *)
Section SannInd.
  Variable P : sann -> Prop.
  Hypothesis Hleaf : forall l, P (SLeaf l).
  Hypothesis Hseq : forall k a, P a -> P (SSeq k a).
  Hypothesis Htuple : forall ts, Forall P ts -> P (STuple ts).
  Hypothesis Hdict : forall dd k v, P k -> P v -> P (SDict dd k v).
  Hypothesis Hopt : forall a, P a -> P (SOpt a).
  Hypothesis Hunion : forall ts, Forall P ts -> P (SUnion ts).
  Hypothesis Hlit : forall vs, P (SLit vs).
  Hypothesis Href : forall r, P (SRef r).
  Hypothesis Hann : forall a, P a -> P (SAnn a).
  Hypothesis Hqual : forall q a, P a -> P (SQual q a).
  Hypothesis Hstr : forall pin e, P e -> P (SStr pin e).

  Fixpoint sann_ind' (a : sann) : P a :=
    let all := fix all (l : list sann) : Forall P l :=
      match l with
      | [] => Forall_nil P
      | x :: r => Forall_cons x (sann_ind' x) (all r)
      end in
    match a with
    | SLeaf l => Hleaf l
    | SSeq k a => Hseq k a (sann_ind' a)
    | STuple ts => Htuple ts (all ts)
    | SDict dd k v => Hdict dd k v (sann_ind' k) (sann_ind' v)
    | SOpt a => Hopt a (sann_ind' a)
    | SUnion ts => Hunion ts (all ts)
    | SLit vs => Hlit vs
    | SRef r => Href r
    | SAnn a => Hann a (sann_ind' a)
    | SQual q a => Hqual q a (sann_ind' a)
    | SStr pin e => Hstr pin e (sann_ind' e)
    end.
End SannInd.

(* ---- mapM ------------------------------------------------------------------------------------------ *)
Lemma mapM_Forall2 {A B} (f : A -> result B) (P : A -> B -> Prop) (l : list A) :
  Forall (fun x => exists y, f x = Ok y /\ P x y) l ->
  exists ys, mapM f l = Ok ys /\ Forall2 P l ys.
Proof.
  induction 1 as [|x r [y [Hy Py]] _ IH].
  - exists []. split; [reflexivity | constructor].
  - destruct IH as [ys [Hys Pys]]. exists (y :: ys). cbn [mapM]. rewrite Hy. cbn [bind]. rewrite Hys. cbn [bind].
    split; [reflexivity | constructor; assumption].
Qed.

Lemma mapM_ok_Forall2 {A B} (f : A -> result B) (P : A -> B -> Prop) (l : list A) :
  (forall x y, In x l -> f x = Ok y -> P x y) ->
  forall ys, mapM f l = Ok ys -> Forall2 P l ys.
Proof.
  induction l as [|x r IH]; intros HP ys H.
  - cbn in H. inversion H. constructor.
  - cbn [mapM] in H. destruct (f x) as [y|] eqn:Hy; cbn [bind] in H; [|discriminate].
    destruct (mapM f r) as [ys'|] eqn:Hr; cbn [bind] in H; [|discriminate]. inversion H; subst.
    constructor.
    + apply HP; [left; reflexivity | exact Hy].
    + apply IH; [intros; apply HP; [right|]; assumption | reflexivity].
Qed.

Lemma forallb_Forall {A} (f : A -> bool) (l : list A) : forallb f l = true -> Forall (fun x => f x = true) l.
Proof.
  induction l as [|x r IH]; cbn; intro H; [constructor|].
  apply andb_true_iff in H. destruct H. constructor; auto.
Qed.

(* ---- evaluation of a well-scoped string -------------------------------------------------------------- *)
Definition evs (E : senv) (m : nat) : list sann -> result (list sann) :=
  fix evs (l : list sann) : result (list sann) :=
    match l with
    | [] => Ok []
    | x :: r => do y <- ev E m x; do ys <- evs r; Ok (y :: ys)
    end.

Lemma evs_map E m (l : list sann) :
  Forall (fun x => ev E m x = Ok (unstr x)) l -> evs E m l = Ok (map unstr l).
Proof.
  induction 1 as [|x r Hx _ IH]; [reflexivity|].
  change (evs E m (x :: r)) with (do y <- ev E m x; do ys <- evs E m r; Ok (y :: ys)).
  rewrite Hx. cbn [bind]. rewrite IH. reflexivity.
Qed.

Lemma lookup_scoped E m r : (match lookup E m r with Ok r' => ref_eqb r' r | Err _ => false end) = true ->
  lookup E m r = Ok r.
Proof.
  destruct (lookup E m r) as [r'|]; [|discriminate]. intro H. f_equal.
  destruct r', r; cbn in H; try discriminate; apply Nat.eqb_eq in H; subst; reflexivity.
Qed.

Lemma ev_scoped : forall e E m, scoped E m e = true -> ev E m e = Ok (unstr e).
Proof.
  induction e as [l|k a IHa|ts IHts|dd k v IHk IHv|a IHa|ts IHts|vs|r|a IHa|q a IHa|pin e IHe] using sann_ind';
    intros E m Hs; cbn [scoped] in Hs.
  - reflexivity.
  - cbn [ev unstr]. rewrite (IHa E m Hs). reflexivity.
  - cbn [ev unstr]. change (bind (evs E m ts) (fun ts' => Ok (STuple ts')) = Ok (STuple (map unstr ts))).
    rewrite evs_map; [reflexivity|].
    apply forallb_Forall in Hs. rewrite Forall_forall in *. intros x Hx. apply IHts; auto.
  - apply andb_true_iff in Hs. destruct Hs as [H1 H2]. cbn [ev unstr].
    rewrite (IHk E m H1). cbn [bind]. rewrite (IHv E m H2). reflexivity.
  - cbn [ev unstr]. rewrite (IHa E m Hs). reflexivity.
  - cbn [ev unstr]. change (bind (evs E m ts) (fun ts' => Ok (SUnion ts')) = Ok (SUnion (map unstr ts))).
    rewrite evs_map; [reflexivity|].
    apply forallb_Forall in Hs. rewrite Forall_forall in *. intros x Hx. apply IHts; auto.
  - reflexivity.
  - cbn [ev unstr]. rewrite (lookup_scoped E m r Hs). reflexivity.
  - cbn [ev unstr]. rewrite (IHa E m Hs). reflexivity.
  - cbn [ev unstr]. rewrite (IHa E m Hs). reflexivity.
  - cbn [ev unstr]. apply IHe. exact Hs.
Qed.

(* removing the quotes does not change what an annotation denotes *)
Lemma Forall2_map_l {A B C} (P : B -> C -> Prop) (g : A -> B) (l : list A) (l' : list C) :
  Forall2 (fun x y => P (g x) y) l l' -> Forall2 P (map g l) l'.
Proof. induction 1; cbn; constructor; auto. Qed.

Lemma Forall2_impl_in {A B} (P Q : A -> B -> Prop) (l : list A) (l' : list B) :
  Forall (fun x => forall y, P x y -> Q x y) l -> Forall2 P l l' -> Forall2 Q l l'.
Proof.
  intros HF H. induction H; [constructor|]. inversion HF; subst. constructor; auto.
Qed.

Lemma Forall2_of_map_l {A B C} (P : B -> C -> Prop) (g : A -> B) (l : list A) (l' : list C) :
  Forall2 P (map g l) l' -> Forall2 (fun x y => P (g x) y) l l'.
Proof.
  revert l'. induction l as [|x r IH]; intros l' H; cbn in H; inversion H; subst; constructor; auto.
Qed.

Lemma unstr_denotes E : forall e t, denotes E (unstr e) t -> denotes E e t.
Proof.
  induction e as [l|k a IHa|ts IHts|dd k v IHk IHv|a IHa|ts IHts|vs|r|a IHa|q a IHa|pin e IHe] using sann_ind';
    intros t Hd; cbn [unstr] in Hd; try exact Hd.
  - inversion Hd; subst. constructor. auto.
  - inversion Hd; subst. constructor. apply Forall2_of_map_l in H0.
    eapply Forall2_impl_in; [|exact H0]. exact IHts.
  - inversion Hd; subst. constructor; auto.
  - inversion Hd; subst. constructor. auto.
  - inversion Hd; subst. constructor. apply Forall2_of_map_l in H0.
    eapply Forall2_impl_in; [|exact H0]. exact IHts.
  - inversion Hd; subst. constructor. auto.
  - inversion Hd; subst. constructor. auto.
  - constructor. auto.
Qed.

(* ---- the head step --------------------------------------------------------------------------------- *)
Lemma head_is_pure E cur a : top_ok E cur a = true -> head_res E cur a = head_pure E a.
Proof.
  unfold top_ok, head_res, head_pure. destruct a; try reflexivity.
  intro H. apply andb_true_iff in H. destruct H as [Hs _].
  rewrite (ev_scoped _ _ _ Hs). reflexivity.
Qed.

Lemma core_dispatch a : core a = true -> dispatch a = Ok a.
Proof. destruct a as [| | | | | | |r| | |]; cbn; try discriminate; try reflexivity. destruct r; cbn; try discriminate; reflexivity. Qed.

Lemma classlike_core a : classlike a = true -> core a = true.
Proof. destruct a as [| | | | | | |r| | |]; cbn; try discriminate; try reflexivity. destruct r; cbn; try discriminate; reflexivity. Qed.

(* after the alias step *)
Lemma ok3_dispatch E a : ok3 a = true ->
  exists h, dispatch a = Ok h /\ core h = true /\ (forall t, denotes E h t -> denotes E a t).
Proof.
  unfold ok3. intro H. apply orb_true_iff in H. destruct H as [H|H].
  - exists a. rewrite (core_dispatch a H). auto.
  - destruct a; try discriminate. exists a. cbn [dispatch]. rewrite H.
    split; [reflexivity|]. split; [apply classlike_core; exact H|]. intros t Ht. constructor. exact Ht.
Qed.

Lemma ok2_unalias E a : ok2 E a = true ->
  exists h, (do a2 <- unalias E a; dispatch a2) = Ok h /\ core h = true /\
            (forall t, denotes E h t -> denotes E a t).
Proof.
  unfold ok2, unalias. intro H.
  destruct (see_thru a) as [| | | | | | |r| | |] eqn:Hst;
    try (cbn [bind]; apply ok3_dispatch; exact H).
  destruct r as [c|i|i|i]; try (cbn [bind]; apply ok3_dispatch; exact H).
  unfold alias_value in *. destruct (nth_error (e_als E) i) as [d|] eqn:Hd; [|discriminate].
  cbn [bind]. destruct (ok3_dispatch E (sa_value d) H) as [h [H1 [H2 H3]]].
  exists h. split; [exact H1|]. split; [exact H2|].
  intros t Ht. specialize (H3 t Ht).
  assert (Ha : denotes E (SRef (RAlias i)) t) by (eapply D_alias; eauto).
  destruct a; cbn [see_thru] in Hst; try (rewrite Hst; exact Ha); try discriminate.
  subst. constructor. exact Ha.
Qed.

Lemma strip1_denotes E a t : denotes E (strip1 a) t -> denotes E a t.
Proof. destruct a; cbn [strip1]; intro H; try exact H; constructor; exact H. Qed.

Lemma head_pure_ok E cur a : top_ok E cur a = true ->
  exists h, head_pure E a = Ok h /\ core h = true /\ (forall t, denotes E h t -> denotes E a t).
Proof.
  unfold top_ok, head_pure. intro H.
  assert (Hk : exists a1, ok1 E a1 = true /\ (forall t, denotes E a1 t -> denotes E a t) /\
                          (match a with SStr _ e => unstr e | _ => a end) = a1).
  { destruct a; try (eexists; split; [exact H|]; split; [auto|reflexivity]).
    apply andb_true_iff in H. destruct H as [_ H]. eexists. split; [exact H|]. split; [|reflexivity].
    intros t Ht. constructor. apply unstr_denotes. exact Ht. }
  destruct Hk as [a1 [Hok [Hden Heq]]]. rewrite Heq.
  unfold ok1 in Hok. destruct (ok2_unalias E _ Hok) as [h [H1 [H2 H3]]].
  exists h. split; [exact H1|]. split; [exact H2|].
  intros t Ht. apply Hden. apply strip1_denotes. apply H3. exact Ht.
Qed.

(* ---- the structural part ------------------------------------------------------------------------------ *)
Lemma Forall2_lbl E (fs : list (pstr * sann)) (rec : sann -> result ty) :
  Forall (fun x => exists t, rec x = Ok t /\ denotes E x t) (map snd fs) ->
  exists r, mapM (on_snd rec) fs = Ok r /\
            Forall2 (fun p q => fst p = fst q /\ denotes E (snd p) (snd q)) fs r.
Proof.
  intro H. apply mapM_Forall2.
  induction fs as [|[l a] r IH]; [constructor|].
  cbn [map snd] in H. inversion H; subst. constructor; [|apply IH; assumption].
  destruct H2 as [t [Ht Hd]]. exists (l, t). unfold on_snd. cbn [fst snd]. rewrite Ht. cbn [bind].
  split; [reflexivity|]. split; [reflexivity | exact Hd].
Qed.

Lemma build_ok E (rec : sann -> result ty) h :
  core h = true -> ref_valid E h = true ->
  Forall (fun x => exists t, rec x = Ok t /\ denotes E x t) (comps E h) ->
  exists t, build rec E h = Ok t /\ denotes E h t.
Proof.
  intros Hc Hv Hk.
  destruct h as [l|k a|ts|dd k v|a|ts|vs|r|a|q a|pin e]; cbn [core] in Hc; try discriminate; cbn [comps] in Hk; cbn [build].
  - eexists. split; [reflexivity | constructor].
  - inversion Hk; subst. destruct H1 as [t [Ht Hd]]. rewrite Ht. cbn [bind].
    eexists. split; [reflexivity | constructor; exact Hd].
  - destruct (mapM_Forall2 rec (denotes E) ts Hk) as [ys [Hys Hf]]. rewrite Hys. cbn [bind].
    eexists. split; [reflexivity | constructor; exact Hf].
  - inversion Hk; subst. inversion H2; subst. destruct H1 as [t1 [Ht1 Hd1]]. destruct H3 as [t2 [Ht2 Hd2]].
    rewrite Ht1. cbn [bind]. rewrite Ht2. cbn [bind]. eexists. split; [reflexivity | constructor; assumption].
  - inversion Hk; subst. destruct H1 as [t [Ht Hd]]. rewrite Ht. cbn [bind].
    eexists. split; [reflexivity | constructor; exact Hd].
  - destruct (mapM_Forall2 rec (denotes E) ts Hk) as [ys [Hys Hf]]. rewrite Hys. cbn [bind].
    eexists. split; [reflexivity | constructor; exact Hf].
  - eexists. split; [reflexivity | constructor].
  - destruct r as [c|i|i|i]; cbn [core] in Hc; try discriminate; cbn [ref_valid] in Hv.
    + eexists. split; [reflexivity | constructor].
    + destruct (nth_error (e_nts E) i) as [d|] eqn:Hd; [|discriminate].
      destruct (Forall2_lbl E (sn_fields d) rec Hk) as [r [Hr Hf]]. rewrite Hr. cbn [bind].
      eexists. split; [reflexivity|]. eapply D_named; eauto.
    + destruct (nth_error (e_tds E) i) as [d|] eqn:Hd; [|discriminate].
      apply Forall_app in Hk. destruct Hk as [Hk1 Hk2].
      destruct (Forall2_lbl E (st_req d) rec Hk1) as [r [Hr Hf]]. rewrite Hr. cbn [bind].
      destruct (Forall2_lbl E (st_opt d) rec Hk2) as [o [Ho Hfo]]. rewrite Ho. cbn [bind].
      eexists. split; [reflexivity|]. eapply D_typed; eauto.
Qed.

(* ---- T1: inside okb, resolution succeeds and yields the denotation ------------------------------------ *)
Theorem resolve_total : forall fuel E cur a,
  okb fuel E cur a = true -> exists t, resolve fuel E cur a = Ok t /\ denotes E a t.
Proof.
  induction fuel as [|f IH]; intros E cur a H; [discriminate|].
  cbn [okb] in H. apply andb_true_iff in H. destruct H as [Htop H].
  destruct (head_pure_ok E cur a Htop) as [h [Hh [Hc Hden]]].
  rewrite Hh in H. apply andb_true_iff in H. destruct H as [Hv Hk].
  cbn [resolve]. rewrite (head_is_pure E cur a Htop), Hh. cbn [bind].
  destruct (build_ok E (resolve f E cur) h Hc Hv) as [t [Ht Hd]].
  - apply forallb_Forall in Hk. eapply Forall_impl; [|exact Hk]. intros x Hx. apply IH. exact Hx.
  - exists t. split; [exact Ht | apply Hden; exact Hd].
Qed.

(* the executable reference agrees with the relation *)
Lemma build_sound E (rec : sann -> result ty) h t :
  (forall x y, rec x = Ok y -> denotes E x y) ->
  (match h with SAnn _ | SQual _ _ | SStr _ _ | SRef (RAlias _) => False | _ => True end) ->
  build rec E h = Ok t -> denotes E h t.
Proof.
  intros Hrec Hshape Hb.
  destruct h as [l|k a|ts|dd k v|a|ts|vs|r|a|q a|pin e]; cbn [build] in Hb; try (exfalso; exact Hshape).
  - inversion Hb. constructor.
  - destruct (rec a) as [t'|] eqn:Ha; cbn [bind] in Hb; [|discriminate]. inversion Hb. constructor. auto.
  - destruct (mapM rec ts) as [ys|] eqn:Hm; cbn [bind] in Hb; [|discriminate]. inversion Hb. constructor.
    eapply mapM_ok_Forall2; [|exact Hm]. intros; auto.
  - destruct (rec k) as [k'|] eqn:Hk; cbn [bind] in Hb; [|discriminate].
    destruct (rec v) as [v'|] eqn:Hv; cbn [bind] in Hb; [|discriminate]. inversion Hb. constructor; auto.
  - destruct (rec a) as [t'|] eqn:Ha; cbn [bind] in Hb; [|discriminate]. inversion Hb. constructor. auto.
  - destruct (mapM rec ts) as [ys|] eqn:Hm; cbn [bind] in Hb; [|discriminate]. inversion Hb. constructor.
    eapply mapM_ok_Forall2; [|exact Hm]. intros; auto.
  - inversion Hb. constructor.
  - destruct r as [c|i|i|i]; try (exfalso; exact Hshape).
    + inversion Hb. constructor.
    + destruct (nth_error (e_nts E) i) as [d|] eqn:Hd; [|discriminate].
      destruct (mapM (on_snd rec) (sn_fields d)) as [fs|] eqn:Hm; cbn [bind] in Hb; [|discriminate].
      inversion Hb. eapply D_named; [exact Hd|].
      eapply mapM_ok_Forall2; [|exact Hm]. intros [l a] [l' t'] _ Hx. unfold on_snd in Hx. cbn [fst snd] in *.
      destruct (rec a) as [y|] eqn:Hy; cbn [bind] in Hx; [|discriminate]. inversion Hx; subst. split; auto.
    + destruct (nth_error (e_tds E) i) as [d|] eqn:Hd; [|discriminate].
      destruct (mapM (on_snd rec) (st_req d)) as [rs|] eqn:Hm; cbn [bind] in Hb; [|discriminate].
      destruct (mapM (on_snd rec) (st_opt d)) as [os|] eqn:Hm2; cbn [bind] in Hb; [|discriminate].
      inversion Hb. eapply D_typed; [exact Hd| |].
      * eapply mapM_ok_Forall2; [|exact Hm]. intros [l a] [l' t'] _ Hx. unfold on_snd in Hx. cbn [fst snd] in *.
        destruct (rec a) as [y|] eqn:Hy; cbn [bind] in Hx; [|discriminate]. inversion Hx; subst. split; auto.
      * eapply mapM_ok_Forall2; [|exact Hm2]. intros [l a] [l' t'] _ Hx. unfold on_snd in Hx. cbn [fst snd] in *.
        destruct (rec a) as [y|] eqn:Hy; cbn [bind] in Hx; [|discriminate]. inversion Hx; subst. split; auto.
Qed.

Theorem denote_denotes : forall fuel E a t, denote fuel E a = Ok t -> denotes E a t.
Proof.
  induction fuel as [|f IH]; intros E a t H; [discriminate|].
  cbn [denote] in H.
  destruct a as [l|k a|ts|dd k v|a|ts|vs|r|a|q a|pin e];
    try (eapply build_sound; [intros x y Hx; apply IH; exact Hx | exact I | exact H]);
    try (constructor; apply IH; exact H).
  destruct r as [c|i|i|i];
    try (eapply build_sound; [intros x y Hx; apply IH; exact Hx | exact I | exact H]).
  unfold alias_value in H. destruct (nth_error (e_als E) i) as [d|] eqn:Hd; [|discriminate].
  cbn [bind] in H. eapply D_alias; [exact Hd | apply IH; exact H].
Qed.

(* ---- classes ------------------------------------------------------------------------------------------- *)
Definition field_denotes (E : senv) (sf : sfield) (fd : fdecl) : Prop :=
  f_name fd = sf_name sf /\ f_default fd = sf_default sf /\ f_keys fd = sf_keys sf /\ f_dkey fd = sf_dkey sf /\
  denotes E (sf_ann sf) (f_ty fd).

Definition class_denotes (E : senv) (sc : sclass) (d : cdecl) : Prop :=
  c_name d = sc_name sc /\ Forall2 (field_denotes E) (sc_fields sc) (c_fields d).

Theorem resolve_class_total : forall fuel E sc,
  class_ok fuel E sc = true ->
  exists d, resolve_class fuel E (sc_mod sc) sc = Ok d /\ class_denotes E sc d.
Proof.
  intros fuel E sc H. unfold class_ok in H. unfold resolve_class.
  destruct (mapM_Forall2 (resolve_field fuel E (sc_mod sc)) (field_denotes E) (sc_fields sc)) as [fs [Hfs Hf]].
  - apply forallb_Forall in H. eapply Forall_impl; [|exact H]. intros sf Hsf. cbn beta in Hsf.
    destruct (resolve_total fuel E (sc_mod sc) (sf_ann sf) Hsf) as [t [Ht Hd]].
    unfold resolve_field. rewrite Ht. cbn [bind]. eexists. split; [reflexivity|].
    unfold field_denotes. cbn. repeat split; auto.
  - rewrite Hfs. cbn [bind]. eexists. split; [reflexivity|]. split; [reflexivity | exact Hf].
Qed.

(* ---- T2: every class reached by the walk is resolved in ITS OWN module ----------------------------------- *)
Definition own (rf : nat) (E : senv) (p : nat * cdecl) : Prop :=
  exists sc, nth_error (e_cls E) (fst p) = Some sc /\ resolve_class rf E (sc_mod sc) sc = Ok (snd p).

Theorem walk_own_namespace : forall fuel rf E x c acc acc',
  walk true fuel rf E x c acc = Ok acc' ->
  Forall (own rf E) acc -> Forall (own rf E) acc'.
Proof.
  induction fuel as [|f IH]; intros rf E x c acc acc' H Hacc; [discriminate|].
  cbn [walk] in H. destruct (visited c acc); [inversion H; subst; exact Hacc|].
  destruct (nth_error (e_cls E) c) as [sc|] eqn:Hsc; [|discriminate].
  destruct (resolve_class rf E (sc_mod sc) sc) as [d|] eqn:Hd; cbn [bind] in H; [|discriminate].
  assert (Hacc1 : Forall (own rf E) ((c, d) :: acc)).
  { constructor; [|exact Hacc]. exists sc. cbn [fst snd]. split; assumption. }
  revert H Hacc1. generalize ((c, d) :: acc) as acc1. generalize (class_refs d) as cs.
  induction cs as [|c' r IHcs]; intros acc1 H Hacc1.
  - inversion H; subst. exact Hacc1.
  - destruct (walk true f rf E c c' acc1) as [acc2|] eqn:Hw; cbn [bind] in H; [|discriminate].
    apply (IHcs acc2 H). exact (IH rf E c c' acc1 acc2 Hw Hacc1).
Qed.

Lemma wfind_In c w d : wfind c w = Some d -> In (c, d) w.
Proof.
  induction w as [|[c' d'] r IH]; cbn [wfind]; [discriminate|].
  destruct (Nat.eqb c' c) eqn:He; intro H.
  - inversion H; subst. apply Nat.eqb_eq in He. subst. left. reflexivity.
  - right. auto.
Qed.

Lemma table_from_nth : forall cls i w k d sc,
  nth_error cls k = Some sc -> wfind (i + k) w = Some d -> nth_error (table_from i cls w) k = Some d.
Proof.
  induction cls as [|sc0 r IH]; intros i w k d sc Hk Hw; [destruct k; discriminate|].
  destruct k as [|k]; cbn [table_from nth_error] in *.
  - rewrite Nat.add_0_r in Hw. rewrite Hw. reflexivity.
  - apply (IH (Datatypes.S i) w k d sc Hk). rewrite <- Hw. f_equal. lia.
Qed.

(* the entry of the resolved table for any class the walk reached: resolved in its own module,
   whatever the root, the path and the depth *)
Theorem surface_table_own : forall rf E root ct,
  surface_table true rf E root = Ok ct ->
  forall c sc, nth_error (e_cls E) c = Some sc ->
    (nth_error ct c = Some {| c_name := sc_name sc; c_fields := [] |}) \/
    (exists d, nth_error ct c = Some d /\ resolve_class rf E (sc_mod sc) sc = Ok d).
Proof.
  intros rf E root ct H c sc Hsc. unfold surface_table in H.
  destruct (walk true _ rf E root root []) as [w|] eqn:Hw; cbn [bind] in H; [|discriminate].
  inversion H; subst. clear H.
  pose proof (walk_own_namespace _ rf E root root [] w Hw (Forall_nil _)) as Hown.
  destruct (wfind c w) as [d|] eqn:Hf.
  - right. exists d. split; [eapply table_from_nth; eauto|].
    apply wfind_In in Hf. rewrite Forall_forall in Hown. destruct (Hown _ Hf) as [sc' [H1 H2]].
    cbn [fst snd] in *. rewrite Hsc in H1. inversion H1; subst. exact H2.
  - left. clear Hw Hown. revert Hsc Hf. generalize (e_cls E) as cls.
    assert (G : forall cls i k, nth_error cls k = Some sc -> wfind (i + k) w = None ->
                nth_error (table_from i cls w) k = Some {| c_name := sc_name sc; c_fields := [] |}).
    { induction cls as [|sc0 r IH]; intros i k Hk Hn; [destruct k; discriminate|].
      destruct k as [|k]; cbn [table_from nth_error] in *.
      - rewrite Nat.add_0_r in Hn. rewrite Hn. inversion Hk; subst. reflexivity.
      - apply IH; [exact Hk|]. rewrite <- Hn. f_equal. lia. }
    intros cls Hk Hn. exact (G cls 0 c Hk Hn).
Qed.

(* ---- T3: the walk terminates successfully when every class is inside okb --------------------------------- *)
Lemma data_refs_unl n (ts : list ty) :
  Forall (fun t => Forall (fun c => c < n) (data_refs t)) ts -> Forall (fun c => c < n) (data_refs_s (unl ts)).
Proof.
  induction 1 as [|t r Ht _ IH]; cbn [unl data_refs_s]; [constructor|].
  apply Forall_app. split; assumption.
Qed.

Lemma data_refs_lbl n (ts : list (pstr * ty)) :
  Forall (fun p => Forall (fun c => c < n) (data_refs (snd p))) ts -> Forall (fun c => c < n) (data_refs_s (lbl ts)).
Proof.
  induction 1 as [|[l t] r Ht _ IH]; cbn [lbl data_refs_s]; [constructor|].
  apply Forall_app. split; assumption.
Qed.

Lemma mapM_Forall_out {A B} (f : A -> result B) (Q : B -> Prop) (l : list A) :
  Forall (fun x => forall y, f x = Ok y -> Q y) l -> forall ys, mapM f l = Ok ys -> Forall Q ys.
Proof.
  induction 1 as [|x r Hx _ IH]; intros ys H; cbn [mapM] in H.
  - inversion H. constructor.
  - destruct (f x) as [y|] eqn:Hy; cbn [bind] in H; [|discriminate].
    destruct (mapM f r) as [ys'|] eqn:Hr; cbn [bind] in H; [|discriminate]. inversion H; subst.
    constructor; auto.
Qed.

Lemma on_snd_refs n (rec : sann -> result ty) (fs : list (pstr * sann)) :
  Forall (fun x => forall t, rec x = Ok t -> Forall (fun c => c < n) (data_refs t)) (map snd fs) ->
  forall r, mapM (on_snd rec) fs = Ok r -> Forall (fun p => Forall (fun c => c < n) (data_refs (snd p))) r.
Proof.
  intro H. apply mapM_Forall_out.
  induction fs as [|[l a] r IH]; [constructor|]. cbn [map snd] in H. inversion H; subst.
  constructor; [|apply IH; assumption].
  intros [l' t] Hy. unfold on_snd in Hy. cbn [fst snd] in *.
  destruct (rec a) as [y|] eqn:Hr; cbn [bind] in Hy; [|discriminate]. inversion Hy; subst. auto.
Qed.

Lemma build_refs E (rec : sann -> result ty) h t :
  ref_valid E h = true ->
  Forall (fun x => forall t, rec x = Ok t -> Forall (fun c => c < List.length (e_cls E)) (data_refs t)) (comps E h) ->
  build rec E h = Ok t -> Forall (fun c => c < List.length (e_cls E)) (data_refs t).
Proof.
  intros Hv Hk Hb.
  destruct h as [l|k a|ts|dd k v|a|ts|vs|r|a|q a|pin e]; cbn [build] in Hb; cbn [comps] in Hk; try discriminate.
  - inversion Hb. constructor.
  - destruct (rec a) as [t'|] eqn:Ha; cbn [bind] in Hb; [|discriminate]. inversion Hb. cbn [data_refs].
    inversion Hk; subst. auto.
  - destruct (mapM rec ts) as [ys|] eqn:Hm; cbn [bind] in Hb; [|discriminate]. inversion Hb. cbn [data_refs].
    apply data_refs_unl. eapply mapM_Forall_out; [|exact Hm]. exact Hk.
  - destruct (rec k) as [k'|] eqn:Hk1; cbn [bind] in Hb; [|discriminate].
    destruct (rec v) as [v'|] eqn:Hv1; cbn [bind] in Hb; [|discriminate]. inversion Hb. cbn [data_refs].
    inversion Hk; subst. inversion H3; subst. apply Forall_app. split; auto.
  - destruct (rec a) as [t'|] eqn:Ha; cbn [bind] in Hb; [|discriminate]. inversion Hb. cbn [data_refs].
    inversion Hk; subst. auto.
  - destruct (mapM rec ts) as [ys|] eqn:Hm; cbn [bind] in Hb; [|discriminate]. inversion Hb. cbn [data_refs].
    apply data_refs_unl. eapply mapM_Forall_out; [|exact Hm]. exact Hk.
  - inversion Hb. constructor.
  - destruct r as [c|i|i|i]; cbn [ref_valid] in Hv; try discriminate.
    + inversion Hb. cbn [data_refs]. constructor; [|constructor]. apply Nat.ltb_lt. exact Hv.
    + destruct (nth_error (e_nts E) i) as [d|] eqn:Hd; [|discriminate].
      destruct (mapM (on_snd rec) (sn_fields d)) as [fs|] eqn:Hm; cbn [bind] in Hb; [|discriminate].
      inversion Hb. cbn [data_refs]. apply data_refs_lbl. eapply on_snd_refs; eauto.
    + destruct (nth_error (e_tds E) i) as [d|] eqn:Hd; [|discriminate].
      destruct (mapM (on_snd rec) (st_req d)) as [rs|] eqn:Hm; cbn [bind] in Hb; [|discriminate].
      destruct (mapM (on_snd rec) (st_opt d)) as [os|] eqn:Hm2; cbn [bind] in Hb; [|discriminate].
      inversion Hb. cbn [data_refs]. apply Forall_app in Hk. destruct Hk as [Hk1 Hk2].
      apply Forall_app. split; apply data_refs_lbl.
      * eapply on_snd_refs; [exact Hk1 | exact Hm].
      * eapply on_snd_refs; [exact Hk2 | exact Hm2].
Qed.

Lemma resolve_refs : forall fuel E cur a t,
  okb fuel E cur a = true -> resolve fuel E cur a = Ok t ->
  Forall (fun c => c < List.length (e_cls E)) (data_refs t).
Proof.
  induction fuel as [|f IH]; intros E cur a t H Hr; [discriminate|].
  cbn [okb] in H. apply andb_true_iff in H. destruct H as [Htop H].
  cbn [resolve] in Hr. rewrite (head_is_pure E cur a Htop) in Hr.
  destruct (head_pure E a) as [h|] eqn:Hh; [|discriminate]. cbn [bind] in Hr.
  apply andb_true_iff in H. destruct H as [Hv Hk].
  eapply build_refs; [exact Hv | | exact Hr].
  apply forallb_Forall in Hk. eapply Forall_impl; [|exact Hk]. intros x Hx t' Ht'. exact (IH E cur x t' Hx Ht').
Qed.

Lemma class_refs_bound rf E sc d :
  class_ok rf E sc = true -> resolve_class rf E (sc_mod sc) sc = Ok d ->
  Forall (fun c => c < List.length (e_cls E)) (class_refs d).
Proof.
  unfold class_ok, resolve_class. intros Hok H.
  destruct (mapM (resolve_field rf E (sc_mod sc)) (sc_fields sc)) as [fs|] eqn:Hm; cbn [bind] in H; [|discriminate].
  inversion H; subst. unfold class_refs. cbn [c_fields].
  assert (G : Forall (fun fd => Forall (fun c => c < List.length (e_cls E)) (data_refs (f_ty fd))) fs).
  { eapply mapM_Forall_out; [|exact Hm]. apply forallb_Forall in Hok.
    eapply Forall_impl; [|exact Hok]. intros sf Hsf fd Hfd. cbn beta in Hsf. unfold resolve_field in Hfd.
    destruct (resolve rf E (sc_mod sc) (sf_ann sf)) as [t|] eqn:Ht; cbn [bind] in Hfd; [|discriminate].
    inversion Hfd; subst. cbn [f_ty]. eapply resolve_refs; eauto. }
  clear Hm H. induction G as [|fd r Hfd Hr IHG]; [constructor|].
  change (flat_map (fun f : fdecl => data_refs (f_ty f)) (fd :: r))
    with (data_refs (f_ty fd) ++ flat_map (fun f : fdecl => data_refs (f_ty f)) r).
  apply Forall_app. split; [exact Hfd | exact IHG].
Qed.

(* the measure: classes not yet in the guard *)
Definition unvisited (n : nat) (acc : list (nat * cdecl)) : nat :=
  List.length (filter (fun i => negb (visited i acc)) (seq 0 n)).

Lemma ann_filter_len_mono {A} (f g : A -> bool) (l : list A) :
  (forall x, g x = true -> f x = true) -> List.length (filter g l) <= List.length (filter f l).
Proof.
  intro H. induction l as [|x r IH]; cbn [filter]; [lia|].
  destruct (g x) eqn:Hg; [rewrite (H x Hg); cbn [List.length]; lia|].
  destruct (f x); cbn [List.length]; lia.
Qed.

Lemma ann_filter_len_strict {A} (f g : A -> bool) (l : list A) (a : A) :
  (forall x, g x = true -> f x = true) -> In a l -> f a = true -> g a = false ->
  List.length (filter g l) < List.length (filter f l).
Proof.
  intros H Hin Hf Hg. induction l as [|x r IH]; [destruct Hin|].
  cbn [filter]. destruct Hin as [->|Hin].
  - rewrite Hf, Hg. cbn [List.length]. pose proof (ann_filter_len_mono f g r H). lia.
  - specialize (IH Hin). destruct (g x) eqn:Hgx; [rewrite (H x Hgx); cbn [List.length]; lia|].
    destruct (f x); cbn [List.length]; lia.
Qed.

Definition grows (acc acc' : list (nat * cdecl)) : Prop := forall i, visited i acc = true -> visited i acc' = true.

Lemma unvisited_mono n acc acc' : grows acc acc' -> unvisited n acc' <= unvisited n acc.
Proof.
  intro H. unfold unvisited. apply ann_filter_len_mono. intros x Hx.
  apply negb_true_iff in Hx. apply negb_true_iff.
  destruct (visited x acc) eqn:Hv; [|reflexivity]. rewrite (H x Hv) in Hx. discriminate.
Qed.

Lemma visited_cons c d acc i : visited i ((c, d) :: acc) = Nat.eqb c i || visited i acc.
Proof. reflexivity. Qed.

Lemma unvisited_strict n acc c d : c < n -> visited c acc = false ->
  unvisited n ((c, d) :: acc) < unvisited n acc.
Proof.
  intros Hc Hv. unfold unvisited. apply (ann_filter_len_strict _ _ _ c).
  - intros x Hx. apply negb_true_iff in Hx. apply negb_true_iff. rewrite visited_cons in Hx.
    apply orb_false_iff in Hx. tauto.
  - apply in_seq. lia.
  - rewrite Hv. reflexivity.
  - rewrite visited_cons, Nat.eqb_refl. reflexivity.
Qed.

Theorem walk_total : forall rf E,
  (forall sc, In sc (e_cls E) -> class_ok rf E sc = true) ->
  forall fuel x c acc, c < List.length (e_cls E) -> unvisited (List.length (e_cls E)) acc < fuel ->
  exists acc', walk true fuel rf E x c acc = Ok acc' /\ grows acc acc'.
Proof.
  intros rf E Hall. set (n := List.length (e_cls E)).
  induction fuel as [|f IH]; intros x c acc Hc Hm; [lia|].
  cbn [walk]. destruct (visited c acc) eqn:Hv.
  - exists acc. split; [reflexivity | intros i Hi; exact Hi].
  - destruct (nth_error (e_cls E) c) as [sc|] eqn:Hsc; [|apply nth_error_None in Hsc; fold n in Hsc; lia].
    assert (Hok : class_ok rf E sc = true) by (apply Hall; eapply nth_error_In; eauto).
    destruct (resolve_class_total rf E sc Hok) as [d [Hd _]]. rewrite Hd. cbn [bind].
    pose proof (class_refs_bound rf E sc d Hok Hd) as Hb. fold n in Hb.
    pose proof (unvisited_strict n acc c d Hc Hv) as Hs.
    assert (Hg0 : grows acc ((c, d) :: acc)).
    { intros i Hi. rewrite visited_cons, Hi. apply orb_true_r. }
    revert Hb Hg0. generalize (class_refs d) as cs.
    assert (Hm1 : unvisited n ((c, d) :: acc) < f) by lia.
    revert Hm1. generalize ((c, d) :: acc) as acc1.
    intros acc1 Hm1 cs. revert acc1 Hm1. induction cs as [|c' r IHcs]; intros acc1 Hm1 Hb Hg.
    + exists acc1. split; [reflexivity | exact Hg].
    + inversion Hb; subst. destruct (IH c c' acc1 H1 Hm1) as [acc2 [Hw Hg2]]. rewrite Hw. cbn [bind].
      apply IHcs.
      * pose proof (unvisited_mono n acc1 acc2 Hg2). lia.
      * assumption.
      * intros i Hi. apply Hg2. apply Hg. exact Hi.
Qed.

Lemma ann_filter_len_le {A} (f : A -> bool) (l : list A) : List.length (filter f l) <= List.length l.
Proof. induction l as [|x r IH]; cbn [filter List.length]; [lia|]. destruct (f x); cbn [List.length]; lia. Qed.

Lemma unvisited_le n acc : unvisited n acc <= n.
Proof. unfold unvisited. etransitivity; [apply ann_filter_len_le|]. rewrite seq_length. lia. Qed.

Theorem surface_table_total : forall rf E root,
  (forall sc, In sc (e_cls E) -> class_ok rf E sc = true) -> root < List.length (e_cls E) ->
  exists ct, surface_table true rf E root = Ok ct.
Proof.
  intros rf E root Hall Hr. unfold surface_table.
  destruct (walk_total rf E Hall (Datatypes.S (Datatypes.S (List.length (e_cls E)))) root root [] Hr) as [w [Hw _]].
  - pose proof (unvisited_le (List.length (e_cls E)) []). lia.
  - rewrite Hw. cbn [bind]. eexists. reflexivity.
Qed.

(* ---- T4: the resolved table is inside the grammar the generator accepts: end-to-end totality -------------- *)
Lemma supported_of_refs ct :
  (forall t, Forall (fun c => c < List.length ct) (data_refs t) -> supported ct t = true) /\
  (forall ts, Forall (fun c => c < List.length ct) (data_refs_s ts) -> supported_l ct ts = true).
Proof.
  apply ty_tys_ind; cbn [data_refs data_refs_s supported supported_l]; intros; auto.
  - apply Forall_app in H1. destruct H1. rewrite H, H0 by assumption. reflexivity.
  - apply Forall_app in H1. destruct H1. rewrite H, H0 by assumption. reflexivity.
  - inversion H; subst. apply Nat.ltb_lt. assumption.
  - apply Forall_app in H1. destruct H1. rewrite H, H0 by assumption. reflexivity.
Qed.

Lemma table_from_length : forall cls i w, List.length (table_from i cls w) = List.length cls.
Proof. induction cls as [|sc r IH]; intros i w; cbn [table_from List.length]; [reflexivity|]. rewrite IH. reflexivity. Qed.

Lemma class_refs_supported ct (d : cdecl) :
  Forall (fun c => c < List.length ct) (class_refs d) ->
  forallb (fun f => supported ct (f_ty f)) (c_fields d) = true.
Proof.
  unfold class_refs. induction (c_fields d) as [|fd r IH]; intro H; [reflexivity|].
  change (flat_map (fun f : fdecl => data_refs (f_ty f)) (fd :: r))
    with (data_refs (f_ty fd) ++ flat_map (fun f : fdecl => data_refs (f_ty f)) r) in H.
  apply Forall_app in H. destruct H as [H1 H2]. cbn [forallb].
  rewrite (proj1 (supported_of_refs ct) _ H1), (IH H2). reflexivity.
Qed.

Theorem surface_table_supported : forall rf E root ct,
  (forall sc, In sc (e_cls E) -> class_ok rf E sc = true) ->
  surface_table true rf E root = Ok ct ->
  supported_ct ct = true /\ List.length ct = List.length (e_cls E).
Proof.
  intros rf E root ct Hall H.
  assert (Hlen : List.length ct = List.length (e_cls E)).
  { unfold surface_table in H. destruct (walk true _ rf E root root []); cbn [bind] in H; [|discriminate].
    inversion H. apply table_from_length. }
  split; [|exact Hlen].
  unfold supported_ct. apply forallb_forall. intros d Hd.
  destruct (In_nth_error _ _ Hd) as [c Hc].
  assert (Hlt : c < List.length (e_cls E)) by (rewrite <- Hlen; apply nth_error_Some; congruence).
  destruct (nth_error (e_cls E) c) as [sc|] eqn:Hsc; [|apply nth_error_None in Hsc; lia].
  destruct (surface_table_own rf E root ct H c sc Hsc) as [He | [d' [Hd' Hr]]].
  - rewrite He in Hc. inversion Hc; subst. reflexivity.
  - rewrite Hd' in Hc. inversion Hc; subst. apply class_refs_supported. rewrite Hlen.
    eapply class_refs_bound; [|exact Hr]. apply Hall. eapply nth_error_In; eauto.
Qed.

(* loader generation = resolution of the surface program + code generation: it never fails when
   every class of the program is inside okb *)
Theorem surface_gen_total : forall rf E root,
  (forall sc, In sc (e_cls E) -> class_ok rf E sc = true) -> root < List.length (e_cls E) ->
  exists ct f g, surface_table true rf E root = Ok ct /\
                 gen_main ct (Datatypes.S (List.length ct)) root = Ok (f, g).
Proof.
  intros rf E root Hall Hr.
  destruct (surface_table_total rf E root Hall Hr) as [ct Hct].
  destruct (surface_table_supported rf E root ct Hall Hct) as [Hs Hl].
  destruct (gen_main_total ct Hs root) as [f [g Hg]]; [lia|].
  exists ct, f, g. split; assumption.
Qed.
