(* ObjPathProofs.v — a rendered path tokenizes to exactly the components it was
   rendered from (any number of components, any length). *)
From DW Require Import PyStr T_ObjPath ObjPath CharFacts.

Definition mk r c sn il pl ib es q pn : st :=
  {| res := r; cur := c; start_new := sn; in_literal := il; parsed_lit := pl;
     in_braces := ib; esc := es; quote := q; poss_num := pn |}.

(* the shapes the tokenizer state takes while reading a rendered path *)
Definition Fresh r      := mk r [] true false false false false None false.  (* at start / after '.' *)
Definition Open r       := mk r [] true false false true false None false.   (* after '[' *)
Definition Pend r c pn pl := mk r c false false pl false false None pn.      (* a finished, unflushed token *)
Definition Lit r c      := mk r c false true false true false (Some c_dq) false.
Definition LitEsc r c   := mk r c false true false true true (Some c_dq) false.
Definition Closed r c   := mk r c false false true true false None false.
Definition Num r c      := mk r c false false false true false None true.
Definition Bare r c     := mk r c false false false true false None false.   (* unquoted word inside [] *)

Lemma init_Fresh : init = Fresh []. Proof. reflexivity. Qed.

Ltac stp := unfold step; cbn [res cur start_new in_literal parsed_lit in_braces esc quote poss_num
                               mk Fresh Open Pend Lit LitEsc Closed Num Bare quote_is].

Lemma start_sep_cases c : is_start_sep c = ascii_eqb c c_dot || ascii_eqb c c_lbr.
Proof. by_ascii c. Qed.

Definition numstart (c : ascii) : bool := ascii_eqb c c_plus || ascii_eqb c c_dash || is_digit c.

Lemma numstart_facts c : numstart c = true ->
  is_start_sep c = false /\ ascii_eqb c c_dq = false /\ ascii_eqb c c_sq = false /\ ascii_eqb c c_bsl = false.
Proof. by_ascii c. Qed.

Lemma snoc_nonempty s c : snoc s c <> [].
Proof. unfold snoc. destruct s; discriminate. Qed.

(* ---- boundaries ---------------------------------------------------------- *)
Inductive boundary : st -> Prop :=
| B_fresh r : boundary (Fresh r)
| B_pend r c pn pl : c <> [] -> (pn = true -> pl = false) -> boundary (Pend r c pn pl).

Lemma step_boundary_lbr t : boundary t -> step t c_lbr = Open (finish t).
Proof.
  intros [r | r c pn pl Hc Hp]; stp; replace (is_start_sep c_lbr) with true by reflexivity.
  - reflexivity.
  - replace (ascii_eqb c_lbr c_dot) with false by reflexivity. cbn [andb negb].
    unfold finish. cbn [cur res poss_num parsed_lit].
    destruct c as [|x c]; [contradiction|].
    destruct pn; [rewrite (Hp eq_refl)|]; reflexivity.
Qed.

Lemma step_boundary_dot t : boundary t -> step t c_dot = Fresh (finish t).
Proof.
  intros [r | r c pn pl Hc Hp]; stp; replace (is_start_sep c_dot) with true by reflexivity.
  - reflexivity.
  - replace (ascii_eqb c_dot c_dot) with true by reflexivity. cbn [andb negb].
    unfold finish. cbn [cur res poss_num parsed_lit].
    destruct c as [|x c]; [contradiction|].
    destruct pn; [rewrite (Hp eq_refl)|]; reflexivity.
Qed.

(* ---- quoted strings -------------------------------------------------------- *)
Definition esc_char (c : ascii) : pstr := if ascii_eqb c c_dq then [c_bsl; c_dq] else [c].
Definition esc_str (s : pstr) : pstr := flat_map esc_char s.

Lemma step_lit_plain r cu c :
  ascii_eqb c c_bsl = false -> ascii_eqb c c_dq = false -> step (Lit r cu) c = Lit r (snoc cu c).
Proof.
  intros Hb Hq. stp. rewrite Hb. cbn [andb].
  assert (Hq' : ascii_eqb c_dq c = false).
  { apply ascii_eqb_neq. intro E. subst c. discriminate. }
  rewrite Hq', Hq. cbn [orb andb].
  destruct (is_start_sep c); [reflexivity|].
  rewrite !andb_false_r. destruct (ascii_eqb c c_rbr); reflexivity.
Qed.

Lemma step_lit_bsl r cu : step (Lit r cu) c_bsl = LitEsc r cu.
Proof. reflexivity. Qed.

Lemma step_litesc_dq r cu : step (LitEsc r cu) c_dq = Lit r (snoc cu c_dq).
Proof. reflexivity. Qed.

Lemma fold_lit r s : forall cu,
  Forall (fun c => ascii_eqb c c_bsl = false) s ->
  fold_left step (esc_str s) (Lit r cu) = Lit r (cu ++ s).
Proof.
  induction s as [|c s IH]; intros cu Hs; cbn [esc_str flat_map fold_left].
  - now rewrite app_nil_r.
  - inversion Hs as [|? ? Hc Hs']; subst. rewrite fold_left_app.
    destruct (ascii_eqb c c_dq) eqn:E.
    + apply ascii_eqb_eq in E. subst c. change (esc_char c_dq) with [c_bsl; c_dq]. cbn [fold_left].
      rewrite step_lit_bsl, step_litesc_dq. fold (esc_str s). rewrite IH by assumption.
      unfold snoc. now rewrite <- app_assoc.
    + replace (esc_char c) with [c] by (unfold esc_char; now rewrite E). cbn [fold_left]. rewrite step_lit_plain by assumption. fold (esc_str s).
      rewrite IH by assumption. unfold snoc. now rewrite <- app_assoc.
Qed.

Lemma step_open_dq r : step (Open r) c_dq = Lit r [].
Proof. reflexivity. Qed.
Lemma step_lit_close r cu : step (Lit r cu) c_dq = Closed r cu.
Proof. reflexivity. Qed.
Lemma step_closed_rbr r cu : step (Closed r cu) c_rbr = Pend r cu false true.
Proof. reflexivity. Qed.

(* ---- numbers and bare words inside brackets -------------------------------- *)
Definition inner_ok (c : ascii) : bool := negb (ascii_eqb c c_lbr) && negb (ascii_eqb c c_rbr).

Lemma step_open_num r c : numstart c = true -> step (Open r) c = Num r [c].
Proof.
  intros H. destruct (numstart_facts c H) as (H1 & H2 & H3 & H4). stp.
  rewrite H1, H4, H2, H3. cbn [andb orb]. unfold numstart in H. rewrite H. reflexivity.
Qed.

Lemma step_inner (pn : bool) r cu c : inner_ok c = true ->
  step (mk r cu false false false true false None pn) c = mk r (snoc cu c) false false false true false None pn.
Proof.
  unfold inner_ok. intro H. apply andb_true_iff in H as [Hl Hr].
  apply negb_true_iff in Hl. apply negb_true_iff in Hr.
  stp. rewrite start_sep_cases, Hl, orb_false_r.
  destruct (ascii_eqb c c_dot) eqn:Ed.
  - reflexivity.
  - rewrite !andb_false_r, Hr. reflexivity.
Qed.

Lemma fold_inner (pn : bool) r s : forall cu, forallb inner_ok s = true ->
  fold_left step s (mk r cu false false false true false None pn)
  = mk r (cu ++ s) false false false true false None pn.
Proof.
  induction s as [|c s IH]; intros cu H; cbn [fold_left].
  - now rewrite app_nil_r.
  - cbn [forallb] in H. apply andb_true_iff in H as [Hc Hs].
    rewrite step_inner by assumption. rewrite IH by assumption.
    unfold snoc. now rewrite <- app_assoc.
Qed.

Lemma step_inner_rbr (pn : bool) r cu :
  step (mk r cu false false false true false None pn) c_rbr = Pend r cu pn false.
Proof. reflexivity. Qed.

Definition wordstart (c : ascii) : bool :=
  negb (is_start_sep c) && negb (numstart c) && negb (ascii_eqb c c_dq) && negb (ascii_eqb c c_sq)
  && negb (ascii_eqb c c_rbr).

Lemma step_open_word r c : wordstart c = true -> step (Open r) c = Bare r [c].
Proof.
  unfold wordstart. intro H.
  repeat (apply andb_true_iff in H as [H ?]).
  repeat match goal with X : negb _ = true |- _ => apply negb_true_iff in X end.
  stp. unfold numstart in *.
  repeat match goal with X : _ = false |- _ => rewrite X end.
  rewrite ?andb_false_r. cbn [orb andb]. reflexivity.
Qed.

Lemma fold_true r : fold_left step (S "True]") (Open r) = Pend r (S "True") false false.
Proof. vm_compute. reflexivity. Qed.
Lemma fold_false r : fold_left step (S "False]") (Open r) = Pend r (S "False") false false.
Proof. vm_compute. reflexivity. Qed.

(* ---- dotted words ------------------------------------------------------------ *)
Definition dword_ok (c : ascii) : bool :=
  negb (is_start_sep c) && negb (ascii_eqb c c_rbr).

Lemma step_fresh_word r c : wordstart c = true -> step (Fresh r) c = Pend r [c] false false.
Proof.
  unfold wordstart. intro H.
  repeat (apply andb_true_iff in H as [H ?]).
  repeat match goal with X : negb _ = true |- _ => apply negb_true_iff in X end.
  stp. unfold numstart in *.
  repeat match goal with X : _ = false |- _ => rewrite X end.
  rewrite ?andb_false_r. cbn [orb andb]. reflexivity.
Qed.

Lemma step_pend_word r cu c : dword_ok c = true ->
  step (Pend r cu false false) c = Pend r (snoc cu c) false false.
Proof.
  unfold dword_ok. intro H. apply andb_true_iff in H as [Hs Hr].
  apply negb_true_iff in Hs. apply negb_true_iff in Hr.
  stp. rewrite Hs, Hr, !andb_false_r. reflexivity.
Qed.

Lemma fold_pend_word r s : forall cu, forallb dword_ok s = true ->
  fold_left step s (Pend r cu false false) = Pend r (cu ++ s) false false.
Proof.
  induction s as [|c s IH]; intros cu H; cbn [fold_left].
  - now rewrite app_nil_r.
  - cbn [forallb] in H. apply andb_true_iff in H as [Hc Hs].
    rewrite step_pend_word by assumption. rewrite IH by assumption.
    unfold snoc. now rewrite <- app_assoc.
Qed.

(* ---- components and their rendering ------------------------------------------ *)
Inductive pcomp :=
| KStr (s : pstr)      (* ["text"]  : any non-empty text without a backslash *)
| KNum (s : pstr)      (* [-12], [1.5], [+3e5] : a numeric token *)
| KBool (b : bool)     (* [True] / [False] *)
| KWord (w : pstr).    (* .word : dotted attribute-style key *)

Definition render_comp (k : pcomp) : pstr :=
  match k with
  | KStr s => [c_lbr; c_dq] ++ esc_str s ++ [c_dq; c_rbr]
  | KNum s => c_lbr :: s ++ [c_rbr]
  | KBool true => S "[True]"
  | KBool false => S "[False]"
  | KWord w => c_dot :: w
  end.

Definition render_path (p : list pcomp) : pstr := flat_map render_comp p.

Definition tok_of (k : pcomp) : tok :=
  match k with
  | KStr s => TStr s
  | KNum s => TNum s
  | KBool b => TBool b
  | KWord w => classify w false false       (* true/false spellings denote booleans *)
  end.

Definition comp_ok (k : pcomp) : Prop :=
  match k with
  | KStr s => s <> [] /\ Forall (fun c => ascii_eqb c c_bsl = false) s
  | KNum s => match s with c :: r => numstart c = true /\ forallb inner_ok r = true | [] => False end
  | KBool _ => True
  | KWord w => match w with c :: r => wordstart c = true /\ forallb dword_ok r = true | [] => False end
  end.

Local Strategy 1000 [step classify finish].

Lemma comp_step k t : comp_ok k -> boundary t ->
  exists t', fold_left step (render_comp k) t = t' /\ boundary t' /\ finish t' = finish t ++ [tok_of k].
Proof.
  intros Hk Ht. destruct k as [s | s | b | w]; cbn [render_comp].
  - (* quoted string *)
    destruct Hk as [Hne Hs].
    exists (Pend (finish t) s false true). split; [|split].
    + cbn [app fold_left]. rewrite step_boundary_lbr by assumption. rewrite step_open_dq.
      rewrite fold_left_app, fold_lit by assumption. cbn [app fold_left].
      now rewrite step_lit_close, step_closed_rbr.
    + constructor; [assumption | discriminate].
    + unfold finish at 1. cbn [Pend mk cur res poss_num parsed_lit]. destruct s; [contradiction|]. reflexivity.
  - (* number *)
    destruct s as [|c r]; [contradiction|]. destruct Hk as [Hc Hr].
    exists (Pend (finish t) (c :: r) true false). split; [|split].
    + cbn [fold_left]. rewrite step_boundary_lbr by assumption.
      cbn [app fold_left]. rewrite step_open_num by assumption.
      rewrite fold_left_app. unfold Num. rewrite fold_inner by assumption. cbn [fold_left app].
      now rewrite step_inner_rbr.
    + constructor; [discriminate | reflexivity].
    + reflexivity.
  - (* boolean *)
    destruct b.
    + exists (Pend (finish t) (S "True") false false). split; [|split].
      * change (S "[True]") with (c_lbr :: S "True]"). cbn [fold_left].
        rewrite step_boundary_lbr by assumption. apply fold_true.
      * constructor; [discriminate | discriminate].
      * reflexivity.
    + exists (Pend (finish t) (S "False") false false). split; [|split].
      * change (S "[False]") with (c_lbr :: S "False]"). cbn [fold_left].
        rewrite step_boundary_lbr by assumption. apply fold_false.
      * constructor; [discriminate | discriminate].
      * reflexivity.
  - (* dotted word *)
    destruct w as [|c r]; [contradiction|]. destruct Hk as [Hc Hr].
    exists (Pend (finish t) (c :: r) false false). split; [|split].
    + cbn [fold_left]. rewrite step_boundary_dot by assumption.
      rewrite step_fresh_word by assumption. now rewrite fold_pend_word by assumption.
    + constructor; [discriminate | discriminate].
    + unfold finish, tok_of. cbn [Pend mk cur res poss_num parsed_lit]. reflexivity.
Qed.

Lemma path_fold p : forall t, Forall comp_ok p -> boundary t ->
  finish (fold_left step (render_path p) t) = finish t ++ map tok_of p.
Proof.
  induction p as [|k p IH]; intros t Hp Ht; cbn [render_path flat_map map fold_left].
  - now rewrite app_nil_r.
  - inversion Hp as [|? ? Hk Hp']; subst.
    rewrite fold_left_app. destruct (comp_step k t Hk Ht) as (t' & E & Bt' & F).
    rewrite E. fold (render_path p). rewrite IH by assumption. rewrite F.
    now rewrite <- app_assoc.
Qed.

Theorem path_roundtrip p : Forall comp_ok p -> split_object_path (render_path p) = map tok_of p.
Proof.
  intro Hp. unfold split_object_path. rewrite init_Fresh.
  rewrite path_fold by (auto; constructor). reflexivity.
Qed.

(* a leading dot is optional *)
Lemma leading_dot_optional s : split_object_path (c_dot :: s) = split_object_path s.
Proof. reflexivity. Qed.

(* int()/float() are builtins: with any parser that inverts the printer, numeric
   components are recovered as numbers *)
Section Oracles.
  Variable int_parse : pstr -> option Z.
  Variable int_repr : Z -> pstr.
  Hypothesis int_roundtrip : forall n, int_parse (int_repr n) = Some n.

  Definition interp_num (s : pstr) : comp :=
    match int_parse s with Some n => CInt n | None => CFloat s end.

  Lemma interp_int n : interp_num (int_repr n) = CInt n.
  Proof. unfold interp_num. now rewrite int_roundtrip. Qed.
End Oracles.

(* non-vacuity *)
Example path_example :
  split_object_path (S "a.b[""c.d""][-1][True].e")
  = [TStr (S "a"); TStr (S "b"); TStr (S "c.d"); TNum (S "-1"); TBool true; TStr (S "e")].
Proof. vm_compute. reflexivity. Qed.

Example comps_ok_example :
  Forall comp_ok [KWord (S "a"); KStr (S "it's ""x"".y]"); KNum (S "-12"); KNum (S "1.5"); KBool false].
Proof.
  repeat constructor; try discriminate; vm_compute; auto; repeat constructor.
Qed.
