(* StrConvProofs.v — every documented letter-casing of a canonical snake_case
   name converts back to that name under to_snake_case (default-engine load
   key resolution), for names of any number of words of any length. *)
From DW Require Import PyStr StrConv CharFacts.
From Coq Require Import Lia.

(* ---- canonical snake_case names: words [a-z]{2,}[0-9]* joined by "_" ---- *)
Record word := { wl0 : ascii; wl1 : ascii; wls : list ascii; wds : list ascii }.

Definition wtail (w : word) : pstr := wl1 w :: wls w ++ wds w.
Definition wbody (w : word) : pstr := wl0 w :: wtail w.

Definition wf_word (w : word) : Prop :=
  is_lower (wl0 w) = true /\ is_lower (wl1 w) = true /\
  Forall (fun c => is_lower c = true) (wls w) /\
  Forall (fun c => is_digit c = true) (wds w).

Definition sep_tail (sep : ascii) (ws : list word) : pstr :=
  flat_map (fun w => sep :: wbody w) ws.
Definition snake_name (w : word) (ws : list word) : pstr := wbody w ++ sep_tail c_us ws.

Definition canonical_snake (n : pstr) : Prop :=
  exists w ws, wf_word w /\ Forall wf_word ws /\ n = snake_name w ws.

Definition cap (w : word) : pstr := to_upper (wl0 w) :: wtail w.
Definition camel_tail (ws : list word) : pstr := flat_map cap ws.
Definition capsep_tail (sep : ascii) (ws : list word) : pstr :=
  flat_map (fun w => sep :: cap w) ws.

Definition lod (c : ascii) : Prop := is_lower_or_digit c = true.

Lemma lod_lower c : is_lower c = true -> lod c.
Proof. unfold lod, is_lower_or_digit. now intros ->. Qed.
Lemma lod_digit c : is_digit c = true -> lod c.
Proof. unfold lod, is_lower_or_digit. intros ->. apply orb_true_r. Qed.

Lemma lod_cases c : lod c -> is_lower c = true \/ is_digit c = true.
Proof. unfold lod, is_lower_or_digit. intro H. now apply orb_true_iff in H. Qed.

Lemma lod_not_upper c : lod c -> is_upper c = false.
Proof. intros [H|H]%lod_cases; [now apply lower_not_upper | now apply digit_not_upper]. Qed.
Lemma lod_to_lower c : lod c -> to_lower c = c.
Proof. intros [H|H]%lod_cases; [now apply to_lower_lower | now apply to_lower_digit]. Qed.
Lemma lod_not_us c : lod c -> ascii_eqb c c_us = false.
Proof. intros [H|H]%lod_cases; [now apply lower_not_us | now apply digit_not_us]. Qed.
Lemma lod_not_dash c : lod c -> ascii_eqb c c_dash = false.
Proof. intros [H|H]%lod_cases; [now apply lower_not_dash | now apply digit_not_dash]. Qed.
Lemma lod_not_sp c : lod c -> ascii_eqb c c_sp = false.
Proof. intros [H|H]%lod_cases; [now apply lower_not_sp | now apply digit_not_sp]. Qed.

Lemma wtail_lod w : wf_word w -> Forall lod (wtail w).
Proof.
  intros (_ & H1 & Hl & Hd). unfold wtail. constructor; [now apply lod_lower|].
  apply Forall_app; split.
  - eapply Forall_impl; [|exact Hl]. intros a Ha. now apply lod_lower.
  - eapply Forall_impl; [|exact Hd]. intros a Ha. now apply lod_digit.
Qed.

Lemma wbody_lod w : wf_word w -> Forall lod (wbody w).
Proof. intro H. constructor; [apply lod_lower, H | now apply wtail_lod]. Qed.

(* ---- generic list lemmas ------------------------------------------------ *)
Lemma lower_app a b : lower (a ++ b) = lower a ++ lower b.
Proof. apply map_app. Qed.
Lemma upper_app a b : upper (a ++ b) = upper a ++ upper b.
Proof. apply map_app. Qed.
Lemma replace_char_app x y a b : replace_char x y (a ++ b) = replace_char x y a ++ replace_char x y b.
Proof. apply map_app. Qed.

Lemma lower_lod x : Forall lod x -> lower x = x.
Proof. induction 1 as [|c x Hc _ IH]; simpl; [reflexivity|]. now rewrite lod_to_lower, IH. Qed.

Lemma replace_char_id a b x :
  Forall (fun c => ascii_eqb c a = false) x -> replace_char a b x = x.
Proof. induction 1 as [|c x Hc _ IH]; simpl; [reflexivity|]. now rewrite Hc, IH. Qed.

(* ---- the shape of a name ------------------------------------------------ *)
(* A "segmented" string: blocks of non-separator characters, each preceded by
   exactly one separator.  collapse is the identity on it. *)
Lemma collapse_cons_nonsep sep c s :
  ascii_eqb c sep = false -> collapse sep (c :: s) = c :: collapse sep s.
Proof. intro H. destruct s as [|y s]; simpl; [reflexivity|]. now rewrite H. Qed.

Lemma collapse_block sep x s :
  Forall (fun c => ascii_eqb c sep = false) x ->
  collapse sep (x ++ s) = x ++ collapse sep s.
Proof.
  induction 1 as [|c x Hc _ IH]; [reflexivity|].
  cbn [app]. rewrite collapse_cons_nonsep by assumption. now rewrite IH.
Qed.

Lemma collapse_sep_block sep c x s :
  ascii_eqb c sep = false ->
  collapse sep (sep :: c :: x ++ s) = sep :: collapse sep (c :: x ++ s).
Proof. intro H. cbn [collapse]. rewrite H. now rewrite andb_false_r. Qed.

Section Segments.
  Variable sep : ascii.
  Variable blk : word -> pstr.             (* a block: nonempty, no separator *)
  Hypothesis blk_ne : forall w, wf_word w -> blk w <> [].
  Hypothesis blk_nosep : forall w, wf_word w ->
      Forall (fun c => ascii_eqb c sep = false) (blk w).

  Lemma collapse_segments ws :
    Forall wf_word ws ->
    collapse sep (flat_map (fun w => sep :: blk w) ws) = flat_map (fun w => sep :: blk w) ws.
  Proof.
    induction 1 as [|w ws Hw _ IH]; [reflexivity|].
    cbn [flat_map]. specialize (blk_ne w Hw). specialize (blk_nosep w Hw).
    destruct (blk w) as [|c x] eqn:E; [contradiction|].
    inversion blk_nosep as [|? ? Hc Hx]; subst.
    cbn [app]. rewrite collapse_sep_block by assumption.
    change (c :: x ++ ?t) with ((c :: x) ++ t).
    rewrite collapse_block by (constructor; assumption). now rewrite IH.
  Qed.

  Lemma collapse_name w ws :
    wf_word w -> Forall wf_word ws ->
    collapse sep (blk w ++ flat_map (fun w => sep :: blk w) ws)
    = blk w ++ flat_map (fun w => sep :: blk w) ws.
  Proof.
    intros Hw Hws. rewrite collapse_block by auto. now rewrite collapse_segments.
  Qed.
End Segments.

Lemma nosep_of_lod sep x :
  (forall c, lod c -> ascii_eqb c sep = false) ->
  Forall lod x -> Forall (fun c => ascii_eqb c sep = false) x.
Proof. intros H Hx. eapply Forall_impl; eauto. Qed.

Lemma wbody_ne w : wbody w <> [].
Proof. discriminate. Qed.
Lemma cap_ne w : cap w <> [].
Proof. discriminate. Qed.

Lemma cap_no_us w : wf_word w -> Forall (fun c => ascii_eqb c c_us = false) (cap w).
Proof.
  intro H. constructor.
  - apply upper_not_us, to_upper_is_upper, H.
  - apply nosep_of_lod; [exact lod_not_us | now apply wtail_lod].
Qed.

(* ---- py_islower --------------------------------------------------------- *)
Lemma existsb_upper_lod x : Forall lod x -> existsb is_upper x = false.
Proof. induction 1 as [|c x Hc _ IH]; simpl; [reflexivity|]. now rewrite lod_not_upper, IH. Qed.

Lemma existsb_app {A} (f : A -> bool) a b : existsb f (a ++ b) = existsb f a || existsb f b.
Proof. apply existsb_app. Qed.

Lemma sep_tail_no_upper sep ws :
  is_upper sep = false -> Forall wf_word ws -> existsb is_upper (sep_tail sep ws) = false.
Proof.
  intros Hs. induction 1 as [|w ws Hw _ IH]; [reflexivity|].
  unfold sep_tail in *. cbn [flat_map]. cbn [app existsb]. rewrite Hs. cbn [orb].
  rewrite existsb_app, IH, existsb_upper_lod by (now apply wbody_lod). reflexivity.
Qed.

Lemma islower_sep_name sep w ws :
  is_upper sep = false -> wf_word w -> Forall wf_word ws ->
  py_islower (wbody w ++ sep_tail sep ws) = true.
Proof.
  intros Hs Hw Hws. unfold py_islower.
  rewrite !existsb_app, sep_tail_no_upper, existsb_upper_lod by (auto using wbody_lod).
  cbn [wbody existsb]. destruct Hw as (H0 & _). now rewrite H0.
Qed.

Lemma islower_false_of_upper s : existsb is_upper s = true -> py_islower s = false.
Proof. unfold py_islower. intros ->. apply andb_false_r. Qed.

(* ---- replace_char on names ---------------------------------------------- *)
Lemma replace_sep_tail a b ws :
  (forall c, lod c -> ascii_eqb c a = false) ->
  Forall wf_word ws ->
  replace_char a b (sep_tail a ws) = sep_tail b ws.
Proof.
  intros Ha. induction 1 as [|w ws Hw _ IH]; [reflexivity|].
  unfold sep_tail, replace_char in *. cbn [flat_map app map]. rewrite ascii_eqb_refl.
  rewrite map_app. f_equal. f_equal; [|exact IH].
  apply (replace_char_id a b). apply nosep_of_lod; auto using wbody_lod.
Qed.

Lemma sep_tail_no_char a sep ws :
  ascii_eqb sep a = false -> (forall c, lod c -> ascii_eqb c a = false) ->
  Forall wf_word ws -> Forall (fun c => ascii_eqb c a = false) (sep_tail sep ws).
Proof.
  intros Hs Ha. induction 1 as [|w ws Hw _ IH]; [constructor|].
  unfold sep_tail in *. cbn [flat_map]. constructor; [assumption|].
  apply Forall_app; split; [|assumption]. apply nosep_of_lod; auto using wbody_lod.
Qed.

Lemma capsep_tail_no_char a sep ws :
  ascii_eqb sep a = false -> (forall c, lod c -> ascii_eqb c a = false) ->
  (forall c, is_upper c = true -> ascii_eqb c a = false) ->
  Forall wf_word ws -> Forall (fun c => ascii_eqb c a = false) (capsep_tail sep ws).
Proof.
  intros Hs Ha Hu. induction 1 as [|w ws Hw _ IH]; [constructor|].
  unfold capsep_tail in *. cbn [flat_map]. constructor; [assumption|].
  apply Forall_app; split; [|assumption]. constructor.
  - apply Hu, to_upper_is_upper, Hw.
  - apply nosep_of_lod; auto using wtail_lod.
Qed.

Lemma camel_tail_no_char a ws :
  (forall c, lod c -> ascii_eqb c a = false) ->
  (forall c, is_upper c = true -> ascii_eqb c a = false) ->
  Forall wf_word ws -> Forall (fun c => ascii_eqb c a = false) (camel_tail ws).
Proof.
  intros Ha Hu. induction 1 as [|w ws Hw _ IH]; [constructor|].
  unfold camel_tail in *. cbn [flat_map].
  apply Forall_app; split; [|assumption]. constructor.
  - apply Hu, to_upper_is_upper, Hw.
  - apply nosep_of_lod; auto using wtail_lod.
Qed.

(* ---- the regex scan ----------------------------------------------------- *)
Lemma resub_lod sep x : forall p y, Forall lod x -> x <> [] ->
  resub sep p (x ++ y) = x ++ resub sep (Some (last x c_us)) y.
Proof.
  induction x as [|c x IH]; intros p y Hx Hne; [contradiction|].
  inversion Hx as [|? ? Hc Hx']; subst.
  cbn [app resub]. rewrite (lod_not_upper c Hc). cbn [andb].
  destruct x as [|d x]; [reflexivity|].
  rewrite IH by (auto; discriminate). reflexivity.
Qed.

Lemma last_lod x d : Forall lod x -> x <> [] -> lod (last x d).
Proof.
  induction 1 as [|c x Hc Hx IH]; intro Hne; [contradiction|].
  destruct x as [|e x]; [exact Hc|]. apply IH. discriminate.
Qed.

Lemma wtail_ne w : wtail w <> [].
Proof. discriminate. Qed.

(* camelCase / PascalCase tail: every capitalised word is preceded by a
   lower-case letter or digit, so the second regex alternative fires. *)
Lemma resub_camel_tail ws : forall p, Forall wf_word ws -> lod p ->
  lower (resub c_us (Some p) (camel_tail ws)) = sep_tail c_us ws.
Proof.
  induction ws as [|w ws IH]; intros p Hws Hp; [reflexivity|].
  inversion Hws as [|? ? Hw Hws']; subst.
  unfold camel_tail, sep_tail in *. cbn [flat_map]. unfold cap at 1. cbn [app resub].
  rewrite (to_upper_is_upper _ (proj1 Hw)). unfold lod in Hp. rewrite Hp, orb_true_r. cbn [andb].
  rewrite resub_lod by (auto using wtail_lod, wtail_ne).
  cbn [lower map]. fold (lower (wtail w ++ resub c_us (Some (last (wtail w) c_us)) (flat_map cap ws))).
  rewrite lower_app, lower_lod by (now apply wtail_lod).
  rewrite (to_lower_to_upper _ (proj1 Hw)).
  unfold lower in IH. unfold lower. rewrite IH by (auto using last_lod, wtail_lod, wtail_ne).
  unfold wbody. now rewrite <- app_comm_cons.
Qed.

(* Upper_Snake tail: every capitalised word is preceded by the separator, so
   neither alternative fires. *)
Lemma resub_capsep_tail ws : forall p, Forall wf_word ws ->
  lower (resub c_us (Some p) (capsep_tail c_us ws)) = sep_tail c_us ws.
Proof.
  induction ws as [|w ws IH]; intros p Hws; [reflexivity|].
  inversion Hws as [|? ? Hw Hws']; subst.
  unfold capsep_tail, sep_tail in *. cbn [flat_map]. unfold cap at 1. cbn [app resub].
  replace (is_upper c_us) with false by reflexivity. cbn [andb].
  rewrite ascii_eqb_refl. cbn [negb andb orb].
  replace (is_lower_or_digit c_us) with false by reflexivity. rewrite andb_false_r.
  rewrite resub_lod by (auto using wtail_lod, wtail_ne).
  cbn [lower map]. replace (to_lower c_us) with c_us by reflexivity.
  fold (lower (wtail w ++ resub c_us (Some (last (wtail w) c_us)) (flat_map (fun w0 => c_us :: cap w0) ws))).
  rewrite lower_app, lower_lod by (now apply wtail_lod).
  rewrite (to_lower_to_upper _ (proj1 Hw)).
  unfold lower in IH. unfold lower. rewrite IH by auto.
  unfold wbody. now rewrite <- app_comm_cons.
Qed.

(* SCREAMING_SNAKE: nothing is followed by a lower-case letter and no letter
   follows a digit, so neither alternative fires. *)
Definition up_or_digit_or_us (c : ascii) : bool := is_upper c || is_digit c || ascii_eqb c c_us.

Fixpoint no_digit_then_upper (s : pstr) : bool :=
  match s with
  | [] => true
  | c :: r => match r with
              | d :: _ => negb (is_digit c && is_upper d) && no_digit_then_upper r
              | [] => true
              end
  end.

Lemma resub_screaming s : forall p,
  forallb up_or_digit_or_us s = true ->
  no_digit_then_upper s = true ->
  match p with Some q => negb (is_digit q && match s with c :: _ => is_upper c | [] => false end) = true
                         /\ is_lower q = false
          | None => True end ->
  resub c_us p s = s.
Proof.
  induction s as [|c s IH]; intros p Hall Hnd Hp; [reflexivity|].
  cbn [forallb] in Hall. apply andb_true_iff in Hall as [Hc Hall].
  cbn [resub].
  assert (Hnl : next_is_lower s = false).
  { destruct s as [|d s]; [reflexivity|]. cbn [next_is_lower].
    cbn [forallb] in Hall. apply andb_true_iff in Hall as [Hd _].
    unfold up_or_digit_or_us in Hd.
    apply orb_true_iff in Hd as [Hd|Hd]; [apply orb_true_iff in Hd as [Hd|Hd]|].
    - now apply upper_not_lower. - now apply digit_not_lower.
    - apply ascii_eqb_eq in Hd. now subst. }
  assert (Hhit : (is_upper c && match p with None => false
      | Some p0 => negb (ascii_eqb p0 c_us) && next_is_lower s || is_lower_or_digit p0 end) = false).
  { destruct (is_upper c) eqn:Hu; [|reflexivity]. cbn [andb].
    destruct p as [q|]; [|reflexivity]. rewrite Hnl, andb_false_r. cbn [orb].
    destruct Hp as [Hp Hq]. unfold is_lower_or_digit. rewrite Hq. cbn [orb].
    rewrite andb_true_r in Hp. now apply negb_true_iff in Hp. }
  rewrite Hhit. f_equal. apply IH; auto.
  - destruct s as [|d s]; [reflexivity|]. cbn [no_digit_then_upper] in Hnd.
    now apply andb_true_iff in Hnd as [_ Hnd].
  - split.
    + destruct s as [|d s]; [now rewrite andb_false_r|]. cbn [no_digit_then_upper] in Hnd.
      now apply andb_true_iff in Hnd as [Hnd _].
    + unfold up_or_digit_or_us in Hc.
      apply orb_true_iff in Hc as [Hc|Hc]; [apply orb_true_iff in Hc as [Hc|Hc]|].
      * now apply upper_not_lower. * now apply digit_not_lower.
      * apply ascii_eqb_eq in Hc. now subst.
Qed.
