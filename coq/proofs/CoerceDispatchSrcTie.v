(* CoerceDispatchSrcTie.v — tie T for an algorithm: the exact-type dispatch of type_conv.as_bool /
   as_int / as_int_v1 as TRANSLATED from the current source text (gen/T_CoerceDispatchAlg.v,
   regenerated on every run) equals the hand-written model CoerceModel.v for every JSON value. *)
From DW Require Import PyStr T_Truthy CoerceModel T_CoerceDispatchAlg.
From Coq Require Import ZArith List.
Import ListNotations.

Lemma as_bool_src_eq : forall j, as_bool_src j = as_bool j.
Proof. intros [| b | z | f | s | l | d]; reflexivity. Qed.

Lemma as_int_src_eq : forall j, as_int_src j = as_int j.
Proof. intros [| b | z | f | [|c s] | l | d]; reflexivity. Qed.

Lemma as_int_v1_src_eq : forall j, as_int_v1_src j = as_int_v1 j.
Proof. intros [| b | z | f | s | l | d]; reflexivity. Qed.
