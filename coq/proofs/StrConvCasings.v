(* StrConvCasings.v — closed forms of the six documented casings of a canonical
   snake_case name, and the proof that to_snake_case maps each back to the name. *)
From DW Require Import PyStr StrConv CharFacts StrConvProofs.
From Coq Require Import Lia.

Definition pre (k : pstr) : pstr := replace_char c_sp c_us (replace_char c_dash c_us k).

Lemma to_snake_lowpath k n :
  py_islower (pre k) = true -> collapse c_us (pre k) = n -> to_snake k = n.
Proof. unfold to_snake, to_sep_case, pre. now intros -> ->. Qed.

Lemma to_snake_subpath k n :
  py_islower (pre k) = false ->
  collapse c_us (lower (resub c_us None (pre k))) = n -> to_snake k = n.
Proof. unfold to_snake, to_sep_case, pre. now intros -> ->. Qed.

Lemma pre_id k :
  Forall (fun c => ascii_eqb c c_dash = false) k ->
  Forall (fun c => ascii_eqb c c_sp = false) k -> pre k = k.
Proof. intros Hd Hs. unfold pre. rewrite (replace_char_id c_dash) by assumption.
       now apply replace_char_id. Qed.

Lemma us_not_dash : ascii_eqb c_us c_dash = false. Proof. reflexivity. Qed.
Lemma us_not_sp : ascii_eqb c_us c_sp = false. Proof. reflexivity. Qed.
Lemma dash_not_sp : ascii_eqb c_dash c_sp = false. Proof. reflexivity. Qed.
Lemma dash_not_us : ascii_eqb c_dash c_us = false. Proof. reflexivity. Qed.

Lemma upper_lod_class x : Forall lod x -> forallb up_or_digit_or_us (upper x) = true.
  Proof.
    induction 1 as [|c x Hc _ IH]; [reflexivity|]. cbn [upper map forallb].
    fold (upper x). rewrite IH, andb_true_r. unfold up_or_digit_or_us.
    destruct (lod_cases c Hc) as [H|H].
    - now rewrite (to_upper_is_upper c H).
    - now rewrite (to_upper_digit c H), H, orb_true_r.
  Qed.

Lemma lower_upper_lod x : Forall lod x -> lower (upper x) = x.
  Proof.
    induction 1 as [|c x Hc _ IH]; [reflexivity|]. cbn [upper lower map].
    fold (upper x). fold (lower (upper x)). rewrite IH. f_equal.
    destruct (lod_cases c Hc) as [H|H].
    - now apply to_lower_to_upper.
    - rewrite (to_upper_digit c H). now apply to_lower_digit.
  Qed.


Lemma lower_sep_tail vs : Forall wf_word vs -> lower (sep_tail c_us vs) = sep_tail c_us vs.
Proof.
  induction 1 as [|v vs Hv _ IH]; [reflexivity|].
  unfold sep_tail in *. cbn [flat_map]. cbn [app lower map]. f_equal.
  fold (lower (wbody v ++ flat_map (fun w0 => c_us :: wbody w0) vs)).
  rewrite lower_app, lower_lod by (now apply wbody_lod). now rewrite IH.
Qed.

Lemma upper_sep_tail_class vs : Forall wf_word vs ->
  forallb up_or_digit_or_us (upper (sep_tail c_us vs)) = true.
Proof.
  induction 1 as [|v vs Hv _ IH]; [reflexivity|].
  unfold sep_tail in *. cbn [flat_map]. cbn [app upper map forallb].
  fold (upper (wbody v ++ flat_map (fun w0 => c_us :: wbody w0) vs)).
  rewrite upper_app, forallb_app, upper_lod_class, IH by (now apply wbody_lod). reflexivity.
Qed.

Lemma lower_upper_sep_tail vs : Forall wf_word vs ->
  lower (upper (sep_tail c_us vs)) = sep_tail c_us vs.
Proof.
  induction 1 as [|v vs Hv _ IH]; [reflexivity|].
  unfold sep_tail in *. cbn [flat_map]. cbn [app upper lower map]. f_equal.
  fold (upper (wbody v ++ flat_map (fun w0 => c_us :: wbody w0) vs)).
  fold (lower (upper (wbody v ++ flat_map (fun w0 => c_us :: wbody w0) vs))).
  rewrite upper_app, lower_app, lower_upper_lod by (now apply wbody_lod). now rewrite IH.
Qed.

Section Name.
  Variables (w : word) (ws : list word).
  Hypothesis Hw : wf_word w.
  Hypothesis Hws : Forall wf_word ws.

  Let n := snake_name w ws.

  Lemma name_no_dash : Forall (fun c => ascii_eqb c c_dash = false) n.
  Proof.
    apply Forall_app; split.
    - apply nosep_of_lod; [exact lod_not_dash | now apply wbody_lod].
    - apply sep_tail_no_char; auto using us_not_dash, lod_not_dash.
  Qed.
  Lemma name_no_sp : Forall (fun c => ascii_eqb c c_sp = false) n.
  Proof.
    apply Forall_app; split.
    - apply nosep_of_lod; [exact lod_not_sp | now apply wbody_lod].
    - apply sep_tail_no_char; auto using us_not_sp, lod_not_sp.
  Qed.

  Lemma collapse_snake_name : collapse c_us n = n.
  Proof.
    apply (collapse_name c_us wbody); auto.
    - intros; apply wbody_ne.
    - intros v Hv. apply nosep_of_lod; [exact lod_not_us | now apply wbody_lod].
  Qed.

  Lemma lower_name : lower n = n.
  Proof.
    unfold n, snake_name. rewrite lower_app, lower_lod by (now apply wbody_lod).
    now rewrite lower_sep_tail.
  Qed.

  (* to_snake_case is the identity on a canonical name *)
  Lemma to_snake_name : to_snake n = n.
  Proof.
    apply to_snake_lowpath; rewrite pre_id by auto using name_no_dash, name_no_sp.
    - apply islower_sep_name; auto.
    - apply collapse_snake_name.
  Qed.

  (* ---- camelCase ---- *)
  Lemma camel_sub_lod x y : Forall lod x -> camel_sub (x ++ y) = x ++ camel_sub y.
  Proof.
    induction 1 as [|c x Hc _ IH]; [reflexivity|].
    cbn [app camel_sub]. now rewrite (lod_not_us c Hc), IH.
  Qed.

  Lemma camel_sub_sep_tail vs : Forall wf_word vs -> camel_sub (sep_tail c_us vs) = camel_tail vs.
  Proof.
    induction 1 as [|v vs Hv _ IH]; [reflexivity|].
    unfold sep_tail, camel_tail in *. cbn [flat_map]. unfold wbody at 1. cbn [app camel_sub].
    rewrite ascii_eqb_refl. rewrite (lower_not_nl _ (proj1 Hv)).
    rewrite camel_sub_lod by (now apply wtail_lod). now rewrite IH.
  Qed.

  Lemma to_camel_name : to_camel n = Some (wbody w ++ camel_tail ws).
  Proof.
    unfold to_camel, camel_pre. fold (pre n).
    rewrite pre_id by auto using name_no_dash, name_no_sp. rewrite collapse_snake_name.
    unfold n, snake_name, wbody at 1. cbn [app].
    rewrite (to_lower_lower _ (proj1 Hw)).
    rewrite camel_sub_lod by (now apply wtail_lod). now rewrite camel_sub_sep_tail.
  Qed.

  Lemma to_pascal_name : to_pascal n = Some (cap w ++ camel_tail ws).
  Proof.
    unfold to_pascal, camel_pre. fold (pre n).
    rewrite pre_id by auto using name_no_dash, name_no_sp. rewrite collapse_snake_name.
    unfold n, snake_name, wbody at 1. cbn [app].
    rewrite camel_sub_lod by (now apply wtail_lod). now rewrite camel_sub_sep_tail.
  Qed.

  Lemma camel_form_no (a : ascii) :
    (forall c, lod c -> ascii_eqb c a = false) ->
    (forall c, is_upper c = true -> ascii_eqb c a = false) ->
    Forall (fun c => ascii_eqb c a = false) (wbody w ++ camel_tail ws) /\
    Forall (fun c => ascii_eqb c a = false) (cap w ++ camel_tail ws).
  Proof.
    intros Hl Hu. split; apply Forall_app; split; try (apply camel_tail_no_char; auto).
    - apply nosep_of_lod; auto using wbody_lod.
    - constructor; [apply Hu, to_upper_is_upper, Hw | apply nosep_of_lod; auto using wtail_lod].
  Qed.

  Lemma camel_tail_upper v vs : existsb is_upper (camel_tail (v :: vs)) = true -> True.
  Proof. trivial. Qed.

  Lemma resub_after_first (c : ascii) (Hc : is_upper c = true \/ lod c) y :
    resub c_us None (c :: wtail w ++ y)
    = c :: wtail w ++ resub c_us (Some (last (wtail w) c_us)) y.
  Proof.
    cbn [resub]. rewrite andb_false_r.
    now rewrite resub_lod by (auto using wtail_lod, wtail_ne).
  Qed.

  Lemma to_snake_camel : to_snake (wbody w ++ camel_tail ws) = n.
  Proof.
    assert (Hcase : ws = [] \/ existsb is_upper (camel_tail ws) = true).
    { destruct ws as [|v vs]; [now left|right]. inversion Hws as [|? ? Hv _]; subst.
      cbn [camel_tail flat_map cap app existsb]. now rewrite (to_upper_is_upper _ (proj1 Hv)). }
    destruct Hcase as [E|Hup].
    { subst n. rewrite E. unfold snake_name. cbn [camel_tail sep_tail flat_map]. rewrite !app_nil_r.
      apply to_snake_lowpath; rewrite pre_id.
      - pose proof (islower_sep_name c_us w [] eq_refl Hw (Forall_nil _)) as H.
        cbn [sep_tail flat_map] in H. now rewrite app_nil_r in H.
      - apply nosep_of_lod; [exact lod_not_dash | now apply wbody_lod].
      - apply nosep_of_lod; [exact lod_not_sp | now apply wbody_lod].
      - rewrite <- (app_nil_r (wbody w)) at 1.
        rewrite collapse_block by (apply nosep_of_lod; [exact lod_not_us | now apply wbody_lod]).
        cbn [collapse]. apply app_nil_r.
      - apply nosep_of_lod; [exact lod_not_dash | now apply wbody_lod].
      - apply nosep_of_lod; [exact lod_not_sp | now apply wbody_lod]. }
    destruct (camel_form_no c_dash lod_not_dash upper_not_dash) as [Hd _].
    destruct (camel_form_no c_sp lod_not_sp upper_not_sp) as [Hs _].
    apply to_snake_subpath; rewrite pre_id by assumption.
    - apply islower_false_of_upper. rewrite existsb_app. apply orb_true_iff. now right.
    - unfold wbody at 1. cbn [app]. rewrite resub_after_first by (right; apply lod_lower, Hw).
      change (wl0 w :: wtail w ++ ?t) with (wbody w ++ t).
      rewrite lower_app, lower_lod by (now apply wbody_lod).
      rewrite resub_camel_tail by (auto using last_lod, wtail_lod, wtail_ne).
      apply collapse_snake_name.
  Qed.

  Lemma to_snake_pascal : to_snake (cap w ++ camel_tail ws) = n.
  Proof.
    destruct (camel_form_no c_dash lod_not_dash upper_not_dash) as [_ Hd].
    destruct (camel_form_no c_sp lod_not_sp upper_not_sp) as [_ Hs].
    apply to_snake_subpath; rewrite pre_id by assumption.
    - apply islower_false_of_upper. cbn [cap app existsb].
      now rewrite (to_upper_is_upper _ (proj1 Hw)).
    - unfold cap at 1. cbn [app].
      rewrite resub_after_first by (left; apply to_upper_is_upper, Hw).
      cbn [lower map]. rewrite (to_lower_to_upper _ (proj1 Hw)).
      fold (lower (wtail w ++ resub c_us (Some (last (wtail w) c_us)) (camel_tail ws))).
      rewrite lower_app, lower_lod by (now apply wtail_lod).
      rewrite resub_camel_tail by (auto using last_lod, wtail_lod, wtail_ne).
      apply collapse_snake_name.
  Qed.

  (* ---- kebab-case ---- *)
  Definition kebab := wbody w ++ sep_tail c_dash ws.

  Lemma to_lisp_name : to_lisp n = kebab.
  Proof.
    unfold to_lisp, to_sep_case.
    assert (E : replace_char c_sp c_dash (replace_char c_us c_dash n) = kebab).
    { unfold n, snake_name, kebab. rewrite replace_char_app.
      rewrite (replace_char_id c_us) by (apply nosep_of_lod; [exact lod_not_us | now apply wbody_lod]).
      rewrite replace_sep_tail by (auto using lod_not_us).
      apply replace_char_id. apply Forall_app; split.
      - apply nosep_of_lod; [exact lod_not_sp | now apply wbody_lod].
      - apply sep_tail_no_char; auto using dash_not_sp, lod_not_sp. }
    rewrite E. unfold kebab. rewrite islower_sep_name by auto.
    apply (collapse_name c_dash wbody); auto.
    - intros; apply wbody_ne.
    - intros v Hv. apply nosep_of_lod; [exact lod_not_dash | now apply wbody_lod].
  Qed.

  Lemma pre_kebab : pre kebab = n.
  Proof.
    unfold pre, kebab, n, snake_name. rewrite replace_char_app.
    rewrite (replace_char_id c_dash) by (apply nosep_of_lod; [exact lod_not_dash | now apply wbody_lod]).
    rewrite replace_sep_tail by (auto using lod_not_dash).
    apply replace_char_id. apply name_no_sp.
  Qed.

  Lemma to_snake_kebab : to_snake kebab = n.
  Proof.
    apply to_snake_lowpath; rewrite pre_kebab.
    - apply islower_sep_name; auto.
    - apply collapse_snake_name.
  Qed.

  (* ---- Upper-Kebab (str.title of the kebab form) and Upper_Snake ---- *)
  Lemma title_lower x y : Forall (fun c => is_lower c = true) x ->
    title_from true (x ++ y) = x ++ title_from true y.
  Proof.
    induction 1 as [|c x Hc _ IH]; [reflexivity|].
    cbn [app title_from]. now rewrite (lower_is_alpha c Hc), (to_lower_lower c Hc), IH.
  Qed.

  Definition head_nonalpha (y : pstr) : Prop :=
    match y with [] => True | c :: _ => is_alpha c = false end.

  Lemma title_head_nonalpha b y : head_nonalpha y -> title_from b y = title_from false y.
  Proof. destruct y as [|c y]; [reflexivity|]. cbn. now intros ->. Qed.

  Lemma title_digits x : forall b y, Forall (fun c => is_digit c = true) x -> head_nonalpha y ->
    title_from b (x ++ y) = x ++ title_from false y.
  Proof.
    induction x as [|c x IH]; intros b y Hx Hy.
    - now apply title_head_nonalpha.
    - inversion Hx as [|? ? Hc Hx']; subst. cbn [app title_from].
      rewrite (digit_not_alpha c Hc). now rewrite IH.
  Qed.

  Lemma title_word v y : wf_word v -> head_nonalpha y ->
    title_from false (wbody v ++ y) = cap v ++ title_from false y.
  Proof.
    intros (H0 & H1 & Hl & Hd) Hy. unfold wbody, cap, wtail. cbn [app title_from].
    rewrite (lower_is_alpha _ H0), (lower_is_alpha _ H1), (to_lower_lower _ H1).
    rewrite <- !app_assoc. rewrite title_lower by assumption.
    now rewrite title_digits by assumption.
  Qed.

  Lemma title_sep_tail vs : Forall wf_word vs ->
    title_from false (sep_tail c_dash vs) = capsep_tail c_dash vs.
  Proof.
    induction 1 as [|v vs Hv _ IH]; [reflexivity|].
    unfold sep_tail, capsep_tail in *. cbn [flat_map].
    change ((c_dash :: wbody v) ++ ?t) with (c_dash :: (wbody v ++ t)).
    cbn [title_from]. replace (is_alpha c_dash) with false by reflexivity.
    rewrite title_word; auto.
    - now rewrite IH.
    - destruct vs; cbn; auto.
  Qed.

  Lemma title_kebab : title kebab = cap w ++ capsep_tail c_dash ws.
  Proof.
    unfold title, kebab. rewrite title_word; auto.
    - now rewrite title_sep_tail.
    - destruct ws; cbn; auto.
  Qed.

  Definition upper_snake := cap w ++ capsep_tail c_us ws.

  Lemma replace_capsep_tail a b vs :
    (forall c, lod c -> ascii_eqb c a = false) ->
    (forall c, is_upper c = true -> ascii_eqb c a = false) ->
    Forall wf_word vs ->
    replace_char a b (capsep_tail a vs) = capsep_tail b vs.
  Proof.
    intros Ha Hu. induction 1 as [|v vs Hv _ IH]; [reflexivity|].
    unfold capsep_tail, replace_char in *. cbn [flat_map app map]. rewrite ascii_eqb_refl.
    rewrite map_app. f_equal. f_equal; [|exact IH].
    apply (replace_char_id a b). constructor.
    - apply Hu, to_upper_is_upper, Hv.
    - apply nosep_of_lod; auto using wtail_lod.
  Qed.

  Lemma cap_no (a : ascii) :
    (forall c, lod c -> ascii_eqb c a = false) ->
    (forall c, is_upper c = true -> ascii_eqb c a = false) ->
    Forall (fun c => ascii_eqb c a = false) (cap w).
  Proof.
    intros Hl Hu. constructor; [apply Hu, to_upper_is_upper, Hw|].
    apply nosep_of_lod; auto using wtail_lod.
  Qed.

  Lemma upper_kebab_to_upper_snake :
    replace_char c_dash c_us (cap w ++ capsep_tail c_dash ws) = upper_snake.
  Proof.
    unfold upper_snake. rewrite replace_char_app.
    rewrite replace_char_id by (apply cap_no; auto using lod_not_dash, upper_not_dash).
    now rewrite replace_capsep_tail by (auto using lod_not_dash, upper_not_dash).
  Qed.

  Lemma upper_snake_no_sp : Forall (fun c => ascii_eqb c c_sp = false) upper_snake.
  Proof.
    apply Forall_app; split.
    - apply cap_no; auto using lod_not_sp, upper_not_sp.
    - apply capsep_tail_no_char; auto using us_not_sp, lod_not_sp, upper_not_sp.
  Qed.

  Lemma upper_snake_no_dash : Forall (fun c => ascii_eqb c c_dash = false) upper_snake.
  Proof.
    apply Forall_app; split.
    - apply cap_no; auto using lod_not_dash, upper_not_dash.
    - apply capsep_tail_no_char; auto using us_not_dash, lod_not_dash, upper_not_dash.
  Qed.

  Lemma snake_of_upper_snake_form :
    py_islower upper_snake = false /\
    collapse c_us (lower (resub c_us None upper_snake)) = n.
  Proof.
    split.
    - apply islower_false_of_upper. unfold upper_snake. cbn [cap app existsb].
      now rewrite (to_upper_is_upper _ (proj1 Hw)).
    - unfold upper_snake, cap at 1. cbn [app].
      rewrite resub_after_first by (left; apply to_upper_is_upper, Hw).
      cbn [lower map]. rewrite (to_lower_to_upper _ (proj1 Hw)).
      fold (lower (wtail w ++ resub c_us (Some (last (wtail w) c_us)) (capsep_tail c_us ws))).
      rewrite lower_app, lower_lod by (now apply wtail_lod).
      rewrite resub_capsep_tail by auto.
      apply collapse_snake_name.
  Qed.

  Lemma to_snake_upper_snake : to_snake upper_snake = n.
  Proof.
    destruct snake_of_upper_snake_form as [H1 H2].
    apply to_snake_subpath; rewrite pre_id by auto using upper_snake_no_dash, upper_snake_no_sp;
      assumption.
  Qed.

  Lemma to_snake_upper_kebab : to_snake (cap w ++ capsep_tail c_dash ws) = n.
  Proof.
    destruct snake_of_upper_snake_form as [H1 H2].
    assert (E : pre (cap w ++ capsep_tail c_dash ws) = upper_snake).
    { unfold pre. rewrite upper_kebab_to_upper_snake.
      apply replace_char_id, upper_snake_no_sp. }
    apply to_snake_subpath; rewrite E; assumption.
  Qed.

  (* ---- SCREAMING_SNAKE ---- *)
  Lemma upper_name_class : forallb up_or_digit_or_us (upper n) = true.
  Proof.
    unfold n, snake_name. rewrite upper_app, forallb_app, upper_lod_class by (now apply wbody_lod).
    now rewrite upper_sep_tail_class.
  Qed.

  (* in a word, no letter follows a digit *)
  Lemma ndu_digits x y : Forall (fun c => is_digit c = true) x ->
    no_digit_then_upper y = true ->
    match y with c :: _ => is_upper c = false | [] => True end ->
    no_digit_then_upper (x ++ y) = true.
  Proof.
    induction 1 as [|c x Hc Hx IH]; intros Hy Hh; [exact Hy|].
    cbn [app no_digit_then_upper].
    destruct (x ++ y) as [|d r] eqn:E; [reflexivity|].
    rewrite IH by assumption. rewrite andb_true_r.
    destruct x as [|e x].
    - cbn in E. subst y. rewrite Hh. now rewrite andb_false_r.
    - cbn in E. inversion E; subst. inversion Hx as [|? ? He _]; subst.
      now rewrite (digit_not_upper _ He), andb_false_r.
  Qed.

  Lemma ndu_nondigits x y : Forall (fun c => is_digit c = false) x ->
    no_digit_then_upper y = true -> no_digit_then_upper (x ++ y) = true.
  Proof.
    induction 1 as [|c x Hc Hx IH]; intros Hy; [exact Hy|].
    cbn [app no_digit_then_upper].
    destruct (x ++ y) as [|d r] eqn:E; [reflexivity|].
    rewrite Hc. cbn [andb negb]. now apply IH.
  Qed.

  Lemma upper_digits x : Forall (fun c => is_digit c = true) x -> upper x = x.
  Proof. induction 1 as [|c x Hc _ IH]; [reflexivity|]. cbn [upper map]. fold (upper x).
         now rewrite (to_upper_digit c Hc), IH. Qed.

  Lemma upper_lowers_nondigit x : Forall (fun c => is_lower c = true) x ->
    Forall (fun c => is_digit c = false) (upper x).
  Proof.
    induction 1 as [|c x Hc _ IH]; constructor; auto.
    apply upper_not_digit, to_upper_is_upper, Hc.
  Qed.

  Lemma ndu_word v y : wf_word v -> no_digit_then_upper y = true ->
    match y with c :: _ => is_upper c = false | [] => True end ->
    no_digit_then_upper (upper (wbody v) ++ y) = true.
  Proof.
    intros (H0 & H1 & Hl & Hd) Hy Hh. unfold wbody, wtail.
    change (wl0 v :: wl1 v :: wls v ++ wds v) with ((wl0 v :: wl1 v :: wls v) ++ wds v).
    rewrite upper_app, <- app_assoc. apply ndu_nondigits.
    - apply upper_lowers_nondigit. repeat constructor; auto.
    - rewrite upper_digits by assumption. now apply ndu_digits.
  Qed.

  Lemma ndu_sep_tail vs : Forall wf_word vs -> no_digit_then_upper (upper (sep_tail c_us vs)) = true.
  Proof.
    induction 1 as [|v vs Hv _ IH]; [reflexivity|].
    unfold sep_tail in *. cbn [flat_map]. cbn [app upper map].
    fold (upper (wbody v ++ flat_map (fun w0 => c_us :: wbody w0) vs)).
    rewrite upper_app.
    change (to_upper c_us :: ?t) with ([c_us] ++ t).
    apply ndu_nondigits; [repeat constructor|].
    apply ndu_word; auto. destruct vs; cbn; auto.
  Qed.

  Lemma ndu_upper_name : no_digit_then_upper (upper n) = true.
  Proof.
    unfold n, snake_name. rewrite upper_app. apply ndu_word; auto using ndu_sep_tail.
    destruct ws; cbn; auto.
  Qed.

  Lemma class_no (a : ascii) x :
    is_upper a = false -> is_digit a = false -> ascii_eqb a c_us = false ->
    forallb up_or_digit_or_us x = true -> Forall (fun c => ascii_eqb c a = false) x.
  Proof.
    intros Hu Hd Hs. induction x as [|c x IH]; cbn [forallb]; intro H; constructor;
      apply andb_true_iff in H as [Hc Hx]; auto.
    destruct (ascii_eqb c a) eqn:E; [|reflexivity]. apply ascii_eqb_eq in E. subst c.
    unfold up_or_digit_or_us in Hc. now rewrite Hu, Hd, Hs in Hc.
  Qed.

  Lemma lower_upper_name : lower (upper n) = n.
  Proof.
    unfold n, snake_name. rewrite upper_app, lower_app, lower_upper_lod by (now apply wbody_lod).
    now rewrite lower_upper_sep_tail.
  Qed.

  Lemma to_snake_screaming : to_snake (upper n) = n.
  Proof.
    pose proof upper_name_class as Hc.
    apply to_snake_subpath; rewrite pre_id by (apply class_no; auto).
    - apply islower_false_of_upper. unfold n, snake_name, wbody. cbn [app upper map existsb].
      now rewrite (to_upper_is_upper _ (proj1 Hw)).
    - rewrite resub_screaming; auto using ndu_upper_name.
      rewrite lower_upper_name. apply collapse_snake_name.
  Qed.

  (* ---- all six at once ---- *)
  Theorem casing_roundtrip (c : casing) :
    exists k, apply_casing c n = Some k /\ to_snake k = n.
  Proof.
    destruct c; cbn [apply_casing].
    - exists (wbody w ++ camel_tail ws). split; [apply to_camel_name | apply to_snake_camel].
    - exists (cap w ++ camel_tail ws). split; [apply to_pascal_name | apply to_snake_pascal].
    - exists kebab. split; [now rewrite to_lisp_name | apply to_snake_kebab].
    - exists (cap w ++ capsep_tail c_dash ws). split.
      + now rewrite to_lisp_name, title_kebab.
      + apply to_snake_upper_kebab.
    - exists upper_snake. split.
      + now rewrite to_lisp_name, title_kebab, upper_kebab_to_upper_snake.
      + apply to_snake_upper_snake.
    - exists (upper n). split; [reflexivity | apply to_snake_screaming].
  Qed.
End Name.

(* ---- default-engine key resolution ---------------------------------------- *)
Lemma canonical_lower f : canonical_snake f -> lower f = f.
Proof. intros (w & ws & Hw & Hws & ->). now apply lower_name. Qed.

Lemma canonical_to_snake f : canonical_snake f -> to_snake f = f.
Proof. intros (w & ws & Hw & Hws & ->). now apply to_snake_name. Qed.

Lemma mem_str_In x l : mem_str x l = true <-> In x l.
Proof.
  induction l as [|y l IH]; cbn [mem_str In]; [split; [discriminate|tauto]|].
  rewrite orb_true_iff, IH, pstr_eqb_eq. split; intros [H|H]; auto.
Qed.

Lemma find_last_lower_canonical k fields : forall acc,
  Forall (fun f => lower f = f) fields ->
  find_last_lower k fields acc = if mem_str k fields then Some k else acc.
Proof.
  induction fields as [|f fields IH]; intros acc Hf; [reflexivity|].
  inversion Hf as [|? ? Hl Hf']; subst. cbn [find_last_lower mem_str].
  rewrite IH by assumption. rewrite Hl.
  destruct (mem_str k fields); [now rewrite orb_true_r|]. rewrite orb_false_r.
  destruct (pstr_eqb f k) eqn:E.
  - apply pstr_eqb_eq in E. subst. now rewrite pstr_eqb_refl.
  - destruct (pstr_eqb k f) eqn:E'; [|reflexivity].
    apply pstr_eqb_eq in E'. subst. now rewrite pstr_eqb_refl in E.
Qed.

Theorem casing_resolves fields n c :
  Forall canonical_snake fields -> In n fields ->
  exists k, apply_casing c n = Some k /\ resolve_key_v0 fields k = Some n.
Proof.
  intros Hf Hin.
  assert (Hn : canonical_snake n) by (rewrite Forall_forall in Hf; auto).
  destruct Hn as (w & ws & Hw & Hws & ->).
  destruct (casing_roundtrip w ws Hw Hws c) as (k & Hk & Hs).
  exists k. split; [exact Hk|]. unfold resolve_key_v0.
  destruct (mem_str k fields) eqn:Hm.
  - apply mem_str_In in Hm. rewrite Forall_forall in Hf.
    pose proof (canonical_to_snake k (Hf k Hm)) as E. congruence.
  - rewrite Hs, lower_name by assumption.
    rewrite find_last_lower_canonical.
    + apply mem_str_In in Hin. now rewrite Hin.
    + eapply Forall_impl; [|exact Hf]. intros a Ha. now apply canonical_lower.
Qed.

(* non-vacuity: "my_var2" and "ab_cd_ef" are canonical, and the six casings of
   "my_var2" are the documented spellings *)
Definition w_my  := {| wl0 := "m"; wl1 := "y"; wls := []; wds := [] |}.
Definition w_var2 := {| wl0 := "v"; wl1 := "a"; wls := ["r"%char]; wds := ["2"%char] |}.

Example my_var2_canonical : canonical_snake (S "my_var2").
Proof.
  exists w_my, [w_var2]. repeat split; repeat constructor.
Qed.

Example my_var2_casings :
  map (fun c => apply_casing c (S "my_var2")) all_casings
  = map (fun s => Some (S s)) ["myVar2"; "MyVar2"; "my-var2"; "My-Var2"; "My_Var2"; "MY_VAR2"]%string.
Proof. vm_compute. reflexivity. Qed.

(* ---- v1 AUTO key case: possible_json_keys covers the documented spellings ----- *)
Lemma remove_first_keeps x n l : In x l -> x <> n -> In x (remove_first n l).
Proof.
  induction l as [|y l IH]; cbn [In remove_first]; [tauto|].
  intros [E|H] Hne.
  - subst y. destruct (pstr_eqb n x) eqn:Q; [apply pstr_eqb_eq in Q; congruence | now left].
  - destruct (pstr_eqb n y); [assumption | right; auto].
Qed.

Theorem auto_keys_cover w ws (c : casing) :
  wf_word w -> Forall wf_word ws -> c <> Screaming ->
  exists k ks, apply_casing c (snake_name w ws) = Some k /\
               possible_json_keys (snake_name w ws) = Some ks /\
               (k = snake_name w ws \/ In k ks).
Proof.
  intros Hw Hws Hc. set (n := snake_name w ws).
  pose proof (to_camel_name w ws Hw Hws) as Ecamel. fold n in Ecamel.
  pose proof (to_lisp_name w ws Hw Hws) as Elisp. fold n in Elisp.
  pose proof (title_kebab w ws Hw Hws) as Etitle.
  pose proof (upper_kebab_to_upper_snake w ws Hw Hws) as Eus.
  set (k1 := wbody w ++ camel_tail ws) in *.
  set (all := [k1; cap_first k1; kebab w ws; title (kebab w ws);
               replace_char c_dash c_us (title (kebab w ws));
               lower (replace_char c_dash c_us (title (kebab w ws)))]).
  assert (Epjk : possible_json_keys n = Some (if mem_str n all then remove_first n all else all)).
  { unfold possible_json_keys. rewrite Ecamel. unfold k1 at 1, wbody at 1. cbn [app].
    rewrite Elisp. reflexivity. }
  assert (Hin : forall k, In k all -> k = n \/ In k (if mem_str n all then remove_first n all else all)).
  { intros k Hk. destruct (pstr_eqb k n) eqn:Q.
    - left. now apply pstr_eqb_eq.
    - right. destruct (mem_str n all); [|assumption]. apply remove_first_keeps; [assumption|].
      intro E. subst k. now rewrite pstr_eqb_refl in Q. }
  destruct c; try congruence; cbn [apply_casing]; fold n.
  - exists k1, (if mem_str n all then remove_first n all else all).
    repeat split; auto. apply Hin. cbn; auto.
  - exists (cap_first k1), (if mem_str n all then remove_first n all else all).
    repeat split; auto.
    + unfold n. rewrite (to_pascal_name w ws Hw Hws). reflexivity.
    + apply Hin. cbn; auto.
  - exists (kebab w ws), (if mem_str n all then remove_first n all else all).
    repeat split; auto; [now rewrite Elisp | apply Hin; cbn; auto].
  - exists (title (kebab w ws)), (if mem_str n all then remove_first n all else all).
    repeat split; auto; [now rewrite Elisp | apply Hin; cbn; auto].
  - exists (replace_char c_dash c_us (title (kebab w ws))), (if mem_str n all then remove_first n all else all).
    repeat split; auto; [now rewrite Elisp | apply Hin; cbn; auto 6].
Qed.
