(* CoreDumpConfigProofs.v — lemmas about the class-definition-time configuration pipeline
   (model: coq/model/CoreDumpConfig.v).  General part: facts about ARBITRARY bind sequences by
   induction (what a fold of bind_to leaves in the dumper attribute, the timestamp flag and the
   stored Meta; the invariant "stored Meta and dumper attribute agree").  Concrete part: the
   pipeline regenerated from the source (`pipeline_v0`) is the documented one (`pl_doc`), and for
   it the effective configuration of EVERY declaration is the documented one outside the regions
   of the two open findings; inside them it is not.  Composition with dump_refines_ref. *)
From DW Require Import CoreDumpConfig CoreDumpConfigV0 T_CoreDumpBindOrder T_CoreDumpHooks CoreDumpProofs CharFacts.
From Coq Require Import ZArith Bool Lia.

(* ---- or_else / latest ------------------------------------------------------------------- *)
Lemma or_else_assoc {A} (a b c : option A) : or_else (or_else a b) c = or_else a (or_else b c).
Proof. destruct a; reflexivity. Qed.
Lemma or_else_none_r {A} (a : option A) : or_else a None = a.
Proof. destruct a; reflexivity. Qed.

Lemma latest_app {A} (get : mset -> option A) a b :
  latest get (a ++ b) = or_else (latest get b) (latest get a).
Proof.
  induction a as [|m r IH]; cbn [app latest].
  - symmetry; apply or_else_none_r.
  - rewrite IH. apply or_else_assoc.
Qed.

Lemma latest_in {A} (get : mset -> option A) l x :
  latest get l = Some x -> exists m, In m l /\ get m = Some x.
Proof.
  induction l as [|m r IH]; cbn [latest]; intro H; [discriminate|].
  destruct (latest get r) as [y|] eqn:E; cbn [or_else] in H.
  - destruct (IH H) as [m' [Hin Hg]]. exists m'; split; [right; exact Hin | exact Hg].
  - exists m; split; [left; reflexivity | exact H].
Qed.

(* ---- ANY bind sequence, from ANY state: induction over the sequence ------------------------- *)
(* the dumper's transform after the sequence is the LATEST explicit one, else what it was *)
Lemma run_binds_xf seq : forall st,
  cs_xf (run_binds seq st) = match latest ms_xf seq with Some x => x | None => cs_xf st end.
Proof.
  induction seq as [|m r IH]; intro st; [reflexivity|].
  unfold run_binds in *. cbn [fold_left latest]. rewrite IH.
  destruct (latest ms_xf r) as [y|]; cbn [or_else]; [reflexivity|].
  cbn [bind_to cs_xf]. destruct (ms_xf m); reflexivity.
Qed.

(* the timestamp hooks are registered iff they were, or some bind of the sequence asks for TIMESTAMP *)
Lemma run_binds_ts seq : forall st,
  cs_ts (run_binds seq st) = cs_ts st || existsb sets_ts seq.
Proof.
  induction seq as [|m r IH]; intro st.
  - cbn. symmetry; apply orb_false_r.
  - unfold run_binds in *. cbn [fold_left existsb]. rewrite IH. cbn [bind_to cs_ts].
    symmetry; apply orb_assoc.
Qed.

(* the stored Meta answers the LATEST explicit setting, else what it answered before *)
Lemma run_binds_meta {A} (get : mset -> option A)
      (Hget : forall a b, get (meta_and a b) = or_else (get b) (get a)) seq : forall st,
  meta_get get (run_binds seq st) = or_else (latest get seq) (meta_get get st).
Proof.
  induction seq as [|m r IH]; intro st; [reflexivity|].
  unfold run_binds in *. cbn [fold_left latest]. rewrite IH. rewrite or_else_assoc. f_equal.
  unfold meta_get. cbn [bind_to cs_meta]. destruct (cs_meta st) as [a|].
  - apply Hget.
  - symmetry; apply or_else_none_r.
Qed.

Lemma get_and_xf a b : ms_xf (meta_and a b) = or_else (ms_xf b) (ms_xf a). Proof. reflexivity. Qed.
Lemma get_and_dt a b : ms_dt (meta_and a b) = or_else (ms_dt b) (ms_dt a). Proof. reflexivity. Qed.
Lemma get_and_tk a b : ms_tk (meta_and a b) = or_else (ms_tk b) (ms_tk a). Proof. reflexivity. Qed.

(* INVARIANT: what get_meta(cls) stores for key_transform_with_dump is what the dumper applies *)
Definition consistent (pl : pipeline) (st : cstate) : Prop :=
  cs_xf st = match meta_get ms_xf st with Some x => x | None => pl_default_xf pl end.

Lemma bind_consistent pl st m : consistent pl st -> consistent pl (bind_to st m).
Proof.
  unfold consistent, meta_get. cbn [bind_to cs_xf cs_meta]. intro H.
  destruct (cs_meta st) as [a|]; cbn [meta_and ms_xf]; destruct (ms_xf m); cbn [or_else]; try reflexivity; exact H.
Qed.

Lemma run_consistent pl seq : forall st, consistent pl st -> consistent pl (run_binds seq st).
Proof.
  induction seq as [|m r IH]; intros st H; [exact H|].
  unfold run_binds in *. cbn [fold_left]. apply IH. apply bind_consistent. exact H.
Qed.

Theorem configure_consistent pl d : consistent pl (configure pl d).
Proof. unfold configure. apply run_consistent. reflexivity. Qed.

(* effective configuration of a declaration, for ANY pipeline, in closed form *)
Lemma effective_xf_latest pl d :
  d_xf (effective_cfg pl d) = match latest ms_xf (bind_seq pl d) with Some x => x | None => pl_default_xf pl end.
Proof. unfold effective_cfg, cfg_of_state, configure. cbn [d_xf]. apply run_binds_xf. Qed.

Lemma effective_ts pl d : cs_ts (configure pl d) = existsb sets_ts (bind_seq pl d).
Proof. unfold configure. rewrite run_binds_ts. reflexivity. Qed.

Lemma effective_tk_latest pl d :
  d_tag_key (effective_cfg pl d) = tk_or_default pl (latest ms_tk (bind_seq pl d)).
Proof.
  unfold effective_cfg, cfg_of_state, configure. cbn [d_tag_key].
  rewrite (run_binds_meta ms_tk get_and_tk). cbn [cs_init meta_get cs_meta]. rewrite or_else_none_r. reflexivity.
Qed.

(* ---- the pipeline read from the source is the documented one --------------------------------- *)
Definition pl_doc : pipeline :=
  mkPL [StImplicitDump; StMetaInit; StLoadKwargs] [MiOwn; MiBase] (Some XNone) XCamel (S "__tag__").
Lemma pipeline_v0_eq : pipeline_v0 = Some pl_doc.
Proof. reflexivity. Qed.

Lemma bind_seq_doc d :
  bind_seq pl_doc d =
  (match dc_base d with
   | BPlain => []
   | b => implicit_binds pl_doc b ++ opt_list (dc_inner d) ++ opt_list (parent_meta d) ++
          (if dc_key_case d then [ms_none] else [])
   end) ++ dc_post d.
Proof.
  unfold bind_seq, init_subclass_binds. f_equal.
  destruct (dc_base d) eqn:Eb; [reflexivity| |]; cbn [pl_doc pl_steps pl_msteps flat_map step_binds mstep_binds];
    rewrite Eb; rewrite !app_nil_r; rewrite <- ?app_assoc; reflexivity.
Qed.

Lemma xf_eqb_eq a b : xf_eqb a b = true -> a = b.
Proof. destruct a, b; cbn; intro H; try discriminate; reflexivity. Qed.
Lemma xf_eqb_refl a : xf_eqb a a = true.
Proof. destruct a; reflexivity. Qed.

(* latest explicit setting of the whole sequence = the documented priority, else the implicit bind *)
Lemma latest_bind_seq_doc {A} (get : mset -> option A) (eqb : A -> A -> bool)
      (Heq : forall a b, eqb a b = true -> a = b) (Hnone : get ms_none = None) d :
  wf_decl d = true -> overridden eqb get d = false ->
  latest get (bind_seq pl_doc d) = or_else (configured get d) (latest get (implicit_binds pl_doc (dc_base d))).
Proof.
  intros Hwf Hov. rewrite bind_seq_doc. rewrite latest_app.
  unfold configured, overridden in *. rewrite or_else_assoc.
  destruct (latest get (dc_post d)) as [p|]; cbn [or_else]; [reflexivity|].
  unfold wf_decl in Hwf. unfold own_inner, inherited in *.
  destruct (dc_base d) eqn:Eb.
  - (* plain dataclass: no inner Meta, no configured parent *)
    apply andb_true_iff in Hwf. destruct Hwf as [Hwf _]. apply andb_true_iff in Hwf. destruct Hwf as [Hi Hp].
    destruct (dc_inner d); [discriminate|]. destruct (parent_meta d); [discriminate|]. reflexivity.
  - rewrite !latest_app.
    assert (Hkc : latest get (if dc_key_case d then [ms_none] else []) = None).
    { destruct (dc_key_case d); cbn [latest or_else]; [exact Hnone | reflexivity]. }
    rewrite Hkc. cbn [or_else].
    destruct (dc_inner d) as [mi|]; destruct (parent_meta d) as [mp|]; cbn [opt_list latest or_else implicit_binds pl_doc pl_py_xf];
      try reflexivity.
    + destruct (get mi) as [a|] eqn:Ea; destruct (get mp) as [b|] eqn:Eb'; cbn [or_else]; try reflexivity.
      apply negb_false_iff in Hov. apply Heq in Hov. subst. reflexivity.
    + destruct (get mi); reflexivity.
    + destruct (get mp); reflexivity.
  - rewrite !latest_app.
    assert (Hkc : latest get (if dc_key_case d then [ms_none] else []) = None).
    { destruct (dc_key_case d); cbn [latest or_else]; [exact Hnone | reflexivity]. }
    rewrite Hkc. cbn [or_else].
    destruct (dc_inner d) as [mi|]; destruct (parent_meta d) as [mp|]; cbn [opt_list latest or_else implicit_binds pl_doc pl_py_xf];
      try reflexivity.
    all: set (g := get (mkMS (Some XNone) None None)).
    + destruct (get mi) as [a|] eqn:Ea; destruct (get mp) as [b|] eqn:Eb'; cbn [or_else]; try (destruct g; reflexivity).
      apply negb_false_iff in Hov. apply Heq in Hov. subst. reflexivity.
    + destruct (get mi); cbn [or_else]; destruct g; reflexivity.
    + destruct (get mp); cbn [or_else]; destruct g; reflexivity.
Qed.

(* ---- key transform: for EVERY declaration the effective transform is the documented one -------- *)
Theorem effective_xf_documented d :
  wf_decl d = true -> f93_xf d = false -> d_xf (effective_cfg pl_doc d) = documented_xf d.
Proof.
  intros Hwf Hov. rewrite effective_xf_latest.
  rewrite (latest_bind_seq_doc ms_xf xf_eqb xf_eqb_eq eq_refl d Hwf Hov).
  unfold documented_xf. destruct (configured ms_xf d); cbn [or_else]; [reflexivity|].
  destruct (dc_base d); reflexivity.
Qed.

(* an explicit setting (bind_to after the definition, own inner Meta, inherited inner Meta) wins over
   the implicit default of the wizard base ... *)
Corollary explicit_xf_wins d x :
  wf_decl d = true -> f93_xf d = false -> configured ms_xf d = Some x -> d_xf (effective_cfg pl_doc d) = x.
Proof. intros Hwf Hov Hc. rewrite (effective_xf_documented d Hwf Hov). unfold documented_xf. rewrite Hc. reflexivity. Qed.

(* ... and without any explicit setting the base decides: 'NONE' for JSONPyWizard, camelCase otherwise *)
Corollary implicit_xf_default d :
  wf_decl d = true -> configured ms_xf d = None ->
  d_xf (effective_cfg pl_doc d) = base_default_xf (dc_base d).
Proof.
  intros Hwf Hc.
  assert (Hov : f93_xf d = false).
  { unfold f93_xf, overridden. unfold configured in Hc.
    destruct (latest ms_xf (dc_post d)); [discriminate|]. cbn [or_else] in Hc.
    destruct (own_inner ms_xf d); [discriminate|]. reflexivity. }
  rewrite (effective_xf_documented d Hwf Hov). unfold documented_xf. rewrite Hc. reflexivity.
Qed.

(* the F93 region is exactly where the transform goes wrong *)
Theorem f93_xf_wrong d :
  wf_decl d = true -> f93_xf d = true -> d_xf (effective_cfg pl_doc d) <> documented_xf d.
Proof.
  intros Hwf Hov. rewrite effective_xf_latest. rewrite bind_seq_doc, latest_app.
  unfold documented_xf, configured, f93_xf, overridden, wf_decl in *.
  destruct (latest ms_xf (dc_post d)); [discriminate|]. cbn [or_else].
  unfold own_inner, inherited in *.
  destruct (dc_inner d) as [mi|]; [|discriminate].
  destruct (ms_xf mi) as [a|] eqn:Ea; [|discriminate].
  destruct (parent_meta d) as [mp|]; [|discriminate].
  destruct (ms_xf mp) as [b|] eqn:Eb; [|discriminate].
  cbn [or_else].
  assert (Hne : b <> a).
  { intro E; subst. rewrite xf_eqb_refl in Hov. discriminate. }
  destruct (dc_base d); [discriminate| |];
    rewrite !latest_app; cbn [opt_list latest or_else]; rewrite Eb;
    (destruct (dc_key_case d); cbn [latest or_else ms_none ms_xf]; exact Hne).
Qed.

(* ---- tag key ---------------------------------------------------------------------------------- *)
Lemma pstr_eqb_eq' a b : pstr_eqb a b = true -> a = b.
Proof.
  revert b; induction a as [|x a IH]; destruct b as [|y b]; cbn [pstr_eqb]; intro H; try discriminate; [reflexivity|].
  apply andb_true_iff in H. destruct H as [H1 H2].
  apply ascii_eqb_eq in H1. subst. f_equal. apply IH. exact H2.
Qed.

Theorem effective_tk_documented d :
  wf_decl d = true -> f93_tk d = false -> d_tag_key (effective_cfg pl_doc d) = documented_tk d.
Proof.
  intros Hwf Hov. rewrite effective_tk_latest.
  rewrite (latest_bind_seq_doc ms_tk pstr_eqb pstr_eqb_eq' eq_refl d Hwf Hov).
  assert (Himp : latest ms_tk (implicit_binds pl_doc (dc_base d)) = None) by (destruct (dc_base d); reflexivity).
  rewrite Himp, or_else_none_r. unfold documented_tk, tk_or_default.
  destruct (configured ms_tk d) as [[|c r]|]; reflexivity.
Qed.

(* ---- marshal_date_time_as --------------------------------------------------------------------- *)
Lemma configured_in {A} (get : mset -> option A) d x :
  wf_decl d = true -> configured get d = Some x -> exists m, In m (bind_seq pl_doc d) /\ get m = Some x.
Proof.
  intros Hwf Hc. rewrite bind_seq_doc. unfold configured in Hc.
  destruct (latest get (dc_post d)) as [p|] eqn:Ep; cbn [or_else] in Hc.
  - inversion Hc; subst. destruct (latest_in _ _ _ Ep) as [m [Hin Hg]]. exists m; split; [|exact Hg].
    apply in_or_app; right; exact Hin.
  - unfold own_inner, inherited, wf_decl in *.
    destruct (dc_base d).
    + apply andb_true_iff in Hwf. destruct Hwf as [Hwf _]. apply andb_true_iff in Hwf. destruct Hwf as [Hi Hp].
      destruct (dc_inner d); [discriminate|]. destruct (parent_meta d); [discriminate|]. discriminate.
    + destruct (dc_inner d) as [mi|]; [destruct (get mi) eqn:Ei|]; cbn [or_else] in Hc.
      * inversion Hc; subst. exists mi; split; [|exact Ei].
        apply in_or_app; left. apply in_or_app; right. apply in_or_app; left. left; reflexivity.
      * destruct (parent_meta d) as [mp|]; [|discriminate]. exists mp; split; [|exact Hc].
        apply in_or_app; left. apply in_or_app; right. apply in_or_app; right. apply in_or_app; left. left; reflexivity.
      * destruct (parent_meta d) as [mp|]; [|discriminate]. exists mp; split; [|exact Hc].
        apply in_or_app; left. apply in_or_app; right. apply in_or_app; right. apply in_or_app; left. left; reflexivity.
    + destruct (dc_inner d) as [mi|]; [destruct (get mi) eqn:Ei|]; cbn [or_else] in Hc.
      * inversion Hc; subst. exists mi; split; [|exact Ei].
        apply in_or_app; left. apply in_or_app; right. apply in_or_app; left. left; reflexivity.
      * destruct (parent_meta d) as [mp|]; [|discriminate]. exists mp; split; [|exact Hc].
        apply in_or_app; left. apply in_or_app; right. apply in_or_app; right. apply in_or_app; left. left; reflexivity.
      * destruct (parent_meta d) as [mp|]; [|discriminate]. exists mp; split; [|exact Hc].
        apply in_or_app; left. apply in_or_app; right. apply in_or_app; right. apply in_or_app; left. left; reflexivity.
Qed.

Theorem effective_dt_documented d :
  wf_decl d = true -> f94_dt pl_doc d = false -> d_dt (effective_cfg pl_doc d) = documented_dt d.
Proof.
  intros Hwf H94. unfold effective_cfg, cfg_of_state. cbn [d_dt]. rewrite effective_ts.
  unfold f94_dt in H94. unfold documented_dt in *.
  destruct (configured ms_dt d) as [[|]|] eqn:Ec.
  - rewrite H94. reflexivity.
  - destruct (configured_in ms_dt d DtTimestamp Hwf Ec) as [m [Hin Hg]].
    assert (Hex : existsb sets_ts (bind_seq pl_doc d) = true).
    { apply existsb_exists. exists m; split; [exact Hin|]. unfold sets_ts. rewrite Hg. reflexivity. }
    rewrite Hex. reflexivity.
  - rewrite H94. reflexivity.
Qed.

(* the F94 region is exactly where the date mode goes wrong: timestamps although ISO_FORMAT is configured *)
Theorem f94_dt_wrong d :
  f94_dt pl_doc d = true -> d_dt (effective_cfg pl_doc d) = DtTimestamp /\ documented_dt d = DtIso.
Proof.
  intro H. unfold f94_dt in H. destruct (documented_dt d) eqn:E; [|discriminate].
  split; [|reflexivity]. unfold effective_cfg, cfg_of_state. cbn [d_dt]. rewrite effective_ts, H. reflexivity.
Qed.

(* ---- the whole configuration, and the composition with the encoding theorem ------------------------ *)
Theorem effective_cfg_documented d :
  safe_decl pl_doc d = true -> effective_cfg pl_doc d = documented_cfg d.
Proof.
  unfold safe_decl. intro H.
  apply andb_true_iff in H. destruct H as [H H94]. apply andb_true_iff in H. destruct H as [H Htk].
  apply andb_true_iff in H. destruct H as [Hwf Hxf].
  apply negb_true_iff in H94. apply negb_true_iff in Htk. apply negb_true_iff in Hxf.
  pose proof (effective_xf_documented d Hwf Hxf) as E1.
  pose proof (effective_dt_documented d Hwf H94) as E2.
  pose proof (effective_tk_documented d Hwf Htk) as E3.
  destruct (effective_cfg pl_doc d) as [x t k]. cbn [d_xf d_dt d_tag_key] in *. subst. reflexivity.
Qed.

(* END TO END: for every declaration form outside the two finding regions and every well-formed value,
   what the dispatch machinery emits under the configuration IN FORCE for the declared class (pipeline read
   from the source) is the documented encoding under the DOCUMENTED configuration of that declaration *)
Theorem configured_dump_refines_ref d v :
  safe_decl pl_doc d = true -> wfv v = true ->
  rmap demix (dump_decl dump_hooks_v0 pipeline_v0 d v) = ref_encode (documented_cfg d) v.
Proof.
  intros Hs Hv. rewrite pipeline_v0_eq. unfold dump_decl. rewrite (effective_cfg_documented d Hs).
  apply dump_refines_ref. exact Hv.
Qed.
