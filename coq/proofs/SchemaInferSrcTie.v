(* SchemaInferSrcTie.v — tie T for an algorithm: the Gallina functions that
   harness/tables/SchemaInferAlg.py TRANSLATES from the current source text of
   wizard_cli/schema.py (possible_types_for_string_value, can_be_bool, json_to_python_type;
   gen/T_SchemaInferAlg.v, regenerated on every run) equal the hand-written model SchemaGen.v
   for every string / JSON scalar, every behaviour of the oracle classifiers and both flag values. *)
From DW Require Import PyStr SchemaGen T_SchemaInferAlg.
From Coq Require Import List Bool.
Import ListNotations.

Section Tie.
  Variables as_date_ok as_time_ok as_datetime_ok isnumeric is_float : pstr -> bool.
  Variable bool_values : list pstr.
  Variable fs : bool.

  Lemma can_be_bool_src_eq : forall s, can_be_bool_src bool_values s = can_be_bool bool_values s.
  Proof. reflexivity. Qed.

  Lemma kinds_of_string_src_eq : forall s,
    kinds_of_string_src as_date_ok as_time_ok as_datetime_ok isnumeric is_float bool_values fs s
    = kinds_of_string as_date_ok as_time_ok as_datetime_ok isnumeric is_float bool_values fs s.
  Proof.
    intro s. unfold kinds_of_string_src, kinds_of_string, can_be_bool_src, can_be_bool.
    destruct (as_date_ok s); [reflexivity|].
    destruct (negb (has_colon s)).
    - destruct (isnumeric s); [destruct fs; reflexivity|].
      destruct (is_float s); [destruct fs; reflexivity|].
      destruct (mem_str (lower s) bool_values); [destruct fs; reflexivity|reflexivity].
    - destruct (as_time_ok s); [reflexivity|]. destruct (as_datetime_ok s); reflexivity.
  Qed.

  Lemma scalar_contrib_src_eq : forall v,
    scalar_contrib_src as_date_ok as_time_ok as_datetime_ok isnumeric is_float bool_values fs v
    = scalar_contrib as_date_ok as_time_ok as_datetime_ok isnumeric is_float bool_values fs v.
  Proof.
    intros [| b | z | iv r | s | l | m]; unfold scalar_contrib_src, scalar_contrib; try reflexivity.
    rewrite kinds_of_string_src_eq. reflexivity.
  Qed.
End Tie.
