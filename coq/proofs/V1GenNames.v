(* V1GenNames.v — the remaining premise of generator soundness, `coherent g`, follows from a
   simpler decidable check on the final generator state: the function names recorded in the
   recursion guard are pairwise distinct (`names_distinct g`).  So soundness can only fail when
   two DIFFERENT helper-compiled types are given the same function name (F9). *)
From DW Require Import PyStr V1Base V1Gen V1Errors V1Eval CharFacts V1GenInv.
From Coq Require Import ZArith List Bool Lia.
Import ListNotations.

Definition has_fn (g : gstate) (f : pstr) : Prop := exists kb, fn_lookup (g_fns g) f = Some kb.

(* what one generator step does to the guard and to the function table *)
Definition grows (g g' : gstate) : Prop :=
  (forall x, In x (g_guard g) -> In x (g_guard g')) /\
  (forall k f, In (k, f) (g_guard g') -> In (k, f) (g_guard g) \/ has_fn g' f) /\
  (forall f, has_fn g f -> has_fn g' f) /\
  (forall f k b, fn_lookup (g_fns g') f = Some (k, b) ->
                 fn_lookup (g_fns g) f = Some (k, b) \/ In (k, f) (g_guard g')).

Lemma grows_refl g : grows g g.
Proof. repeat split; auto. Qed.

Lemma grows_trans a b c : grows a b -> grows b c -> grows a c.
Proof.
  intros (A1 & A2 & A3 & A4) (B1 & B2 & B3 & B4). repeat split.
  - auto.
  - intros k f H. destruct (B2 _ _ H) as [H1|H1]; auto.
    destruct (A2 _ _ H1) as [H2|H2]; auto.
  - auto.
  - intros f k b0 H. destruct (B4 _ _ _ H) as [H1|H1]; auto.
    destruct (A4 _ _ _ H1) as [H2|H2]; auto.
Qed.

Definition step_grows {A} (step : gstate -> result (A * gstate)) : Prop :=
  forall g a g', step g = Ok (a, g') -> grows g g'.

Lemma helper_grows key name ti body :
  step_grows body -> forall g a g', with_helper key name ti g body = Ok (a, g') -> grows g g'.
Proof.
  intros Hb g a g' H. unfold with_helper in H.
  destruct (guard_lookup (g_guard g) key) as [[k' f]|].
  - inversion H; subst. apply grows_refl.
  - destruct (body (add_guard g key name)) as [[b g2]|] eqn:EB; [|discriminate].
    inversion H; subst; clear H. destruct (Hb _ _ _ EB) as (B1 & B2 & B3 & B4). cbn in *.
    assert (Hset : forall f, has_fn g2 f -> has_fn (set_fn g2 name key b) f).
    { intros f [kb Hf]. unfold has_fn. cbn. rewrite fn_lookup_set. destruct (pstr_eqb f name); eauto. }
    repeat split; cbn.
    + intros x Hx. apply B1. apply in_or_app. now left.
    + intros k f Hin. destruct (B2 _ _ Hin) as [H1|H1]; [|right; auto].
      apply in_app_or in H1 as [H1|[H1|[]]]; [now left|]. inversion H1; subst.
      right. unfold has_fn. cbn. rewrite fn_lookup_set, pstr_eqb_refl. eauto.
    + intros f Hf. apply Hset. apply B3. exact Hf.
    + intros f k b0 HL. rewrite fn_lookup_set in HL. destruct (pstr_eqb f name) eqn:E.
      * inversion HL; subst. apply pstr_eqb_eq in E. subst f. right.
        apply B1. apply in_or_app. right. now left.
      * destruct (B4 _ _ _ HL); auto.
Qed.

Section Names.
  Variable ct : ctable.
  Variable gen_cls : cid -> gstate -> result (fbody * gstate).
  Hypothesis Hcls : forall c, step_grows (gen_cls c).

  Lemma gen_grows_both :
    (forall t ti cn, step_grows (gen_ty ct gen_cls t ti cn)) /\
    (forall ts m k ti cn, step_grows (gen_list ct gen_cls m ts k ti cn)).
  Proof.
    unfold step_grows in *. apply ty_tys_ind.
    - intros l ti cn g a g' H. assert (g' = g) as -> by (destruct l; cbn in H; inversion H; auto).
      apply grows_refl.
    - intros k t IH ti cn g a g' H. cbn in H.
      destruct (gen_ty ct gen_cls t (ti_next ti) cn g) as [[b g1]|] eqn:E; [|discriminate].
      inversion H; subst. eauto.
    - intros ts IH ti cn g a g' H. rewrite gen_ty_tuple in H.
      destruct (gen_list ct gen_cls MElem ts 0 ti cn g) as [[es g1]|] eqn:E; [|discriminate].
      inversion H; subst. eauto.
    - intros dd kt IHk vt IHv ti cn g a g' H. cbn in H.
      destruct (gen_ty ct gen_cls kt (ti_key ti) cn g) as [[kb g1]|] eqn:E1; [|discriminate].
      destruct (gen_ty ct gen_cls vt (ti_val ti) cn g1) as [[vb g2]|] eqn:E2; [|discriminate].
      inversion H; subst. eapply grows_trans; eauto.
    - intros t IH ti cn g a g' H. cbn in H.
      destruct (gen_ty ct gen_cls t (ti_inopt ti) cn g) as [[b g1]|] eqn:E; [|discriminate].
      inversion H; subst. eauto.
    - intros ts IH ti cn g a g' H. rewrite gen_ty_union in H.
      eapply helper_grows; [|exact H]. unfold step_grows. intros g1 a1 g1' H1.
      destruct (gen_list ct gen_cls MSame ts 0 _ cn g1) as [[es g2]|] eqn:E; [|discriminate].
      inversion H1; subst. eauto.
    - intros vs ti cn g a g' H. cbn [gen_ty] in H.
      eapply helper_grows; [|exact H]. unfold step_grows. intros g1 a1 g1' H1. inversion H1; subst. apply grows_refl.
    - intros n fs IH ti cn g a g' H. rewrite gen_ty_named in H.
      eapply helper_grows; [|exact H]. unfold step_grows. intros g1 a1 g1' H1.
      destruct (gen_list ct gen_cls MElem fs 0 _ cn g1) as [[es g2]|] eqn:E; [|discriminate].
      inversion H1; subst. eauto.
    - intros n req IHr opt IHo ti cn g a g' H. rewrite gen_ty_typed in H.
      eapply helper_grows; [|exact H]. unfold step_grows. intros g1 a1 g1' H1.
      destruct (gen_list ct gen_cls MKey req 0 _ cn g1) as [[rs g2]|] eqn:E1; [|discriminate].
      destruct (gen_list ct gen_cls MSame opt 0 _ cn g2) as [[os g3]|] eqn:E2; [|discriminate].
      inversion H1; subst. eapply grows_trans; eauto.
    - intros c ti cn g a g' H. cbn [gen_ty] in H.
      destruct (nth_error ct c) as [cd|]; [|discriminate].
      eapply helper_grows; [unfold step_grows; apply Hcls|exact H].
    - intros m k ti cn g a g' H. inversion H; subst. apply grows_refl.
    - intros lbl t IHt r IHr m k ti cn g a g' H. rewrite gen_list_cons in H.
      destruct (gen_ty ct gen_cls t (ti_at m ti k lbl) cn g) as [[e g1]|] eqn:E1; [|discriminate].
      destruct (gen_list ct gen_cls m r (Datatypes.S k) ti cn g1) as [[es g2]|] eqn:E2; [|discriminate].
      inversion H; subst. eapply grows_trans; eauto.
  Qed.

  Lemma gen_fields_grows fs : forall i cn, step_grows (gen_fields ct gen_cls fs i cn).
  Proof.
    unfold step_grows in *. induction fs as [|f r IH]; intros i cn g a g' H; cbn in H.
    - inversion H; subst. apply grows_refl.
    - destruct (gen_ty ct gen_cls (f_ty f) (ti_field i) cn g) as [[e g1]|] eqn:E1; [|discriminate].
      destruct (gen_fields ct gen_cls r (Datatypes.S i) cn g1) as [[es g2]|] eqn:E2; [|discriminate].
      inversion H; subst. eapply grows_trans; [eapply (proj1 gen_grows_both)|eapply IH]; eauto.
  Qed.
End Names.

Lemma gen_cls_n_grows ct n : forall c, step_grows (gen_cls_n ct n c).
Proof.
  unfold step_grows. induction n as [|n IH]; intros c g a g' H; cbn in H; [discriminate|].
  destruct (nth_error ct c) as [cd|]; [|discriminate].
  destruct (gen_fields ct (gen_cls_n ct n) (c_fields cd) 0 (c_name cd) g) as [[es g1]|] eqn:E; [|discriminate].
  inversion H; subst. eapply gen_fields_grows; eauto.
Qed.

Lemma distinct_names_fun (l : list (ty * pstr)) :
  distinct_names (map snd l) = true ->
  forall k k' f, In (k, f) l -> In (k', f) l -> k = k'.
Proof.
  induction l as [|[k0 f0] l IH]; cbn; [tauto|]. intro H. apply andb_true_iff in H as [H1 H2].
  apply negb_true_iff in H1.
  assert (Hn : forall k, ~ In (k, f0) l).
  { intros k Hin. clear IH H2. induction l as [|[k1 f1] l IHl]; [destruct Hin|].
    cbn in H1. apply orb_false_iff in H1 as [Ha Hb]. destruct Hin as [Hin|Hin].
    - inversion Hin; subst. rewrite pstr_eqb_refl in Ha. discriminate.
    - auto. }
  intros k k' f [E1|I1] [E2|I2].
  - congruence.
  - inversion E1; subst. destruct (Hn _ I2).
  - inversion E2; subst. destruct (Hn _ I1).
  - eauto.
Qed.

(* after gen_main: distinct helper names imply coherence *)
Theorem names_distinct_coherent ct n c f g :
  gen_main ct n c = Ok (f, g) -> names_distinct g = true -> coherent g = true.
Proof.
  unfold gen_main. destruct (nth_error ct c) as [cd|]; [|discriminate].
  destruct (gen_cls_n ct n c _) as [[b g1]|] eqn:E; [|discriminate].
  intros H Hd. inversion H; subst; clear H.
  set (name := dc_name (c_name cd)) in *.
  destruct (gen_cls_n_grows ct n c _ _ _ E) as (G1 & G2 & G3 & G4).
  unfold names_distinct in Hd. cbn [g_guard g_fns set_fn] in *.
  unfold coherent. cbn [g_guard g_fns set_fn]. apply forallb_forall. intros [k f0] Hin. cbn [fst snd].
  (* the entry has a function *)
  assert (Hhas : exists k' b', fn_lookup (fn_set (g_fns g1) name (TData c, b)) f0 = Some (k', b')).
  { rewrite fn_lookup_set. destruct (pstr_eqb f0 name) eqn:En; [eauto|].
    destruct (G2 _ _ Hin) as [[H1|[]]|[[k' b'] H1]]; [|eauto].
    inversion H1; subst. rewrite pstr_eqb_refl in En. discriminate. }
  destruct Hhas as (k' & b' & HL). rewrite HL.
  (* and that function's key is a guard entry with the same name *)
  assert (Hin' : In (k', f0) (g_guard g1)).
  { rewrite fn_lookup_set in HL. destruct (pstr_eqb f0 name) eqn:En.
    - inversion HL; subst. apply pstr_eqb_eq in En. subst f0. apply G1. now left.
    - destruct (G4 _ _ _ HL) as [H1|H1]; [discriminate|exact H1]. }
  rewrite (distinct_names_fun _ Hd k k' f0 Hin Hin'). apply ty_eqb_refl.
Qed.
