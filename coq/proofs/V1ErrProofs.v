(* V1ErrProofs.v — C14: every failing v1 load is a library error, and the
   (class, field) attribution computed bottom-up by the once-only setters of the
   error objects equals the attribution computed top-down by the reference locator. *)
From DW Require Import PyStr V1Base V1Gen V1Errors V1Eval CharFacts V1GenInv V1GenSound.
From Coq Require Import ZArith List Bool Lia.
Import ListNotations.

(* ---- library errors ---------------------------------------------------------------- *)
Lemma re_raise_lib e cn o f v : is_marker e = false -> is_library (re_raise e cn o f v) = true.
Proof. intro H. unfold re_raise. rewrite H. destruct (is_none o); reflexivity. Qed.

Lemma re_raise_lib_or_marker e cn o f v :
  is_library (re_raise e cn o f v) = true \/ is_marker (re_raise e cn o f v) = true.
Proof.
  destruct (is_marker e) eqn:E.
  - right. unfold re_raise. now rewrite E.
  - left. now apply re_raise_lib.
Qed.

Lemma fields_load_err cn o kvs fs e :
  fields_load cn o kvs fs = Err e -> is_library e = true \/ is_marker e = true.
Proof.
  induction fs as [|[f ld] r IH]; cbn; [discriminate|].
  destruct (first_key kvs (f_keys f)) as [v|].
  - destruct (ld v).
    + destruct (fields_load cn o kvs r); [discriminate|]. intro H. inversion H; subst. auto.
    + intro H. inversion H; subst. apply re_raise_lib_or_marker.
  - destruct (fields_load cn o kvs r); [discriminate|]. intro H. inversion H; subst. auto.
Qed.

Lemma class_skel_err c cd lds o e :
  class_skel c cd lds o = Err e -> is_library e = true \/ is_marker e = true.
Proof.
  unfold class_skel. destruct (c_fields cd); [discriminate|].
  destruct o; try (intro H; inversion H; subst; apply re_raise_lib_or_marker).
  destruct (fields_load _ _ _ _) eqn:E.
  - destruct (construct _ _) as [vals miss]. destruct miss; [discriminate|].
    intro H. inversion H; subst. now left.
  - intro H. inversion H; subst. eapply fields_load_err; eauto.
Qed.

(* C14_library_error on the specification *)
Theorem load_cls_library Or ct n c o e :
  c < List.length ct -> load_cls Or ct n c o = Err e -> is_library e = true \/ is_marker e = true.
Proof.
  intros Hc. unfold load_cls. destruct n as [|m]; cbn.
  - intro H. inversion H; subst. now right.
  - destruct (nth_error ct c) eqn:En.
    + apply class_skel_err.
    + apply nth_error_None in En. lia.
Qed.

(* ---- attribution -------------------------------------------------------------------- *)
Definition unattr (le : liberr) : Prop :=
  e_cls le = None /\ e_dflt le = None /\ e_fld le = None /\ parse_family le = true.
Definition attr (le : liberr) (a : attribution) : Prop :=
  e_cls le = Some (fst a) /\
  match snd a with
  | Some f => parse_family le = true /\ e_fld le = Some f
  | None => parse_family le = false
  end.
(* what a failing load of a position looks like, relative to the locator's answer *)
Definition outcome (e : exn) (loc : option attribution) : Prop :=
  is_marker e = true \/
  (is_library e = false /\ is_marker e = false /\ loc = None) \/
  (exists le, e = XLib le /\ match loc with None => unattr le | Some a => attr le a end).

Lemma outcome_bare s loc : loc = None -> outcome (XBare s) loc.
Proof. intros ->. right. left. auto. Qed.

Lemma set_json_proj e o :
  e_kind (set_json e o) = e_kind e /\ e_cls (set_json e o) = e_cls e /\ e_fld (set_json e o) = e_fld e /\
  e_dflt (set_json e o) = e_dflt e.
Proof. unfold set_json. destruct (_ && _); cbn; auto. Qed.
Lemma set_field_proj e f :
  e_kind (set_field e f) = e_kind e /\ e_cls (set_field e f) = e_cls e /\ e_dflt (set_field e f) = e_dflt e /\
  e_fld (set_field e f) =
    (if parse_family e && (match e_fld e with Some _ => true | None => false end) then e_fld e else Some f).
Proof. unfold set_field. destruct (_ && _); cbn; auto. Qed.
Lemma set_class_proj e c :
  e_kind (set_class e c) = e_kind e /\ e_fld (set_class e c) = e_fld e /\ e_dflt (set_class e c) = e_dflt e /\
  e_cls (set_class e c) = (match e_cls e with Some x => Some x | None => Some c end).
Proof. unfold set_class. destruct (e_cls e) eqn:E; cbn; rewrite ?E; auto. Qed.
Lemma parse_family_kind e e' : e_kind e = e_kind e' -> parse_family e = parse_family e'.
Proof. unfold parse_family. now intros ->. Qed.

(* the attributes after re_raise's three setters *)
Lemma setters_proj le cn f o :
  let r := set_json (set_field (set_class le cn) f) o in
  parse_family r = parse_family le /\
  e_cls r = (match e_cls le with Some x => Some x | None => Some cn end) /\
  e_fld r = (if parse_family le && (match e_fld le with Some _ => true | None => false end) then e_fld le else Some f).
Proof.
  cbn zeta.
  destruct (set_json_proj (set_field (set_class le cn) f) o) as (K1 & C1 & F1 & _).
  destruct (set_field_proj (set_class le cn) f) as (K2 & C2 & _ & F2).
  destruct (set_class_proj le cn) as (K3 & F3 & _ & C3).
  split; [|split].
  - apply parse_family_kind. congruence.
  - congruence.
  - rewrite F1, F2, F3. rewrite (parse_family_kind (set_class le cn) le K3). reflexivity.
Qed.

Lemma re_raise_outcome e cn o f v loc :
  is_dict o = true -> outcome e loc ->
  outcome (re_raise e cn o f v) (Some (match loc with Some a => a | None => (cn, Some f) end)).
Proof.
  intros Hd H. assert (Hn : is_none o = false) by (destruct o; auto; discriminate).
  unfold re_raise. destruct H as [H|[(H1 & H2 & ->)|(le & -> & H)]].
  - rewrite H. now left.
  - rewrite H2, Hn, Hd. cbn [negb]. right. right. eexists. split; [reflexivity|].
    destruct e; try discriminate; cbn; repeat split.
  - cbn [is_marker]. rewrite Hn, Hd. cbn [negb]. right. right. eexists. split; [reflexivity|].
    destruct (setters_proj le cn f o) as (P & C & F). unfold attr. rewrite P, C, F.
    destruct loc as [a|].
    + destruct H as [Hc Hf]. rewrite Hc. split; auto.
      destruct (snd a) as [f'|].
      * destruct Hf as [Hp Hf]. rewrite Hp, Hf. cbn. auto.
      * exact Hf.
    + destruct H as (Hc & Hdf & Hf & Hp). rewrite Hc, Hp, Hf. cbn. auto.
Qed.

(* ---- generic list facts ---------------------------------------------------------------- *)
Lemma mapM_err {A B} (f : A -> result B) l e :
  mapM f l = Err e -> exists x, find (fun y => is_err (f y)) l = Some x /\ In x l /\ f x = Err e.
Proof.
  induction l as [|x l IH]; cbn; [discriminate|].
  destruct (f x) eqn:E; cbn.
  - destruct (mapM f l); cbn; [discriminate|]. intro H. inversion H; subst.
    destruct (IH eq_refl) as (y & Hy & Hin & Hf). eauto.
  - intro H. inversion H; subst. eauto.
Qed.
Lemma mapM_ok_find {A B} (f : A -> result B) l ys :
  mapM f l = Ok ys -> find (fun y => is_err (f y)) l = None.
Proof.
  revert ys. induction l as [|x l IH]; cbn; auto. intros ys.
  destruct (f x); cbn; [|discriminate]. destruct (mapM f l); cbn; [|discriminate]. eauto.
Qed.
Lemma find_ext {A} (p q : A -> bool) l : (forall x, p x = q x) -> find p l = find q l.
Proof. intro H. induction l; cbn; auto. now rewrite H, IHl. Qed.

Definition barrier (t : ty) : bool :=
  match t with TUnion _ | TLit _ | TTyped _ _ _ => true | _ => false end.
Definition helper_ty (t : ty) : bool :=
  match t with TUnion _ | TLit _ | TTyped _ _ _ | TNamed _ _ | TData _ => true | _ => false end.

Lemma try_each_err fs v k e :
  try_each fs v k = Err e -> (is_marker e = true) \/ k = Err e.
Proof.
  induction fs as [|f r IH]; cbn; auto. destruct (f v); [discriminate|].
  destruct (catchable e0) eqn:E; auto. intro H. inversion H; subst.
  left. unfold catchable in E. now apply negb_false_iff in E.
Qed.
Lemma union_checks_err alts v k e :
  union_checks alts v k = Err e -> (is_marker e = true) \/ k = Err e.
Proof.
  induction alts as [|a r IH]; cbn; auto. destruct a; auto.
  - destruct (type_is l v); [discriminate|auto].
  - destruct (f v); [discriminate|]. destruct (catchable e0) eqn:E; auto.
    intro H. inversion H; subst. left. unfold catchable in E. now apply negb_false_iff in E.
Qed.

Lemma unattr_mk_parse v : unattr (mk_parse v).
Proof. repeat split. Qed.

(* the helpers that catch everything raise an unattributed ParseError *)
Lemma barrier_outcome Or ct rec t v e :
  barrier t = true -> load_helper Or ct rec t v = Err e ->
  is_marker e = true \/ exists le, e = XLib le /\ unattr le.
Proof.
  destruct t; cbn; try discriminate; intros _.
  - unfold union_skel. destruct (_ && _); [discriminate|]. intro H.
    apply union_checks_err in H as [H|H]; auto. apply try_each_err in H as [H|H]; auto.
    inversion H; subst. right. eexists. split; [reflexivity|apply unattr_mk_parse].
  - unfold lit_skel. destruct (existsb _ _); [discriminate|]. intro H. inversion H; subst.
    right. eexists. split; [reflexivity|apply unattr_mk_parse].
  - unfold typed_skel. match goal with |- match ?b with _ => _ end = _ -> _ => destruct b end; [discriminate|].
    destruct (catchable e0) eqn:E; intro H; inversion H; subst.
    + right. eexists. split; [reflexivity|apply unattr_mk_parse].
    + left. unfold catchable in E. now apply negb_false_iff in E.
Qed.

Lemma py_index_err v ix e : py_index v ix = Err e -> is_library e = false /\ is_marker e = false.
Proof.
  unfold py_index, bare.
  destruct v; try destruct k; destruct ix; cbn;
    repeat match goal with |- context [match ?x with _ => _ end] => destruct x end;
    intro H; inversion H; subst; auto.
Qed.
Lemma py_iter_err v e : py_iter v = Err e -> is_library e = false /\ is_marker e = false.
Proof. unfold py_iter, bare. destruct v; intro H; inversion H; subst; auto. Qed.
Lemma py_items_err v e : py_items v = Err e -> is_library e = false /\ is_marker e = false.
Proof. unfold py_items, bare. destruct v; intro H; inversion H; subst; auto. Qed.
Lemma wrap_seq_err k l e : wrap_seq k l = Err e -> is_library e = false /\ is_marker e = false.
Proof. unfold wrap_seq, bare. destruct k; try discriminate; destruct (forallb hashable l); intro H; inversion H; auto. Qed.
Lemma wrap_dict_err dd l e : wrap_dict dd l = Err e -> is_library e = false /\ is_marker e = false.
Proof. unfold wrap_dict, bare. destruct (forallb _ l); intro H; inversion H; auto. Qed.

Section Attr.
  Variable Or : oracle.
  Variable ct : ctable.
  (* leaf conversions raise ordinary Python exceptions, never library errors *)
  Hypothesis Hconv : forall l o v e, conv Or l o v = Err e -> is_library e = false.

  Section Step.
    Variable rec : ty -> pv -> result pv.
    Variable hrec : ty -> pv -> option attribution.
    Variable srec : ty -> pv -> bool.
    (* a helper-compiled position, loaded with the smaller budget *)
    Hypothesis Hhelp : forall t v e, helper_ty t = true -> c14_ty t = true -> rec t v = Err e ->
      dc_shape srec t v = true -> outcome e (hrec t v).
    Local Notation ld := (load_r Or rec).
    Local Notation loc := (locate_ty Or rec hrec).
    Local Notation locs := (locate_elems Or rec hrec).
    Local Notation shp := (dc_shape srec).

    Lemma load_r_err_both :
      (forall t o x e, ld t o (Err x) = Err e -> e = x) /\
      (forall ts k x e, load_elems Or rec ts k (Err x) = Err e -> e = x).
    Proof.
      apply ty_tys_ind.
      - intros l o x e H. destruct l; cbn in H; congruence.
      - intros k t IH o x e H. cbn in H. congruence.
      - intros ts IH o x e H. rewrite load_r_tuple in H.
        destruct (load_elems Or rec ts 0 (Err x)) eqn:E; [discriminate|]. inversion H; subst. eauto.
      - intros dd kt _ vt _ o x e H. cbn in H. congruence.
      - intros t _ o x e H. cbn in H. congruence.
      - intros ts _ o x e H. cbn in H. congruence.
      - intros vs o x e H. cbn in H. congruence.
      - intros n fs _ o x e H. cbn in H. congruence.
      - intros n r _ o0 _ o x e H. cbn in H. congruence.
      - intros c o x e H. cbn in H. congruence.
      - intros k x e H. discriminate.
      - intros lbl t IHt r IHr k x e H. rewrite load_elems_cons in H.
        destruct (ld t false (Err x)) eqn:E1.
        + destruct (load_elems Or rec r (Datatypes.S k) (Err x)) eqn:E2; [discriminate|].
          inversion H; subst. eauto.
        + inversion H; subst. eauto.
    Qed.

    Lemma outcome_notlib e l : is_library e = false /\ is_marker e = false -> l = None -> outcome e l.
    Proof. intros [H1 H2] ->. right. left. auto. Qed.

    Lemma attr_both :
      (forall t, c14_ty t = true -> forall o v e, shp t v = true -> ld t o (Ok v) = Err e -> outcome e (loc t v)) /\
      (forall ts, c14_tys ts = true -> forall k v e, dc_shape_l srec ts k v = true ->
         load_elems Or rec ts k (Ok v) = Err e -> outcome e (locs ts k v)).
    Proof.
      apply ty_tys_ind.
      - (* leaf *)
        intros l _ o v e _ H. destruct l; cbn in H; try discriminate;
          try (destruct (is_marker e) eqn:Em; [now left|]; apply outcome_notlib; [split; eauto|reflexivity]).
      - (* seq *)
        intros k t IH Hc o v e Hs H. cbn in Hc, Hs, H. cbn [locate_ty].
        destruct (py_iter v) as [l|x] eqn:Ei.
        + destruct (mapM (fun x => ld t false (Ok x)) l) as [ys|x] eqn:Em.
          * rewrite (mapM_ok_find _ _ _ Em). apply outcome_notlib; auto. eapply wrap_seq_err; eauto.
          * inversion H; subst. destruct (mapM_err _ _ _ Em) as (y & Hf & Hin & Hy). rewrite Hf.
            rewrite forallb_forall in Hs. eapply IH; eauto.
        + inversion H; subst. apply outcome_notlib; auto. eapply py_iter_err; eauto.
      - (* tuple *)
        intros ts IH Hc o v e Hs H. cbn in Hc, Hs. rewrite load_r_tuple in H. cbn [locate_ty].
        destruct (load_elems Or rec ts 0 (Ok v)) eqn:E; [discriminate|]. inversion H; subst.
        eapply IH; eauto.
      - (* dict *)
        intros dd kt IHk vt IHv Hc o v e Hs H. cbn in Hc, Hs, H. cbn [locate_ty].
        apply andb_true_iff in Hc as [Hc1 Hc2].
        destruct (py_items v) as [kvs|x] eqn:Ei.
        + match type of H with match mapM ?f kvs with _ => _ end = _ => set (F := f) in * end.
          assert (Hfe : forall kv, (is_err (ld kt false (Ok (fst kv))) || is_err (ld vt false (Ok (snd kv)))) = is_err (F kv)).
          { intro kv. unfold F. destruct (ld kt false (Ok (fst kv))); cbn; auto.
            destruct (ld vt false (Ok (snd kv))); reflexivity. }
          rewrite (find_ext _ _ kvs Hfe).
          destruct (mapM F kvs) as [ys|x] eqn:Em.
          * rewrite (mapM_ok_find _ _ _ Em). apply outcome_notlib; auto. eapply wrap_dict_err; eauto.
          * inversion H; subst. destruct (mapM_err _ _ _ Em) as (y & Hf & Hin & Hy). rewrite Hf.
            rewrite forallb_forall in Hs. specialize (Hs _ Hin). apply andb_true_iff in Hs as [Hs1 Hs2].
            unfold F in Hy. destruct (ld kt false (Ok (fst y))) eqn:E1.
            -- cbn [is_err]. destruct (ld vt false (Ok (snd y))) eqn:E2; [discriminate|].
               inversion Hy; subst. eapply IHv; eauto.
            -- cbn [is_err]. inversion Hy; subst. eapply IHk; eauto.
        + inversion H; subst. apply outcome_notlib; auto. eapply py_items_err; eauto.
      - (* opt *)
        intros t IH Hc o v e Hs H. cbn in Hc, Hs, H. cbn [locate_ty].
        destruct (is_none v); [discriminate|]. eapply IH; eauto.
      - (* union *)
        intros ts _ Hc o v e Hs H. cbn in H. cbn [locate_ty]. now apply Hhelp.
      - intros vs Hc o v e Hs H. cbn in H. cbn [locate_ty]. now apply Hhelp.
      - intros n fs _ Hc o v e Hs H. cbn in H. cbn [locate_ty]. now apply Hhelp.
      - intros n r _ o0 _ Hc o v e Hs H. cbn in H. cbn [locate_ty]. now apply Hhelp.
      - (* data *)
        intros c Hc o v e Hs H. cbn in H. cbn [locate_ty]. now apply Hhelp.
      - intros _ k v e _ H. discriminate.
      - (* cons *)
        intros lbl t IHt r IHr Hc k v e Hs H. cbn in Hc, Hs. apply andb_true_iff in Hc as [Hc1 Hc2].
        apply andb_true_iff in Hs as [Hs1 Hs2].
        rewrite load_elems_cons in H. cbn [locate_elems].
        destruct (ld t false (py_index v (IxN k))) eqn:E1.
        + cbn [is_err]. destruct (load_elems Or rec r (Datatypes.S k) (Ok v)) eqn:E2; [discriminate|].
          inversion H; subst. eapply IHr; eauto.
        + cbn [is_err]. inversion H; subst. destruct (py_index v (IxN k)) eqn:Ei.
          * eapply IHt; eauto.
          * apply (proj1 load_r_err_both) in E1. subst. apply outcome_notlib; auto. eapply py_index_err; eauto.
    Qed.

    (* the fields of a class: relation between fields_load/construct and locate_fields *)
    Lemma construct_missing fs xs : List.length xs = List.length fs ->
      (snd (construct fs xs) = [] <->
       forallb (fun fx => match snd fx, f_default (fst fx) with None, None => false | _, _ => true end)
               (combine fs xs) = true).
    Proof.
      revert xs. induction fs as [|f r IH]; intros [|x xs] Hl; cbn in *; try discriminate; try tauto.
      specialize (IH xs (f_equal pred Hl)). destruct (construct r xs) as [vals miss]. cbn [snd] in *.
      destruct x; cbn; [exact IH|]. destruct (f_default f); cbn; [exact IH|].
      split; [discriminate|]. intro H. discriminate.
    Qed.

    Lemma fields_attr cn o kvs : is_dict o = true ->
      forall fs missing,
      forallb (fun f => c14_ty (f_ty f)) fs = true ->
      forallb (fun f => match first_key kvs (f_keys f) with Some v => shp (f_ty f) v | None => true end) fs = true ->
      match fields_load cn o kvs (combine fs (map (fun f => load_ty Or rec (f_ty f)) fs)) with
      | Err e => outcome e (locate_fields Or rec hrec cn kvs fs missing) /\
                 locate_fields Or rec hrec cn kvs fs missing <> None
      | Ok xs =>
          List.length xs = List.length fs /\
          locate_fields Or rec hrec cn kvs fs missing =
          if missing || negb (forallb (fun fx => match snd fx, f_default (fst fx) with None, None => false | _, _ => true end)
                                      (combine fs xs))
          then Some (cn, None) else None
      end.
    Proof.
      intro Hd. induction fs as [|f r IH]; intros missing Hc Hs; cbn [combine map fields_load locate_fields].
      - cbn. split; auto. now rewrite orb_false_r.
      - cbn in Hc, Hs. apply andb_true_iff in Hc as [Hc1 Hc2]. apply andb_true_iff in Hs as [Hs1 Hs2].
        destruct (first_key kvs (f_keys f)) as [v|] eqn:Ek.
        + unfold load_ty at 1. destruct (ld (f_ty f) false (Ok v)) eqn:El.
          * cbn [is_err]. specialize (IH missing Hc2 Hs2).
            destruct (fields_load cn o kvs _) eqn:Ef.
            -- destruct IH as [IH1 IH2]. split; [cbn; congruence|]. rewrite IH2. cbn. reflexivity.
            -- exact IH.
          * cbn [is_err]. pose proof (proj1 attr_both _ Hc1 false v e Hs1 El) as Ho.
            pose proof (re_raise_outcome e cn o (f_name f) v _ Hd Ho) as Hr. split.
            -- destruct (loc (f_ty f) v); exact Hr.
            -- destruct (loc (f_ty f) v); discriminate.
        + specialize (IH (missing || match f_default f with None => true | Some _ => false end) Hc2 Hs2).
          destruct (fields_load cn o kvs _) eqn:Ef.
          * destruct IH as [IH1 IH2]. split; [cbn; congruence|]. rewrite IH2. cbn.
            destruct (f_default f); cbn; rewrite ?orb_false_r, ?orb_true_r; auto.
          * exact IH.
    Qed.

    (* the error a NamedTuple helper raises for the first failing field's error e0 *)
    Definition nt_conv (n : pstr) (v : pv) (names : list pstr) (e0 : exn) : exn :=
      match e0 with
      | XBare k =>
          if pstr_eqb k (S "IndexError") then XLib (mk_missing_fields n v names)
          else if pstr_eqb k (S "KeyError") && is_dict v then XBare (S "TypeError")
          else e0
      | _ => e0
      end.

    Lemma named_attr n fs : forall k v xs e0,
      c14_tys fs = true -> dc_shape_l srec fs k v = true ->
      seq_load (map snd (list_loaders Or rec MElem false fs k)) v = (xs, Some e0) ->
      forall names, outcome (nt_conv n v names e0) (locate_named Or rec hrec n fs k v).
    Proof.
      induction fs as [|lbl t r IH]; intros k v xs e0 Hc Hs H names; [discriminate|].
      cbn in Hc, Hs. apply andb_true_iff in Hc as [Hc1 Hc2]. apply andb_true_iff in Hs as [Hs1 Hs2].
      cbn [list_loaders map snd seq_load opt_at pos_read] in H. cbn [locate_named].
      destruct (ld t false (py_index v (IxN k))) as [x|e] eqn:El.
      - destruct (seq_load _ v) as [xs' e'] eqn:Es. inversion H; subst. eapply IH; eauto.
      - inversion H; subst; clear H.
        assert (Hinner : outcome e0 (match py_index v (IxN k) with Ok x => loc t x | Err _ => None end)).
        { destruct (py_index v (IxN k)) as [x|x0] eqn:Ei.
          - exact (proj1 attr_both t Hc1 false x e0 Hs1 El).
          - apply (proj1 load_r_err_both) in El. subst. apply outcome_notlib; auto. eapply py_index_err; eauto. }
        destruct e0 as [s| | |]; cbn [nt_conv]; try exact Hinner.
        destruct (pstr_eqb s (S "IndexError")).
        + right. right. eexists. split; [reflexivity|]. split; reflexivity.
        + destruct (pstr_eqb s (S "KeyError") && is_dict v).
          * apply outcome_bare. reflexivity.
          * exact Hinner.
    Qed.
  End Step.

  (* ---- all budgets -------------------------------------------------------------------- *)
  Hypothesis Hct : c14_ct ct = true.

  Lemma unattr_missing_data : unattr mk_missing_data.
  Proof. repeat split. Qed.

  Lemma named_skel_conv n fs v e :
    named_skel n fs v = Err e ->
    exists xs e0 names, seq_load (map snd fs) v = (xs, Some e0) /\ e = nt_conv n v names e0.
  Proof.
    unfold named_skel. destruct (seq_load (map snd fs) v) as [xs [e0|]] eqn:E; [|discriminate].
    intro H. exists xs, e0, (map fst (skipn (List.length xs) fs)). split; auto.
    unfold nt_conv. destruct e0; try (inversion H; reflexivity).
    destruct (pstr_eqb k (S "IndexError")); [inversion H; reflexivity|].
    destruct (pstr_eqb k (S "KeyError") && is_dict v); inversion H; reflexivity.
  Qed.

  (* one class, given the statement for the smaller budget *)
  Lemma cls_attr m :
    (forall t v e, helper_ty t = true -> c14_ty t = true -> load_n Or ct m t v = Err e ->
                   dc_shape (dc_shape_hn ct m) t v = true -> outcome e (locate_hn Or ct m t v)) ->
    forall c cd dd kvs e, nth_error ct c = Some cd ->
      load_n Or ct (Datatypes.S m) (TData c) (VDict dd kvs) = Err e ->
      dc_shape_n ct (Datatypes.S m) c (VDict dd kvs) = true ->
      outcome e (locate_n Or ct (Datatypes.S m) c (VDict dd kvs)) /\
      locate_n Or ct (Datatypes.S m) c (VDict dd kvs) <> None.
  Proof.
    intros IH c cd dd kvs e En H Hs. cbn [load_n load_helper] in H. rewrite En in H.
    unfold locate_n, dc_shape_n in *. cbn [locate_hn locate_helper dc_shape_hn shape_helper] in *. rewrite En in *.
    unfold class_skel in H.
    destruct (c_fields cd) as [|f0 rest] eqn:Ef; [discriminate|]. rewrite <- Ef in *.
    assert (Hc : forallb (fun f => c14_ty (f_ty f)) (c_fields cd) = true).
    { unfold c14_ct in Hct. rewrite forallb_forall in Hct. apply Hct. eapply nth_error_In; eauto. }
    pose proof (fields_attr (load_n Or ct m) (locate_hn Or ct m) (dc_shape_hn ct m) IH
                  (c_name cd) (VDict dd kvs) kvs eq_refl (c_fields cd) false Hc Hs) as X.
    destruct (fields_load _ _ _ _) as [xs|e0] eqn:Ef2.
    - destruct X as [Hl Hloc]. pose proof (construct_missing (c_fields cd) xs Hl) as Hm.
      destruct (construct (c_fields cd) xs) as [vals miss]. cbn [snd] in Hm.
      destruct miss as [|m0 miss]; [discriminate|]. inversion H; subst.
      assert (Hfb : forallb (fun fx => match snd fx, f_default (fst fx) with None, None => false | _, _ => true end)
                            (combine (c_fields cd) xs) = false).
      { apply not_true_is_false. intro E. apply (proj2 Hm) in E. discriminate. }
      rewrite Hloc, Hfb. cbn. split; [|discriminate].
      right. right. eexists. split; [reflexivity|]. split; reflexivity.
    - inversion H; subst. exact X.
  Qed.

  Lemma help_n : forall n t v e, helper_ty t = true -> c14_ty t = true -> load_n Or ct n t v = Err e ->
    dc_shape (dc_shape_hn ct n) t v = true -> outcome e (locate_hn Or ct n t v).
  Proof.
    induction n as [|m IH]; intros t v e Hh Hc H Hs.
    - cbn in H. inversion H; subst. now left.
    - destruct t; try discriminate.
      + (* union *)
        destruct (barrier_outcome Or ct (load_n Or ct m) (TUnion ts) v e eq_refl H) as [Hm|(le & -> & Hu)]; [now left|].
        right. right. eauto.
      + destruct (barrier_outcome Or ct (load_n Or ct m) (TLit vs) v e eq_refl H) as [Hm|(le & -> & Hu)]; [now left|].
        right. right. eauto.
      + (* named *)
        cbn [load_n load_helper] in H. cbn in Hs, Hc. cbn [locate_hn locate_helper].
        destruct (named_skel_conv _ _ _ _ H) as (xs & e0 & names & Hseq & ->).
        exact (named_attr (load_n Or ct m) (locate_hn Or ct m) (dc_shape_hn ct m) IH n fs 0 v xs e0 Hc Hs Hseq names).
      + destruct (barrier_outcome Or ct (load_n Or ct m) (TTyped n req opt) v e eq_refl H) as [Hm|(le & -> & Hu)]; [now left|].
        right. right. eauto.
      + (* data *)
        destruct (nth_error ct c) as [cd|] eqn:En.
        * cbn [dc_shape] in Hs. apply orb_true_iff in Hs as [Hs|Hs].
          -- destruct v; try discriminate. cbn [load_n load_helper] in H. rewrite En in H.
             unfold class_skel in H. destruct (c_fields cd); [discriminate|]. inversion H; subst.
             cbn. right. right. eexists. split; [reflexivity|]. apply unattr_missing_data.
          -- apply andb_true_iff in Hs as [Hs1 Hs2]. destruct v; try discriminate.
             apply (cls_attr m IH c cd dd kvs e En H Hs2).
        * cbn [load_n load_helper] in H. rewrite En in H. inversion H; subst.
          apply outcome_bare. cbn. destruct v; auto. now rewrite En.
  Qed.

  (* C14_innermost: a dict-shaped document *)
  Theorem attribution_innermost n c dd kvs e :
    c < List.length ct -> dc_shape_n ct n c (VDict dd kvs) = true ->
    load_cls Or ct n c (VDict dd kvs) = Err e ->
    is_marker e = true \/
    exists le a, e = XLib le /\ locate_n Or ct n c (VDict dd kvs) = Some a /\
                 class_name le = Some (fst a) /\
                 (parse_family le = true -> e_fld le = snd a /\ snd a <> None) /\
                 (parse_family le = false -> snd a = None).
  Proof.
    intros Hc Hs H. unfold load_cls in H. destruct n as [|m].
    - cbn in H. inversion H; subst. now left.
    - destruct (nth_error ct c) as [cd|] eqn:En.
      2:{ apply nth_error_None in En. lia. }
      destruct (cls_attr m (help_n m) c cd dd kvs e En H Hs) as [Ho Hn].
      destruct Ho as [Hm|[(H1 & H2 & H3)|(le & -> & Ha)]]; [now left|congruence|].
      destruct (locate_n Or ct (Datatypes.S m) c (VDict dd kvs)) as [a|]; [|congruence].
      right. exists le, a. split; auto. split; auto. destruct Ha as [Hcl Hf].
      unfold class_name. rewrite Hcl. split; auto.
      destruct (snd a) as [f|].
      + destruct Hf as [Hp Hf]. split; [intros _; split; [auto|discriminate]|congruence].
      + split; [congruence|auto].
  Qed.
End Attr.
