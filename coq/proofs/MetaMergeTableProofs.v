(* MetaMergeTableProofs.v — invariant of the global _META table over all multi-root histories (C12). *)
From DW Require Import PyStr CharFacts T_MetaFields MetaMerge MetaMergeProofs MetaMergeTable.
From Coq Require Import Lia.

Local Opaque fields_to_merge meta_special_attrs meta_all_fields abstract_dict meta_defaults.

(* ---- the invariant ----------------------------------------------------------- *)
(* every setting except `tag`: the own entry in _META is exactly what the user declared *)
Definition agree (o d : cmeta) : Prop :=
  forall k, is_setting k = true -> k <> k_tag -> cown k o = cown k d.

(* `tag`: what the user declared, or the class's own name where the user declared no (truthy) tag *)
Definition tag_ok (c : pstr) (o d : cmeta) : Prop :=
  cown k_tag o = cown k_tag d \/ (cown k_tag o = Some (VStr c) /\ otruthy (cown k_tag d) = false).

Definition Inv (st : tstate) : Prop :=
  forall c, agree (tget c (t_meta st)) (tget c (t_decl st)) /\ tag_ok c (tget c (t_meta st)) (tget c (t_decl st)).

Lemma tget_tset c c' m t : tget c (tset c' m t) = if pstr_eqb c c' then Some m else tget c t.
Proof. reflexivity. Qed.

Lemma tag_is_setting : is_setting k_tag = true.
Proof. vm_compute. reflexivity. Qed.

Lemma tag_default_falsy : otruthy (own k_tag abstract_dict) = false.
Proof. vm_compute. reflexivity. Qed.

Lemma Inv_st0 : Inv st0.
Proof. intros c. split; [intros k _ _; reflexivity|left; reflexivity]. Qed.

(* ---- user-level binding: both tables change in the same way -------------------- *)
Lemma cown_user_bind k c c' m t :
  cown k (tget c (user_bind c' m t)) =
    if pstr_eqb c c' then (if is_setting k then first_some (own k m) (cown k (tget c' t)) else
                             match tget c' t with None => own k m | Some old => own k old end)
    else cown k (tget c t).
Proof.
  unfold user_bind. destruct (tget c' t) as [old|] eqn:E; rewrite tget_tset; destruct (pstr_eqb c c') eqn:Ec; try reflexivity.
  - cbn [cown]. rewrite and_overlay. reflexivity.
  - cbn [cown]. destruct (is_setting k); [now destruct (own k m)|reflexivity].
Qed.

Lemma Inv_user_bind c m st :
  Inv st ->
  Inv {| t_meta := user_bind c m (t_meta st); t_decl := user_bind c m (t_decl st);
         t_parsed := t_parsed st; t_fuel_out := t_fuel_out st |}.
Proof.
  intros I x. cbn [t_meta t_decl]. destruct (I x) as [A T]. destruct (I c) as [Ac Tc].
  destruct (pstr_eqb x c) eqn:Exc.
  - apply pstr_eqb_eq in Exc; subst x. split.
    + intros k Hs Hk. rewrite !cown_user_bind, pstr_eqb_refl, Hs. now rewrite (Ac k Hs Hk).
    + unfold tag_ok. rewrite !cown_user_bind, pstr_eqb_refl, tag_is_setting.
      destruct (own k_tag m) as [v|]; cbn [first_some]; [now left|]. exact Tc.
  - split.
    + intros k Hs Hk. rewrite !cown_user_bind, Exc. now apply A.
    + unfold tag_ok. rewrite !cown_user_bind, Exc. exact T.
Qed.

(* ---- the library's own write ---------------------------------------------------- *)
Lemma cown_tag_write k c c' t :
  cown k (tget c (tag_write c' t)) =
    if pstr_eqb c c' then (if pstr_eqb k k_tag then Some (VStr c') else cown k (tget c' t))
    else cown k (tget c t).
Proof.
  unfold tag_write. destruct (tget c' t) as [m|] eqn:E; rewrite tget_tset; destruct (pstr_eqb c c') eqn:Ec; try reflexivity.
Qed.

Lemma pstr_eqb_neq a b : a <> b -> pstr_eqb a b = false.
Proof. intros H. destruct (pstr_eqb a b) eqn:E; [apply pstr_eqb_eq in E; contradiction|reflexivity]. Qed.

Lemma otruthy_cget_tag o : otruthy (cget k_tag o) = otruthy (cown k_tag o).
Proof.
  destruct o as [m|]; cbn [cget cown].
  - unfold get. destruct (own k_tag m); cbn [first_some]; [reflexivity|]. exact tag_default_falsy.
  - exact tag_default_falsy.
Qed.

Lemma Inv_autotag cfg c st : Inv st -> Inv (with_meta (autotag cfg c (t_meta st)) st).
Proof.
  intros I. unfold autotag.
  destruct (negb (otruthy (cget k_tag (tget c (t_meta st)))) && (impl_union_auto cfg || otruthy (cget k_auto (tget c (t_meta st))))) eqn:G.
  2:{ intros x. exact (I x). }
  apply andb_prop in G as [G _]. apply Bool.negb_true_iff in G. rewrite otruthy_cget_tag in G.
  intros x. cbn [with_meta t_meta t_decl]. destruct (I x) as [A T]. destruct (I c) as [Ac Tc].
  destruct (pstr_eqb x c) eqn:Exc.
  - apply pstr_eqb_eq in Exc; subst x. split.
    + intros k Hs Hk. rewrite cown_tag_write, pstr_eqb_refl, (pstr_eqb_neq _ _ Hk). now apply Ac.
    + right. rewrite cown_tag_write, !pstr_eqb_refl. split; [reflexivity|].
      destruct Tc as [E|[_ E]]; [now rewrite <- E|exact E].
  - split.
    + intros k Hs Hk. rewrite cown_tag_write, Exc. now apply A.
    + unfold tag_ok. rewrite cown_tag_write, Exc. exact T.
Qed.

(* ---- first load / dump of a root: only autotag steps touch the table -------------- *)
Lemma Inv_same_tables st st' :
  t_meta st' = t_meta st -> t_decl st' = t_decl st -> Inv st -> Inv st'.
Proof. intros Em Ed I c. rewrite Em, Ed. exact (I c). Qed.

Lemma Inv_fold {A} (f : tstate -> A -> tstate) l :
  (forall s x, Inv s -> Inv (f s x)) -> forall st, Inv st -> Inv (fold_left f l st).
Proof. intros H. induction l as [|x l IH]; cbn [fold_left]; intros st I; [exact I|]. apply IH. now apply H. Qed.

Lemma Inv_walk_visit fuel :
  (forall D cfg cache save c st, Inv st -> Inv (walk fuel D cfg cache save c st)) /\
  (forall D cfg cache t st, Inv st -> Inv (visit fuel D cfg cache t st)).
Proof.
  induction fuel as [|f [IHw IHv]]; split; intros; cbn [walk visit];
    try (now apply (Inv_same_tables st)).
  - (* walk *)
    destruct (cache && mem_str c (t_parsed st)); [assumption|].
    assert (I' : Inv (fold_left (fun s t => visit f D cfg cache t s) (fields_of D c) st)).
    { apply Inv_fold; [|assumption]. intros s x Is. now apply IHv. }
    destruct (cache && save); [|exact I']. now apply (Inv_same_tables _ _ eq_refl eq_refl).
  - (* visit *)
    destruct t as [|t'|t'|t'|ts|ts|c]; try assumption; try (now apply IHv).
    + apply Inv_fold; [|assumption]. intros s x Is. now apply IHv.
    + apply Inv_fold; [|assumption]. intros s x Is.
      destruct x; try (now apply IHv). apply Inv_autotag. now apply IHw.
    + now apply IHw.
Qed.

Lemma Inv_dvisit fuel :
  (forall D cfg main c st, Inv st -> Inv (dvisit_cls fuel D cfg main c st)) /\
  (forall D cfg t st, Inv st -> Inv (dvisit fuel D cfg t st)).
Proof.
  induction fuel as [|f [IHc IHv]]; split; intros; cbn [dvisit_cls dvisit];
    try (now apply (Inv_same_tables st)).
  - apply Inv_fold; [intros s x Is; now apply IHv|].
    destruct (otruthy _); [|assumption]. now apply (proj1 (Inv_walk_visit f)).
  - destruct t as [|t'|t'|t'|ts|ts|c]; try assumption; try (now apply IHv).
    + apply Inv_fold; [|assumption]. intros s x Is. now apply IHv.
    + apply Inv_fold; [|assumption]. intros s x Is. now apply IHv.
    + now apply IHc.
Qed.

Lemma Inv_hstep fuel D st op : Inv st -> Inv (hstep fuel D st op).
Proof.
  intros I. destruct op as [|c m|e r]; cbn [hstep]; [exact I|now apply Inv_user_bind|].
  unfold use_root. destruct e.
  - now apply (proj1 (Inv_walk_visit fuel)).
  - now apply (proj1 (Inv_dvisit fuel)).
  - now apply (proj1 (Inv_walk_visit fuel)).
Qed.

Lemma Inv_run fuel D h : Inv (run_hist fuel D h).
Proof.
  unfold run_hist. apply Inv_fold; [|exact Inv_st0]. intros s x Is. now apply Inv_hstep.
Qed.

(* statement form used in props/C12.v *)
Lemma table_invariant fuel D h c :
  let st := run_hist fuel D h in
  (forall k, is_setting k = true -> k <> k_tag -> cown k (tget c (t_meta st)) = cown k (tget c (t_decl st))) /\
  (cown k_tag (tget c (t_meta st)) = cown k_tag (tget c (t_decl st)) \/
   (cown k_tag (tget c (t_meta st)) = Some (VStr c) /\ otruthy (cown k_tag (tget c (t_decl st))) = false)).
Proof. exact (Inv_run fuel D h c). Qed.

(* ---- consequence for the cascade -------------------------------------------------- *)
Lemma recursive_not_tag : k_recursive <> k_tag.
Proof. intros H. discriminate (f_equal (fun s => pstr_eqb s k_tag) H). Qed.
Lemma recursive_is_setting : is_setting k_recursive = true.
Proof. vm_compute. reflexivity. Qed.

Lemma cget_of_cown k o :
  cget k o = match cown k o with Some v => Some v | None => own k abstract_dict end.
Proof. destruct o as [m|]; cbn [cget cown]; [|reflexivity]. unfold get. now destruct (own k m). Qed.

(* what the root contributes to a mergeable setting *)
Definition from_root (k : pstr) (r : cmeta) : option sval :=
  if cascades r && is_mergeable k then cget k r else own k abstract_dict.

Lemma from_root_agree k r r' :
  is_setting k = true -> k <> k_tag -> agree r r' -> from_root k r = from_root k r'.
Proof.
  intros Hs Hk A. unfold from_root.
  assert (Ck : cget k r = cget k r') by (rewrite !cget_of_cown; now rewrite (A k Hs Hk)).
  assert (Cr : cget k_recursive r = cget k_recursive r')
    by (rewrite !cget_of_cown; now rewrite (A k_recursive recursive_is_setting recursive_not_tag)).
  destruct (is_mergeable k); [|now rewrite !Bool.andb_false_r]. rewrite !Bool.andb_true_r.
  (* a root entry that holds no user-level setting contributes the defaults, whether it cascades or not *)
  assert (Dflt : forall x, cown k x = None -> cget k x = own k abstract_dict)
    by (intros x Hx; rewrite cget_of_cown; now rewrite Hx).
  destruct r as [m|], r' as [m'|]; cbn [cascades].
  - cbn [cget] in Cr. rewrite Cr, Ck. reflexivity.
  - assert (N : cown k (Some m) = None) by (rewrite (A k Hs Hk); reflexivity).
    destruct (otruthy (get k_recursive m)); [now apply Dflt|reflexivity].
  - assert (N : cown k (Some m') = None) by (rewrite <- (A k Hs Hk); reflexivity).
    destruct (otruthy (get k_recursive m')); [symmetry; now apply Dflt|reflexivity].
  - reflexivity.
Qed.

Lemma effective_agree k o d r r' :
  is_setting k = true -> k <> k_tag -> agree o d -> agree r r' ->
  cget k (effective o r) = cget k (effective d r').
Proof.
  intros Hs Hk Ao Ar. rewrite !effective_get by exact Hs. rewrite (Ao k Hs Hk).
  destruct (cown k d); [reflexivity|]. exact (from_root_agree k r r' Hs Hk Ar).
Qed.

Lemma table_cascade fuel D h n r k :
  let st := run_hist fuel D h in
  is_setting k = true -> k <> k_tag ->
  cget k (table_effective st n r) = cget k (declared_effective st n r).
Proof.
  intros st Hs Hk. unfold table_effective, declared_effective.
  apply effective_agree; try assumption; [exact (proj1 (Inv_run fuel D h n))|exact (proj1 (Inv_run fuel D h r))].
Qed.

Lemma tag_special : is_special k_tag = true.
Proof. vm_compute. reflexivity. Qed.

Lemma table_tag fuel D h n r :
  let st := run_hist fuel D h in
  cget k_tag (table_effective st n r) = cget k_tag (declared_effective st n r) \/
  (cget k_tag (table_effective st n r) = Some (VStr n) /\ otruthy (cget k_tag (declared_effective st n r)) = false).
Proof.
  intros st. unfold table_effective, declared_effective.
  rewrite !effective_get by exact tag_is_setting.
  rewrite (special_not_mergeable _ tag_special), !Bool.andb_false_r.
  destruct (proj2 (Inv_run fuel D h n)) as [E|[E F]]; fold st in E |- *.
  - left. now rewrite E.
  - right. fold st in F. rewrite E. split; [reflexivity|].
    destruct (cown k_tag (tget n (t_decl st))) as [v|]; [exact F|exact tag_default_falsy].
Qed.

(* ---- bridge to the shape grammar: nodes of a resolved type carry the table's own Meta --- *)
Lemma nodes_resolve_own fuel D tab cfg :
  forall t n, In n (nodes cfg (resolve fuel D tab t)) -> n_own n = tget (n_name n) tab.
Proof.
  induction fuel as [|f IH]; intros t n Hn; cbn [resolve] in Hn; [contradiction|].
  assert (L : forall ts, In n (flat_map (nodes cfg) (map (resolve f D tab) ts)) -> n_own n = tget (n_name n) tab).
  { intros ts H. apply in_flat_map in H as (x & Hx & Hn'). apply in_map_iff in Hx as (t0 & <- & _). now apply (IH t0). }
  destruct t as [|t'|t'|t'|ts|ts|c]; cbn [nodes] in Hn; try contradiction; try (now apply (IH t')); try (now apply (L ts)).
  destruct Hn as [<-|Hn]; [reflexivity|]. now apply (L (fields_of D c)).
Qed.

Lemma table_cascade_nodes fuel fuel' D h e r n k :
  let st := run_hist fuel D h in
  In n (nested_nodes e (tget r (t_meta st)) (map (resolve fuel' D (t_meta st)) (fields_of D r))) ->
  is_setting k = true -> k <> k_tag ->
  cget k (n_meta n) = cget k (declared_effective st (n_name n) r).
Proof.
  intros st Hn Hs Hk.
  rewrite (cascade _ _ _ _ Hn).
  assert (O : n_own n = tget (n_name n) (t_meta st)).
  { unfold nested_nodes in Hn. apply in_flat_map in Hn as (x & Hx & Hn).
    apply in_map_iff in Hx as (t0 & <- & _). exact (nodes_resolve_own fuel' D (t_meta st) _ t0 n Hn). }
  rewrite O. exact (table_cascade fuel D h (n_name n) r k Hs Hk).
Qed.
