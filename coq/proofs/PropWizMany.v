(* PropWizMany.v — C16 for declaration lists of any length: closed form of the
   class produced by property_wizard, its dataclass fields, and of the
   constructor's setter log / instance for every argument subset. *)
From DW Require Import PyStr CharFacts PropWiz PropWizDict PropWizExec PropWizPass.
From Coq Require Import Lia.

Opaque under_of.

Lemma flat_map_ext_in {X Y} (f g : X -> list Y) l :
  (forall x, In x l -> f x = g x) -> flat_map f l = flat_map g l.
Proof.
  induction l as [|a l IH]; cbn; auto. intro H. rewrite (H a) by now left.
  f_equal. apply IH. intros; apply H; now right.
Qed.

(* ---- specification objects ----------------------------------------------------------- *)
Definition field_ann (d : decl) : dict ty :=
  match d with DProp _ x t _ | DPlain x t _ => [(x, t)] | _ => [] end.

Definition rhs_fdefault (r : option rhs) : fdefault :=
  match r with
  | None => DReq
  | Some (RVal v) => DVal v
  | Some (RField fd) =>
      match fd_default fd, fd_factory fd with
      | Some v, _ => DVal v
      | None, Some f => DFac f
      | None, None => DReq
      end
  end.

(* the constructor parameters a declaration contributes *)
Definition spec_field (d : decl) : list (pstr * fdefault) :=
  match d with
  | DProp _ x t _ => if is_classvar t then [] else [(x, DPropObj)]
  | DPlain x t r => if is_classvar t then [] else [(x, rhs_fdefault r)]
  | _ => []
  end.

(* what _wrapper substitutes for a missing argument *)
Definition default_value (fd : fdef) (next : N) : value * N :=
  match fd_factory fd with
  | Some f => call_factory f next
  | None => (match fd_default fd with Some d => d | None => VNone end, next)
  end.

(* the per-declaration specification of the constructor call, threading the allocation counter *)
Fixpoint spec_init (dflt : style -> ty -> option rhs -> fdef) (ds : list decl) (args : dict value) (r : run)
  : result run :=
  match ds with
  | [] => Ok r
  | DProp st x t rh :: rest =>
      if is_classvar t then spec_init dflt rest args r else
      let '(v, nx) := match dget x args with
                      | Some v => (v, nxt r)
                      | None => default_value (dflt st t rh) (nxt r)
                      end in
      spec_init dflt rest args {| log := log r ++ [(x, v)]; inst := dset (under_of x) v (inst r); nxt := nx |}
  | DPlain x t rh :: rest =>
      if is_classvar t then spec_init dflt rest args r else
      match dget x args with
      | Some v => spec_init dflt rest args {| log := log r; inst := dset x v (inst r); nxt := nxt r |}
      | None =>
          match rhs_fdefault rh with
          | DReq => Err (EMissingArg x)
          | DVal v => spec_init dflt rest args {| log := log r; inst := dset x v (inst r); nxt := nxt r |}
          | DFac f => let '(v, nx) := call_factory f (nxt r) in
                      spec_init dflt rest args {| log := log r; inst := dset x v (inst r); nxt := nx |}
          | DPropObj => Err (EMissingArg x)      (* not a value of rhs_fdefault *)
          end
      end
  | _ :: rest => spec_init dflt rest args r
  end.

(* ---- the class --------------------------------------------------------------------------- *)
Section Class.
Variable ds : list decl.
Hypothesis Hok : names_ok ds.

Lemma map_pair_id {X Y} (l : list (X * Y)) : map (fun e => (fst e, snd e)) l = l.
Proof. induction l as [|[a b] l IH]; cbn; auto. now rewrite IH. Qed.

Lemma rename_fold (rp : dict pstr) : forall (an acc : dict ty),
  NoDup (keys acc ++ map (fun e => match dget (fst e) rp with Some g => g | None => fst e end) an) ->
  fold_left (fun acc e => dset (match dget (fst e) rp with Some g => g | None => fst e end) (snd e) acc) an acc
  = acc ++ map (fun e => (match dget (fst e) rp with Some g => g | None => fst e end, snd e)) an.
Proof.
  induction an as [|[k t] an IH]; intros acc ND; cbn.
  - now rewrite app_nil_r.
  - cbn in ND.
    assert (Hk : ~ In (match dget k rp with Some g => g | None => k end) (keys acc)).
    { apply NoDup_remove_2 in ND. intro H. apply ND. apply in_or_app. now left. }
    rewrite (dset_notin _ _ _ Hk). rewrite IH.
    + now rewrite <- app_assoc.
    + unfold keys in *. rewrite map_app. cbn. now rewrite <- app_assoc.
Qed.

Lemma field_ann_local d n : foot d n = false -> dget n (field_ann d) = None.
Proof.
  intro F. destruct (foot_false _ _ F) as [F1 _].
  destruct d as [st x t r|x t r|x|x]; cbn in *; now rewrite ?F1.
Qed.

Lemma field_keys_nodup l : NoDup (map decl_name l) -> NoDup (keys (flat_map field_ann l)).
Proof.
  induction l as [|d l IH]; cbn; [constructor|]. intro ND. inversion ND as [|? ? Hn ND']. subst.
  assert (Hsub : forall k, In k (keys (flat_map field_ann l)) -> In k (map decl_name l)).
  { clear. induction l as [|d l IH]; cbn; auto. unfold keys in *. rewrite map_app.
    intros k H. apply in_app_or in H as [H|H]; auto.
    destruct d as [st x t r|x t r|x|x]; cbn in H; try tauto; destruct H as [H|[]]; now left. }
  unfold keys in *. rewrite map_app.
  destruct d as [st x t r|x t r|x|x]; cbn; auto; constructor; auto.
Qed.

Theorem class_closed_form b : Layout ds b ->
  let c := make_class b in
  anns c = flat_map field_ann ds /\
  (forall n, dget n (attrs c) = final_attr ds n) /\
  NoDup (keys (attrs c)).
Proof.
  intros L c. destruct (pass_closed_form ds Hok b L) as (H1 & H2 & H3).
  destruct (exec_layout ds b Hok L) as (EA & _ & _).
  subst c. unfold make_class, property_wizard. cbn [anns attrs].
  set (st := fold_left _ _ _) in *. repeat split; auto.
  rewrite EA.
  assert (Hmap : map (fun e => (match dget (fst e) (repls st) with Some g => g | None => fst e end, snd e))
                     (flat_map ann_of ds) = flat_map field_ann ds).
  { rewrite map_flat_map. apply flat_map_ext_in. intros d Hd.
    assert (Hpub : starts_us (decl_name d) = false).
    { destruct Hok as [_ F]. rewrite Forall_forall in F. auto. }
    assert (HR : forall u, foot d u = true -> dget u (repls st) = repl1 d u).
    { intros u Fu. rewrite H2. unfold final_repl. now rewrite (find_decl_unique ds d u Hok Hd Fu). }
    pose proof (HR _ (foot_name d)) as R1. pose proof (HR _ (foot_under d)) as R2.
    destruct d as [sty x t r|x t r|x|x]; try destruct sty; cbn in *; rewrite ?R1, ?R2;
      revert R1 R2; eqbs; auto. }
  assert (ND : NoDup (keys (flat_map field_ann ds))) by (apply field_keys_nodup; apply Hok).
  destruct (repls st) eqn:Er.
  - rewrite <- Hmap. cbn. now rewrite map_pair_id.
  - rewrite <- Er in *. unfold rename_anns. rewrite rename_fold.
    + cbn. exact Hmap.
    + cbn. rewrite <- Hmap in ND. unfold keys in ND. rewrite map_map in ND. exact ND.
Qed.

(* ---- dataclass fields ------------------------------------------------------------------------ *)
Lemma stray_none an at_ :
  (forall n fd, In (n, CFieldObj fd) at_ -> dmem n an = true) -> stray_field an at_ = None.
Proof.
  induction at_ as [|[n c] r IH]; cbn; auto. intro H.
  assert (IH' : stray_field an r = None) by (apply IH; intros; eapply H; right; eauto).
  destruct c; auto. now rewrite (H n fd (or_introl eq_refl)).
Qed.

Lemma final_attr_name d : In d ds -> final_attr ds (decl_name d) = attr1 d (decl_name d).
Proof. intro Hd. unfold final_attr. now rewrite (find_decl_unique ds d _ Hok Hd (foot_name d)). Qed.

Lemma attr1_plain x t r : attr1 (DPlain x t r) x = option_map cval_of_rhs r.
Proof. destruct r as [rh|]; cbn; unfold attr0, decl_stmts; cbn; eqbs; auto. Qed.

Lemma field_default_plain at_ x r :
  dget x at_ = option_map cval_of_rhs r -> field_default at_ x = rhs_fdefault r.
Proof. unfold field_default. intros ->. now destruct r as [[v|fd]|]. Qed.

Definition fields_ordered : Prop := order_error false (flat_map spec_field ds) = None.

Theorem fields_closed_form b : Layout ds b -> fields_ordered ->
  dataclass_fields (make_class b) = Ok (flat_map spec_field ds).
Proof.
  intros L Hord. destruct (class_closed_form b L) as (HA & HT & ND).
  unfold dataclass_fields. rewrite HA.
  rewrite stray_none.
  2:{ intros n fd Hin. apply (in_dget _ _ _ ND) in Hin. rewrite HT in Hin. unfold final_attr in Hin.
      destruct (find_decl n ds) as [d|] eqn:Hn; [|discriminate].
      apply find_decl_some in Hn as [Hd Fn].
      destruct d as [sty x t r|x t r|x|x].
      - cbn in Hin. destruct (pstr_eqb n x); discriminate.
      - unfold dmem. rewrite (dget_flat field_ann ds n Hok (fun d => field_ann_local d n)).
        rewrite (find_decl_unique ds _ n Hok Hd Fn). cbn.
        destruct (pstr_eqb n x) eqn:E; auto.
        exfalso. destruct (foot_cases _ _ Fn) as [E'|E']; cbn in E'; subst n.
        + now rewrite pstr_eqb_refl in E.
        + cbn in Hin. unfold attr0, decl_stmts in Hin. destruct r as [rh|]; cbn in Hin;
            revert Hin; eqbs; discriminate.
      - cbn in Hin. unfold attr0, decl_stmts in Hin. cbn in Hin. destruct (pstr_eqb n x); discriminate.
      - cbn in Hin. unfold attr0, decl_stmts in Hin. cbn in Hin. destruct (pstr_eqb n x); discriminate. }
  assert (E : map (fun e => (fst e, field_default (attrs (make_class b)) (fst e)))
                  (filter (fun e => negb (is_classvar (snd e))) (flat_map field_ann ds))
              = flat_map spec_field ds).
  { assert (G : forall l, (forall d, In d l -> In d ds) ->
        map (fun e => (fst e, field_default (attrs (make_class b)) (fst e)))
            (filter (fun e => negb (is_classvar (snd e))) (flat_map field_ann l)) = flat_map spec_field l).
    { induction l as [|d l IH]; intro Hin; [reflexivity|]. cbn [flat_map].
      rewrite filter_app, map_app, IH by (intros; apply Hin; now right). f_equal.
      assert (Hd : In d ds) by (apply Hin; now left).
      pose proof (HT (decl_name d)) as Hx. rewrite (final_attr_name d Hd) in Hx.
      destruct d as [sty x t r|x t r|x|x]; cbn [decl_name] in Hx; cbn [field_ann spec_field]; auto;
        cbn [filter snd]; destruct (is_classvar t); cbn [negb map fst]; auto.
      - unfold field_default. cbn [attr1] in Hx. revert Hx. eqbs. now intros ->.
      - rewrite attr1_plain in Hx. now rewrite (field_default_plain _ x r Hx). }
    apply G. auto. }
  rewrite E. unfold fields_ordered in Hord. now rewrite Hord.
Qed.

(* ---- constructor ------------------------------------------------------------------------------- *)
Definition args_plain (args : dict value) : Prop := Forall (fun a => is_prop (snd a) = false) args.

Lemma args_plain_get args x v : args_plain args -> dget x args = Some v -> is_prop v = false.
Proof.
  intros H E. apply dget_some_in in E. unfold args_plain in H. rewrite Forall_forall in H.
  exact (H _ E).
Qed.

Lemma init_closed at_ args : args_plain args ->
  forall l r, (forall d, In d l -> dget (decl_name d) at_ = attr1 d (decl_name d)) ->
  init_fields at_ (flat_map spec_field l) args r = spec_init eff_default l args r.
Proof.
  intros Hpl. induction l as [|d l IH]; intros r Hat; cbn [flat_map spec_init]; auto.
  assert (IH' : forall r, init_fields at_ (flat_map spec_field l) args r = spec_init eff_default l args r)
    by (intro; apply IH; intros; apply Hat; now right).
  pose proof (Hat d (or_introl eq_refl)) as Hx.
  destruct d as [sty x t rh|x t rh|x|x]; cbn [spec_field decl_name] in *; auto.
  - destruct (is_classvar t); cbn [app]; auto.
    cbn [init_fields]. cbn in Hx. revert Hx. eqbs. intro Hx.
    destruct (dget x args) as [v|] eqn:Ea.
    + unfold set_attr. rewrite Hx. unfold wrapped_value.
      rewrite (args_plain_get args x v Hpl Ea). apply IH'.
    + unfold set_attr. rewrite Hx. unfold wrapped_value. cbn [is_prop].
      fold (default_value (eff_default sty t rh) (nxt r)).
      destruct (default_value (eff_default sty t rh) (nxt r)) as [v nx]. apply IH'.
  - destruct (is_classvar t); cbn [app]; auto.
    cbn [init_fields]. rewrite attr1_plain in Hx.
    assert (Hset : forall v r', set_attr at_ r' x v = Ok {| log := log r'; inst := dset x v (inst r'); nxt := nxt r' |}).
    { intros v r'. unfold set_attr. rewrite Hx. now destruct rh as [[w|fd]|]. }
    destruct (dget x args) as [v|] eqn:Ea.
    + rewrite Hset. apply IH'.
    + destruct (rhs_fdefault rh) eqn:Ed; auto.
      * rewrite Hset. apply IH'.
      * destruct (call_factory f (nxt r)) as [v nx]. rewrite Hset. apply IH'.
      * destruct rh as [[w|fd]|]; cbn in Ed; try discriminate.
        destruct (fd_default fd), (fd_factory fd); discriminate.
Qed.

Lemma unexpected_none fs args :
  Forall (fun a => dmem (fst a) fs = true) args -> unexpected fs args = None.
Proof.
  induction args as [|[n v] r IH]; cbn; auto. intro H. inversion H. subst. cbn in *.
  rewrite H2. auto.
Qed.

Definition args_known (args : dict value) : Prop :=
  Forall (fun a => dmem (fst a) (flat_map spec_field ds) = true) args.

Theorem construct_closed_form b args next :
  Layout ds b -> fields_ordered -> args_known args -> args_plain args ->
  construct (make_class b) args next = spec_init eff_default ds args {| log := []; inst := []; nxt := next |}.
Proof.
  intros L Hord Hkn Hpl. unfold construct. rewrite (fields_closed_form b L Hord).
  rewrite (unexpected_none _ _ Hkn).
  destruct (class_closed_form b L) as (_ & HT & _).
  apply init_closed; auto. intros d Hd. rewrite HT. now apply final_attr_name.
Qed.

End Class.
