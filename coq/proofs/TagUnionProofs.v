(* TagUnionProofs.v — lemmas about tagged-Union dispatch (C13). *)
From DW Require Import PyStr CharFacts TagUnion.
From Coq Require Import Permutation Lia.

(* ---- hypotheses of the dispatch theorems ------------------------------------ *)
(* forced by the tag -> parser map: two members never carry the same (explicit or auto-assigned) tag *)
Definition tags_injective (c : uconf) (args : list arg) : Prop :=
  forall m1 m2 t, In (AData m1) args -> In (AData m2) args ->
                  eff_tag c m1 = Some t -> eff_tag c m2 = Some t -> m1 = m2.

(* forced by v1's generated function names: two tagged members never share __name__ *)
Definition names_injective (c : uconf) (args : list arg) : Prop :=
  forall m1 m2, In (AData m1) args -> In (AData m2) args ->
                is_some (eff_tag c m1) = true -> is_some (eff_tag c m2) = true ->
                m_name m1 = m_name m2 -> m1 = m2.

Lemma opt_eqb_true a t : opt_eqb a t = true <-> a = Some t.
Proof.
  destruct a as [x|]; cbn [opt_eqb]; [|split; discriminate].
  rewrite pstr_eqb_eq. split; [now intros ->|now intros [= ->]].
Qed.

(* ---- tag_lookup ---------------------------------------------------------------- *)
Lemma tag_lookup_some c t args m :
  tag_lookup c t args = Some m -> In (AData m) args /\ eff_tag c m = Some t.
Proof.
  induction args as [|a r IH]; cbn [tag_lookup]; [discriminate|].
  destruct (tag_lookup c t r) as [m'|] eqn:E.
  - intros [= <-]. destruct (IH eq_refl) as [Hin Ht]. split; [now right|exact Ht].
  - destruct a as [m0| |]; try discriminate.
    destruct (opt_eqb (eff_tag c m0) t) eqn:O; [|discriminate].
    intros [= <-]. split; [now left|now apply opt_eqb_true].
Qed.

Lemma tag_lookup_none c t args :
  tag_lookup c t args = None -> forall m, In (AData m) args -> eff_tag c m <> Some t.
Proof.
  induction args as [|a r IH]; cbn [tag_lookup]; [intros _ m []|].
  destruct (tag_lookup c t r) as [m'|] eqn:E; [discriminate|].
  intros H m [->|Hin]; [|now apply IH].
  intros Ht. apply opt_eqb_true in Ht. now rewrite Ht in H.
Qed.

Lemma tag_lookup_inj c t args m :
  tags_injective c args -> In (AData m) args -> eff_tag c m = Some t -> tag_lookup c t args = Some m.
Proof.
  intros Inj Hin Ht. destruct (tag_lookup c t args) as [m'|] eqn:E.
  - destruct (tag_lookup_some _ _ _ _ E) as [Hin' Ht']. f_equal. exact (Inj m' m t Hin' Hin Ht' Ht).
  - exfalso. exact (tag_lookup_none _ _ _ E m Hin Ht).
Qed.

Lemma tags_injective_perm c args args' :
  Permutation args args' -> tags_injective c args -> tags_injective c args'.
Proof.
  intros P Inj m1 m2 t H1 H2. apply Inj; eapply Permutation_in; try apply Permutation_sym; eassumption.
Qed.

Lemma names_injective_perm c args args' :
  Permutation args args' -> names_injective c args -> names_injective c args'.
Proof.
  intros P Inj m1 m2 H1 H2. apply Inj; eapply Permutation_in; try apply Permutation_sym; eassumption.
Qed.

Lemma tag_lookup_perm c t args args' :
  Permutation args args' -> tags_injective c args -> tag_lookup c t args = tag_lookup c t args'.
Proof.
  intros P Inj. destruct (tag_lookup c t args) as [m|] eqn:E.
  - destruct (tag_lookup_some _ _ _ _ E) as [Hin Ht]. symmetry.
    apply tag_lookup_inj; [eapply tags_injective_perm; eassumption| |exact Ht].
    eapply Permutation_in; eassumption.
  - destruct (tag_lookup c t args') as [m'|] eqn:E'; [|reflexivity].
    destruct (tag_lookup_some _ _ _ _ E') as [Hin Ht]. exfalso.
    apply (tag_lookup_none _ _ _ E m'); [|exact Ht].
    eapply Permutation_in; [apply Permutation_sym; eassumption|exact Hin].
Qed.

(* ---- fn_member (v1) -------------------------------------------------------------- *)
Lemma fn_member_some c name args m :
  fn_member c name args = Some m -> In (AData m) args /\ is_some (eff_tag c m) = true /\ m_name m = name.
Proof.
  induction args as [|a r IH]; cbn [fn_member]; [discriminate|].
  destruct (fn_member c name r) as [m'|] eqn:E.
  - intros [= <-]. destruct (IH eq_refl) as (Hin & H1 & H2). repeat split; auto. now right.
  - destruct a as [m0| |]; try discriminate.
    destruct (is_some (eff_tag c m0) && pstr_eqb (m_name m0) name) eqn:O; [|discriminate].
    intros [= <-]. apply andb_prop in O as [O1 O2]. apply pstr_eqb_eq in O2. repeat split; auto. now left.
Qed.

Lemma fn_member_none c name args :
  fn_member c name args = None ->
  forall m, In (AData m) args -> is_some (eff_tag c m) = true -> m_name m <> name.
Proof.
  induction args as [|a r IH]; cbn [fn_member]; [intros _ m []|].
  destruct (fn_member c name r) as [m'|] eqn:E; [discriminate|].
  intros H m [->|Hin] Hs; [|now apply IH].
  intros Hn. rewrite Hs in H. cbn [andb] in H.
  assert (T : pstr_eqb (m_name m) name = true) by now apply pstr_eqb_eq. now rewrite T in H.
Qed.

Lemma fn_member_inj c args m :
  names_injective c args -> In (AData m) args -> is_some (eff_tag c m) = true ->
  fn_member c (m_name m) args = Some m.
Proof.
  intros Inj Hin Hs. destruct (fn_member c (m_name m) args) as [m'|] eqn:E.
  - destruct (fn_member_some _ _ _ _ E) as (Hin' & Hs' & Hn). f_equal. exact (Inj m' m Hin' Hin Hs' Hs Hn).
  - exfalso. exact (fn_member_none _ _ _ E m Hin Hs eq_refl).
Qed.

(* ---- dict helpers ------------------------------------------------------------------ *)
Lemma lookup_dict_set_same k v items : lookup k (dict_set k v items) = Some v.
Proof.
  induction items as [|[k' v'] r IH]; cbn [dict_set lookup].
  - now rewrite pstr_eqb_refl.
  - destruct (pstr_eqb k k') eqn:E; cbn [lookup]; rewrite E; [reflexivity|exact IH].
Qed.

Lemma dict_set_fresh k v items :
  ~ In k (map fst items) -> dict_set k v items = items ++ [(k, v)].
Proof.
  induction items as [|[k' v'] r IH]; cbn [dict_set map fst app In]; [reflexivity|].
  intros H. destruct (pstr_eqb k k') eqn:E.
  - apply pstr_eqb_eq in E. subst. exfalso. apply H. now left.
  - f_equal. apply IH. intros Hin. apply H. now right.
Qed.

Lemma lookup_app_fresh k items rest :
  ~ In k (map fst items) -> lookup k (items ++ rest) = lookup k rest.
Proof.
  induction items as [|[k' v'] r IH]; cbn [map fst app In lookup]; [reflexivity|].
  intros H. destruct (pstr_eqb k k') eqn:E.
  - apply pstr_eqb_eq in E. subst. exfalso. apply H. now left.
  - apply IH. intros Hin. apply H. now right.
Qed.

Lemma lookup_in full : NoDup (map fst full) -> forall k v, In (k, v) full -> lookup k full = Some v.
Proof.
  induction full as [|[k' v'] r IH]; cbn [map fst lookup]; intros ND k v Hin; [destruct Hin|].
  inversion ND as [|x l Hnin ND']; subst.
  destruct Hin as [[= -> ->]|Hin].
  - now rewrite pstr_eqb_refl.
  - destruct (pstr_eqb k k') eqn:E.
    + apply pstr_eqb_eq in E. subst. exfalso. apply Hnin. apply (in_map fst) in Hin. exact Hin.
    + now apply IH.
Qed.

Lemma collect_sub l full dfl :
  (forall k v, In (k, v) l -> lookup k full = Some v) -> collect (map fst l) full dfl = Some l.
Proof.
  induction l as [|[k v] r IH]; cbn [map fst collect]; intros H; [reflexivity|].
  rewrite (H k v (or_introl eq_refl)). cbn [first_jv]. rewrite IH; [reflexivity|].
  intros k' v' Hin. apply H. now right.
Qed.

Lemma collect_self vals dfl : NoDup (map fst vals) -> collect (map fst vals) vals dfl = Some vals.
Proof. intros ND. apply collect_sub. intros k v. now apply lookup_in. Qed.

Lemma mem_str_In k l : mem_str k l = true <-> In k l.
Proof.
  induction l as [|a l IH]; cbn [mem_str In]; [split; [discriminate|tauto]|].
  rewrite Bool.orb_true_iff, IH, pstr_eqb_eq. split; intros [H|H]; auto.
Qed.

Lemma not_field_not_in k m : is_field k m = false -> ~ In k (m_fields m).
Proof. unfold is_field. intros H Hin. apply mem_str_In in Hin. congruence. Qed.

(* ---- member loaders on a dumped instance ------------------------------------------- *)
Lemma scan_fields c m wl rest extra vals :
  forall acc,
    (forall kv, In kv vals -> is_field (fst kv) m = true) ->
    NoDup (map fst (acc ++ vals)) ->
    scan_v0 c m wl (vals ++ rest) acc extra = scan_v0 c m wl rest (acc ++ vals) extra.
Proof.
  induction vals as [|[k v] r IH]; intros acc Hf ND; cbn [app].
  - now rewrite app_nil_r.
  - cbn [scan_v0]. pose proof (Hf (k, v) (or_introl eq_refl)) as Hkf. cbn [fst] in Hkf. rewrite Hkf.
    assert (Fresh : ~ In k (map fst acc)).
    { rewrite map_app in ND. cbn [map fst] in ND. apply NoDup_remove_2 in ND.
      intros Hin. apply ND. apply in_or_app. now left. }
    rewrite (dict_set_fresh k v acc Fresh).
    rewrite IH.
    + now rewrite <- app_assoc.
    + intros kv Hin. apply Hf. now right.
    + now rewrite <- app_assoc.
Qed.

Definition conforming (m : member) (vals : list (pstr * jv)) : Prop :=
  map fst vals = m_fields m /\ NoDup (m_fields m).

Lemma conforming_fields m vals : conforming m vals -> forall kv, In kv vals -> is_field (fst kv) m = true.
Proof.
  intros [Hm _] kv Hin. unfold is_field. apply mem_str_In. rewrite <- Hm. now apply in_map.
Qed.

(* the tag key is accepted silently: whitelisted, or the member neither raises nor captures *)
Definition tag_key_tolerated_v0 (c : uconf) (pre : bool) (m : member) : Prop :=
  whitelisted_v0 c pre m = true \/ (m_raise m = false /\ m_catchall m = false).

Lemma load_member_v0_dumped c pre m vals t :
  conforming m vals -> is_field (u_tag_key c) m = false -> tag_key_tolerated_v0 c pre m ->
  load_member_v0 c pre m (dict_set (u_tag_key c) (JStr t) vals) = Ok (LInst m vals []).
Proof.
  intros Hc Hk Htol. pose proof Hc as [Hm ND].
  assert (Fresh : ~ In (u_tag_key c) (map fst vals)) by (rewrite Hm; now apply not_field_not_in).
  rewrite (dict_set_fresh _ _ _ Fresh). unfold load_member_v0.
  rewrite (scan_fields c m _ [(u_tag_key c, JStr t)] [] vals []).
  - cbn [app scan_v0]. rewrite Hk.
    assert (Fin : collect (m_fields m) vals (m_defaults m) = Some vals).
    { rewrite <- Hm. apply collect_self. now rewrite Hm. }
    destruct Htol as [W|[R Ca]].
    + rewrite W, pstr_eqb_refl. cbn [andb]. now rewrite Fin.
    + destruct (whitelisted_v0 c pre m && pstr_eqb (u_tag_key c) (u_tag_key c)).
      * now rewrite Fin.
      * rewrite R, Ca. now rewrite Fin.
  - now apply conforming_fields.
  - cbn [app]. now rewrite Hm.
Qed.

Lemma filter_all {A} (f : A -> bool) l : (forall x, In x l -> f x = true) -> filter f l = l.
Proof.
  induction l as [|a l IH]; cbn [filter]; intros H; [reflexivity|].
  rewrite (H a (or_introl eq_refl)). f_equal. apply IH. intros x Hx. apply H. now right.
Qed.

Lemma filter_none {A} (f : A -> bool) l : (forall x, In x l -> f x = false) -> filter f l = [].
Proof.
  induction l as [|a l IH]; cbn [filter]; intros H; [reflexivity|].
  rewrite (H a (or_introl eq_refl)). apply IH. intros x Hx. apply H. now right.
Qed.

Lemma load_member_v1_dumped c m vals t :
  conforming m vals -> is_field (u_tag_key c) m = false -> eff_tag c m = Some t ->
  load_member_v1 c m (dict_set (u_tag_key c) (JStr t) vals) = Ok (LInst m vals []).
Proof.
  intros Hc Hk Ht. pose proof Hc as [Hm ND].
  assert (Fresh : ~ In (u_tag_key c) (map fst vals)) by (rewrite Hm; now apply not_field_not_in).
  rewrite (dict_set_fresh _ _ _ Fresh). unfold load_member_v1, whitelisted_v1.
  rewrite Ht, Hk. cbn [is_some negb andb].
  rewrite !filter_app. cbn [filter fst]. rewrite Hk, pstr_eqb_refl. cbn [negb andb].
  rewrite (filter_none _ vals), (filter_all _ vals).
  - cbn [app]. rewrite app_nil_r, Bool.andb_false_r.
    assert (Fin : collect (m_fields m) vals (m_defaults m) = Some vals).
    { rewrite <- Hm. apply collect_self. now rewrite Hm. }
    rewrite Fin. now destruct (m_catchall m).
  - intros kv Hin. now apply (conforming_fields m vals Hc).
  - intros kv Hin. now rewrite (conforming_fields m vals Hc kv Hin).
Qed.

(* ---- scalars ------------------------------------------------------------------------ *)
Lemma scalar_eqb_refl s : scalar_eqb s s = true.
Proof. now destruct s. Qed.

Lemma scan_scalars_nonscalar args o : scalar_of o = None -> scan_scalars args o = None.
Proof.
  intros H. induction args as [|a r IH]; cbn [scan_scalars]; [reflexivity|].
  destruct a; try exact IH. now rewrite H.
Qed.

Lemma scan_scalars_in args o s :
  scalar_of o = Some s -> In (AScalar s) args -> scan_scalars args o = Some o.
Proof.
  intros Hs. induction args as [|a r IH]; intros Hin; [destruct Hin|].
  cbn [scan_scalars]. destruct a as [m|s0|].
  - destruct Hin as [H|H]; [discriminate|now apply IH].
  - rewrite Hs. destruct (scalar_eqb s0 s) eqn:E; [reflexivity|].
    destruct Hin as [[= ->]|H]; [now rewrite scalar_eqb_refl in E|now apply IH].
  - destruct Hin as [H|H]; [discriminate|now apply IH].
Qed.

Definition matches (o : jv) (a : arg) : bool :=
  match a, scalar_of o with AScalar s, Some s' => scalar_eqb s s' | _, _ => false end.

Lemma scan_scalars_char args o :
  scan_scalars args o = if existsb (matches o) args then Some o else None.
Proof.
  induction args as [|a r IH]; cbn [scan_scalars existsb]; [reflexivity|].
  destruct a as [m|s|]; cbn [matches orb]; try exact IH.
  destruct (scalar_of o) as [s'|]; [|exact IH].
  destruct (scalar_eqb s s'); [reflexivity|exact IH].
Qed.

Lemma existsb_perm {A} (f : A -> bool) l l' : Permutation l l' -> existsb f l = existsb f l'.
Proof.
  intros P. destruct (existsb f l) eqn:E; symmetry.
  - apply existsb_exists in E as (x & Hin & Hx). apply existsb_exists. exists x. split; [|exact Hx].
    eapply Permutation_in; eassumption.
  - destruct (existsb f l') eqn:E'; [|reflexivity].
    apply existsb_exists in E' as (x & Hin & Hx).
    assert (T : existsb f l = true).
    { apply existsb_exists. exists x. split; [|exact Hx].
      eapply Permutation_in; [apply Permutation_sym; eassumption|exact Hin]. }
    congruence.
Qed.

Lemma scan_scalars_perm args args' o : Permutation args args' -> scan_scalars args o = scan_scalars args' o.
Proof. intros P. rewrite !scan_scalars_char. now rewrite (existsb_perm _ _ _ P). Qed.

(* ---- valid_tags under permutation ---------------------------------------------------- *)
Lemma dedup_in x l : In x (dedup l) <-> In x l.
Proof.
  induction l as [|a r IH]; cbn [dedup In]; [tauto|].
  rewrite filter_In, IH. split.
  - intros [H|[H _]]; auto.
  - intros [H|H]; [now left|].
    destruct (pstr_eqb x a) eqn:E.
    + apply pstr_eqb_eq in E. left. now symmetry.
    + right. split; [exact H|reflexivity].
Qed.

Lemma dedup_nodup l : NoDup (dedup l).
Proof.
  induction l as [|a r IH]; cbn [dedup]; constructor.
  - rewrite filter_In. intros [_ H]. now rewrite pstr_eqb_refl in H.
  - now apply NoDup_filter.
Qed.

Lemma valid_tags_perm c args args' :
  Permutation args args' -> Permutation (valid_tags c args) (valid_tags c args').
Proof.
  intros P. unfold valid_tags. apply NoDup_Permutation; try apply dedup_nodup.
  intros x. rewrite !dedup_in, !in_flat_map. split; intros (a & Hin & Hx); exists a; split; auto.
  - eapply Permutation_in; eassumption.
  - eapply Permutation_in; [apply Permutation_sym; eassumption|exact Hin].
Qed.

(* ---- the Union loaders on a dumped member instance ------------------------------------ *)
Lemma load_union_v0_dumped c pre built args m vals t :
  tags_injective c args -> In (AData m) args -> eff_tag c m = Some t -> dump_tag c built m = Some t ->
  conforming m vals -> is_field (u_tag_key c) m = false -> tag_key_tolerated_v0 c pre m ->
  load_union_v0 c pre args (dump_member c built m vals) = Ok (LInst m vals []).
Proof.
  intros Inj Hin Ht Hd Hc Hk Htol. unfold dump_member. rewrite Hd. unfold load_union_v0.
  rewrite scan_scalars_nonscalar by reflexivity.
  rewrite lookup_dict_set_same, (tag_lookup_inj c t args m Inj Hin Ht).
  now apply load_member_v0_dumped.
Qed.

Lemma load_union_v1_dumped coerce c built args m vals t :
  tags_injective c args -> names_injective c args -> In (AData m) args -> eff_tag c m = Some t ->
  dump_tag c built m = Some t ->
  conforming m vals -> is_field (u_tag_key c) m = false ->
  load_union_v1 coerce c args (dump_member c built m vals) = Ok (LInst m vals []).
Proof.
  intros Inj NInj Hin Ht Hd Hc Hk. unfold dump_member. rewrite Hd. unfold load_union_v1.
  rewrite lookup_dict_set_same, (tag_lookup_inj c t args m Inj Hin Ht).
  rewrite (fn_member_inj c args m NInj Hin) by now rewrite Ht.
  now apply load_member_v1_dumped.
Qed.

(* ---- conforming values at container positions -------------------------------------------- *)
(* `dump_tag c built m = Some t` next to `eff_tag c m = Some t`: the dumper emits the tag the loader dispatches on
   (region hypothesis forced by finding F62: a tag that only the member's own auto_assign_tags assigns is emitted
   only when the container's Union parser was built before) *)
Inductive leaf_v0 (c : uconf) (pre built : bool) (args : list arg) : lv -> Prop :=
| leaf_v0_inst m vals t :
    In (AData m) args -> eff_tag c m = Some t -> dump_tag c built m = Some t -> conforming m vals ->
    is_field (u_tag_key c) m = false -> tag_key_tolerated_v0 c pre m ->
    leaf_v0 c pre built args (LInst m vals [])
| leaf_v0_scalar j s :
    scalar_of j = Some s -> In (AScalar s) args -> leaf_v0 c pre built args (LScalar j).

Inductive leaf_v1 (c : uconf) (built : bool) (args : list arg) : lv -> Prop :=
| leaf_v1_inst m vals t :
    In (AData m) args -> eff_tag c m = Some t -> dump_tag c built m = Some t -> conforming m vals ->
    is_field (u_tag_key c) m = false ->
    leaf_v1 c built args (LInst m vals [])
| leaf_v1_scalar j s :
    scalar_of j = Some s -> In (AScalar s) args -> leaf_v1 c built args (LScalar j).

Inductive shaped (c : uconf) (built : bool) (L : lv -> Prop) : pos -> lv -> Prop :=
| sh_here v : L v -> shaped c built L PHere v
| sh_opt_none p : shaped c built L (POpt p) LNone
| sh_opt p v : shaped c built L p v -> dump_lv c built v <> JNull -> shaped c built L (POpt p) v
| sh_list p l : Forall (shaped c built L p) l -> shaped c built L (PList p) (LList l)
| sh_dict p items : Forall (fun kv => shaped c built L p (snd kv)) items -> shaped c built L (PDict p) (LDict items)
| sh_tuple p v n : shaped c built L p v -> shaped c built L (PTuple p) (LTuple [v; LScalar (JInt n)])
| sh_vtuple p l : Forall (shaped c built L p) l -> shaped c built L (PVTuple p) (LTuple l).

Lemma mapM_ok (g : jv -> res) (d : lv -> jv) l :
  Forall (fun v => g (d v) = Ok v) l -> mapM g (map d l) = (Some l, None).
Proof.
  induction 1 as [|v l Hv _ IH]; cbn [map mapM]; [reflexivity|].
  rewrite Hv. fold (mapM g). now rewrite IH.
Qed.

Lemma mapM_items_ok (g : jv -> res) (d : lv -> jv) (items : list (pstr * lv)) :
  Forall (fun kv => g (d (snd kv)) = Ok (snd kv)) items ->
  mapM_items g (map (fun kv => (fst kv, d (snd kv))) items) = (Some items, None).
Proof.
  induction 1 as [|[k v] l Hv _ IH]; cbn [map mapM_items fst snd]; [reflexivity|].
  cbn [snd] in Hv. rewrite Hv. fold (mapM_items g). now rewrite IH.
Qed.

Lemma load_pos_roundtrip (f : jv -> res) c built (L : lv -> Prop) :
  (forall v, L v -> f (dump_lv c built v) = Ok v) ->
  forall p v, shaped c built L p v -> load_pos f p (dump_lv c built v) = Ok v.
Proof.
  intros HL. induction p as [|p IH|p IH|p IH|p IH|p IH]; intros v Sh; inversion Sh; subst; cbn [load_pos].
  - now apply HL.
  - reflexivity.
  - match goal with Hs : shaped c built L p v, Hn : dump_lv c built v <> JNull |- _ =>
      specialize (IH v Hs); destruct (dump_lv c built v) eqn:E; try exact IH; now contradiction Hn end.
  - match goal with Hf : Forall _ _ |- _ =>
      cbn [dump_lv]; rewrite (mapM_ok (load_pos f p) (dump_lv c built) l); [reflexivity|];
      eapply Forall_impl; [|exact Hf]; intros a Ha; now apply IH end.
  - match goal with Hf : Forall _ _ |- _ =>
      cbn [dump_lv]; rewrite (mapM_items_ok (load_pos f p) (dump_lv c built) items); [reflexivity|];
      eapply Forall_impl; [|exact Hf]; intros a Ha; now apply IH end.
  - match goal with Hs : shaped c built L p ?w |- _ => cbn [dump_lv map]; now rewrite (IH w Hs) end.
  - match goal with Hf : Forall _ _ |- _ =>
      cbn [dump_lv]; rewrite (mapM_ok (load_pos f p) (dump_lv c built) l); [reflexivity|];
      eapply Forall_impl; [|exact Hf]; intros a Ha; now apply IH end.
Qed.

Lemma dispatch_v0 c pre built args :
  tags_injective c args ->
  forall p v, shaped c built (leaf_v0 c pre built args) p v ->
              load_pos (load_union_v0 c pre args) p (dump_lv c built v) = Ok v.
Proof.
  intros Inj. apply load_pos_roundtrip. intros v Hv. destruct Hv as [m vals t Hin Ht Hd Hc Hk Htol|j s Hs Hin].
  - cbn [dump_lv]. rewrite app_nil_r. now apply load_union_v0_dumped with (t := t).
  - cbn [dump_lv]. unfold load_union_v0. rewrite (scan_scalars_in args j s Hs Hin).
    destruct j; try reflexivity; try discriminate.
Qed.

Lemma dispatch_v1 coerce c built args :
  tags_injective c args -> names_injective c args ->
  forall p v, shaped c built (leaf_v1 c built args) p v ->
              load_pos (load_union_v1 coerce c args) p (dump_lv c built v) = Ok v.
Proof.
  intros Inj NInj. apply load_pos_roundtrip. intros v Hv. destruct Hv as [m vals t Hin Ht Hd Hc Hk|j s Hs Hin].
  - cbn [dump_lv]. rewrite app_nil_r. now apply load_union_v1_dumped with (t := t).
  - cbn [dump_lv]. unfold load_union_v1, untagged_v1. rewrite (scan_scalars_in args j s Hs Hin).
    destruct j; try discriminate; now destruct (has_none args).
Qed.

(* ---- order of the Union arguments ------------------------------------------------------------ *)
Definition same_res (r r' : res) : Prop :=
  match r, r' with
  | Err (EUnknownTag v), Err (EUnknownTag v') => Permutation v v'
  | _, _ => r = r'
  end.

Lemma same_res_refl r : same_res r r.
Proof. destruct r as [v|e]; cbn; [reflexivity|]. destruct e; auto. Qed.

Lemma order_irrelevant_v0 c pre args args' o :
  Permutation args args' -> tags_injective c args ->
  same_res (load_union_v0 c pre args o) (load_union_v0 c pre args' o).
Proof.
  intros P Inj. unfold load_union_v0.
  rewrite (scan_scalars_perm args args' o P).
  assert (HN : has_none args = has_none args') by (unfold has_none; now apply existsb_perm).
  rewrite <- HN.
  destruct o; try apply same_res_refl; try (destruct (has_none args); apply same_res_refl).
  destruct (scan_scalars args' (JDict items)); [apply same_res_refl|].
  destruct (lookup (u_tag_key c) items) as [tagv|]; [|apply same_res_refl].
  destruct tagv; try apply same_res_refl; try (cbn; now apply valid_tags_perm).
  rewrite (tag_lookup_perm c s args args' P Inj).
  destruct (tag_lookup c s args'); [apply same_res_refl|]. cbn. now apply valid_tags_perm.
Qed.

Lemma order_irrelevant_v1 coerce c args args' items tagv :
  Permutation args args' -> tags_injective c args -> names_injective c args ->
  lookup (u_tag_key c) items = Some tagv ->
  same_res (load_union_v1 coerce c args (JDict items)) (load_union_v1 coerce c args' (JDict items)).
Proof.
  intros P Inj NInj Hl. unfold load_union_v1. rewrite Hl.
  destruct tagv; try (cbn; now apply valid_tags_perm).
  rewrite <- (tag_lookup_perm c s args args' P Inj).
  destruct (tag_lookup c s args) as [m|] eqn:E; [|cbn; now apply valid_tags_perm].
  destruct (tag_lookup_some _ _ _ _ E) as [Hin Ht].
  assert (Hs : is_some (eff_tag c m) = true) by now rewrite Ht.
  rewrite (fn_member_inj c args m NInj Hin Hs).
  rewrite (fn_member_inj c args' m (names_injective_perm _ _ _ P NInj)); [apply same_res_refl| |exact Hs].
  eapply Permutation_in; eassumption.
Qed.

(* ---- unknown tag / no tag ------------------------------------------------------------------------ *)
Lemma unknown_tag_v0 c pre args items t :
  (forall m, In (AData m) args -> eff_tag c m <> Some t) ->
  lookup (u_tag_key c) items = Some (JStr t) ->
  load_union_v0 c pre args (JDict items) = Err (EUnknownTag (valid_tags c args)).
Proof.
  intros Hno Hl. unfold load_union_v0. rewrite scan_scalars_nonscalar by reflexivity. rewrite Hl.
  destruct (tag_lookup c t args) as [m|] eqn:E; [|reflexivity].
  destruct (tag_lookup_some _ _ _ _ E) as [Hin Ht]. exfalso. exact (Hno m Hin Ht).
Qed.

Lemma unknown_tag_v1 coerce c args items t :
  (forall m, In (AData m) args -> eff_tag c m <> Some t) ->
  lookup (u_tag_key c) items = Some (JStr t) ->
  load_union_v1 coerce c args (JDict items) = Err (EUnknownTag (valid_tags c args)).
Proof.
  intros Hno Hl. unfold load_union_v1. rewrite Hl.
  destruct (tag_lookup c t args) as [m|] eqn:E; [|reflexivity].
  destruct (tag_lookup_some _ _ _ _ E) as [Hin Ht]. exfalso. exact (Hno m Hin Ht).
Qed.

Lemma no_tag_v0 c pre args items :
  lookup (u_tag_key c) items = None -> load_union_v0 c pre args (JDict items) = Err ENoMatch.
Proof. intros Hl. unfold load_union_v0. rewrite scan_scalars_nonscalar by reflexivity. now rewrite Hl. Qed.

Lemma try_scalars_none coerce args o :
  (forall s, In (AScalar s) args -> coerce s o = None) -> try_scalars coerce args o = None.
Proof.
  induction args as [|a r IH]; cbn [try_scalars]; intros H; [reflexivity|].
  destruct a as [m|s|]; try (apply IH; intros s' Hs'; apply H; now right).
  rewrite (H s (or_introl eq_refl)). apply IH. intros s' Hs'. apply H. now right.
Qed.

Lemma no_tag_v1 coerce c args items :
  lookup (u_tag_key c) items = None ->
  (forall s, In (AScalar s) args -> coerce s (JDict items) = None) ->
  load_union_v1 coerce c args (JDict items) = Err ENoMatch.
Proof.
  intros Hl Hco. unfold load_union_v1. rewrite Hl. unfold untagged_v1.
  rewrite scan_scalars_nonscalar by reflexivity. now rewrite try_scalars_none.
Qed.

(* scalar members never capture a dict *)
Lemma scalars_do_not_capture_dicts args items : scan_scalars args (JDict items) = None.
Proof. now apply scan_scalars_nonscalar. Qed.
