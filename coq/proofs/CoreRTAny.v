(* CoreRTAny.v — lemmas for property C01: values at `Any` positions.
   load Any w = w, hence the round trip at an Any position holds iff the dumper maps the value to itself;
   `anyv` (CoreRT.v) is exactly that set. *)
From DW Require Import CoreRT T_CoreDumpHooks CharFacts CoreDumpProofs CoreLoadProofs.
From Coq Require Import ZArith Lia.

Lemma seqR_map_id_intro {A} (f : A -> res A) l : Forall (fun x => f x = Ok x) l -> seqR (map f l) = Ok l.
Proof. induction 1 as [|x l Hx _ IH]; [reflexivity|]. cbn [map seqR]. rewrite Hx, IH. reflexivity. Qed.

Lemma seqR_map_id_elim {A} (f : A -> res A) l : seqR (map f l) = Ok l -> Forall (fun x => f x = Ok x) l.
Proof.
  induction l as [|x l IH]; intros H; [constructor|]. cbn [map seqR] in H.
  destruct (f x) as [a|] eqn:Ex; [|discriminate]. destruct (seqR (map f l)) as [l'|] eqn:El; [|discriminate].
  inversion H; subst. constructor; [exact Ex | apply IH; reflexivity].
Qed.

Section AnyProofs.
Variable dc : dcfg.
Notation D := (dump dump_hooks_v0 dc).

Definition pairD (kv : pv * pv) : res (pv * pv) :=
  bind (D (fst kv)) (fun k' => bind (D (snd kv)) (fun v' => Ok (k', v'))).

Lemma pairD_id kv : D (fst kv) = Ok (fst kv) -> D (snd kv) = Ok (snd kv) -> pairD kv = Ok kv.
Proof. destruct kv as [a b]. unfold pairD. cbn [fst snd]. intros -> ->. reflexivity. Qed.

Lemma pairD_id_inv kv : pairD kv = Ok kv -> D (fst kv) = Ok (fst kv) /\ D (snd kv) = Ok (snd kv).
Proof.
  destruct kv as [a b]. unfold pairD. cbn [fst snd]. destruct (D a) as [a'|]; [|discriminate].
  destruct (D b) as [b'|]; [|discriminate]. cbn [bind]. intros H. inversion H; subst. split; reflexivity.
Qed.

(* every value of anyv is a fixed point of the dumper ... *)
Theorem dump_any : forall v, anyv v = true -> D v = Ok v.
Proof.
  induction v as [| b | z | h | s | m r b | k o xs IH | k o kvs IH | e m x IH | t | n xs IH | c xs IH] using pv_ind';
    intros H; rewrite dump_eq; fold (H0 dc); cbn [anyv] in H; try discriminate.
  - rewrite disp_none; reflexivity.
  - rewrite disp_bool; reflexivity.
  - rewrite disp_int; reflexivity.
  - rewrite disp_float; reflexivity.
  - rewrite disp_str; reflexivity.
  - rewrite disp_seq.
    assert (Hx : o = false /\ forallb anyv xs = true).
    { destruct k; try discriminate; apply andb_true_iff in H as [Ho Hx]; destruct o; try discriminate; split; auto. }
    destruct Hx as [-> Hx].
    assert (E : seqR (map D xs) = Ok xs).
    { apply seqR_map_id_intro. apply forallb_Forall in Hx. eapply Forall_mp; [|exact Hx]. exact IH. }
    destruct k; try discriminate; rewrite E; reflexivity.
  - rewrite disp_dict.
    assert (Hx : o = false /\ forallb (fun kv => anyv (fst kv) && anyv (snd kv)) kvs = true).
    { destruct k; try discriminate; apply andb_true_iff in H as [Ho Hx]; destruct o; try discriminate; split; auto. }
    destruct Hx as [-> Hx].
    assert (E : seqR (map pairD kvs) = Ok kvs).
    { apply seqR_map_id_intro. apply forallb_Forall in Hx.
      eapply Forall_mp; [|exact Hx]. eapply Forall_impl; [|exact IH].
      intros kv [Ha Hb] Hkv. apply andb_true_iff in Hkv as [H1 H2]. apply pairD_id; auto. }
    unfold pairD in E. destruct k; try discriminate; rewrite E; reflexivity.
  - rewrite disp_enum. destruct (e_mix e); [discriminate | reflexivity | reflexivity].
  - rewrite disp_nt.
    assert (E : seqR (map D xs) = Ok xs).
    { apply seqR_map_id_intro. apply forallb_Forall in H. eapply Forall_mp; [|exact H]. exact IH. }
    rewrite E. reflexivity.
Qed.

(* ... and there is no other fixed point among the well-formed values *)
Theorem dump_fix_any : forall v, wfv v = true -> D v = Ok v -> anyv v = true.
Proof.
  induction v as [| b | z | h | s | m r b | k o xs IH | k o kvs IH | e m x IH | t | n xs IH | c xs IH] using pv_ind';
    intros Hw H; try reflexivity; rewrite dump_eq in H; fold (H0 dc) in H.
  - rewrite disp_bytes in H. discriminate.
  - rewrite disp_seq in H. cbn [wfv] in Hw. cbn [anyv].
    destruct k; apply rmap_ok in H as (ws & E & Heq); inversion Heq; subst; cbn [negb andb].
    + apply seqR_map_id_elim in E. apply Forall_forallb. apply forallb_Forall in Hw.
      eapply Forall_mp; [|exact E]. eapply Forall_mp; [|exact Hw]. exact IH.
    + apply seqR_map_id_elim in E. apply Forall_forallb. apply forallb_Forall in Hw.
      eapply Forall_mp; [|exact E]. eapply Forall_mp; [|exact Hw]. exact IH.
  - rewrite disp_dict in H. cbn [wfv] in Hw. cbn [anyv].
    destruct k; apply rmap_ok in H as (ws & E & Heq); inversion Heq; subst; cbn [negb andb].
    + fold pairD in E. apply seqR_map_id_elim in E. apply Forall_forallb. apply forallb_Forall in Hw.
      eapply Forall_mp; [|exact E]. eapply Forall_mp; [|exact Hw]. eapply Forall_impl; [|exact IH].
      intros kv [Ha Hb] Hkv Hp. apply andb_true_iff in Hkv as [H1 H2]. apply pairD_id_inv in Hp as [P1 P2].
      rewrite Ha, Hb by assumption. reflexivity.
    + fold pairD in E. apply seqR_map_id_elim in E. apply Forall_forallb. apply forallb_Forall in Hw.
      eapply Forall_mp; [|exact E]. eapply Forall_mp; [|exact Hw]. eapply Forall_impl; [|exact IH].
      intros kv [Ha Hb] Hkv Hp. apply andb_true_iff in Hkv as [H1 H2]. apply pairD_id_inv in Hp as [P1 P2].
      rewrite Ha, Hb by assumption. reflexivity.
  - rewrite disp_enum in H. cbn [anyv]. cbn [wfv] in Hw.
    destruct (e_mix e); try reflexivity. inversion H; subst. destruct x; discriminate.
  - rewrite disp_tok in H. destruct (tk_kind t), (d_dt dc); discriminate.
  - rewrite disp_nt in H. cbn [wfv] in Hw. cbn [anyv].
    apply rmap_ok in H as (ws & E & Heq). inversion Heq; subst.
    apply seqR_map_id_elim in E. apply Forall_forallb. apply forallb_Forall in Hw.
    eapply Forall_mp; [|exact E]. eapply Forall_mp; [|exact Hw]. exact IH.
  - rewrite disp_inst in H. apply rmap_ok in H as (ws & _ & Heq). discriminate.
Qed.

End AnyProofs.

(* what a JSON parser produces lies inside anyv *)
Lemma json_any_anyv : forall v, json_any v = true -> anyv v = true.
Proof.
  induction v as [| b | z | h | s | m r b | k o xs IH | k o kvs IH | e m x IH | t | n xs IH | c xs IH] using pv_ind';
    intros H; cbn [json_any] in H; try discriminate; try reflexivity; cbn [anyv].
  - destruct k; try discriminate. apply andb_true_iff in H as [Ho Hx]. rewrite Ho. cbn [andb].
    apply Forall_forallb. apply forallb_Forall in Hx. eapply Forall_mp; [|exact Hx]. exact IH.
  - destruct k; try discriminate. apply andb_true_iff in H as [Ho Hx]. rewrite Ho. cbn [andb].
    apply Forall_forallb. apply forallb_Forall in Hx. eapply Forall_mp; [|exact Hx]. eapply Forall_impl; [|exact IH].
    intros kv [Ha Hb] Hkv. apply andb_true_iff in Hkv as [H1 H2]. rewrite Hb by assumption.
    destruct (fst kv); try discriminate. reflexivity.
Qed.
