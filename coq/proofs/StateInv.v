(* StateInv.v — the memo invariant of the state model: every cache entry equals
   the pure function it memoises, relative to the Meta `G n` under which the
   tables of class n were generated (ghost).  Load side. *)
From DW Require Import PyStr StrConv StateModel StatePure CharFacts StateBasics.
From Coq Require Import Lia.

(* ---------------------------------------------------------------- definitions *)
Definition gm (G : gov) (s : sigma) (n : cid) : meta :=
  match G n with Some e => e | None => om s n end.

Definition mk_lfn (n : cid) (e : meta) : lfn := {| l_cls := n; l_tr := m_ltr e; l_raise := raise_of e |}.

Definition to_parser (Gm : cid -> meta) (ty : fty cdecl) : parser :=
  match ty with
  | TInt => PInt | TStr => PStr
  | TNested dm => PNested (mk_lfn (d_id dm) (Gm (d_id dm)))
  end.
Definition parsers_of (Gm : cid -> meta) (d : cdecl) : list (pstr * parser) :=
  map (fun f => (fst (fst f), to_parser Gm (snd (fst f)))) (d_fields d).

Definition mk_dfn (d : cdecl) (e : meta) (cfg : option meta) (ks : list (pstr * pstr)) : dfn :=
  {| f_cls := d_id d; f_keys := ks; f_skipdef := skip_of e; f_defaults := d_defaults d; f_cfg := cfg |}.

Definition caches_empty (x : cstate) : Prop :=
  cs_parsers x = None /\ cs_j2f x = [] /\ cs_alias x = [] /\ cs_loadfn x = None /\ cs_dumpfn x = None /\
  cs_from_dict x = None /\ cs_to_dict x = None /\ cs_nested_dfns x = [].

(* a key-cache entry is the pure resolution; a negative entry only exists where unknown keys do not raise *)
Definition j2f_ok (names : list pstr) (e : meta) (k : pstr) (r : kres) : Prop :=
  match r with
  | KField x => resolve_pure names (m_ltr e) k = RField x
  | KNull => resolve_pure names (m_ltr e) k = RUnknown /\ raise_of e = false
  end.

Record valid (G : gov) (s : sigma) (n : cid) (x : cstate) (e : meta) (d : cdecl) : Prop := {
  v_parsers : forall ps, cs_parsers x = Some ps ->
      ps = parsers_of (gm G s) d /\
      forall dm, In dm (children d) -> G (d_id dm) <> None /\ cs_parsers (st_cls s (d_id dm)) <> None;
  v_j2f : forall k r, In (k, r) (cs_j2f x) -> j2f_ok (d_names d) e k r;
  v_loadfn : forall f, cs_loadfn x = Some f -> f = mk_lfn n e /\ cs_parsers x <> None;
  v_from_dict : forall f, cs_from_dict x = Some f -> cs_loadfn x = Some f;
  v_alias : forall y k, In (y, k) (cs_alias x) -> apply_tr (tr_dump (m_dtr e)) y = Some k;
  v_dumpfn : forall f, cs_dumpfn x = Some f ->
      exists ks, keys_of (tr_dump (m_dtr e)) (d_names d) = Some ks /\ f = mk_dfn d e (cfg_of (own_meta s n)) ks;
  v_to_dict : forall f, cs_to_dict x = Some f -> cs_dumpfn x = Some f;
  v_nested : forall m g, In (m, g) (cs_nested_dfns x) ->
      exists dm em ks, decl_of s m = Some dm /\ d_id dm = m /\ G m = Some em /\
                       keys_of (tr_dump (m_dtr em)) (d_names dm) = Some ks /\
                       g = mk_dfn dm em (cfg_of (own_meta s n)) ks
}.

Record InvX (G : gov) (s : sigma) (n : cid) (x : cstate) : Prop := {
  i_ltr : cs_ltr x = m_ltr (gm G s n);
  i_dtr : cs_dtr x = m_dtr (gm G s n);
  i_hooks : forall t h, In (t, h) (cs_hooks x) -> h = hook_pure t;
  i_defaults : forall ds, cs_defaults x = Some ds ->
      exists d, decl_of s n = Some d /\ ds = d_defaults d;
  i_none : G n = None -> caches_empty x;
  i_some : forall e, G n = Some e -> exists d, decl_of s n = Some d /\ valid G s n x e d
}.
Definition InvC (G : gov) (s : sigma) (n : cid) : Prop := InvX G s n (st_cls s n).

(* the memo invariant *)
Definition InvG (G : gov) (s : sigma) : Prop := forall n, InvC G s n.

Definition trees_ok (s : sigma) : Prop :=
  forall c d, decl_of s c = Some d ->
    d_id d = c /\ (forall dm, In dm (children d) -> decl_of s (d_id dm) = Some dm) /\ ~ In c (proper_ids d).

Lemma trees_ok_child s c d dm : trees_ok s -> decl_of s c = Some d -> In dm (children d) -> decl_of s (d_id dm) = Some dm.
Proof. intros T H. apply (T c d H). Qed.

(* state changes that keep declarations, Meta objects, and never change a parser table once present *)
Definition pres (s s' : sigma) : Prop :=
  same_dp s s' /\ forall c, cs_parsers (st_cls s c) <> None -> cs_parsers (st_cls s' c) = cs_parsers (st_cls s c).

(* ghost extension: governed classes stay governed by the same Meta *)
Definition gext (G G' : gov) : Prop := forall x, G' x = G x \/ G x = None.

Lemma pres_refl s : pres s s.
Proof. split; [apply same_dp_refl | auto]. Qed.
Lemma pres_trans a b c : pres a b -> pres b c -> pres a c.
Proof.
  intros [H1 H2] [K1 K2]. split; [eapply same_dp_trans; eauto|].
  intros x Hx. rewrite <- (H2 x Hx). apply K2. rewrite (H2 x Hx). exact Hx.
Qed.
Lemma gext_refl G : gext G G. Proof. intro x; auto. Qed.
Lemma gext_trans A B C : gext A B -> gext B C -> gext A C.
Proof.
  intros H K x. destruct (K x) as [E|E]; destruct (H x) as [F|F]; auto.
  - left; congruence.
  - right. congruence.
Qed.
Lemma gext_some G G' x e : gext G G' -> G x = Some e -> G' x = Some e.
Proof. intros H E. destruct (H x) as [F|F]; congruence. Qed.

Lemma pres_om a b c : pres a b -> om b c = om a c.
Proof. intros [H _]. now apply same_dp_om. Qed.
Lemma pres_own a b c : pres a b -> own_meta b c = own_meta a c.
Proof. intros [H _]. now apply same_dp_own. Qed.
Lemma pres_decl a b c : pres a b -> decl_of b c = decl_of a c.
Proof. intros [H _]. now apply same_dp_decl. Qed.

Lemma trees_ok_pres s s' : trees_ok s -> pres s s' -> trees_ok s'.
Proof.
  intros T P c d H. rewrite (pres_decl _ _ _ P) in H. destruct (T c d H) as (E & K & N). split; [|split]; auto.
  intros dm Hd. rewrite (pres_decl _ _ _ P). auto.
Qed.

Lemma trees_ok_proper s : trees_ok s -> forall d, decl_of s (d_id d) = Some d ->
  forall dk, In dk (proper_subtrees d) -> decl_of s (d_id dk) = Some dk.
Proof.
  intro T. induction d as [i fs IH] using cdecl_ind'. intros Hd dk Hk.
  apply proper_inv in Hk. destruct Hk as (dm & Hm & Hk).
  assert (Hdm : decl_of s (d_id dm) = Some dm) by (eapply trees_ok_child; eauto).
  destruct Hk as [->|Hk]; auto.
  apply (IH dm Hm Hdm dk Hk).
Qed.

Lemma gm_gext G G' s x : gext G G' -> G x <> None -> gm G' s x = gm G s x.
Proof. intros H N. unfold gm. destruct (H x) as [E|E]; [now rewrite E | contradiction]. Qed.

Lemma gm_pres G s s' x : pres s s' -> gm G s' x = gm G s x.
Proof. intro P. unfold gm. destruct (G x); auto. now apply pres_om. Qed.

Lemma parsers_of_ext Gm Gm' d :
  (forall dm, In dm (children d) -> Gm (d_id dm) = Gm' (d_id dm)) -> parsers_of Gm d = parsers_of Gm' d.
Proof.
  destruct d as [i fs]. unfold parsers_of, children. cbn [d_fields].
  induction fs as [|[[x ty] dv] r IH]; cbn; auto. intro H. f_equal.
  - destruct ty as [| |dm]; cbn; auto. rewrite (H dm); cbn; auto.
  - apply IH. intros dm Hd. apply H. destruct ty; cbn; auto.
Qed.

(* transfer of validity to a state / ghost that kept what the clauses refer to *)
Lemma valid_transfer G G' s s' n x e d :
  valid G s n x e d -> pres s s' -> gext G G' -> valid G' s' n x e d.
Proof.
  intros V P X. destruct V as [V1 V2 V3 V4 V5 V6 V7 V8]. split; auto.
  - intros ps Hps. destruct (V1 ps Hps) as [-> K]. split.
    + apply parsers_of_ext. intros dm Hd'. destruct (K dm Hd') as [K1 _].
      rewrite (gm_gext G G' s' (d_id dm) X K1). symmetry. apply gm_pres; assumption.
    + intros dm Hd'. destruct (K dm Hd') as [K1 K2]. split.
      * destruct (G (d_id dm)) eqn:Eg; [|congruence]. rewrite (gext_some _ _ _ _ X Eg). congruence.
      * rewrite (proj2 P _ K2). exact K2.
  - intros f Hf. rewrite (pres_own _ _ _ P). auto.
  - intros m g Hin. destruct (V8 m g Hin) as (dm & em & ks & A1 & A2 & A3 & A4 & A5).
    exists dm, em, ks. rewrite (pres_decl _ _ _ P), (pres_own _ _ _ P). repeat split; auto.
    eapply gext_some; eauto.
Qed.

Lemma InvX_transfer G G' s s' c x :
  InvX G s c x -> pres s s' -> gext G G' -> G' c = G c -> InvX G' s' c x.
Proof.
  intros I P X Ec.
  assert (Egm : gm G' s' c = gm G s c).
  { unfold gm. rewrite Ec. destruct (G c); auto. now apply pres_om. }
  destruct I as [I1 I2 I3 I4 I5 I6]. split; rewrite ?Egm; auto.
  - intros ds H. destruct (I4 ds H) as (d & Hd & ->). exists d. split; auto. now rewrite (pres_decl _ _ _ P).
  - rewrite Ec. exact I5.
  - intros e He. rewrite Ec in He. destruct (I6 e He) as (d & Hd & V). exists d.
    split; [now rewrite (pres_decl _ _ _ P)|]. eapply valid_transfer; eauto.
Qed.

Lemma InvC_transfer G G' s s' c :
  InvC G s c -> st_cls s' c = st_cls s c -> pres s s' -> gext G G' -> G' c = G c -> InvC G' s' c.
Proof. intros I E P X Ec. unfold InvC. rewrite E. eapply InvX_transfer; eauto. Qed.

(* ---------------------------------------------------------------- key resolution *)
(* only key-cache entries were added *)
Definition j2f_only (s s' : sigma) : Prop :=
  (forall c, exists l, st_cls s' c = w_j2f l (st_cls s c)) /\
  (forall r, st_mobjs s' r = st_mobjs s r) /\ (forall q, st_minit s' q = st_minit s q).

Lemma j2f_only_refl s : j2f_only s s.
Proof. split; [|split]; auto. intro c. exists (cs_j2f (st_cls s c)). destruct (st_cls s c); reflexivity. Qed.
Lemma j2f_only_trans a b c : j2f_only a b -> j2f_only b c -> j2f_only a c.
Proof.
  intros (H1 & H2 & H3) (K1 & K2 & K3). split; [|split]; intros.
  - destruct (H1 c0) as [l Hl]. destruct (K1 c0) as [l' Hl']. exists l'. rewrite Hl', Hl. reflexivity.
  - now rewrite K2.
  - now rewrite K3.
Qed.
Lemma j2f_only_pres s s' : j2f_only s s' -> pres s s'.
Proof.
  intros (H1 & H2 & H3). split.
  - split; [|split]; auto. intro c. destruct (H1 c) as [l ->]. split; reflexivity.
  - intros c _. destruct (H1 c) as [l ->]. reflexivity.
Qed.
Lemma j2f_only_parsers s s' c : j2f_only s s' -> cs_parsers (st_cls s' c) = cs_parsers (st_cls s c).
Proof. intros (H1 & _). destruct (H1 c) as [l ->]. reflexivity. Qed.
Lemma j2f_only_decl s s' c : j2f_only s s' -> decl_of s' c = decl_of s c.
Proof. intros (H1 & _). unfold decl_of. destruct (H1 c) as [l ->]. reflexivity. Qed.

Lemma j2f_only_add s n k r : j2f_only s (updc s n (fun x0 => w_j2f ((k, r) :: cs_j2f x0) x0)).
Proof.
  split; [|split]; auto. intro c. rewrite updc_cls. destruct (Nat.eqb c n).
  - eexists; reflexivity.
  - exists (cs_j2f (st_cls s c)). destruct (st_cls s c); reflexivity.
Qed.

Lemma InvG_add_j2f G s n e d k r :
  InvG G s -> G n = Some e -> decl_of s n = Some d -> j2f_ok (d_names d) e k r ->
  InvG G (updc s n (fun x0 => w_j2f ((k, r) :: cs_j2f x0) x0)).
Proof.
  intros I Hg Hd Hok c.
  pose proof (j2f_only_pres _ _ (j2f_only_add s n k r)) as P.
  destruct (Nat.eq_dec c n) as [->|Hne].
  2:{ eapply InvC_transfer; eauto using gext_refl. now rewrite updc_other. }
  unfold InvC. rewrite updc_same.
  pose proof (InvX_transfer G G s _ n _ (I n) P (gext_refl G) eq_refl) as J.
  destruct J as [I1 I2 I3 I4 I5 I6]. split; cbn; auto.
  - congruence.
  - intros e' He'. destruct (I6 e' He') as (d' & Hd' & V). exists d'. split; auto.
    assert (e' = e) by congruence. subst e'.
    assert (d' = d) by (rewrite (pres_decl _ _ _ P) in Hd'; congruence). subst d'.
    destruct V as [V1 V2 V3 V4 V5 V6 V7 V8]. split; cbn; auto.
    intros k0 r0 [H|H]; [inversion H; subst; exact Hok | auto].
Qed.

Definition resolve_result (n : cid) (names : list pstr) (e : meta) (k : pstr) : res kres :=
  match resolve_pure names (m_ltr e) k with
  | RField x => Ok (KField x)
  | RIndex => Er EIndex
  | RUnknown => if raise_of e then Er (EUnknownKey n k) else Ok KNull
  end.

Lemma resolve_spec G s n e d k s' r :
  InvG G s -> G n = Some e -> decl_of s n = Some d ->
  resolve s (mk_lfn n e) (d_names d) k = (s', r) ->
  r = resolve_result n (d_names d) e k /\ InvG G s' /\ j2f_only s s'.
Proof.
  intros I Hg Hd. unfold resolve, resolve_result. cbn [l_cls l_tr l_raise mk_lfn].
  destruct (assoc_s k (cs_j2f (st_cls s n))) as [r0|] eqn:Ea.
  - intro H; inversion H; subst. split; [|split; [assumption | apply j2f_only_refl]].
    apply assoc_s_in in Ea. destruct (i_some _ _ _ _ (I n) e Hg) as (d' & Hd' & V).
    assert (d' = d) by congruence. subst d'.
    pose proof (v_j2f _ _ _ _ _ _ V k r0 Ea) as Hok. destruct r0 as [x|]; cbn in Hok.
    + now rewrite Hok.
    + destruct Hok as [-> ->]. reflexivity.
  - destruct (resolve_pure (d_names d) (m_ltr e) k) as [x| |] eqn:Er.
    + intro H; inversion H; subst. split; [reflexivity|]. split; [|apply j2f_only_add].
      eapply InvG_add_j2f; eauto.
    + destruct (raise_of e) eqn:Rz; intro H; inversion H; subst.
      * split; [reflexivity|]. split; [assumption | apply j2f_only_refl].
      * split; [reflexivity|]. split; [|apply j2f_only_add].
        eapply InvG_add_j2f; eauto. cbn. auto.
    + intro H; inversion H; subst. split; [reflexivity|]. split; [assumption | apply j2f_only_refl].
Qed.

(* ---------------------------------------------------------------- running a generated load function *)
Lemma names_parsers_of Gm d : map fst (parsers_of Gm d) = d_names d.
Proof. unfold parsers_of, d_names. rewrite map_map. reflexivity. Qed.

Lemma assoc_parsers_of Gm d x :
  assoc_s x (parsers_of Gm d) = option_map (to_parser Gm) (field_type d x).
Proof.
  unfold parsers_of, field_type. destruct d as [i fs]. cbn [d_fields].
  induction fs as [|[[y ty] dv] r IH]; cbn; auto. destruct (pstr_eqb x y); cbn; auto.
Qed.

(* the pure counterpart of load_loop *)
Fixpoint pure_loop (En : cid -> meta) (e : meta) (d : cdecl) (kv : list (pstr * jv)) (kw : list (pstr * iv))
  : res (list (pstr * iv)) :=
  match kv with
  | [] => Ok kw
  | (k, v) :: rest =>
      match resolve_pure (d_names d) (m_ltr e) k with
      | RIndex => Er EIndex
      | RUnknown => if raise_of e then Er (EUnknownKey (d_id d) k) else pure_loop En e d rest kw
      | RField x =>
          match field_type d x with
          | None => Er EModel
          | Some ty =>
              match (match ty with
                     | TInt => conv_int v
                     | TStr => conv_str v
                     | TNested dm => attribute (d_id d) x (pure_load En (En (d_id dm)) dm v)
                     end) with
              | Er err => Er err
              | Ok w => pure_loop En e d rest (set_assoc_s x w kw)
              end
          end
      end
  end.

Lemma pure_load_dict En e d kv :
  pure_load En e d (JDict kv) =
  match pure_loop En e d kv [] with Er err => Er err | Ok kw => construct d kw end.
Proof.
  cbn [pure_load].
  match goal with |- match ?L kv [] with _ => _ end = _ => set (loop := L) end.
  assert (H : forall kv kw, loop kv kw = pure_loop En e d kv kw).
  { induction kv0 as [|[k v] rest IH]; intro kw; cbn; auto.
    destruct (resolve_pure (d_names d) (m_ltr e) k); auto.
    - destruct (field_type d f) as [ty|]; auto.
      destruct ty as [| |dm]; cbn.
      + destruct (conv_int v); auto.
      + destruct (conv_str v); auto.
      + destruct (attribute (d_id d) f (pure_load En (En (d_id dm)) dm v)); auto.
    - destruct (raise_of e); auto. }
  now rewrite H.
Qed.

Lemma pure_load_ext En En' : (forall x, En x = En' x) ->
  forall doc e d, pure_load En e d doc = pure_load En' e d doc.
Proof.
  intro H. induction doc as [| | |kv IHv] using jv_ind'; intros; cbn [pure_load]; auto.
  change (pure_load En e d (JDict kv) = pure_load En' e d (JDict kv)).
  rewrite !pure_load_dict.
  assert (L : forall kw, pure_loop En e d kv kw = pure_loop En' e d kv kw).
  { induction kv as [|[k0 v0] r0 IH0]; intro kw0; cbn; auto.
    inversion IHv as [|? ? H1 H2]; subst. cbn [snd] in H1.
    destruct (resolve_pure (d_names d) (m_ltr e) k0); auto.
    - destruct (field_type d f) as [[| |dk]|]; auto.
      + destruct (conv_int v0); auto.
      + destruct (conv_str v0); auto.
      + rewrite H, H1. destruct (attribute _ _ _); auto.
    - destruct (raise_of e); auto. }
  now rewrite L.
Qed.

Lemma exec_load_spec : forall doc G s d e s' r,
  InvG G s -> trees_ok s -> decl_of s (d_id d) = Some d -> G (d_id d) = Some e ->
  cs_parsers (st_cls s (d_id d)) <> None ->
  exec_load s (mk_lfn (d_id d) e) doc = (s', r) ->
  r = pure_load (gm G s) e d doc /\ InvG G s' /\ j2f_only s s'.
Proof.
  induction doc as [| z | t | kv IHkv] using jv_ind'; intros G s d e s' r I T Hd Hg Hp.
  1-3: cbn; intro H; inversion H; subst; (split; [reflexivity | split; [assumption | apply j2f_only_refl]]).
  rewrite pure_load_dict. cbn [exec_load]. cbn [l_cls mk_lfn].
  destruct (cs_parsers (st_cls s (d_id d))) as [ps|] eqn:Eps; [|congruence].
  unfold decl_of in Hd. rewrite Hd.
  destruct (i_some _ _ _ _ (I (d_id d)) e Hg) as (d' & Hd' & V). unfold decl_of in Hd'.
  assert (d' = d) by congruence. subst d'.
  destruct (v_parsers _ _ _ _ _ _ V ps Eps) as [Eq Hch]. subst ps.
  (* the loop *)
  assert (L : forall kv0, Forall (fun p => forall G s d e s' r,
                InvG G s -> trees_ok s -> decl_of s (d_id d) = Some d -> G (d_id d) = Some e ->
                cs_parsers (st_cls s (d_id d)) <> None ->
                exec_load s (mk_lfn (d_id d) e) (snd p) = (s', r) ->
                r = pure_load (gm G s) e d (snd p) /\ InvG G s' /\ j2f_only s s') kv0 ->
            forall s1 kw s2 r2, InvG G s1 -> j2f_only s s1 ->
              load_loop (fun s0 g v => exec_load s0 g v) (mk_lfn (d_id d) e) (parsers_of (gm G s) d) s1 kv0 kw = (s2, r2) ->
              r2 = pure_loop (gm G s) e d kv0 kw /\ InvG G s2 /\ j2f_only s s2).
  { induction kv0 as [|[k v] rest IHr]; intros HF s1 kw s2 r2 I1 J1.
    - cbn. intro H; inversion H; subst. auto.
    - inversion HF as [|? ? Hv Hrest]; subst. cbn [load_loop pure_loop].
      assert (Hd1 : decl_of s1 (d_id d) = Some d) by (rewrite (j2f_only_decl _ _ _ J1); exact Hd).
      rewrite names_parsers_of.
      destruct (resolve s1 (mk_lfn (d_id d) e) (d_names d) k) as [s1' rr] eqn:Er.
      destruct (resolve_spec _ _ _ _ _ _ _ _ I1 Hg Hd1 Er) as (-> & I1' & J1').
      assert (J01' : j2f_only s s1') by (eapply j2f_only_trans; eauto).
      unfold resolve_result.
      destruct (resolve_pure (d_names d) (m_ltr e) k) as [x| |] eqn:Erp.
      + rewrite assoc_parsers_of.
        destruct (field_type d x) as [ty|] eqn:Eft; cbn [option_map].
        2:{ intro H; inversion H; subst. auto. }
        destruct ty as [| |dm]; cbn [to_parser].
        * destruct (conv_int v) as [w|err]; [apply IHr; auto | intro H; inversion H; subst; auto].
        * destruct (conv_str v) as [w|err]; [apply IHr; auto | intro H; inversion H; subst; auto].
        * (* nested class *)
          pose proof (field_type_children _ _ _ Eft) as Hin.
          destruct (Hch dm Hin) as [Gdm Pdm].
          destruct (G (d_id dm)) as [em|] eqn:Egm; [|congruence].
          assert (Egm' : gm G s (d_id dm) = em) by (unfold gm; now rewrite Egm).
          rewrite Egm'.
          destruct (exec_load s1' (mk_lfn (d_id dm) em) v) as [s1'' rv] eqn:Ex.
          assert (T1 : trees_ok s1') by (eapply trees_ok_pres; eauto using j2f_only_pres).
          assert (Hdm : decl_of s1' (d_id dm) = Some dm).
          { rewrite (j2f_only_decl _ _ _ J01'). eapply trees_ok_child; eauto. }
          assert (Pdm' : cs_parsers (st_cls s1' (d_id dm)) <> None).
          { rewrite (j2f_only_parsers _ _ _ J01'). exact Pdm. }
          destruct (Hv G s1' dm em s1'' rv I1' T1 Hdm Egm Pdm' Ex) as (-> & I2 & J2).
          cbn [snd l_cls mk_lfn].
          rewrite (pure_load_ext (gm G s1') (gm G s))
            by (intro x0; apply gm_pres; apply j2f_only_pres; exact J01').
          destruct (attribute (d_id d) x (pure_load (gm G s) em dm v)) as [w|err].
          -- apply IHr; auto. eapply j2f_only_trans; eauto.
          -- intro H; inversion H; subst. split; [reflexivity|]. split; [assumption|]. eapply j2f_only_trans; eauto.
      + destruct (raise_of e).
        * intro H; inversion H; subst. auto.
        * apply IHr; auto.
      + intro H; inversion H; subst. auto. }
  destruct (load_loop _ _ _ s kv []) as [s2 r2] eqn:El.
  destruct (L kv IHkv s [] s2 r2 I (j2f_only_refl s) El) as (-> & I2 & J2).
  destruct (pure_loop (gm G s) e d kv []); intro H; inversion H; subst; auto.
Qed.
