(* GenNamesCollide.v — identifiers derived from user names never collide with the
   generator's own (C15), and the name-keyed helper tables resolve correctly exactly
   when distinct types have distinct names. *)
From DW Require Import PyStr CharFacts GenPyLit GenNames GenNamesBase GenNamesClosed.
From Coq Require Import Lia.

(* ---- prefixes ------------------------------------------------------------------ *)
Lemma starts_with_app p s : starts_with p (p ++ s) = true.
Proof. induction p as [|a p IH]; cbn [starts_with app]; [reflexivity|]. now rewrite ascii_eqb_refl, IH. Qed.

Lemma strip_prefix_app p s : strip_prefix p (p ++ s) = Some s.
Proof. induction p as [|a p IH]; cbn [strip_prefix app]; [reflexivity|]. now rewrite ascii_eqb_refl, IH. Qed.

Lemma show_nat_nonempty n : show_nat n <> [].
Proof.
  unfold show_nat. intro H. apply (f_equal (@List.length ascii)) in H. rewrite rev_length in H.
  destruct n; cbn [dec_le] in H; [discriminate|].
  destruct (dec_le n) as [|c r]; cbn [dec_incr] in H; [discriminate|].
  destruct (code c =? 57)%N; discriminate.
Qed.

Lemma is_idx_of_idx p i : is_idx_of p (idx_name p i) = true.
Proof.
  unfold is_idx_of, idx_name. rewrite strip_prefix_app.
  pose proof (show_nat_digits i) as HD. pose proof (show_nat_nonempty i) as HN.
  destruct (show_nat i); [contradiction|exact HD].
Qed.

Lemma idx_not_in p l i : forallb (fun y => negb (is_idx_of p y)) l = true -> ~ In (idx_name p i) l.
Proof.
  intros H HI. rewrite forallb_forall in H. apply H in HI. now rewrite is_idx_of_idx in HI.
Qed.

Lemma NoDup_map_inj {A B} (g : A -> B) l : (forall x y, g x = g y -> x = y) -> NoDup l -> NoDup (map g l).
Proof.
  intros Hg H. induction H as [|x l Hx H IH]; cbn; constructor; auto.
  intro HI. apply in_map_iff in HI as (y & Hy & HI). apply Hg in Hy. subst. contradiction.
Qed.

Lemma NoDup_app_intro {A} (l m : list A) :
  NoDup l -> NoDup m -> (forall x, In x l -> ~ In x m) -> NoDup (l ++ m).
Proof.
  intros Hl Hm H. induction Hl as [|x l Hx Hl IH]; cbn; [exact Hm|].
  constructor.
  - intro HI. apply in_app_or in HI as [HI|HI]; [contradiction|]. apply (H x); [now left|exact HI].
  - apply IH. intros y Hy. apply H. now right.
Qed.

Lemma NoDup_map_filter {A} (g : A -> pstr) (p : A -> bool) l : NoDup (map g l) -> NoDup (map g (filter p l)).
Proof.
  induction l as [|x l IH]; cbn; intro H; [constructor|]. inversion H; subst.
  destruct (p x); cbn; auto. constructor; auto.
  intro HI. apply in_map_iff in HI as (y & Hy & HI). apply filter_In in HI as [HI _].
  apply H2. rewrite <- Hy. now apply in_map.
Qed.

(* ======================================================================== *)
(* default engine, dump: every identifier is fixed or index-based              *)
(* ======================================================================== *)
Definition index_based (x : pstr) : Prop :=
  exists i, x = skip_name i \/ x = dflt_name i \/ x = skip_if_name i.

Lemma v0d_field_closure_idx sh i f x : In x (v0d_field_closure sh i f) -> index_based x.
Proof.
  unfold v0d_field_closure. intro H. apply in_app_or in H as [H|H].
  - destruct (df_has_default f && (negb (dskip_on (d_skip_defaults_if sh)) || is_catch (df_key f))); cbn in H; [|contradiction].
    destruct H as [<-|[]]. exists i. auto.
  - destruct (match df_key f with DKey _ | DPath _ => dskip_closure (df_skip f) | _ => false end); cbn in H; [|contradiction].
    destruct H as [<-|[]]. exists i. auto.
Qed.

Theorem v0_dump_names_index_based sh x :
  In x (v0d_pool sh) -> In x v0d_fixed_names \/ index_based x.
Proof.
  unfold v0d_pool, poolv. cbn [fn_params fn_globals fn_closure v0_dump_fn]. intro H.
  assert (FX : forall l, forallb (fun n => mem_str n v0d_fixed_names) l = true -> In x l -> In x v0d_fixed_names).
  { intros l Hl Hx. rewrite forallb_forall in Hl. apply mem_str_In. auto. }
  apply in_app_or in H as [H|H]; [left; revert H; apply FX; vm_compute; reflexivity|].
  apply in_app_or in H as [H|H].
  { left. unfold v0d_binds0 in H. destruct (v0d_has_paths sh), (v0d_has_catch sh); revert H; apply FX; vm_compute; reflexivity. }
  apply in_app_or in H as [H|H].
  { left. destruct (d_env sh); revert H; apply FX; vm_compute; reflexivity. }
  apply in_app_or in H as [H|H]; [contradiction|].
  apply in_app_or in H as [H|H]; [left; revert H; apply FX; vm_compute; reflexivity|].
  apply in_app_or in H as [H|H].
  - unfold v0d_closure in H.
    repeat (apply in_app_or in H; destruct H as [H|H]).
    + left. revert H. apply FX. vm_compute. reflexivity.
    + left. destruct (d_env sh); revert H; apply FX; vm_compute; reflexivity.
    + left. destruct (dskip_closure (d_meta_skip sh)); revert H; apply FX; vm_compute; reflexivity.
    + left. destruct (dskip_closure (d_skip_defaults_if sh)); revert H; apply FX; vm_compute; reflexivity.
    + left. destruct (d_pre sh); revert H; apply FX; vm_compute; reflexivity.
    + left. destruct (v0d_has_paths sh); revert H; apply FX; vm_compute; reflexivity.
    + right. apply in_concat in H as (l & Hl & Hx). apply mapi_from_in in Hl as (i & f & Hn & ->).
      now apply (v0d_field_closure_idx sh (0 + i) f).
    + left. revert H. apply FX. vm_compute. reflexivity.
  - right. unfold v0d_bvar in H. apply mapi_from_in in H as (i & f & Hn & ->). exists (0 + i). auto.
Qed.

(* an index-based identifier is never one of the fixed ones, and distinct indices give distinct identifiers *)
Theorem v0_dump_index_not_fixed x : index_based x -> ~ In x v0d_fixed_names.
Proof.
  intros (i & H). destruct H as [H|[H|H]]; subst x; apply idx_not_in; vm_compute; reflexivity.
Qed.

(* ======================================================================== *)
(* default engine, load: `_default_<field>`                                    *)
(* ======================================================================== *)
Definition p_default : pstr := S "_default_".

Theorem v0_load_default_prefix sh x :
  In x (v0l_pool sh) -> starts_with p_default x = true -> In x (v0l_defaults sh).
Proof.
  unfold v0l_pool, pool, poolv. cbn [fn_params fn_globals fn_closure v0_load_fn]. intros H HP.
  assert (FX : forall l, forallb (fun n => negb (starts_with p_default n)) l = true -> In x l -> False).
  { intros l Hl Hx. rewrite forallb_forall in Hl. apply Hl in Hx. rewrite HP in Hx. discriminate. }
  destruct sh as [paths loop pre ca tk ru]. unfold v0l_binds0, v0l_has_paths, v0l_globals, v0l_closure in H.
  cbn [l_paths l_loop l_pre l_catch_all l_tag_key l_raise_unknown] in H.
  apply in_app_or in H as [H|H]; [exfalso; revert H; apply FX; vm_compute; reflexivity|].
  apply in_app_or in H as [H|H].
  { exfalso. revert H. apply FX. destruct paths, loop, ca as [[? ?]|]; vm_compute; reflexivity. }
  apply in_app_or in H as [H|H].
  { exfalso. revert H. apply FX. destruct paths, loop, ru; vm_compute; reflexivity. }
  apply in_app_or in H as [H|H]; [contradiction|].
  apply in_app_or in H as [H|H]; [exfalso; revert H; apply FX; vm_compute; reflexivity|].
  rewrite app_nil_r in H.
  repeat (apply in_app_or in H; destruct H as [H|H]).
  - exfalso. revert H. apply FX. vm_compute. reflexivity.
  - exfalso. revert H. apply FX. destruct paths; vm_compute; reflexivity.
  - exfalso. revert H. apply FX. destruct pre; vm_compute; reflexivity.
  - exact H.
Qed.

Theorem v0_load_defaults_nodup sh : NoDup (map lf_name (l_paths sh)) -> NoDup (v0l_defaults sh).
Proof.
  intro H. unfold v0l_defaults. rewrite <- (map_map lf_name (fun n => S "_default_" ++ n)).
  apply NoDup_map_inj; [intros a b E; now apply app_inv_head in E|].
  now apply NoDup_map_filter.
Qed.

(* ======================================================================== *)
(* v1: `__<field>` locals                                                      *)
(* ======================================================================== *)
Definition p_dunder : pstr := S "__".

Theorem v1_field_locals_nodup sh : NoDup (map vf_name (v_fields sh)) -> NoDup (v1_field_locals sh).
Proof.
  intro H. unfold v1_field_locals. rewrite <- (map_map vf_name (fun n => S "__" ++ n)).
  apply NoDup_map_inj; [intros a b E; now apply app_inv_head in E|exact H].
Qed.

(* a `__<field>` local can only meet a closure variable or a helper of the batch *)
Theorem v1_field_local_vs_own batch sh n :
  In (v1_field_local n) (v1_own batch sh) -> In (v1_field_local n) (v1_closure sh ++ batch).
Proof.
  unfold v1_own. intro H.
  assert (FX : forall l, forallb (fun y => negb (starts_with p_dunder y)) l = true -> In (v1_field_local n) l -> False).
  { intros l Hl Hx. rewrite forallb_forall in Hl. apply Hl in Hx.
    unfold v1_field_local in Hx. change (S "__") with p_dunder in Hx. rewrite starts_with_app in Hx. discriminate. }
  apply in_app_or in H as [H|H]; [exfalso; revert H; apply FX; vm_compute; reflexivity|].
  apply in_app_or in H as [H|H]; [exfalso; revert H; apply FX; vm_compute; reflexivity|].
  apply in_app_or in H as [H|H]; [exfalso; revert H; apply FX; vm_compute; reflexivity|].
  exact H.
Qed.

Definition v1_witness : v1_shape :=
  {| v_cls := S "A";
     v_fields := [ {| vf_name := S "TRUTHY"; vf_ty := VInt; vf_has_default := false; vf_key := KField |};
                   {| vf_name := S "flag"; vf_ty := VBool; vf_has_default := false; vf_key := KField |} ];
     v_pre := false; v_unknown := UkNone; v_tag_key := None |}.

Theorem v1_field_local_refuted :
  NoDup (map vf_name (v_fields v1_witness)) /\
  In (v1_field_local (S "TRUTHY")) (v1_field_locals v1_witness) /\
  In (v1_field_local (S "TRUTHY")) (v1_closure v1_witness) /\
  In (v1_field_local (S "TRUTHY")) (s_binds (v1_body v1_witness)).
Proof.
  split.
  - cbn. constructor; [|constructor; [|constructor]]; cbn; intuition discriminate.
  - repeat split; apply mem_str_In; vm_compute; reflexivity.
Qed.

(* ======================================================================== *)
(* EnvWizard: field names are parameters of __init__                           *)
(* ======================================================================== *)
Lemma env_name_ok_not_own sh n :
  env_name_ok sh n = true -> ~ In n (env_own sh).
Proof.
  unfold env_name_ok. intro H. apply andb_true_iff in H as [HR HP].
  apply negb_true_iff in HR.
  assert (NR : ~ In n (env_reserved sh)).
  { intro HI. apply mem_str_In in HI. congruence. }
  assert (RS : forall l, forallb (fun y => mem_str y (env_reserved sh)) l = true -> In n l -> False).
  { intros l Hl Hx. rewrite forallb_forall in Hl. apply Hl in Hx. apply mem_str_In in Hx. contradiction. }
  unfold env_own. intro HI.
  apply in_app_or in HI as [HI|HI]; [revert HI; apply RS; vm_compute; reflexivity|].
  apply in_app_or in HI as [HI|HI]; [revert HI; apply RS; vm_compute; reflexivity|].
  apply in_app_or in HI as [HI|HI].
  { revert HI. apply RS. unfold env_closure. destruct (e_secrets_dir sh); vm_compute; reflexivity. }
  unfold env_globals in HI.
  apply in_app_or in HI as [HI|HI]; [revert HI; apply RS; vm_compute; reflexivity|].
  apply in_app_or in HI as [HI|HI].
  { revert HI. apply RS. destruct (e_env_file sh); vm_compute; reflexivity. }
  apply in_app_or in HI as [HI|HI].
  - apply in_flat_map in HI as (f & Hf & HI). unfold env_field_globals in HI.
    cbn [forallb env_reserved_prefixes map] in HP.
    apply andb_true_iff in HP as [P1 HP]. apply andb_true_iff in HP as [P2 HP]. apply andb_true_iff in HP as [P3 _].
    apply negb_true_iff in P1, P2, P3.
    cbn [app In] in HI. destruct HI as [E|[E|HI]].
    + subst n. vm_compute in P1. discriminate.
    + subst n. vm_compute in P2. discriminate.
    + destruct (ef_default f); cbn in HI; try contradiction;
        destruct HI as [E|[]]; subst n; vm_compute in P3; discriminate.
  - revert HI. apply RS. destruct (e_fields sh); vm_compute; reflexivity.
Qed.

Theorem env_no_collision sh :
  env_names_ok sh = true -> NoDup (map ef_name (e_fields sh)) ->
  NoDup (env_fixed_params ++ map ef_name (e_fields sh)) /\
  forall f, In f (e_fields sh) -> ~ In (ef_name f) (env_own sh).
Proof.
  intros HO HN. unfold env_names_ok in HO. rewrite forallb_forall in HO. split.
  - apply NoDup_app_intro.
    + vm_compute. repeat constructor; cbn; intuition discriminate.
    + exact HN.
    + intros x Hx HI. apply in_map_iff in HI as (f & <- & Hf).
      apply (env_name_ok_not_own sh _ (HO f Hf)). unfold env_own. apply in_or_app. now left.
  - intros f Hf. exact (env_name_ok_not_own sh _ (HO f Hf)).
Qed.

Definition env_witness : env_shape :=
  {| e_fields := [ {| ef_name := S "MISSING"; ef_var := None; ef_default := EdNone |} ];
     e_env_file := false; e_secrets_dir := false; e_prefix := None |}.

Theorem env_collision_refuted :
  NoDup (map ef_name (e_fields env_witness)) /\
  env_names_ok env_witness = false /\
  In (S "MISSING") (fn_params (env_init_fn env_witness)) /\
  In (S "MISSING") (fn_globals (env_init_fn env_witness)) /\
  In (S "MISSING") (s_loads (fn_body (env_init_fn env_witness))).
Proof.
  split; [cbn; constructor; [intros []|constructor]|]. split; [vm_compute; reflexivity|].
  repeat split; apply mem_str_In; vm_compute; reflexivity.
Qed.

(* ======================================================================== *)
(* name-keyed helper tables                                                    *)
(* ======================================================================== *)
Definition injective_on_type_names (regs : list registration) : Prop :=
  forall r1 r2, In r1 regs -> In r2 regs -> fst r1 = fst r2 -> snd r1 = snd r2.

Lemma lookup_last_in key t id : lookup_last key t = Some id -> In (key, id) t.
Proof.
  induction t as [|[k i] t IH]; cbn [lookup_last]; [discriminate|].
  destruct (lookup_last key t) as [x|] eqn:E.
  - intro H. inversion H; subst. right. now apply IH.
  - destruct (pstr_eqb k key) eqn:EK; [|discriminate]. intro H. inversion H; subst.
    apply pstr_eqb_eq in EK. subst. now left.
Qed.

Lemma lookup_last_some key t id : In (key, id) t -> exists id', lookup_last key t = Some id'.
Proof.
  induction t as [|[k i] t IH]; cbn [In lookup_last]; [intros []|].
  intros [H|H].
  - inversion H; subst. destruct (lookup_last key t); [eauto|]. rewrite pstr_eqb_refl. eauto.
  - destruct (IH H) as (x & ->). eauto.
Qed.

Lemma table_partial (name_of : pstr -> pstr) regs r :
  (forall a b, name_of a = name_of b -> a = b) ->
  injective_on_type_names regs -> In r regs ->
  lookup_last (name_of (fst r)) (map (fun r => (name_of (fst r), snd r)) regs) = Some (snd r).
Proof.
  intros Hinj HI Hr.
  assert (Hin : In (name_of (fst r), snd r) (map (fun r => (name_of (fst r), snd r)) regs)).
  { apply in_map_iff. exists r. auto. }
  destruct (lookup_last_some _ _ _ Hin) as (id' & E). rewrite E. f_equal.
  apply lookup_last_in in E. apply in_map_iff in E as (r' & E' & Hr').
  inversion E'; subst. apply Hinj in H0. now apply (HI r' r).
Qed.

Theorem helper_table_partial regs r :
  injective_on_type_names regs -> In r regs -> resolves regs r = Some (snd r).
Proof. intros. unfold resolves, fn_table. apply table_partial; auto. apply v1_fn_name_inj. Qed.

Theorem type_local_table_partial fi regs r :
  injective_on_type_names regs -> In r regs ->
  lookup_last (v1_type_local (fst r) fi) (local_table fi regs) = Some (snd r).
Proof.
  intros. unfold local_table. apply (table_partial (fun n => v1_type_local n fi)); auto.
  intros a b E. now apply type_local_inj in E as [-> _].
Qed.

(* F9: two distinct types called Item — the call site written for the first reaches the second *)
Definition f9_regs : list registration := [(S "Item", 1%N); (S "Item", 2%N)].

Theorem helper_table_refuted :
  ~ injective_on_type_names f9_regs /\
  resolves f9_regs (S "Item", 1%N) = Some 2%N /\
  lookup_last (v1_type_local (S "Item") 1) (local_table 1 f9_regs) = Some 2%N.
Proof.
  split.
  - intro H. specialize (H (S "Item", 1%N) (S "Item", 2%N)). cbn in H.
    assert (1%N = 2%N) by (apply H; auto). discriminate.
  - split; vm_compute; reflexivity.
Qed.
