(* PatAmbigProofs.v — C17 on the AMBIGUOUS region: strings that are valid ISO-8601 for the target
   type AND are parsed by a declared pattern (with another meaning), and strings parsed by several
   declared patterns.  The decision trees are those of PatModel.v; `iso` / `strp` stay parameters. *)
From DW Require Import PyStr CharFacts PatModel PatProofs.
From Coq Require Import Lia ZifyBool.

(* ---- decidable equality of readings ------------------------------------------------------------ *)
Lemma tzv_eqb_eq a b : tzv_eqb a b = true <-> a = b.
Proof.
  destruct a as [x|x], b as [y|y]; cbn; split; intro H; try discriminate; try (inversion H; subst).
  - apply Z.eqb_eq in H. now subst.
  - apply Z.eqb_refl.
  - apply pstr_eqb_eq in H. now subst.
  - apply pstr_eqb_refl.
Qed.

Lemma otz_eqb_eq a b : otz_eqb a b = true <-> a = b.
Proof.
  destruct a as [x|], b as [y|]; cbn; split; intro H; try discriminate; auto.
  - apply tzv_eqb_eq in H. now subst.
  - inversion H; subst. now apply tzv_eqb_eq.
Qed.

Lemma stamp_eqb_eq a b : stamp_eqb a b = true <-> a = b.
Proof.
  split.
  - unfold stamp_eqb. intro H.
    repeat (apply andb_true_iff in H; destruct H as [H ?]).
    destruct a, b; cbn in *.
    repeat match goal with E : (_ =? _)%Z = true |- _ => apply Z.eqb_eq in E end.
    match goal with E : otz_eqb _ _ = true |- _ => apply otz_eqb_eq in E end.
    now subst.
  - intros <-. unfold stamp_eqb. rewrite !Z.eqb_refl. cbn.
    replace (otz_eqb (tz a) (tz a)) with true; [reflexivity|].
    symmetry. now apply otz_eqb_eq.
Qed.

Lemma stamp_eqb_neq a b : stamp_eqb a b = false <-> a <> b.
Proof.
  split.
  - intros H E. apply stamp_eqb_eq in E. congruence.
  - intro H. destruct (stamp_eqb a b) eqn:E; auto. apply stamp_eqb_eq in E. contradiction.
Qed.

Section PatAmbig.
Variable iso : kind -> pstr -> option stamp.
Variable strp : pstr -> pstr -> option stamp.

Notation load0 := (load0 iso strp).
Notation load1 := (load1 iso strp).
Notation try_patterns := (try_patterns strp).
Notation first_match := (first_match strp).
Notation pmatches := (pmatches strp).
Notation iso1 := (iso1 iso).

(* ---- first_match: the first listed pattern that parses, whatever the later ones do ------------- *)
Lemma first_match_split ps s p d :
  first_match ps s = Some (p, d) <->
  exists ps1 ps2, ps = ps1 ++ p :: ps2 /\ (forall q, In q ps1 -> strp q s = None) /\ strp p s = Some d.
Proof.
  split.
  - revert p d. induction ps as [|q r IH]; cbn; [discriminate|]. intros p d.
    destruct (strp q s) as [d0|] eqn:E.
    + intro H. inversion H; subst. exists [], r. repeat split; auto. intros ? [].
    + intro H. destruct (IH _ _ H) as (ps1 & ps2 & -> & Hn & Hp).
      exists (q :: ps1), ps2. repeat split; auto.
      intros x [<-|Hx]; auto.
  - intros (ps1 & ps2 & -> & Hn & Hp). induction ps1 as [|q r IH]; cbn.
    + now rewrite Hp.
    + rewrite (Hn q) by now left. apply IH. intros; apply Hn; now right.
Qed.

Lemma first_match_none ps s : first_match ps s = None <-> (forall q, In q ps -> strp q s = None).
Proof.
  induction ps as [|q r IH]; cbn.
  - split; auto. intros _ ? [].
  - destruct (strp q s) eqn:E.
    + split; [discriminate|]. intro H. rewrite (H q) in E by now left. discriminate.
    + rewrite IH. split.
      * intros H x [<-|Hx]; auto.
      * intros H x Hx. apply H. now right.
Qed.

Lemma first_match_matches ps s p d : first_match ps s = Some (p, d) -> In p ps /\ pmatches p s = true.
Proof.
  intro H. apply first_match_split in H as (ps1 & ps2 & -> & _ & Hp). split.
  - apply in_or_app. right. now left.
  - unfold PatModel.pmatches. now rewrite Hp.
Qed.

Lemma try_first_match k tzo ps s :
  try_patterns k tzo ps s = match first_match ps s with Some (_, d) => Some (conv1 k tzo d) | None => None end.
Proof. induction ps as [|q r IH]; cbn; auto. now destruct (strp q s). Qed.

(* ---- the two decision trees, in the vocabulary of "matches" ----------------------------------------
   (complete characterisation: the exception is delimited by dash_time / dash_time1 exactly as the
   source delimits it, and by nothing else) *)
Lemma load0_cases k cls p s :
  load0 k cls p s =
  match (if dash_time k p then strp p s else None), iso k (iso_arg k s), strp p s with
  | Some d, _, _ => Loaded (mkv k cls (conv0 k d))          (* exception: the pattern first *)
  | None, Some d', _ => Loaded (mkv k cls d')                 (* ISO, whether or not the pattern matches *)
  | None, None, Some d => Loaded (mkv k cls (conv0 k d))
  | None, None, None => ParseErr [p]
  end.
Proof.
  unfold PatModel.load0, dash_time.
  destruct (is_time k && has_dash_plus p), (strp p s), (iso k (iso_arg k s)); reflexivity.
Qed.

Lemma load1_cases k cls tzo ps s :
  load1 k cls tzo ps s =
  match (if dash_time1 k ps then first_match ps s else None), iso k s, first_match ps s with
  | Some (_, d), _, _ => Loaded (mkv k cls (conv1 k tzo d))
  | None, Some d', _ => Loaded (mkv k cls (set_tz_opt tzo d'))
  | None, None, Some (_, d) => Loaded (mkv k cls (conv1 k tzo d))
  | None, None, None => ParseErr ps
  end.
Proof.
  unfold PatModel.load1, dash_time1, PatModel.iso1. rewrite try_first_match.
  destruct (is_time k && existsb has_dash_plus ps), (first_match ps s) as [[q d]|], (iso k s); reflexivity.
Qed.

(* ---- ISO precedence EVEN IF a declared pattern also parses the string ------------------------------ *)
Lemma iso_wins0 k cls p s d' :
  iso k (iso_arg k s) = Some d' -> dash_time k p = false ->
  load0 k cls p s = Loaded (mkv k cls d').
Proof. intros Hi Hd. apply (iso_precedence0 iso strp); auto. Qed.

Lemma iso_wins1 k cls tzo ps s d' :
  iso k s = Some d' -> dash_time1 k ps = false ->
  load1 k cls tzo ps s = Loaded (mkv k cls (set_tz_opt tzo d')).
Proof. intros Hi Hd. apply (iso_precedence1 iso strp); auto. Qed.

(* date and datetime targets are never in the exception *)
Lemma no_exception_date_datetime k : k <> KTime -> (forall p, dash_time k p = false) /\ (forall ps, dash_time1 k ps = false).
Proof. destruct k; try congruence; intros _; split; reflexivity. Qed.

(* the exception is exact: on an ambiguous string the pattern reading displaces the ISO reading
   if and only if the target is a time and a declared pattern contains '-' or '+' *)
Lemma exception_exact0 k cls p s d d' :
  iso k (iso_arg k s) = Some d' -> strp p s = Some d -> conv0 k d <> d' ->
  (load0 k cls p s = Loaded (mkv k cls (conv0 k d)) <-> dash_time k p = true) /\
  (load0 k cls p s = Loaded (mkv k cls d') <-> dash_time k p = false).
Proof.
  intros Hi Hp Hne. rewrite load0_cases, Hi, Hp.
  destruct (dash_time k p); split; split; intro H; auto; try discriminate;
    inversion H; congruence.
Qed.

Lemma exception_exact1 k cls tzo ps s p d d' :
  iso k s = Some d' -> first_match ps s = Some (p, d) -> conv1 k tzo d <> set_tz_opt tzo d' ->
  (load1 k cls tzo ps s = Loaded (mkv k cls (conv1 k tzo d)) <-> dash_time1 k ps = true) /\
  (load1 k cls tzo ps s = Loaded (mkv k cls (set_tz_opt tzo d')) <-> dash_time1 k ps = false).
Proof.
  intros Hi Hp Hne. rewrite load1_cases, Hi, Hp.
  destruct (dash_time1 k ps); split; split; intro H; auto; try discriminate;
    inversion H; congruence.
Qed.

(* the boolean `ambig` is that situation *)
Lemma ambig0_spec k p s :
  ambig0 iso strp k p s = true <->
  exists d d', iso k (iso_arg k s) = Some d' /\ strp p s = Some d /\ conv0 k d <> d'.
Proof.
  unfold PatModel.ambig0. split.
  - destruct (iso k (iso_arg k s)) as [d'|], (strp p s) as [d|]; try discriminate.
    intro H. apply negb_true_iff, stamp_eqb_neq in H. now exists d, d'.
  - intros (d & d' & -> & -> & H). now apply negb_true_iff, stamp_eqb_neq.
Qed.

Lemma ambig1_spec k tzo ps s :
  ambig1 iso strp k tzo ps s = true <->
  exists p d d', iso k s = Some d' /\ first_match ps s = Some (p, d) /\ conv1 k tzo d <> set_tz_opt tzo d'.
Proof.
  unfold PatModel.ambig1, PatModel.iso1. split.
  - destruct (iso k s) as [d'|], (first_match ps s) as [[p d]|]; try discriminate.
    intro H. apply negb_true_iff, stamp_eqb_neq in H. now exists p, d, d'.
  - intros (p & d & d' & -> & -> & H). now apply negb_true_iff, stamp_eqb_neq.
Qed.

(* on an ambiguous string, outside the exception, the result is the ISO reading and NOT the pattern's *)
Lemma ambig0_iso k cls p s :
  ambig0 iso strp k p s = true -> dash_time k p = false ->
  exists d d', iso k (iso_arg k s) = Some d' /\ strp p s = Some d /\
               load0 k cls p s = Loaded (mkv k cls d') /\ load0 k cls p s <> Loaded (mkv k cls (conv0 k d)).
Proof.
  intros H Hd. apply ambig0_spec in H as (d & d' & Hi & Hp & Hne). exists d, d'.
  repeat split; auto.
  - now apply iso_wins0.
  - rewrite (iso_wins0 k cls p s d' Hi Hd). intro E. inversion E. congruence.
Qed.

Lemma ambig1_iso k cls tzo ps s :
  ambig1 iso strp k tzo ps s = true -> dash_time1 k ps = false ->
  exists p d d', iso k s = Some d' /\ first_match ps s = Some (p, d) /\
                 load1 k cls tzo ps s = Loaded (mkv k cls (set_tz_opt tzo d')) /\
                 load1 k cls tzo ps s <> Loaded (mkv k cls (conv1 k tzo d)).
Proof.
  intros H Hd. apply ambig1_spec in H as (p & d & d' & Hi & Hp & Hne). exists p, d, d'.
  repeat split; auto.
  - now apply iso_wins1.
  - rewrite (iso_wins1 k cls tzo ps s d' Hi Hd). intro E. inversion E. congruence.
Qed.

(* ---- first listed matching pattern wins AMONG the patterns (later ones may match differently) ---- *)
Lemma first_listed_wins1 k cls tzo ps s p d :
  first_match ps s = Some (p, d) -> iso k s = None \/ dash_time1 k ps = true ->
  load1 k cls tzo ps s = Loaded (mkv k cls (conv1 k tzo d)).
Proof.
  intros Hp Hc. rewrite load1_cases, Hp. destruct Hc as [->| ->]; [|reflexivity].
  now destruct (dash_time1 k ps).
Qed.

(* ---- dump / load for a value loaded through ANY declared pattern -------------------------------------
   s' is the dump: ISO for the target, reading back the loaded components.  Outside the exception
   nothing is asked of the patterns: they may all parse s' with other meanings. *)
Lemma dump_load0_any k cls p s s' v :
  load0 k cls p s = Loaded v -> iso k (iso_arg k s') = Some (v_st v) -> dash_time k p = false ->
  load0 k cls p s' = Loaded v.
Proof. intros H Hi Hd. apply (dump_load0 iso strp k cls p s s' v H Hi). congruence. Qed.

Lemma dump_load1_any k cls tzo ps s s' v d' :
  load1 k cls tzo ps s = Loaded v -> iso k s' = Some d' -> set_tz_opt tzo d' = v_st v ->
  dash_time1 k ps = false ->
  load1 k cls tzo ps s' = Loaded v.
Proof. intros H Hi Ht Hd. apply (dump_load1 iso strp k cls tzo ps s s' v d' H Hi Ht). congruence. Qed.

(* inside the exception: enough that the first pattern matching the dump (if any) reads the same value *)
Lemma dump_load0_strong k cls p s s' v :
  load0 k cls p s = Loaded v -> iso k (iso_arg k s') = Some (v_st v) ->
  (dash_time k p = true -> forall d, strp p s' = Some d -> conv0 k d = v_st v) ->
  load0 k cls p s' = Loaded v.
Proof.
  intros H Hi Hd. destruct (load0_shape iso strp _ _ _ _ _ H) as [E1 E2].
  rewrite load0_cases, Hi. destruct v as [vk vc vs]. cbn in *. subst.
  destruct (dash_time k p); [|now destruct (strp p s')].
  destruct (strp p s') as [d|] eqn:Ep; [|reflexivity].
  now rewrite (Hd eq_refl d eq_refl).
Qed.

Lemma dump_load1_strong k cls tzo ps s s' v d' :
  load1 k cls tzo ps s = Loaded v -> iso k s' = Some d' -> set_tz_opt tzo d' = v_st v ->
  (dash_time1 k ps = true -> forall p d, first_match ps s' = Some (p, d) -> conv1 k tzo d = v_st v) ->
  load1 k cls tzo ps s' = Loaded v.
Proof.
  intros H Hi Ht Hd. destruct (load1_shape iso strp _ _ _ _ _ _ H) as [E1 E2].
  rewrite load1_cases, Hi. destruct v as [vk vc vs]. cbn in *. subst.
  destruct (dash_time1 k ps); [|now destruct (first_match ps s') as [[? ?]|]].
  destruct (first_match ps s') as [[p d]|] eqn:Ep; [|reflexivity].
  now rewrite (Hd eq_refl p d eq_refl).
Qed.

(* ---- the exception cannot reach a dump without '-' / '+' when every tried pattern has one ---------
   stdlib law (premise): strptime matches the literal characters of the pattern literally, so a
   pattern containing '-' or '+' only parses strings containing one. *)
Definition literal_law : Prop :=
  forall p s d, strp p s = Some d -> has_dash_plus p = true -> has_dash_plus s = true.

Lemma dump_load0_plain k cls p s s' v :
  literal_law -> has_dash_plus s' = false ->
  load0 k cls p s = Loaded v -> iso k (iso_arg k s') = Some (v_st v) ->
  load0 k cls p s' = Loaded v.
Proof.
  intros L Hs H Hi. apply (dump_load0_strong k cls p s s' v H Hi).
  intros Hd d Hp. unfold dash_time in Hd. apply andb_true_iff in Hd as [_ Hd].
  rewrite (L p s' d Hp Hd) in Hs. discriminate.
Qed.

(* v1 safe region: the exception is not active, or EVERY declared pattern contains '-' / '+' *)
Definition sibling_free (k : kind) (ps : list pstr) : bool :=
  negb (dash_time1 k ps) || forallb has_dash_plus ps.

Lemma dump_load1_plain_partial k cls tzo ps s s' v d' :
  literal_law -> has_dash_plus s' = false -> sibling_free k ps = true ->
  load1 k cls tzo ps s = Loaded v -> iso k s' = Some d' -> set_tz_opt tzo d' = v_st v ->
  load1 k cls tzo ps s' = Loaded v.
Proof.
  intros L Hs Hf H Hi Ht. apply (dump_load1_strong k cls tzo ps s s' v d' H Hi Ht).
  intros Hd p d Hp. unfold sibling_free in Hf. rewrite Hd in Hf. cbn in Hf.
  destruct (first_match_matches _ _ _ _ Hp) as [Hin _].
  apply first_match_split in Hp as (ps1 & ps2 & _ & _ & Hp).
  rewrite forallb_forall in Hf. rewrite (L p s' d Hp (Hf p Hin)) in Hs. discriminate.
Qed.

Lemma iso_wins1_plain_partial k cls tzo ps s d' :
  literal_law -> has_dash_plus s = false -> sibling_free k ps = true ->
  iso k s = Some d' ->
  load1 k cls tzo ps s = Loaded (mkv k cls (set_tz_opt tzo d')).
Proof.
  intros L Hs Hf Hi. apply (iso_precedence1 iso strp k cls tzo ps s d' Hi).
  destruct (dash_time1 k ps) eqn:Hd; [right|now left].
  unfold sibling_free in Hf. rewrite Hd in Hf. cbn in Hf. rewrite forallb_forall in Hf.
  intros q Hq. destruct (strp q s) as [d|] eqn:E; auto.
  rewrite (L q s d E (Hf q Hq)) in Hs. discriminate.
Qed.

End PatAmbig.
