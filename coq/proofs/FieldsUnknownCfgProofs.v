(* FieldsUnknownCfgProofs.v — lemmas for the round-3 extension of property C10:
   A. Meta binds: for every bind sequence the stored policy is the last explicitly written one,
      normalised (never a raw string); spellings are indistinguishable downstream;
   B. generations: the outcome of a load does not depend on the generations that preceded it;
      with a by-name-correct positional call the generated loader is its specification;
   C. dump: the pairs written by the CatchAll branch are exactly the captured items unless the
      CatchAll FIELD is selected by exclude / the skip-defaults rule, whatever Meta.skip_if,
      the per-field SkipIf conditions, the key transform and the other fields are. *)
From DW Require Import PyStr CharFacts StrConv FieldsMissing FieldsMissingProofs FieldsUnknown FieldsUnknownProofs.
From Coq Require Import Lia.

(* ---- A. configuration ------------------------------------------------------------------- *)

Lemma as_action_normal v v' : as_action v = Some v' -> is_normal_action v' = true.
Proof.
  destruct v as [|b|n|s|p]; cbn [as_action]; try discriminate.
  - intros [= <-]. reflexivity.
  - destruct s as [|a s]; [intros [= <-]; reflexivity|].
    destruct (assoc (replace_char c_sp c_us (upper (a :: s))) action_names); [|discriminate].
    intros [= <-]. reflexivity.
  - intros [= <-]. reflexivity.
Qed.

Lemma as_action_idem v : is_normal_action v = true -> as_action v = Some v.
Proof. destruct v; cbn; try discriminate; reflexivity. Qed.

Lemma norm_action_normal v : is_normal_action (norm_action v) = true.
Proof.
  unfold norm_action. destruct (as_action v) eqn:E; [|reflexivity]. eapply as_action_normal; eauto.
Qed.

Lemma md_get_action_none_norm m :
  md_get_action m = PvNone ->
  match md_action m with Some v => norm_action v | None => PvNone end = PvNone.
Proof. unfold md_get_action. destruct (md_action m); [intros ->|]; reflexivity. Qed.

Definition act_rel (st : option metadict) (acc : option pyv) : Prop :=
  stored_action st = match acc with Some v => norm_action v | None => PvNone end.
Definition raise_rel (st : option metadict) (acc : option pyv) : Prop :=
  stored_raise st = match acc with Some v => v | None => PvBool false end.
Definition upd (get : metadict -> option pyv) (b : metadict) (acc : option pyv) : option pyv :=
  match get b with Some v => Some v | None => acc end.

(* one bind: the stored policy becomes the normalised new one when the new Meta writes the
   setting, and stays otherwise; same for the raise flag (stored as written) *)
Lemma bind_to_step st b st' acc racc :
  bind_to st b = BOk st' -> act_rel st acc -> raise_rel st racc ->
  act_rel st' (upd md_action b acc) /\ raise_rel st' (upd md_raise b racc).
Proof.
  unfold bind_to, act_rel, raise_rel, upd, stored_action, stored_raise, md_get_action, md_get_raise, norm_action.
  destruct b as [ba br]. cbn [md_action md_raise]. intros H Ha Hr. cbv zeta in H.
  assert (KEEP : forall a', 
            (match a' with Some v => is_normal_action v = true | None => ba = None end) ->
            (a' = None -> ba = None) ->
            st' = Some (match st with None => {| md_action := a'; md_raise := br |}
                                 | Some old => md_merge old {| md_action := a'; md_raise := br |} end) ->
            (match st' with Some m => match md_action m with Some v => v | None => PvNone end | None => PvNone end =
             match (match a' with Some v => Some v | None => acc end) with
             | Some v => match as_action v with Some v' => v' | None => PvNone end | None => PvNone end) /\
            (match st' with Some m => match md_raise m with Some v => v | None => PvBool false end | None => PvBool false end =
             match (match br with Some v => Some v | None => racc end) with Some v => v | None => PvBool false end)).
  { intros a' Hn _ ->. destruct st as [old|]; unfold md_merge; cbn [md_action md_raise]; split.
    - destruct a' as [v|]; [now rewrite (as_action_idem v Hn)|exact Ha].
    - destruct br; [reflexivity|exact Hr].
    - destruct a' as [v|]; [now rewrite (as_action_idem v Hn)|exact Ha].
    - destruct br; [reflexivity|exact Hr]. }
  destruct ba as [v|].
  - destruct v as [|bb|n|s|p]; try (cbn [as_action] in H; discriminate).
    + injection H as <-. apply (KEEP (Some PvNone)); [reflexivity|discriminate|reflexivity].
    + destruct (as_action (PvStr s)) as [v'|] eqn:E; [|discriminate]. injection H as <-.
      pose proof (as_action_normal _ _ E) as Nv.
      destruct (KEEP (Some v') Nv ltac:(discriminate) eq_refl) as [K1 K2]. split; [|exact K2].
      rewrite K1. now rewrite (as_action_idem v' Nv).
    + cbn [as_action] in H. injection H as <-. apply (KEEP (Some (PvAction p))); [reflexivity|discriminate|reflexivity].
  - injection H as <-. apply (KEEP None); [reflexivity|reflexivity|reflexivity].
Qed.

Lemma last_explicit_cons get b bs acc :
  last_explicit get (b :: bs) acc = last_explicit get bs (upd get b acc).
Proof. reflexivity. Qed.

Lemma bind_all_rel : forall bs st st' acc racc,
  bind_all st bs = BOk st' -> act_rel st acc -> raise_rel st racc ->
  act_rel st' (last_explicit md_action bs acc) /\ raise_rel st' (last_explicit md_raise bs racc).
Proof.
  induction bs as [|b bs IH]; intros st st' acc racc H Ha Hr; cbn [bind_all] in H.
  - injection H as <-. now split.
  - destruct (bind_to st b) as [s1|] eqn:E; [|discriminate].
    destruct (bind_to_step st b s1 acc racc E Ha Hr) as [Ha1 Hr1].
    rewrite !last_explicit_cons. eapply IH; eauto.
Qed.

(* for EVERY bind sequence: the generator reads the last explicitly written policy, normalised *)
Theorem cfg_last_wins bs st :
  bind_all None bs = BOk st ->
  stored_action st = match last_explicit md_action bs None with Some v => norm_action v | None => PvNone end /\
  stored_raise st = match last_explicit md_raise bs None with Some v => v | None => PvBool false end.
Proof. intro H. apply (bind_all_rel bs None st None None H); reflexivity. Qed.

Theorem cfg_policy bs st :
  bind_all None bs = BOk st ->
  v1_policy_of (stored_action st) = spec_policy bs /\
  py_truthy (stored_raise st) = spec_raise_flag bs /\
  is_normal_action (stored_action st) = true.
Proof.
  intro H. destruct (cfg_last_wins bs st H) as [Ha Hr]. unfold spec_policy, spec_raise_flag.
  rewrite Ha, Hr. repeat split.
  - destruct (last_explicit md_action bs None); reflexivity.
  - destruct (last_explicit md_raise bs None); reflexivity.
  - destruct (last_explicit md_action bs None); [apply norm_action_normal|reflexivity].
Qed.

(* a bind sequence fails exactly when some Meta writes a policy that is no KeyAction name *)
Definition valid_bind (b : metadict) : bool :=
  match md_action b with
  | Some v => match as_action v with Some _ => true | None => false end
  | None => true
  end.

Lemma bind_to_valid st b : valid_bind b = true -> exists st', bind_to st b = BOk st'.
Proof.
  unfold valid_bind, bind_to, md_get_action. cbv zeta. destruct (md_action b) as [v|]; [|eauto].
  destruct v as [|bb|n|s|p]; try (cbn [as_action]; discriminate); try (cbn [as_action]; eauto; fail).
  destruct (as_action (PvStr s)); [eauto|discriminate].
Qed.

Theorem cfg_valid_binds_ok : forall bs st, forallb valid_bind bs = true -> exists st', bind_all st bs = BOk st'.
Proof.
  induction bs as [|b bs IH]; intros st H; cbn [bind_all]; [eauto|].
  cbn [forallb] in H. apply andb_true_iff in H as [Hb Hr].
  destruct (bind_to_valid st b Hb) as [s1 ->]. now apply IH.
Qed.

(* spellings: two sequences whose Metas agree up to as_enum / truthiness configure the same policy *)
Lemma last_explicit_equiv : forall bs bs' acc acc',
  Forall2 md_equiv bs bs' ->
  option_map as_action acc = option_map as_action acc' ->
  option_map as_action (last_explicit md_action bs acc) = option_map as_action (last_explicit md_action bs' acc').
Proof.
  induction bs as [|b bs IH]; intros bs' acc acc' HF Hacc; inversion HF as [|? b' ? bs'' [Hb _] HF']; subst.
  - exact Hacc.
  - rewrite !last_explicit_cons. apply IH; [exact HF'|]. unfold upd.
    destruct (md_action b) as [v|], (md_action b') as [v'|]; cbn [option_map] in *; try discriminate; assumption.
Qed.

Lemma last_explicit_equiv_raise : forall bs bs' acc acc',
  Forall2 md_equiv bs bs' ->
  option_map py_truthy acc = option_map py_truthy acc' ->
  option_map py_truthy (last_explicit md_raise bs acc) = option_map py_truthy (last_explicit md_raise bs' acc').
Proof.
  induction bs as [|b bs IH]; intros bs' acc acc' HF Hacc; inversion HF as [|? b' ? bs'' [_ Hb] HF']; subst.
  - exact Hacc.
  - rewrite !last_explicit_cons. apply IH; [exact HF'|]. unfold upd.
    destruct (md_raise b) as [v|], (md_raise b') as [v'|]; cbn [option_map] in *; try discriminate; assumption.
Qed.

Theorem cfg_spelling bs bs' :
  Forall2 md_equiv bs bs' ->
  spec_policy bs = spec_policy bs' /\ spec_raise_flag bs = spec_raise_flag bs'.
Proof.
  intro HF. split.
  - pose proof (last_explicit_equiv bs bs' None None HF eq_refl) as H. unfold spec_policy, norm_action.
    destruct (last_explicit md_action bs None) as [v|], (last_explicit md_action bs' None) as [v'|];
      cbn [option_map] in H; try discriminate; [|reflexivity]. injection H as ->. reflexivity.
  - pose proof (last_explicit_equiv_raise bs bs' None None HF eq_refl) as H. unfold spec_raise_flag.
    destruct (last_explicit md_raise bs None) as [v|], (last_explicit md_raise bs' None) as [v'|];
      cbn [option_map] in H; try discriminate; [|reflexivity]. now injection H.
Qed.

(* ---- B. generations ------------------------------------------------------------------------ *)
Section Gen.
Variables raw V : Type.
Variable conv : pstr -> raw -> cres V.
Variable src : v1src.
Variable pol : nat -> v1policy.

Definition gen_inv (st : gstate) : Prop :=
  gs_tbl st = s_init src /\
  forall r g, nassoc r (gs_loaders st) = Some g -> v1_generate src (s_init src) (pol r) = GenOk g.

Lemma gen_inv_init : gen_inv (g_init src).
Proof. split; [reflexivity|]. intros r g H. discriminate. Qed.

Lemma gen_step_inv st r : gen_inv st ->
  gen_inv (fst (gen_step src pol st r)) /\ snd (gen_step src pol st r) = v1_generate src (s_init src) (pol r).
Proof.
  intros [Ht Hl]. unfold gen_step. cbn [fst snd]. rewrite Ht. split; [|reflexivity]. split; [reflexivity|].
  cbn [gs_loaders]. intros r' g H.
  destruct (v1_generate src (s_init src) (pol r)) as [x|] eqn:E; [|now apply Hl].
  cbn [nassoc] in H. destruct (Nat.eqb r' r) eqn:Er.
  - apply Nat.eqb_eq in Er. subst r'. now injection H as <-.
  - now apply Hl.
Qed.

(* for all histories of generations and loads across roots: every load behaves as if its
   loader had been generated from the pristine class *)
Theorem g_run_ref : forall (ops : list (gop raw)) st, gen_inv st -> g_run conv src pol st ops = g_ref conv src pol ops.
Proof.
  induction ops as [|op ops IH]; intros st Hi; [reflexivity|]. destruct op as [r|r o]; cbn [g_run g_ref].
  - apply IH. now apply gen_step_inv.
  - destruct (nassoc r (gs_loaders st)) as [g|] eqn:E.
    + destruct Hi as [Ht Hl]. rewrite (Hl r g E). cbn [genres_load]. f_equal. apply IH. now split.
    + destruct (gen_step src pol st r) as [st' g] eqn:Eg.
      pose proof (gen_step_inv st r Hi) as [Hi' Hg]. rewrite Eg in Hi', Hg. cbn [fst snd] in Hi', Hg.
      rewrite Hg. f_equal. now apply IH.
Qed.

Definition loads_of (ops : list (gop raw)) : list (nat * doc raw) :=
  flat_map (fun op => match op with OpGen _ => [] | OpLoad r o => [(r, o)] end) ops.

Lemma g_ref_loads : forall ops,
  g_ref conv src pol ops =
  map (fun ro => genres_load conv src (v1_generate src (s_init src) (pol (fst ro))) (snd ro)) (loads_of ops).
Proof.
  induction ops as [|[r|r o] ops IH]; cbn [g_ref loads_of flat_map app map fst snd]; [reflexivity|exact IH|].
  f_equal. exact IH.
Qed.

(* ... hence two histories with the same loads give the same outcomes, however many
   generations are interleaved, and wherever *)
Theorem g_run_generation_independent ops ops' :
  loads_of ops = loads_of ops' ->
  g_run conv src pol (g_init src) ops = g_run conv src pol (g_init src) ops'.
Proof.
  intro H. rewrite !g_run_ref by apply gen_inv_init. rewrite !g_ref_loads. now rewrite H.
Qed.

(* the positional call *)
Lemma param_of_id k : forall binding p,
  forallb (fun pv => pstr_eqb (fst pv) (snd pv)) binding = true ->
  param_of k binding = Some p -> p = k.
Proof.
  induction binding as [|[p0 v0] binding IH]; intros p H E; cbn [param_of] in E; [discriminate|].
  cbn [forallb fst snd] in H. apply andb_true_iff in H as [H0 Hr].
  destruct (pstr_eqb k v0) eqn:Ek.
  - injection E as <-. apply pstr_eqb_eq in H0, Ek. congruence.
  - now apply IH.
Qed.

Lemma first_dup_nodup l : NoDup l -> first_dup l = None.
Proof.
  induction l as [|x l IH]; intro H; cbn [first_dup]; [reflexivity|].
  inversion H as [|? ? Hx Hl]; subst. apply mem_false in Hx. rewrite Hx. now apply IH.
Qed.

Lemma dict_set_keys_nodup {A} (l : list (pstr * A)) k v : NoDup (keys l) -> NoDup (keys (dict_set k v l)).
Proof.
  induction l as [|[k0 v0] l IH]; cbn [dict_set keys map fst]; intro H.
  - repeat constructor. intros [].
  - inversion H as [|? ? Hk Hl]; subst. destruct (pstr_eqb k k0) eqn:E; cbn [keys map fst].
    + constructor; assumption.
    + constructor; [|now apply IH]. intro Hin. apply keys_dict_set in Hin as [->|Hin]; [|contradiction].
      now rewrite pstr_eqb_refl in E.
Qed.

Lemma v1_fields_nodup cn : forall fs (o : doc raw) kw kw',
  NoDup (keys kw) -> v1_fields conv cn fs o kw = inr kw' -> NoDup (keys kw').
Proof.
  induction fs as [|[f ks] fs IH]; intros o kw kw' Hn H; cbn [v1_fields] in H.
  - now injection H as <-.
  - destruct (first_present ks o) as [[k v]|]; [|eapply IH; eauto].
    destruct (conv f v) as [x| |]; [|discriminate|discriminate].
    eapply IH; [|exact H]. now apply dict_set_keys_nodup.
Qed.

Lemma v1_spec_nodup (c : v1cls) (o : doc raw) kw : v1_spec conv c o = OKCall kw -> NoDup (keys kw).
Proof.
  unfold v1_spec. destruct (v1_fields conv (d_name c) (d_fields c) o []) as [e|kw0] eqn:E; [|].
  - intro H. exfalso. revert E H. generalize (@nil (pstr * kwval raw V)).
    induction (d_fields c) as [|[f ks] fs IH]; intros kw1 E H; cbn [v1_fields] in E; [discriminate|].
    destruct (first_present ks o) as [[k v]|]; [|eauto].
    destruct (conv f v); [eauto| |]; injection E as <-; discriminate.
  - assert (N0 : NoDup (keys kw0)) by (eapply v1_fields_nodup; [|exact E]; constructor).
    destruct (d_catch c) as [[cf [|]]|].
    + destruct (nonempty (v1_extras c o)); intros [= <-]; [now apply dict_set_keys_nodup|exact N0].
    + intros [= <-]. now apply dict_set_keys_nodup.
    + destruct (d_policy c); try (intros [= <-]; exact N0).
      destruct (nonempty (v1_extras c o)); [discriminate|]. intros [= <-]. exact N0.
Qed.

Lemma call_ctor_id (g : v1gen) (kw : list (pstr * kwval raw V)) :
  pos_ok src g = true -> NoDup (keys kw) -> call_ctor src g kw = GOut (OKCall kw).
Proof.
  intros Hp Hn. unfold call_ctor.
  assert (E : map (fun kv : pstr * kwval raw V =>
                (match param_of (fst kv) (combine (map if_name (s_init src)) (g_pos g)) with
                 | Some p => p | None => fst kv end, snd kv)) kw = kw).
  { rewrite <- (map_id kw) at 2. apply map_ext. intros [k v]. cbn [fst snd].
    destruct (param_of k (combine (map if_name (s_init src)) (g_pos g))) as [p|] eqn:Ep; [|reflexivity].
    now rewrite (param_of_id k _ p Hp Ep). }
  rewrite E. now rewrite (first_dup_nodup _ Hn).
Qed.

(* a loader whose positional call is by-name correct IS its specification (no counter, no positions) *)
Theorem gen_load_spec (g : v1gen) (o : doc raw) :
  pos_ok src g = true -> v1_disjoint (g_cls g) -> NoDup (keys o) ->
  v1g_load conv src g o = v1g_spec conv src g o.
Proof.
  intros Hp Hd Hn. unfold v1g_load, v1g_spec. rewrite (v1_load_spec raw V conv (g_cls g) o Hd Hn).
  destruct (v1_spec conv (g_cls g) o) as [kw|e] eqn:E; [|reflexivity].
  apply call_ctor_id; [exact Hp|]. eapply v1_spec_nodup; eauto.
Qed.

End Gen.

(* ---- C. dump --------------------------------------------------------------------------------- *)
Section DumpC.
Variables raw V cond : Type.
Variable ctest : cond -> pstr -> option bool.
Variable is_dflt : pstr -> bool.
Variable cfg : dumpcfg cond.
Variable args : dumpargs.
Variable inst : list (pstr * kwval raw V).

Notation seg := (seg ctest is_dflt cfg args inst).
Notation segs := (segs ctest is_dflt cfg args inst).
Notation xval := (xval raw V).

Definition raw_items (items : list (pstr * raw)) : list (pstr * xval) :=
  map (fun kv => (fst kv, XRaw (snd kv))) items.

Lemma filter_raw_items items : filter (@is_xraw raw V) (raw_items items) = raw_items items.
Proof.
  unfold raw_items. induction items as [|[k v] items IH]; cbn [map filter is_xraw fst snd]; [reflexivity|now rewrite IH].
Qed.

Lemma seg_other f l : is_catch cfg f = false -> seg f = Some l ->
  l = [] \/ exists v, l = [(dc_key cfg f, XField v)].
Proof.
  unfold FieldsUnknown.seg. intros Hc. rewrite Hc. destruct (skip_flag ctest is_dflt cfg args f) as [[|]|]; try discriminate.
  - intros [= <-]. now left.
  - destruct (assoc f inst) as [v|]; [|discriminate].
    destruct (match dc_field_skip cfg f with Some c => Some c | None => dc_skip_if cfg end) as [c|].
    + destruct (ctest c f) as [[|]|]; try discriminate; intros [= <-]; [now left|right; eauto].
    + intros [= <-]. right. eauto.
Qed.

Lemma seg_catch cf l items :
  dc_catch cfg = Some cf -> assoc cf inst = Some (KCatch items) -> seg cf = Some l ->
  l = if catch_field_skipped ctest is_dflt cfg args cf then [] else raw_items items.
Proof.
  intros Hc Hi. unfold FieldsUnknown.seg, is_catch, skip_flag, catch_field_skipped. rewrite Hc, pstr_eqb_refl, Hi.
  destruct (match da_exclude args with None => false | Some E => mem_str cf E end);
  destruct (da_skip_defaults args); destruct (dc_has_default cfg cf); destruct (is_dflt cf);
  cbn [andb orb negb]; try (intros [= <-]; reflexivity);
  destruct (dc_skip_defaults_if cfg) as [c|]; try (intros [= <-]; reflexivity);
  destruct (ctest c cf) as [[|]|]; cbn [andb orb negb]; try discriminate; intros [= <-]; reflexivity.
Qed.

Lemma segs_raw cf items : dc_catch cfg = Some cf -> assoc cf inst = Some (KCatch items) ->
  forall fs l, NoDup fs -> segs fs = Some l ->
  filter (@is_xraw raw V) l =
    if mem_str cf fs then (if catch_field_skipped ctest is_dflt cfg args cf then [] else raw_items items) else [].
Proof.
  intros Hc Hi. induction fs as [|f fs IH]; intros l Hn H; cbn [FieldsUnknown.segs] in H.
  - injection H as <-. reflexivity.
  - destruct (seg f) as [a|] eqn:Ea; [|discriminate]. destruct (segs fs) as [b|] eqn:Eb; [|discriminate].
    injection H as <-. inversion Hn as [|? ? Hf Hn']; subst. rewrite filter_app, (IH b Hn' eq_refl).
    cbn [mem_str]. destruct (pstr_eqb cf f) eqn:E.
    + apply pstr_eqb_eq in E. subst f. apply mem_false in Hf. rewrite Hf, app_nil_r.
      rewrite (seg_catch cf a items Hc Hi Ea). destruct (catch_field_skipped ctest is_dflt cfg args cf); [reflexivity|].
      apply filter_raw_items.
    + assert (Hnc : is_catch cfg f = false).
      { unfold is_catch. rewrite Hc. rewrite FieldsMissingProofs.eqb_sym. exact E. }
      destruct (seg_other f a Hnc Ea) as [->|[v ->]]; reflexivity.
Qed.

(* EXACTLY the captured items, or nothing when the CatchAll field is selected by exclude /
   the skip-defaults rule: for every Meta.skip_if, every per-field SkipIf (also one on the
   CatchAll field), every key transform, every other field, every captured dict *)
Theorem dump_cfg_catch_exact cf items pairs :
  dc_catch cfg = Some cf -> NoDup (dc_fields cfg) -> In cf (dc_fields cfg) ->
  assoc cf inst = Some (KCatch items) ->
  dump_cfg ctest is_dflt cfg args inst = Some pairs ->
  filter (@is_xraw raw V) pairs =
    if catch_field_skipped ctest is_dflt cfg args cf then [] else raw_items items.
Proof.
  intros Hc Hn Hin Hi. unfold dump_cfg. destruct (segs (dc_fields cfg)) as [l|] eqn:E; [|discriminate].
  intros [= <-]. rewrite filter_app, (segs_raw cf items Hc Hi _ l Hn E).
  apply mem_In in Hin. rewrite Hin.
  destruct (dc_tag cfg) as [[tk t]|]; cbn [filter is_xraw snd]; now rewrite app_nil_r.
Qed.

Lemma segs_field : forall fs l k x, segs fs = Some l -> In (k, XField x) l ->
  exists f, In f fs /\ is_catch cfg f = false /\ dc_key cfg f = k.
Proof.
  induction fs as [|f fs IH]; intros l k x H Hin; cbn [FieldsUnknown.segs] in H.
  - injection H as <-. destruct Hin.
  - destruct (seg f) as [a|] eqn:Ea; [|discriminate]. destruct (segs fs) as [b|] eqn:Eb; [|discriminate].
    injection H as <-. apply in_app_or in Hin as [Hin|Hin].
    + destruct (is_catch cfg f) eqn:Ec.
      * exfalso. revert Ea. unfold FieldsUnknown.seg. rewrite Ec.
        destruct (skip_flag ctest is_dflt cfg args f) as [s|]; [|discriminate].
        destruct ((if dc_has_default cfg f then negb (is_dflt f) else true) && negb s).
        -- destruct (assoc f inst) as [[v|its]|]; try discriminate. intros [= <-].
           apply in_map_iff in Hin as (kv & E & _). discriminate.
        -- intros [= <-]. destruct Hin.
      * destruct (seg_other f a Ec Ea) as [->|[v ->]]; [destruct Hin|].
        destruct Hin as [E|[]]. injection E as <- _. exists f. repeat split; [now left|exact Ec].
    + destruct (IH b k x eq_refl Hin) as (g & Hg & Hc & Hk). exists g. repeat split; [now right|exact Hc|exact Hk].
Qed.

Lemma segs_no_tag : forall fs l k t, segs fs = Some l -> ~ In (k, XTag t) l.
Proof.
  induction fs as [|f fs IH]; intros l k t H Hin; cbn [FieldsUnknown.segs] in H.
  - injection H as <-. destruct Hin.
  - destruct (seg f) as [a|] eqn:Ea; [|discriminate]. destruct (segs fs) as [b|] eqn:Eb; [|discriminate].
    injection H as <-. apply in_app_or in Hin as [Hin|Hin]; [|eapply IH; eauto].
    revert Ea. unfold FieldsUnknown.seg. destruct (skip_flag ctest is_dflt cfg args f) as [s|]; [|discriminate].
    destruct (is_catch cfg f).
    + destruct ((if dc_has_default cfg f then negb (is_dflt f) else true) && negb s).
      * destruct (assoc f inst) as [[v|its]|]; try discriminate. intros [= <-].
        apply in_map_iff in Hin as (kv & E & _). discriminate.
      * intros [= <-]. destruct Hin.
    + destruct s; [intros [= <-]; destruct Hin|]. destruct (assoc f inst) as [v|]; [|discriminate].
      destruct (match dc_field_skip cfg f with Some c => Some c | None => dc_skip_if cfg end) as [c|].
      * destruct (ctest c f) as [[|]|]; try discriminate; intros [= <-]; [destruct Hin|].
        destruct Hin as [E|[]]. discriminate.
      * intros [= <-]. destruct Hin as [E|[]]. discriminate.
Qed.

(* dict(result)[k] = v for every captured pair, provided no other field is dumped under k *)
Theorem dump_cfg_contains cf items pairs k v :
  dc_catch cfg = Some cf -> NoDup (dc_fields cfg) -> In cf (dc_fields cfg) ->
  assoc cf inst = Some (KCatch items) ->
  dump_cfg ctest is_dflt cfg args inst = Some pairs ->
  catch_field_skipped ctest is_dflt cfg args cf = false ->
  NoDup (keys items) -> In (k, v) items ->
  (forall f, In f (dc_fields cfg) -> is_catch cfg f = false -> dc_key cfg f <> k) ->
  (forall tk t, dc_tag cfg = Some (tk, t) -> tk <> k) ->
  assoc k (to_dict pairs) = Some (XRaw v).
Proof.
  intros Hc Hn Hin Hi Hd Hs Hnd Hkv Hkey Htag.
  pose proof (dump_cfg_catch_exact cf items pairs Hc Hn Hin Hi Hd) as Hx. rewrite Hs in Hx.
  apply to_dict_lookup.
  - assert (H : In (k, XRaw v) (filter (@is_xraw raw V) pairs)).
    { rewrite Hx. unfold raw_items. apply in_map_iff. exists (k, v). auto. }
    now apply filter_In in H as [H _].
  - intros v' H. destruct v' as [x|r|t].
    + exfalso. unfold dump_cfg in Hd. destruct (segs (dc_fields cfg)) as [l|] eqn:E; [|discriminate].
      injection Hd as <-. apply in_app_or in H as [H|H].
      * destruct (segs_field _ l k x E H) as (f & Hf & Hcf & Hk). now apply (Hkey f Hf Hcf).
      * destruct (dc_tag cfg) as [[tk t]|]; [|destruct H]. destruct H as [H|[]]. discriminate.
    + assert (H' : In (k, XRaw r) (filter (@is_xraw raw V) pairs)) by (apply filter_In; split; [exact H|reflexivity]).
      rewrite Hx in H'. unfold raw_items in H'. apply in_map_iff in H' as ([k1 v1] & E & H1).
      cbn [fst snd] in E. injection E as -> <-. f_equal.
      assert (A1 : assoc k items = Some v1) by (now apply In_assoc).
      assert (A2 : assoc k items = Some v) by (now apply In_assoc). congruence.
    + exfalso. unfold dump_cfg in Hd. destruct (segs (dc_fields cfg)) as [l|] eqn:E; [|discriminate].
      injection Hd as <-. apply in_app_or in H as [H|H].
      * eapply segs_no_tag; eauto.
      * destruct (dc_tag cfg) as [[tk t']|] eqn:Et; [|destruct H]. destruct H as [H|[]].
        injection H as -> _. now apply (Htag k t' eq_refl).
Qed.

End DumpC.

(* what the loaders hand to the constructor for the CatchAll field *)
Section CatchKw.
Variables raw V : Type.
Variable conv : pstr -> raw -> cres V.

Lemma v1_spec_catch_kw (c : v1cls) cf dflt (o : doc raw) kw :
  d_catch c = Some (cf, dflt) -> v1_spec conv c o = OKCall kw -> v1_extras c o <> [] ->
  assoc cf kw = Some (KCatch (v1_extras c o)).
Proof.
  intros Hc Hs Hne. unfold v1_spec in Hs.
  destruct (v1_fields conv (d_name c) (d_fields c) o []) as [e|kw0] eqn:Ef.
  { exfalso. clear - Ef Hs. revert Ef. generalize (@nil (pstr * kwval raw V)).
    induction (d_fields c) as [|[f ks] fs IH]; intros kw0 H; cbn [v1_fields] in H; [discriminate|].
    destruct (first_present ks o) as [[k v]|]; [|eauto].
    destruct (conv f v); [eauto| |]; injection H as <-; discriminate. }
  rewrite Hc in Hs. destruct (v1_extras c o) eqn:Eu; [contradiction|]. cbn [nonempty] in Hs.
  destruct dflt; injection Hs as <-; rewrite assoc_dict_set; now rewrite pstr_eqb_refl.
Qed.

Lemma v0_spec_catch_kw (c : v0cls) cf dflt (d : doc raw) kw :
  c_raise c = false -> c_catch c = Some (cf, dflt) -> NoDup (keys d) ->
  v0_spec conv c d = OKCall kw -> unknown_pairs c d <> [] ->
  assoc cf kw = Some (KCatch (unknown_pairs c d)).
Proof.
  intros Hr Hc Hn Hs Hne. unfold v0_spec in Hs.
  destruct (v0_spec_loop conv c d [] []) as [o|[kw0 catch]] eqn:El.
  { exfalso. eapply spec_loop_inl_not_ok; eauto. }
  assert (HC : has_catch c = true) by (unfold has_catch; now rewrite Hc).
  pose proof (spec_catch_exact raw V conv c Hr HC d [] [] kw0 catch Hn (fun _ _ H => H) El) as Ec.
  cbn [app] in Ec. subst catch. rewrite Hc in Hs. cbn [finish_catch] in Hs.
  destruct (unknown_pairs c d) eqn:Eu; [contradiction|].
  destruct dflt; injection Hs as <-; rewrite assoc_dict_set; now rewrite pstr_eqb_refl.
Qed.

End CatchKw.

(* ---- B'. regular classes: every positional value lands in its own parameter ------------------ *)
Definition is_req (f : ifield) : bool := negb (if_default f).
Definition eqpair (pv : pstr * pstr) : bool := pstr_eqb (fst pv) (snd pv).

Lemma filter_req_all_dflt l : forallb if_default l = true -> filter is_req l = [].
Proof.
  induction l as [|f l IH]; cbn [forallb filter]; [reflexivity|]. intro H. apply andb_true_iff in H as [Hf Hl].
  unfold is_req at 1. rewrite Hf. cbn [negb]. now apply IH.
Qed.

Lemma prefix_pos l : req_then_opt l = true ->
  forallb eqpair (combine (map if_name l) (map if_name (filter is_req l))) = true.
Proof.
  induction l as [|f l IH]; cbn [req_then_opt map filter]; [reflexivity|].
  unfold is_req at 1. destruct (if_default f) eqn:D; cbn [negb]; intro H.
  - rewrite (filter_req_all_dflt l H). reflexivity.
  - cbn [map combine forallb]. unfold eqpair at 1. cbn [fst snd]. rewrite pstr_eqb_refl. now apply IH.
Qed.

Lemma index_of_in x : forall l n, index_of x l = Some n -> In x l.
Proof.
  induction l as [|y l IH]; intros n H; cbn [index_of] in H; [discriminate|].
  destruct (pstr_eqb x y) eqn:E; [left; symmetry; now apply pstr_eqb_eq|].
  destruct (index_of x l) as [m|]; [|discriminate]. right. eapply IH; eauto.
Qed.

(* deleting a defaulted field leaves the required ones *)
Lemma remove_dflt_filter cf : forall l idx,
  index_of cf (map if_name l) = Some idx ->
  forallb (fun f => if pstr_eqb (if_name f) cf then Bool.eqb (if_default f) true else true) l = true ->
  filter is_req (remove_nth idx l) = filter is_req l.
Proof.
  induction l as [|f l IH]; intros idx H Hc; cbn [map index_of] in H; [discriminate|].
  cbn [forallb] in Hc. apply andb_true_iff in Hc as [Hf Hl].
  destruct (pstr_eqb cf (if_name f)) eqn:E.
  - injection H as <-. cbn [remove_nth filter]. rewrite FieldsMissingProofs.eqb_sym in E. rewrite E in Hf.
    apply Bool.eqb_prop in Hf. unfold is_req at 2. rewrite Hf. reflexivity.
  - destruct (index_of cf (map if_name l)) as [m|] eqn:Em; [|discriminate]. injection H as <-.
    cbn [remove_nth filter]. now rewrite (IH m eq_refl Hl).
Qed.

(* a REQUIRED CatchAll field: re-inserting its name at its index restores the required names *)
Lemma insert_req_filter cf : forall l idx,
  req_then_opt l = true ->
  index_of cf (map if_name l) = Some idx ->
  forallb (fun f => if pstr_eqb (if_name f) cf then Bool.eqb (if_default f) false else true) l = true ->
  insert_at idx cf (map if_name (filter is_req (remove_nth idx l))) = map if_name (filter is_req l).
Proof.
  induction l as [|f l IH]; intros idx Hr H Hc; cbn [map index_of] in H; [discriminate|].
  cbn [forallb] in Hc. apply andb_true_iff in Hc as [Hf Hl].
  destruct (pstr_eqb cf (if_name f)) eqn:E.
  - injection H as <-. cbn [remove_nth filter insert_at]. rewrite FieldsMissingProofs.eqb_sym in E. rewrite E in Hf.
    apply Bool.eqb_prop in Hf. unfold is_req at 2. rewrite Hf. cbn [negb map].
    rewrite FieldsMissingProofs.eqb_sym in E. apply pstr_eqb_eq in E. now rewrite E.
  - destruct (index_of cf (map if_name l)) as [m|] eqn:Em; [|discriminate]. injection H as <-.
    cbn [req_then_opt] in Hr. destruct (if_default f) eqn:D.
    + (* a defaulted field before a required CatchAll field contradicts the dataclass order *)
      exfalso. apply index_of_in in Em. apply in_map_iff in Em as (g & Eg & Hg).
      rewrite forallb_forall in Hr, Hl. pose proof (Hr g Hg) as Dg. pose proof (Hl g Hg) as Cg. cbn beta in Cg.
      rewrite Eg, pstr_eqb_refl, Dg in Cg. discriminate.
    + assert (Rf : is_req f = true) by (unfold is_req; now rewrite D).
      cbn [remove_nth filter]. rewrite Rf. cbn [map insert_at]. f_equal. now apply IH.
Qed.

Theorem gen_regular_pos_ok (src : v1src) (p : v1policy) (g : v1gen) :
  src_regular src = true -> v1_generate src (s_init src) p = GenOk g -> pos_ok src g = true.
Proof.
  unfold src_regular, v1_generate, pos_ok. intro H. apply andb_true_iff in H as [Hr Hc].
  fold eqpair. destruct (s_catch src) as [[cf q]|].
  - destruct (index_of cf (map if_name (s_init src))) as [idx|] eqn:Ei; [|discriminate].
    intros [= <-]. cbn [g_pos]. fold is_req. destruct q.
    + rewrite (remove_dflt_filter cf _ idx Ei Hc). now apply prefix_pos.
    + rewrite (insert_req_filter cf _ idx Hr Ei Hc). now apply prefix_pos.
  - intros [= <-]. cbn [g_pos]. fold is_req. now apply prefix_pos.
Qed.

Lemma index_of_some x : forall l, In x l -> exists n, index_of x l = Some n.
Proof.
  induction l as [|y l IH]; intros H; [destruct H|]. cbn [index_of].
  destruct (pstr_eqb x y) eqn:E; [eauto|]. destruct H as [->|H]; [now rewrite pstr_eqb_refl in E|].
  destruct (IH H) as [n ->]. cbn [option_map]. eauto.
Qed.

(* a generation from the pristine table cannot fail when the CatchAll field is an init field *)
Theorem gen_pristine_ok (src : v1src) (p : v1policy) :
  (forall cf q, s_catch src = Some (cf, q) -> In cf (map if_name (s_init src))) ->
  exists g, v1_generate src (s_init src) p = GenOk g.
Proof.
  intro H. unfold v1_generate. destruct (s_catch src) as [[cf q]|]; [|eauto].
  destruct (index_of_some cf _ (H cf q eq_refl)) as [n ->]. eauto.
Qed.

Section GenSpec.
Variables raw V : Type.
Variable conv : pstr -> raw -> cres V.

(* histories + specification: for a regular class every load of every history is the
   specification of the loader generated from the pristine class for its root *)
Theorem g_run_spec (src : v1src) (pol : nat -> v1policy) (ops : list (gop raw)) :
  src_regular src = true ->
  (forall p g, v1_generate src (s_init src) p = GenOk g -> v1_disjoint (g_cls g)) ->
  (forall r o, In (r, o) (@loads_of raw ops) -> NoDup (keys o)) ->
  g_run conv src pol (g_init src) ops =
  map (fun ro => match v1_generate src (s_init src) (pol (fst ro)) with
                 | GenOk g => GOut (v1_spec conv (g_cls g) (snd ro))
                 | GenValueError => GValueError
                 end) (@loads_of raw ops).
Proof.
  intros Hr Hd Hn. rewrite g_run_ref by apply gen_inv_init. rewrite g_ref_loads. apply map_ext_in.
  intros [r o] Hin. cbn [fst snd]. destruct (v1_generate src (s_init src) (pol r)) as [g|] eqn:E; [|reflexivity].
  cbn [genres_load]. apply gen_load_spec.
  - eapply gen_regular_pos_ok; eauto.
  - eapply Hd; eauto.
  - eapply Hn; eauto.
Qed.

End GenSpec.

(* ---- B''. default engine, several roots ------------------------------------------------------- *)
Section MultiRootP.
Variables raw V : Type.
Variable conv : pstr -> raw -> cres V.
Variable c : v0cls.
Variable rz : nat -> bool.

Lemma inv_strict_lax st : cache_inv (v0_with_raise c true) st -> cache_inv (v0_with_raise c false) st.
Proof.
  intros [I1 I2]. split.
  - intros k e Hs E. pose proof (I1 k e Hs E) as H. destruct e as [f|]; [exact H|].
    cbn in H |- *. destruct H as [H|[_ H]]; [now left|discriminate].
  - exact I2.
Qed.

Lemma sentinel_free_raise b (d : doc raw) : sentinel_free c d -> sentinel_free (v0_with_raise c b) d.
Proof. intro H. exact H. Qed.

Lemma multi_lax : forall (ops : list (nat * doc raw)) st,
  cache_inv (v0_with_raise c false) st ->
  forallb (fun ro => negb (rz (fst ro))) ops = true ->
  Forall (fun ro => sentinel_free c (snd ro)) ops ->
  v0_multi_run conv c rz st ops = map (fun ro => v0_spec conv (v0_with_raise c (rz (fst ro))) (snd ro)) ops.
Proof.
  induction ops as [|[r d] ops IH]; intros st Hi Hl Hs; [reflexivity|].
  cbn [forallb fst] in Hl. apply andb_true_iff in Hl as [Hr Hl]. apply negb_true_iff in Hr.
  inversion Hs as [|? ? Hd Hs']; subst. cbn [snd] in Hd.
  cbn [v0_multi_run map fst snd]. rewrite Hr.
  destruct (v0_load conv (v0_with_raise c false) st d) as [st' o] eqn:E.
  pose proof (v0_load_spec raw V conv (v0_with_raise c false) st d Hi (sentinel_free_raise false d Hd)) as [Ho Hi'].
  rewrite E in Ho, Hi'. cbn [fst snd] in Ho, Hi'. rewrite Ho. f_equal. now apply IH.
Qed.

Theorem multi_root_spec : forall (ops : list (nat * doc raw)) st,
  cache_inv (v0_with_raise c true) st ->
  strict_then_lax rz ops = true ->
  Forall (fun ro => sentinel_free c (snd ro)) ops ->
  v0_multi_run conv c rz st ops = map (fun ro => v0_spec conv (v0_with_raise c (rz (fst ro))) (snd ro)) ops.
Proof.
  induction ops as [|[r d] ops IH]; intros st Hi Hl Hs; [reflexivity|].
  cbn [strict_then_lax] in Hl. inversion Hs as [|? ? Hd Hs']; subst. cbn [snd] in Hd.
  destruct (rz r) eqn:Hr.
  - cbn [v0_multi_run map fst snd]. rewrite Hr.
    destruct (v0_load conv (v0_with_raise c true) st d) as [st' o] eqn:E.
    pose proof (v0_load_spec raw V conv (v0_with_raise c true) st d Hi (sentinel_free_raise true d Hd)) as [Ho Hi'].
    rewrite E in Ho, Hi'. cbn [fst snd] in Ho, Hi'. rewrite Ho. f_equal. now apply IH.
  - apply multi_lax; [now apply inv_strict_lax| |exact Hs].
    cbn [forallb fst]. rewrite Hr. cbn [negb andb]. exact Hl.
Qed.

End MultiRootP.

(* ---- B'. after fix d23b12f: the marker is computed from the field, every class in dataclass
   order is regular ------------------------------------------------------------------------------ *)
Lemma names_inj_ifield : forall (l : list ifield) f g,
  NoDup (map if_name l) -> In f l -> In g l -> if_name f = if_name g -> f = g.
Proof.
  induction l as [|x l IH]; intros f g Hn Hf Hg E; [destruct Hf|].
  cbn [map] in Hn. inversion Hn as [|? ? Hx Hl]; subst.
  destruct Hf as [<-|Hf], Hg as [<-|Hg].
  - reflexivity.
  - exfalso. apply Hx. rewrite E. now apply in_map.
  - exfalso. apply Hx. rewrite <- E. now apply in_map.
  - now apply IH.
Qed.

Lemma find_name_some (l : list ifield) cf f :
  find (fun f => pstr_eqb (if_name f) cf) l = Some f -> In f l /\ if_name f = cf.
Proof. intro H. apply find_some in H as [Hin E]. split; [exact Hin|now apply pstr_eqb_eq]. Qed.

Theorem mk_src_regular name init catch tag :
  req_then_opt init = true -> NoDup (map if_name init) -> src_regular (mk_src name init catch tag) = true.
Proof.
  intros Hr Hn. unfold src_regular, mk_src. cbn [s_init s_catch]. rewrite Hr. cbn [andb].
  unfold class_marker. destruct catch as [cf|]; [|reflexivity].
  destruct (find (fun f => pstr_eqb (if_name f) cf) init) as [f0|] eqn:E; [|reflexivity].
  apply find_name_some in E as [Hin0 E0]. apply forallb_forall. intros f Hf.
  destruct (pstr_eqb (if_name f) cf) eqn:Ef; [|reflexivity]. apply pstr_eqb_eq in Ef.
  rewrite (names_inj_ifield init f f0 Hn Hf Hin0 (eq_trans Ef (eq_sym E0))). apply Bool.eqb_reflx.
Qed.

Lemma mk_src_catch_in name init catch tag cf q :
  s_catch (mk_src name init catch tag) = Some (cf, q) -> In cf (map if_name (s_init (mk_src name init catch tag))).
Proof.
  unfold mk_src, class_marker. cbn [s_catch s_init]. destruct catch as [c0|]; [|discriminate].
  destruct (find (fun f => pstr_eqb (if_name f) c0) init) as [f0|] eqn:E; [|discriminate].
  intros [= <- _]. apply find_name_some in E as [Hin E0]. rewrite <- E0. now apply in_map.
Qed.

Lemma remove_nth_incl {A} (x : A) : forall l n, In x (remove_nth n l) -> In x l.
Proof.
  induction l as [|y l IH]; intros n H; [destruct n; destruct H|].
  destruct n as [|n]; cbn [remove_nth] in H; [now right|]. destruct H as [<-|H]; [now left|right; eauto].
Qed.

(* a CatchAll field with a default — plain or default_factory, declared anywhere among the
   defaulted fields — gets the '?' marker and is passed BY KEYWORD: it is no positional argument,
   and every positional value lands in its own parameter *)
Theorem gen_defaulted_catch_by_keyword name init cf tag p f :
  req_then_opt init = true -> NoDup (map if_name init) ->
  find (fun f => pstr_eqb (if_name f) cf) init = Some f -> if_default f = true ->
  exists g, v1_generate (mk_src name init (Some cf) tag) init p = GenOk g /\
            pos_ok (mk_src name init (Some cf) tag) g = true /\
            d_catch (g_cls g) = Some (cf, true) /\ ~ In cf (g_pos g).
Proof.
  intros Hr Hn Ef Hd.
  destruct (gen_pristine_ok (mk_src name init (Some cf) tag) p (mk_src_catch_in name init (Some cf) tag)) as [g Hg].
  exists g. split; [exact Hg|]. split.
  { eapply gen_regular_pos_ok; [now apply mk_src_regular|exact Hg]. }
  revert Hg. unfold v1_generate, mk_src, class_marker. cbn [s_catch s_init s_name s_tag]. rewrite Ef, Hd.
  destruct (index_of cf (map if_name init)) as [idx|]; [|discriminate]. intros [= <-]. cbn [g_cls g_pos d_catch].
  split; [reflexivity|]. intro Hin. apply in_map_iff in Hin as (g' & Eg & Hg').
  apply filter_In in Hg' as [Hg' Rq]. apply remove_nth_incl in Hg'.
  apply find_name_some in Ef as [Hf Ef]. 
  rewrite (names_inj_ifield init g' f Hn Hg' Hf (eq_trans Eg (eq_sym Ef))), Hd in Rq. discriminate.
Qed.
